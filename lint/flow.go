package main

import (
	"go/ast"
	"go/token"
	"go/types"
)

// A structured abstract interpreter over Go function bodies. It walks the syntax tree, splitting
// short-circuit conditions, type switches, switch cases and loops, and calls the rule's hooks with
// the abstract state that holds at each point. A nil State means "unreachable".
//
// It exists because go/cfg drops the information these rules need (type-switch arms, && / ||
// structure, case expressions).

type State interface{}

type Hooks struct {
	Info  *types.Info
	Copy  func(State) State
	Join  func(a, b State) State // both non-nil
	Equal func(a, b State) bool  // both non-nil
	// Visit is called, in evaluation order (operands first), for every expression node that is
	// evaluated in state st, except inside function literals.
	Visit func(e ast.Expr, st State) State
	// Stmt is called for simple statements (assign, incdec, expr, send, go, defer, decl) after their
	// operand expressions have been visited.
	Stmt func(s ast.Stmt, st State) State
	// Cond refines st by a leaf condition (not &&, ||, !, parenthesised) being true or false.
	Cond func(e ast.Expr, truth bool, st State) State
	// TypeCase refines st on entry to a type-switch clause. x is the switched expression, bind the
	// symbol bound by `switch v := x.(type)` (may be nil). types==nil for default.
	TypeCase func(x ast.Expr, bind *ast.Ident, cc *ast.CaseClause, st State) State
	// TypeMiss refines st on the path of a type switch without default on which no clause matched.
	TypeMiss func(x ast.Expr, sw *ast.TypeSwitchStmt, st State) State
	// CaseMatch refines st by tag == val (truth) for expression switches with a tag.
	CaseMatch func(tag, val ast.Expr, truth bool, st State) State
	// RangeBody gives the state on entry to a range body (key/value assigned).
	RangeBody func(rs *ast.RangeStmt, st State) State
	// LoopHead, if set, is called with the joined state at a loop head before each iteration (widening point).
	LoopHead func(loop ast.Stmt, st State) State
	// BackEdge, if set, observes the state that flows from the end of a for-loop iteration
	// (after the post statement) back to the loop head.
	BackEdge func(loop *ast.ForStmt, st State)
	// BackEdgeAt, if set, is called instead of BackEdge for loops without a post statement, once
	// per way back to the head: each continue statement and the end of the body (site = loop.Body).
	BackEdgeAt func(loop *ast.ForStmt, site ast.Node, st State)
	// LoopEnter, if set, is called once each time control reaches a loop from outside.
	LoopEnter func(loop ast.Stmt)
	Return    func(rs *ast.ReturnStmt, st State)
	End       func(st State) // falling off the end of the body
	// Node is called for every statement before it is interpreted (for observers).
	Node func(s ast.Stmt, st State)
}

type jumpTarget struct {
	label    string
	isLoop   bool
	isSwitch bool
	breakSt  State
	contSt   State
	stmt     ast.Stmt
}

type walker struct {
	h       *Hooks
	targets []*jumpTarget
	labels  map[string]State // goto label -> joined state at gotos
	changed bool
}

func (w *walker) doStmt(s ast.Stmt, st State) State {
	if w.h.Stmt == nil {
		return st
	}
	return w.h.Stmt(s, st)
}

func (w *walker) join(a, b State) State {
	if a == nil {
		return b
	}
	if b == nil {
		return a
	}
	return w.h.Join(a, b)
}

func (w *walker) copy(a State) State {
	if a == nil {
		return nil
	}
	return w.h.Copy(a)
}

func (w *walker) equal(a, b State) bool {
	if a == nil || b == nil {
		return a == nil && b == nil
	}
	return w.h.Equal(a, b)
}

// WalkFunc interprets a function body from the entry state.
func WalkFunc(h *Hooks, body *ast.BlockStmt, entry State) {
	w := &walker{h: h, labels: map[string]State{}}
	// iterate for goto labels
	for iter := 0; iter < 8; iter++ {
		w.changed = false
		w.targets = nil
		out := w.block(body.List, w.copy(entry))
		if !w.changed {
			if out != nil && h.End != nil {
				h.End(out)
			}
			return
		}
	}
	// did not converge: still report the end
}

func (w *walker) block(list []ast.Stmt, st State) State {
	for _, s := range list {
		st = w.stmt(s, st, "")
	}
	return st
}

func isNoReturnCall(info *types.Info, call *ast.CallExpr) bool {
	switch f := ast.Unparen(call.Fun).(type) {
	case *ast.Ident:
		if b, ok := info.Uses[f].(*types.Builtin); ok && b.Name() == "panic" {
			return true
		}
	case *ast.SelectorExpr:
		if o, ok := info.Uses[f.Sel].(*types.Func); ok && o.Pkg() != nil {
			p, n := o.Pkg().Path(), o.Name()
			if p == "os" && n == "Exit" {
				return true
			}
			if p == "log" && (n == "Fatal" || n == "Fatalf" || n == "Fatalln" || n == "Panic" || n == "Panicf") {
				return true
			}
		}
	}
	return false
}

func (w *walker) findTarget(label string, wantLoop bool) *jumpTarget {
	for i := len(w.targets) - 1; i >= 0; i-- {
		t := w.targets[i]
		if label != "" {
			if t.label == label {
				return t
			}
			continue
		}
		if wantLoop && !t.isLoop {
			continue
		}
		return t
	}
	return nil
}

func (w *walker) stmt(s ast.Stmt, st State, label string) State {
	if st == nil {
		// unreachable code is skipped; a labeled statement may still be reached through goto
		if _, ok := s.(*ast.LabeledStmt); !ok {
			return nil
		}
	}
	if w.h.Node != nil && st != nil {
		w.h.Node(s, st)
	}
	switch s := s.(type) {
	case *ast.EmptyStmt, *ast.BadStmt:
		return st
	case *ast.LabeledStmt:
		name := s.Label.Name
		if g, ok := w.labels[name]; ok {
			st = w.join(st, w.copy(g))
		}
		if st == nil {
			return nil
		}
		return w.stmt(s.Stmt, st, name)
	case *ast.ExprStmt:
		st = w.eval(s.X, st)
		if st == nil {
			return nil
		}
		st = w.doStmt(s, st)
		if call, ok := ast.Unparen(s.X).(*ast.CallExpr); ok && isNoReturnCall(w.h.Info, call) {
			return nil
		}
		return st
	case *ast.AssignStmt:
		for _, r := range s.Rhs {
			st = w.eval(r, st)
		}
		for _, l := range s.Lhs {
			st = w.evalLHS(l, st)
		}
		if st == nil {
			return nil
		}
		return w.doStmt(s, st)
	case *ast.IncDecStmt:
		st = w.evalLHS(s.X, st)
		if st == nil {
			return nil
		}
		return w.doStmt(s, st)
	case *ast.SendStmt:
		st = w.eval(s.Chan, st)
		st = w.eval(s.Value, st)
		if st == nil {
			return nil
		}
		return w.doStmt(s, st)
	case *ast.GoStmt:
		st = w.evalCallOperands(s.Call, st)
		if st == nil {
			return nil
		}
		return w.doStmt(s, st)
	case *ast.DeferStmt:
		st = w.evalCallOperands(s.Call, st)
		if st == nil {
			return nil
		}
		return w.doStmt(s, st)
	case *ast.DeclStmt:
		if gd, ok := s.Decl.(*ast.GenDecl); ok && gd.Tok == token.VAR {
			for _, sp := range gd.Specs {
				if vs, ok := sp.(*ast.ValueSpec); ok {
					for _, v := range vs.Values {
						st = w.eval(v, st)
					}
				}
			}
		}
		if st == nil {
			return nil
		}
		return w.doStmt(s, st)
	case *ast.ReturnStmt:
		for _, r := range s.Results {
			st = w.eval(r, st)
		}
		if st != nil && w.h.Return != nil {
			w.h.Return(s, st)
		}
		return nil
	case *ast.BranchStmt:
		lbl := ""
		if s.Label != nil {
			lbl = s.Label.Name
		}
		switch s.Tok {
		case token.BREAK:
			if t := w.findTarget(lbl, false); t != nil {
				t.breakSt = w.join(t.breakSt, st)
			}
		case token.CONTINUE:
			if t := w.findTarget(lbl, true); t != nil {
				if fs, ok := t.stmt.(*ast.ForStmt); ok && fs.Post == nil && w.h.BackEdgeAt != nil && st != nil {
					w.h.BackEdgeAt(fs, s, st)
				}
				t.contSt = w.join(t.contSt, st)
			}
		case token.GOTO:
			old := w.labels[lbl]
			n := w.join(w.copy(old), w.copy(st))
			if _, ok := w.labels[lbl]; !ok || !w.equal(old, n) {
				w.labels[lbl] = n
				w.changed = true
			}
		case token.FALLTHROUGH:
			// handled by switch (approximated: falls to next clause with current state)
			if t := w.findTarget("", false); t != nil && t.isSwitch {
				t.contSt = w.join(t.contSt, st) // reuse contSt as fallthrough carrier
			}
		}
		return nil
	case *ast.BlockStmt:
		return w.block(s.List, st)
	case *ast.IfStmt:
		if s.Init != nil {
			st = w.stmt(s.Init, st, "")
		}
		t, f := w.cond(s.Cond, st)
		tOut := w.block(s.Body.List, t)
		var fOut State
		if s.Else != nil {
			fOut = w.stmt(s.Else, f, "")
		} else {
			fOut = f
		}
		return w.join(tOut, fOut)
	case *ast.ForStmt:
		if s.Init != nil {
			st = w.stmt(s.Init, st, "")
		}
		tgt := &jumpTarget{label: label, isLoop: true, stmt: s}
		head := st
		var exit State
		if w.h.LoopEnter != nil {
			w.h.LoopEnter(s)
		}
		for iter := 0; iter < 40; iter++ {
			if w.h.LoopHead != nil && head != nil {
				head = w.h.LoopHead(s, head)
			}
			tgt.breakSt, tgt.contSt = nil, nil
			w.targets = append(w.targets, tgt)
			var t, f State
			if s.Cond != nil {
				t, f = w.cond(s.Cond, w.copy(head))
			} else {
				t, f = w.copy(head), nil
			}
			bodyOut := w.block(s.Body.List, t)
			w.targets = w.targets[:len(w.targets)-1]
			post := w.join(bodyOut, tgt.contSt)
			if s.Post != nil && post != nil {
				post = w.stmt(s.Post, post, "")
			}
			if s.Post == nil && w.h.BackEdgeAt != nil {
				if bodyOut != nil {
					w.h.BackEdgeAt(s, s.Body, bodyOut)
				}
			} else if w.h.BackEdge != nil && post != nil {
				w.h.BackEdge(s, post)
			}
			exit = w.join(f, tgt.breakSt)
			newHead := w.join(w.copy(head), post)
			if w.equal(newHead, head) {
				break
			}
			head = newHead
		}
		return exit
	case *ast.RangeStmt:
		st = w.eval(s.X, st)
		tgt := &jumpTarget{label: label, isLoop: true, stmt: s}
		head := st
		var exit State
		if w.h.LoopEnter != nil {
			w.h.LoopEnter(s)
		}
		for iter := 0; iter < 40; iter++ {
			if w.h.LoopHead != nil && head != nil {
				head = w.h.LoopHead(s, head)
			}
			tgt.breakSt, tgt.contSt = nil, nil
			w.targets = append(w.targets, tgt)
			body := w.copy(head)
			if body != nil && w.h.RangeBody != nil {
				body = w.h.RangeBody(s, body)
			}
			bodyOut := w.block(s.Body.List, body)
			w.targets = w.targets[:len(w.targets)-1]
			post := w.join(bodyOut, tgt.contSt)
			exit = w.join(w.copy(head), tgt.breakSt)
			newHead := w.join(w.copy(head), post)
			if w.equal(newHead, head) {
				break
			}
			head = newHead
		}
		return exit
	case *ast.SwitchStmt:
		if s.Init != nil {
			st = w.stmt(s.Init, st, "")
		}
		if s.Tag != nil {
			st = w.eval(s.Tag, st)
		}
		tgt := &jumpTarget{label: label, isSwitch: true, stmt: s}
		w.targets = append(w.targets, tgt)
		var out State
		cur := st // state in which the next case's conditions are tested
		var deflt *ast.CaseClause
		var fall State
		hasDefault := false
		for _, c := range s.Body.List {
			cc := c.(*ast.CaseClause)
			if cc.List == nil {
				deflt = cc
				hasDefault = true
				continue
			}
			var bodyIn State
			for _, v := range cc.List {
				if cur == nil {
					break
				}
				var t, f State
				if s.Tag == nil {
					t, f = w.cond(v, cur)
				} else {
					cur = w.eval(v, cur)
					t, f = w.copy(cur), cur
					if w.h.CaseMatch != nil && cur != nil {
						t = w.h.CaseMatch(s.Tag, v, true, t)
						f = w.h.CaseMatch(s.Tag, v, false, f)
					}
				}
				bodyIn = w.join(bodyIn, t)
				cur = f
			}
			bodyIn = w.join(bodyIn, fall)
			tgt.contSt = nil
			o := w.block(cc.Body, bodyIn)
			fall = tgt.contSt
			out = w.join(out, o)
		}
		if hasDefault {
			in := w.join(cur, fall)
			tgt.contSt = nil
			o := w.block(deflt.Body, in)
			out = w.join(out, o)
		} else {
			out = w.join(out, cur)
		}
		w.targets = w.targets[:len(w.targets)-1]
		return w.join(out, tgt.breakSt)
	case *ast.TypeSwitchStmt:
		if s.Init != nil {
			st = w.stmt(s.Init, st, "")
		}
		var x ast.Expr
		var bind *ast.Ident
		switch a := s.Assign.(type) {
		case *ast.ExprStmt:
			if ta, ok := ast.Unparen(a.X).(*ast.TypeAssertExpr); ok {
				x = ta.X
			}
		case *ast.AssignStmt:
			if len(a.Rhs) == 1 {
				if ta, ok := ast.Unparen(a.Rhs[0]).(*ast.TypeAssertExpr); ok {
					x = ta.X
				}
			}
			if len(a.Lhs) == 1 {
				bind, _ = a.Lhs[0].(*ast.Ident)
			}
		}
		if x != nil {
			st = w.eval(x, st)
		}
		tgt := &jumpTarget{label: label, isSwitch: true, stmt: s}
		w.targets = append(w.targets, tgt)
		var out State
		hasDefault := false
		for _, c := range s.Body.List {
			cc := c.(*ast.CaseClause)
			in := w.copy(st)
			if cc.List == nil {
				hasDefault = true
			}
			if in != nil && w.h.TypeCase != nil {
				in = w.h.TypeCase(x, bind, cc, in)
			}
			o := w.block(cc.Body, in)
			out = w.join(out, o)
		}
		if !hasDefault {
			miss := w.copy(st)
			if miss != nil && w.h.TypeMiss != nil {
				miss = w.h.TypeMiss(x, s, miss)
			}
			out = w.join(out, miss)
		}
		w.targets = w.targets[:len(w.targets)-1]
		return w.join(out, tgt.breakSt)
	case *ast.SelectStmt:
		tgt := &jumpTarget{label: label, isSwitch: true, stmt: s}
		w.targets = append(w.targets, tgt)
		var out State
		for _, c := range s.Body.List {
			cc := c.(*ast.CommClause)
			in := w.copy(st)
			if cc.Comm != nil {
				in = w.stmt(cc.Comm, in, "")
			}
			o := w.block(cc.Body, in)
			out = w.join(out, o)
		}
		w.targets = w.targets[:len(w.targets)-1]
		return w.join(out, tgt.breakSt)
	}
	return st
}

// cond evaluates a boolean expression and returns the states for true and false outcomes.
func (w *walker) cond(e ast.Expr, st State) (State, State) {
	if st == nil {
		return nil, nil
	}
	switch x := e.(type) {
	case *ast.ParenExpr:
		return w.cond(x.X, st)
	case *ast.UnaryExpr:
		if x.Op == token.NOT {
			t, f := w.cond(x.X, st)
			return f, t
		}
	case *ast.BinaryExpr:
		switch x.Op {
		case token.LAND:
			lt, lf := w.cond(x.X, st)
			rt, rf := w.cond(x.Y, lt)
			return rt, w.join(lf, rf)
		case token.LOR:
			lt, lf := w.cond(x.X, st)
			rt, rf := w.cond(x.Y, lf)
			return w.join(lt, rt), rf
		}
	}
	st = w.eval(e, st)
	if st == nil {
		return nil, nil
	}
	t, f := w.copy(st), st
	if w.h.Cond != nil {
		t = w.h.Cond(e, true, t)
		f = w.h.Cond(e, false, f)
	}
	return t, f
}

func (w *walker) evalCallOperands(call *ast.CallExpr, st State) State {
	if _, ok := ast.Unparen(call.Fun).(*ast.FuncLit); !ok {
		st = w.eval(call.Fun, st)
	}
	for _, a := range call.Args {
		st = w.eval(a, st)
	}
	return st
}

// evalLHS visits the operands of an assignment target (not the target itself as a read).
func (w *walker) evalLHS(e ast.Expr, st State) State {
	if st == nil {
		return nil
	}
	switch x := ast.Unparen(e).(type) {
	case *ast.Ident:
		return st
	case *ast.IndexExpr:
		st = w.eval(x.X, st)
		st = w.eval(x.Index, st)
		if st != nil && w.h.Visit != nil {
			st = w.h.Visit(x, st)
		}
		return st
	case *ast.SelectorExpr:
		st = w.eval(x.X, st)
		if st != nil && w.h.Visit != nil {
			st = w.h.Visit(x, st)
		}
		return st
	case *ast.StarExpr:
		return w.eval(x.X, st)
	}
	return w.eval(e, st)
}

// eval visits an expression in evaluation order, splitting short-circuit operators.
func (w *walker) eval(e ast.Expr, st State) State {
	if st == nil || e == nil {
		return st
	}
	switch x := e.(type) {
	case *ast.ParenExpr:
		return w.eval(x.X, st)
	case *ast.FuncLit:
		if w.h.Visit != nil {
			return w.h.Visit(x, st)
		}
		return st
	case *ast.BinaryExpr:
		if x.Op == token.LAND || x.Op == token.LOR {
			t, f := w.cond(x, st)
			return w.join(t, f)
		}
		st = w.eval(x.X, st)
		st = w.eval(x.Y, st)
	case *ast.UnaryExpr:
		if x.Op == token.NOT {
			t, f := w.cond(x, st)
			return w.join(t, f)
		}
		st = w.eval(x.X, st)
	case *ast.CallExpr:
		st = w.evalCallOperands(x, st)
	case *ast.IndexExpr:
		st = w.eval(x.X, st)
		st = w.eval(x.Index, st)
	case *ast.IndexListExpr:
		st = w.eval(x.X, st)
	case *ast.SliceExpr:
		st = w.eval(x.X, st)
		st = w.eval(x.Low, st)
		st = w.eval(x.High, st)
		st = w.eval(x.Max, st)
	case *ast.SelectorExpr:
		st = w.eval(x.X, st)
	case *ast.StarExpr:
		st = w.eval(x.X, st)
	case *ast.TypeAssertExpr:
		st = w.eval(x.X, st)
	case *ast.CompositeLit:
		for _, el := range x.Elts {
			if kv, ok := el.(*ast.KeyValueExpr); ok {
				if _, isStruct := w.h.Info.TypeOf(x).Underlying().(*types.Struct); !isStruct {
					st = w.eval(kv.Key, st)
				}
				st = w.eval(kv.Value, st)
			} else {
				st = w.eval(el, st)
			}
		}
	case *ast.KeyValueExpr:
		st = w.eval(x.Value, st)
	case *ast.Ident, *ast.BasicLit:
	default:
		return st
	}
	if st == nil {
		return nil
	}
	if w.h.Visit != nil {
		st = w.h.Visit(e, st)
	}
	return st
}

// WalkLoopBody interprets one iteration of a for loop from the given state at the loop head,
// with the loop condition assumed true, and returns the state that flows back to the head
// (fallthrough of the body or a continue); nil if every path leaves the loop.
func WalkLoopBody(h *Hooks, loop *ast.ForStmt, head State) State {
	w := &walker{h: h, labels: map[string]State{}}
	tgt := &jumpTarget{isLoop: true, stmt: loop}
	w.targets = append(w.targets, tgt)
	st := w.copy(head)
	if loop.Cond != nil {
		t, _ := w.cond(loop.Cond, st)
		st = t
	}
	out := w.block(loop.Body.List, st)
	back := w.join(out, tgt.contSt)
	if loop.Post != nil && back != nil {
		back = w.stmt(loop.Post, back, "")
	}
	return back
}
