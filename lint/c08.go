package main

import (
	"go/ast"
	"go/token"
	"go/types"
	"sort"
	"strings"

	"golang.org/x/tools/go/packages"
)

func init() {
	register(&PropDef{
		ID:          "C08",
		Patterns:    []string{"./data", "./node", "./std/php/..."},
		Explanation: "The subtype relation is recomputed by separate code for class values, $this values, thrown values and for instanceof. Whether each returns the right answer on every graph is value-level; what is structural is whether each implementation consults every kind of edge. (EDGES) For each decision entry point the closure over same-package calls must (a) read the extends edge (GetExtend), (b) read the implements edges of ancestors as well — a GetImplements call inside a loop or recursive function that also advances along GetExtend — and (c) follow interface parents with a worklist or recursion (GetExtends inside a loop or a recursive function). An implementation that never reads an edge kind cannot honour it. (LOOKUP) ClassValue.GetMethod tries the runtime class first and then walks GetExtend upwards in a loop that re-reads GetExtend of the class just loaded. (LIKE) the structural test iterates all methods the target declares, compares parameter counts, and looks methods up through an inheriting provider (not the class statement's own table). Necessary conditions only: a wrong comparison inside a walk is invisible to them; parent::/self::/static:: resolution depends on runtime context objects and is not decided.",
		Assumptions: []string{
			"decision entry points: data.(Class).Is, data.isClassValueInstanceOf, data.extendISClass, node.checkClassIs",
			"closure = functions of the same package reached by statically resolved calls",
		},
		Rules: []RuleDef{
			{Name: "C08-EDGES", Floor: 6, Doc: "every subtype decision reads extends, implements-of-ancestors and interface-extends edges", Run: c08Run},
			{Name: "C08-LOOKUP", Floor: 1, Doc: "method lookup starts at the runtime class and walks the extends chain", Run: nop},
			{Name: "C08-LIKE", Floor: 2, Doc: "like iterates all target methods, compares parameter counts, and looks up through inheritance", Run: nop},
		},
	})
}

func c08Run(r *Run) {
	dpkg, npkg := r.pkg("data"), r.pkg("node")
	if dpkg == nil || npkg == nil {
		return
	}
	// closure of same-package static calls
	closure := func(p *packages.Package, start *ast.FuncDecl) []*ast.FuncDecl {
		info := p.TypesInfo
		byObj := map[types.Object]*ast.FuncDecl{}
		for _, fd := range funcDecls(p) {
			byObj[info.Defs[fd.Name]] = fd
		}
		seen := map[*ast.FuncDecl]bool{start: true}
		out := []*ast.FuncDecl{start}
		for i := 0; i < len(out); i++ {
			ast.Inspect(out[i].Body, func(n ast.Node) bool {
				if c, ok := n.(*ast.CallExpr); ok {
					if f := calleeOf(info, c); f != nil {
						if fd := byObj[f]; fd != nil && !seen[fd] {
							seen[fd] = true
							out = append(out, fd)
						}
						// a call through an interface of this package reaches every implementation in it
						if fn, ok := f.(*types.Func); ok && byObj[f] == nil && fn.Pkg() == p.Types {
							if sig, ok := fn.Type().(*types.Signature); ok && sig.Recv() != nil {
								if iface, ok := sig.Recv().Type().Underlying().(*types.Interface); ok {
									for _, g := range funcDecls(p) {
										if g.Recv == nil || g.Name.Name != fn.Name() || seen[g] || g.Body == nil {
											continue
										}
										rt := info.TypeOf(g.Recv.List[0].Type)
										if rt != nil && (types.Implements(rt, iface) || types.Implements(types.NewPointer(rt), iface)) {
											seen[g] = true
											out = append(out, g)
										}
									}
								}
							}
						}
					}
				}
				return true
			})
		}
		return out
	}
	// does fd call method `name` (anywhere / inside a loop-or-recursion)?
	type use struct{ any, repeated bool }
	calls := func(p *packages.Package, fd *ast.FuncDecl, name string) use {
		info := p.TypesInfo
		self := info.Defs[fd.Name]
		recursive := false
		ast.Inspect(fd.Body, func(n ast.Node) bool {
			if c, ok := n.(*ast.CallExpr); ok && calleeOf(info, c) == self {
				recursive = true
			}
			return true
		})
		if !recursive {
			// mutual recursion (nodeIs -> superTypeIs -> nodeIs, also through an interface of the package):
			// some function this one reaches calls it back
			for _, g := range closure(p, fd)[1:] {
				for _, h := range closure(p, g) {
					if h == fd {
						recursive = true
					}
				}
				if recursive {
					break
				}
			}
		}
		var u use
		var walk func(n ast.Node, inLoop bool)
		walk = func(n ast.Node, inLoop bool) {
			ast.Inspect(n, func(m ast.Node) bool {
				if m == n {
					if _, isCall := m.(*ast.CallExpr); !isCall {
						return true
					}
				}
				switch x := m.(type) {
				case *ast.ForStmt:
					if x.Init != nil {
						walk(x.Init, inLoop)
					}
					if x.Cond != nil {
						walk(x.Cond, true)
					}
					walk(x.Body, true)
					return false
				case *ast.RangeStmt:
					walk(x.X, inLoop)
					walk(x.Body, true)
					return false
				case *ast.CallExpr:
					if se, ok := ast.Unparen(x.Fun).(*ast.SelectorExpr); ok && se.Sel.Name == name {
						u.any = true
						if inLoop || recursive {
							u.repeated = true
						}
					}
				}
				return true
			})
		}
		walk(fd.Body, false)
		return u
	}

	// repeatedViaHelpers: the declaration-interface methods read by package functions that f calls from
	// inside a loop, or anywhere when f is recursive (the reads happen once per level of the walk)
	repeatedViaHelpers := func(p *packages.Package, f *ast.FuncDecl) map[string]bool {
		info := p.TypesInfo
		out := map[string]bool{}
		byObj := map[types.Object]*ast.FuncDecl{}
		for _, fd := range funcDecls(p) {
			byObj[info.Defs[fd.Name]] = fd
		}
		self := info.Defs[f.Name]
		recursive := false
		ast.Inspect(f.Body, func(n ast.Node) bool {
			if c, ok := n.(*ast.CallExpr); ok && calleeOf(info, c) == self {
				recursive = true
			}
			return true
		})
		note := func(g *ast.FuncDecl) {
			for _, h := range closure(p, g) {
				if h == f {
					continue
				}
				for _, nm := range []string{"GetImplements", "GetExtend", "GetExtends"} {
					if calls(p, h, nm).any {
						out[nm] = true
					}
				}
			}
		}
		var walk func(n ast.Node, inLoop bool)
		walk = func(n ast.Node, inLoop bool) {
			ast.Inspect(n, func(m ast.Node) bool {
				if m == n {
					return true
				}
				switch x := m.(type) {
				case *ast.ForStmt:
					walk(x.Body, true)
					if x.Cond != nil {
						walk(x.Cond, true)
					}
					return false
				case *ast.RangeStmt:
					walk(x.Body, true)
					return false
				case *ast.CallExpr:
					if inLoop || recursive {
						if g := byObj[calleeOf(info, x)]; g != nil && g != f {
							note(g)
						}
					}
				}
				return true
			})
		}
		walk(f.Body, false)
		return out
	}
	r.curRule = "C08-EDGES"
	// decision entry points: the two named roots (the declared-type test and the instanceof test) and,
	// found from the code, every bool-answering function in their call closure that itself steps along
	// the class chain (GetExtend) — each of those is reachable on its own (e.g. for a ThisValue) and must
	// cover all edge kinds within its own closure
	type entryT struct {
		p  *packages.Package
		fd *ast.FuncDecl
	}
	var entries []entryT
	seenEntry := map[*ast.FuncDecl]bool{}
	for _, root := range []struct {
		p        *packages.Package
		recv, fn string
	}{{dpkg, "Class", "Is"}, {npkg, "", "checkClassIs"}} {
		fd := findFunc(root.p, root.recv, root.fn)
		if fd == nil && root.recv == "" {
			fd = findFuncAnyRecv(root.p, root.fn)
		}
		if fd == nil {
			r.fail("anchor not found: %s.%s", root.recv, root.fn)
			continue
		}
		for _, f := range closure(root.p, fd) {
			if seenEntry[f] {
				continue
			}
			isRoot := f == fd
			answersBool := false
			if f.Type.Results != nil && len(f.Type.Results.List) > 0 {
				if bt, ok := root.p.TypesInfo.TypeOf(f.Type.Results.List[0].Type).Underlying().(*types.Basic); ok && bt.Kind() == types.Bool {
					answersBool = true
				}
			}
			// … or that walks the class chain in a loop whatever it returns (a set of type names, a list)
			if isRoot || (answersBool && calls(root.p, f, "GetExtend").any) || calls(root.p, f, "GetExtend").repeated {
				seenEntry[f] = true
				entries = append(entries, entryT{root.p, f})
			}
		}
	}
	// a walk of the type hierarchy written somewhere else (a lineage computed when an object is thrown, a
	// cache of ancestors): any other function of the two packages that steps along GetExtend repeatedly
	// and reads an implements list answers subtype questions too and must cover every kind of edge
	{
		inClosure := map[*ast.FuncDecl]bool{}
		for _, e := range entries {
			for _, f := range closure(e.p, e.fd) {
				inClosure[f] = true
			}
		}
		walkerPkgs := []*packages.Package{dpkg, npkg}
		// builtins of the standard library that answer a subtype question themselves (is_a-like functions)
		for _, p := range r.sortedPkgs() {
			if strings.HasPrefix(p.PkgPath, modPath+"/std/php") && p.TypesInfo != nil && len(p.Syntax) > 0 {
				walkerPkgs = append(walkerPkgs, p)
			}
		}
		for _, p := range walkerPkgs {
			for _, f := range funcDecls(p) {
				if f.Body == nil || inClosure[f] || seenEntry[f] {
					continue
				}
				if calls(p, f, "GetExtend").repeated && calls(p, f, "GetImplements").any {
					seenEntry[f] = true
					entries = append(entries, entryT{p, f})
				}
			}
		}
	}
	r.stat("hierarchy_decision_entries", len(entries))
	for _, e := range entries {
		fd := e.fd
		fk := funcKey(e.p, fd)
		cl := closure(e.p, fd)
		ext, implAnc, ifaceParents := false, false, false
		for _, f := range cl {
			if calls(e.p, f, "GetExtend").any {
				ext = true
			}
			ui, ue := calls(e.p, f, "GetImplements"), calls(e.p, f, "GetExtend")
			if ui.repeated && ue.any {
				implAnc = true
			}
			if calls(e.p, f, "GetExtends").repeated && c08FollowsInterfaceParents(e.p, f, closure) {
				ifaceParents = true
			}
			// the walk may be split over helpers: a loop (or recursion) in f that calls one helper reading
			// this level's implements list and another stepping to the parent
			if reads := repeatedViaHelpers(e.p, f); reads["GetImplements"] && (reads["GetExtend"] || ue.any) {
				implAnc = true
			}
		}
		// a negative answer only after the walk is exhausted: no `return false` inside an edge-walking loop
		premature := ""
		tailReturn := map[*ast.ReturnStmt]bool{}
		for _, f := range cl {
			finfo := e.p.TypesInfo
			_ = finfo
			var walkLoops func(n ast.Node, inWalk bool)
			walkLoops = func(n ast.Node, inWalk bool) {
				ast.Inspect(n, func(m ast.Node) bool {
					if m == n {
						return true
					}
					switch x := m.(type) {
					case *ast.FuncLit:
						return false
					case *ast.ForStmt, *ast.RangeStmt:
						var body *ast.BlockStmt
						src := ""
						if fs, ok := x.(*ast.ForStmt); ok {
							body = fs.Body
						} else {
							rs := x.(*ast.RangeStmt)
							body = rs.Body
							src = exprStr(rs.X)
						}
						walks := strings.Contains(src, "GetExtends") || strings.Contains(src, "GetImplements")
						ast.Inspect(body, func(k ast.Node) bool {
							if c, ok := k.(*ast.CallExpr); ok {
								if se, ok := ast.Unparen(c.Fun).(*ast.SelectorExpr); ok {
									switch se.Sel.Name {
									case "GetExtend", "GetExtends", "GetImplements":
										walks = true
									}
								}
							}
							return true
						})
						// a worklist loop appends to a queue; a linear chain walk does not. In a linear walk a
						// failed lookup of the next class ends the walk legitimately.
						isWorklist := false
						lookupVars := map[string]bool{}
						ast.Inspect(body, func(k ast.Node) bool {
							if as, ok := k.(*ast.AssignStmt); ok && len(as.Rhs) == 1 {
								if c, ok := ast.Unparen(as.Rhs[0]).(*ast.CallExpr); ok {
									if id, ok := ast.Unparen(c.Fun).(*ast.Ident); ok && id.Name == "append" {
										isWorklist = true
									}
									if se, ok := ast.Unparen(c.Fun).(*ast.SelectorExpr); ok && (strings.HasPrefix(se.Sel.Name, "Get") || strings.HasPrefix(se.Sel.Name, "Load")) {
										for _, l := range as.Lhs {
											if id, ok := l.(*ast.Ident); ok && id.Name != "_" {
												lookupVars[id.Name] = true
											}
										}
									}
								}
							}
							return true
						})
						if !isWorklist {
							ast.Inspect(body, func(k ast.Node) bool {
								is, ok := k.(*ast.IfStmt)
								if !ok {
									return true
								}
								failed := false
								ast.Inspect(is.Cond, func(c ast.Node) bool {
									if id, ok := c.(*ast.Ident); ok && lookupVars[id.Name] {
										failed = true
									}
									return true
								})
								if failed {
									for _, st := range is.Body.List {
										if rs, ok := st.(*ast.ReturnStmt); ok {
											tailReturn[rs] = true // the chain cannot be followed any further
										}
									}
								}
								return true
							})
						}
						// an unconditional `return false` that ends the loop body makes the loop a single pass
						// (the recursion does the walking): it is not a premature answer
						if n := len(body.List); n > 0 {
							if rs, ok := body.List[n-1].(*ast.ReturnStmt); ok {
								tailReturn[rs] = true
							}
						}
						walkLoops(body, inWalk || walks)
						return false
					case *ast.ReturnStmt:
						if !inWalk || tailReturn[x] || len(x.Results) == 0 || exprStr(x.Results[0]) != "false" {
							return true
						}
						if len(x.Results) == 2 && exprStr(x.Results[1]) != "nil" {
							return true // leaves with an error control
						}
						if premature == "" {
							premature = r.pos(x.Pos())
						}
					}
					return true
				})
			}
			walkLoops(f.Body, false)
		}
		if premature == "" {
			r.ok(fk+"#exhaustive-walk", fd.Pos(), "the answer 'no' is given only after the walk over the edges has ended")
		} else {
			r.bad(fk+"#exhaustive-walk", fd.Pos(), "a walk over hierarchy edges answers false from inside the loop ("+premature+"): the remaining parents and queued interfaces are never looked at, so a type reachable along another path is missed")
		}
		for _, c := range []struct {
			key, okMsg, badMsg string
			ok                 bool
		}{
			{"reads-extends", "the decision reads the extends edge", "the decision never reads GetExtend(): an object is not recognised as an instance of its ancestors", ext},
			{"reads-implements-of-ancestors", "implements edges are read while walking the ancestors", "GetImplements() is not read inside the walk along GetExtend(): an interface implemented by a parent or grandparent is missed", implAnc},
			{"follows-interface-parents", "interface parents are followed by a worklist or recursion", "GetExtends() of interfaces is not followed repeatedly: an interface reached through a second parent or a grandparent interface is missed", ifaceParents},
		} {
			if c.ok {
				r.ok(fk+"#"+c.key, fd.Pos(), c.okMsg)
			} else {
				r.bad(fk+"#"+c.key, fd.Pos(), c.badMsg)
			}
		}
	}
	// every implements list a decision consumes is followed into the interfaces it names: comparing the
	// names alone (impl == target, slices.Contains) misses an interface reached through the parents of
	// an implemented interface. Reads are grouped by function and receiver expression; a group is fine
	// when one of its consuming reads steps into the interfaces (a call whose closure reads GetExtends).
	{
		seenFn := map[*ast.FuncDecl]bool{}
		for _, e := range entries {
			for _, f := range closure(e.p, e.fd) {
				if seenFn[f] {
					continue
				}
				seenFn[f] = true
				c08ImplementsFollowed(r, e.p, f, closure)
			}
		}
	}
	// no private re-implementation elsewhere: functions outside the closures that loop on GetExtend and compare names
	// are reported for review (informational)
	known := map[*ast.FuncDecl]bool{}
	for _, e := range entries {
		for _, f := range closure(e.p, e.fd) {
			known[f] = true
		}
	}

	// ---- LOOKUP ----
	// the declared edge lists are read-only: a walk that filters or extends the slice a declaration
	// hands out (parents[:0] + append, parents[i] = …) rewrites the hierarchy for every later question
	r.curRule = "C08-EDGES"
	for _, p := range []*packages.Package{dpkg, npkg} {
		info := p.TypesInfo
		isEdgeGetter := func(e ast.Expr) bool {
			c, ok := ast.Unparen(e).(*ast.CallExpr)
			if !ok {
				return false
			}
			se, ok := ast.Unparen(c.Fun).(*ast.SelectorExpr)
			if !ok {
				return false
			}
			switch se.Sel.Name {
			case "GetExtends", "GetImplements":
				_, isSlice := info.TypeOf(c).Underlying().(*types.Slice)
				return isSlice
			}
			return false
		}
		for _, fd := range funcDecls(p) {
			if fd.Body == nil {
				continue
			}
			edge := map[types.Object]token.Pos{} // locals that alias a declared edge list
			for pass := 0; pass < 2; pass++ {
				ast.Inspect(fd.Body, func(n ast.Node) bool {
					as, ok := n.(*ast.AssignStmt)
					if !ok || len(as.Lhs) != len(as.Rhs) {
						return true
					}
					for i, l := range as.Lhs {
						id, ok := l.(*ast.Ident)
						if !ok {
							continue
						}
						o := info.Defs[id]
						if o == nil {
							o = info.Uses[id]
						}
						if o == nil {
							continue
						}
						rhs := ast.Unparen(as.Rhs[i])
						// x := decl.GetExtends() / y := x / y := x[:k]
						if isEdgeGetter(rhs) {
							edge[o] = as.Pos()
						} else if rid, ok := rhs.(*ast.Ident); ok && edge[info.Uses[rid]].IsValid() {
							edge[o] = as.Pos()
						} else if sl, ok := rhs.(*ast.SliceExpr); ok {
							if rid, ok := ast.Unparen(sl.X).(*ast.Ident); ok && edge[info.Uses[rid]].IsValid() {
								edge[o] = as.Pos()
							} else if isEdgeGetter(sl.X) {
								edge[o] = as.Pos()
							}
						}
					}
					return true
				})
			}
			if len(edge) == 0 {
				continue
			}
			var bad token.Pos
			what := ""
			isEdge := func(e ast.Expr) bool {
				switch x := ast.Unparen(e).(type) {
				case *ast.Ident:
					return edge[info.Uses[x]].IsValid()
				case *ast.SliceExpr:
					if id, ok := ast.Unparen(x.X).(*ast.Ident); ok {
						return edge[info.Uses[id]].IsValid()
					}
				}
				return isEdgeGetter(e)
			}
			ast.Inspect(fd.Body, func(n ast.Node) bool {
				switch x := n.(type) {
				case *ast.CallExpr:
					if id, ok := ast.Unparen(x.Fun).(*ast.Ident); ok && id.Name == "append" && len(x.Args) > 0 {
						if _, isBuiltin := info.Uses[id].(*types.Builtin); isBuiltin && isEdge(x.Args[0]) && !bad.IsValid() {
							bad, what = x.Pos(), "append("+exprStr(x.Args[0])+", …)"
						}
					}
				case *ast.AssignStmt:
					for _, l := range x.Lhs {
						if ix, ok := ast.Unparen(l).(*ast.IndexExpr); ok && isEdge(ix.X) && !bad.IsValid() {
							bad, what = x.Pos(), exprStr(l)+" = …"
						}
					}
				}
				return true
			})
			key := funcKey(p, fd) + "#edge-list-read-only"
			if bad.IsValid() {
				r.bad(key, bad, "writes into the slice a declaration hands out for its extends/implements edges ("+what+"): append on a reslice or an element store changes the declaration itself, so later instanceof / type / catch questions see a different hierarchy")
			} else {
				r.ok(key, fd.Pos(), "the declared edge lists are only read")
			}
		}
	}
	r.curRule = "C08-LOOKUP"
	// dispatch nodes resolve their target on every evaluation: a call node that remembers what it
	// resolved last time (an inline cache) answers for the wrong class when the same site is reached
	// from another class of the hierarchy (static::, parent::, inherited methods)
	{
		tabled := map[string]bool{}
		for _, e := range nodeStateTable {
			tabled[e[0]] = true
		}
		writes, examined := evalClosureFieldWrites(npkg)
		bad := map[string]bool{}
		for _, w := range writes {
			if !strings.HasPrefix(w.typeName, "Call") || tabled[w.typeName+"."+w.field] {
				continue
			}
			bad[w.typeName] = true
			r.bad("node.("+w.typeName+")#remembers-target:"+w.field, w.pos, "the call node stores "+w.field+" while it is evaluated: a remembered resolution is reused when the same call site is reached from another class, so late static binding / inherited dispatch picks the first caller's target")
		}
		names := []string{}
		for tn := range examined {
			if strings.HasPrefix(tn, "Call") && !bad[tn] {
				names = append(names, tn)
			}
		}
		sort.Strings(names)
		for _, tn := range names {
			r.ok("node.("+tn+")#resolves-every-time", examined[tn], "the call node keeps no resolution between evaluations (listed resolution caches of name-only lookups aside)")
		}
	}
	if fd := findFunc(dpkg, "ClassValue", "GetMethod"); fd == nil {
		r.fail("anchor not found: data.(ClassValue).GetMethod")
	} else {
		info := dpkg.TypesInfo
		fk := funcKey(dpkg, fd)
		// first statement group: own class lookup before any loop
		ownFirst := false
		// local closures of the lookup (probe := func(class ClassStmt) (Method, bool) { return class.GetMethod(name) })
		localLits := map[types.Object]*ast.FuncLit{}
		ast.Inspect(fd.Body, func(n ast.Node) bool {
			if as, ok := n.(*ast.AssignStmt); ok && len(as.Lhs) == 1 && len(as.Rhs) == 1 {
				if id, ok := as.Lhs[0].(*ast.Ident); ok {
					if lit, ok := ast.Unparen(as.Rhs[0]).(*ast.FuncLit); ok {
						if o := info.Defs[id]; o != nil {
							localLits[o] = lit
						}
					}
				}
			}
			return true
		})
		looksUpMethod := func(body ast.Node) bool {
			found := false
			ast.Inspect(body, func(m ast.Node) bool {
				if c, ok := m.(*ast.CallExpr); ok {
					if se, ok := ast.Unparen(c.Fun).(*ast.SelectorExpr); ok && se.Sel.Name == "GetMethod" {
						found = true
					}
				}
				return !found
			})
			return found
		}
		probeOf := func(e ast.Expr) *ast.FuncLit {
			switch x := ast.Unparen(e).(type) {
			case *ast.FuncLit:
				return x
			case *ast.Ident:
				return localLits[info.Uses[x]]
			}
			return nil
		}
		ancestorWalkSeen := false
		for _, st := range fd.Body.List {
			if _, isLoop := st.(*ast.ForStmt); isLoop {
				break
			}
			ast.Inspect(st, func(n ast.Node) bool {
				if c, ok := n.(*ast.CallExpr); ok {
					if se, ok := ast.Unparen(c.Fun).(*ast.SelectorExpr); ok && se.Sel.Name == "GetMethod" {
						if x, ok := ast.Unparen(se.X).(*ast.SelectorExpr); ok && x.Sel.Name == "Class" {
							ownFirst = true
						}
					}
					// probe(c.Class) through a local closure that looks the method up on its argument
					if lit := probeOf(c.Fun); lit != nil && len(c.Args) == 1 && !ancestorWalkSeen && looksUpMethod(lit.Body) {
						if x, ok := ast.Unparen(c.Args[0]).(*ast.SelectorExpr); ok && x.Sel.Name == "Class" {
							ownFirst = true
						}
					}
					// a call that hands a probe to an ancestor walker comes after the own-class lookup
					if cal := calleeFunc(info, c); cal != nil {
						if _, wd := r.declAnywhere(cal); wd != nil && c08WalksWithCallback(info, wd) {
							ancestorWalkSeen = true
						}
					}
				}
				return true
			})
		}
		if ownFirst {
			r.ok(fk+"#most-derived-first", fd.Pos(), "the runtime class's own definition is tried before any ancestor")
		} else {
			r.bad(fk+"#most-derived-first", fd.Pos(), "method lookup does not start with the runtime class's own table: an override is not the most-derived definition")
		}
		// a loop whose condition re-reads GetExtend of a variable reassigned in the body; the method is
		// looked up at each level in that loop — or the loop lives in an iterator (a function answering a
		// func(yield)) that hands every level to yield, and GetMethod ranges over it and looks the method
		// up on what it is handed
		advancing := func(fs *ast.ForStmt) bool {
			var loopVar types.Object
			if fs.Cond != nil {
				ast.Inspect(fs.Cond, func(m ast.Node) bool {
					if c, ok := m.(*ast.CallExpr); ok {
						if se, ok := ast.Unparen(c.Fun).(*ast.SelectorExpr); ok && se.Sel.Name == "GetExtend" {
							if id, ok := ast.Unparen(se.X).(*ast.Ident); ok {
								loopVar = info.Uses[id]
							}
						}
					}
					return true
				})
			}
			if loopVar == nil {
				return false
			}
			reassigned := false
			ast.Inspect(fs.Body, func(m ast.Node) bool {
				if x, ok := m.(*ast.AssignStmt); ok {
					for _, l := range x.Lhs {
						if id, ok := l.(*ast.Ident); ok && info.Uses[id] == loopVar {
							reassigned = true
						}
					}
				}
				return true
			})
			return reassigned
		}
		looksUp := func(body ast.Node, on types.Object) bool {
			looks := false
			ast.Inspect(body, func(m ast.Node) bool {
				if x, ok := m.(*ast.CallExpr); ok {
					if se, ok := ast.Unparen(x.Fun).(*ast.SelectorExpr); ok && se.Sel.Name == "GetMethod" {
						if on == nil {
							looks = true
						} else if id, ok := ast.Unparen(se.X).(*ast.Ident); ok && info.Uses[id] == on {
							looks = true
						}
					}
				}
				return true
			})
			return looks
		}
		// iterators of the package: function → true when a literal it returns advances along the chain
		// and calls its function parameter in the loop
		yieldsChain := func(ifd *ast.FuncDecl) bool {
			found := false
			ast.Inspect(ifd.Body, func(n ast.Node) bool {
				lit, ok := n.(*ast.FuncLit)
				if !ok || lit.Type.Params == nil {
					return true
				}
				yields := map[types.Object]bool{}
				for _, f := range lit.Type.Params.List {
					if _, isFn := info.TypeOf(f.Type).Underlying().(*types.Signature); isFn {
						for _, nm := range f.Names {
							yields[info.Defs[nm]] = true
						}
					}
				}
				if len(yields) == 0 {
					return true
				}
				ast.Inspect(lit.Body, func(m ast.Node) bool {
					fs, ok := m.(*ast.ForStmt)
					if !ok || !advancing(fs) {
						return true
					}
					ast.Inspect(fs.Body, func(k ast.Node) bool {
						if c, ok := k.(*ast.CallExpr); ok {
							if id, ok := ast.Unparen(c.Fun).(*ast.Ident); ok && yields[info.Uses[id]] {
								found = true
							}
						}
						return true
					})
					return true
				})
				return true
			})
			return found
		}
		walks := false
		ast.Inspect(fd.Body, func(n ast.Node) bool {
			switch x := n.(type) {
			case *ast.ForStmt:
				if advancing(x) && looksUp(x.Body, nil) {
					walks = true
				}
			case *ast.CallExpr:
				// searchAncestors(c, probe): a helper of the package that advances along the chain and asks
				// a function parameter at every level, handed a probe that looks the method up
				if cal := calleeFunc(info, x); cal != nil {
					if _, wd := r.declAnywhere(cal); wd != nil && wd != fd && c08WalksWithCallback(info, wd) {
						for _, arg := range x.Args {
							if lit := probeOf(arg); lit != nil && looksUpMethod(lit.Body) {
								walks = true
							}
						}
					}
				}
			case *ast.RangeStmt:
				c, ok := ast.Unparen(x.X).(*ast.CallExpr)
				if !ok {
					return true
				}
				_, ifd := r.declAnywhere(calleeFunc(info, c))
				if ifd == nil || r.ByPath[dpkg.PkgPath] != dpkg || !yieldsChain(ifd) {
					return true
				}
				for _, kv := range []ast.Expr{x.Key, x.Value} {
					if id, ok := kv.(*ast.Ident); ok && id.Name != "_" {
						if o := info.Defs[id]; o != nil && looksUp(x.Body, o) {
							walks = true
						}
					}
				}
			}
			return true
		})
		if walks {
			r.ok(fk+"#walks-extends-chain", fd.Pos(), "the lookup loop advances to the class just loaded and re-reads its GetExtend()")
		} else {
			r.bad(fk+"#walks-extends-chain", fd.Pos(), "method lookup does not walk the whole extends chain (no loop that advances along GetExtend and looks the method up at each level): a method defined two levels up is not found")
		}
	}

	if fd := findFunc(npkg, "CallParentMethod", "GetValue"); fd == nil {
		r.fail("anchor not found: node.(CallParentMethod).GetValue")
	} else {
		info := npkg.TypesInfo
		// receivers of method lookups in fn: variable → true
		lookupRecv := func(body ast.Node) map[types.Object]bool {
			out := map[types.Object]bool{}
			ast.Inspect(body, func(n ast.Node) bool {
				if c, ok := n.(*ast.CallExpr); ok {
					if se, ok := ast.Unparen(c.Fun).(*ast.SelectorExpr); ok && (se.Sel.Name == "GetMethod" || se.Sel.Name == "GetStaticMethod") {
						if id, ok := ast.Unparen(se.X).(*ast.Ident); ok {
							out[info.Uses[id]] = true
						}
					}
				}
				return true
			})
			return out
		}
		recvs := lookupRecv(fd.Body)
		declOfFn := map[types.Object]*ast.FuncDecl{}
		for _, f := range funcDecls(npkg) {
			declOfFn[info.Defs[f.Name]] = f
		}
		var selfRHS ast.Expr
		ast.Inspect(fd.Body, func(n ast.Node) bool {
			if as, ok := n.(*ast.AssignStmt); ok {
				for i, l := range as.Lhs {
					if se, ok := ast.Unparen(l).(*ast.SelectorExpr); ok && se.Sel.Name == "SelfClass" && i < len(as.Rhs) {
						selfRHS = as.Rhs[i]
					}
				}
			}
			return true
		})
		key := funcKey(npkg, fd) + "#selfclass-is-defining-class"
		good := false
		if id, ok := ast.Unparen(selfRHS).(*ast.Ident); ok {
			x := info.Uses[id]
			// every assignment to x
			n, all := 0, true
			ast.Inspect(fd.Body, func(m ast.Node) bool {
				as, ok := m.(*ast.AssignStmt)
				if !ok {
					return true
				}
				for i, l := range as.Lhs {
					lid, ok := l.(*ast.Ident)
					if !ok || (info.Defs[lid] != x && info.Uses[lid] != x) {
						continue
					}
					n++
					switch {
					case len(as.Rhs) == len(as.Lhs):
						rid, ok := ast.Unparen(as.Rhs[i]).(*ast.Ident)
						if !ok || !recvs[info.Uses[rid]] {
							all = false
						}
					case len(as.Rhs) == 1:
						// from a helper: the i-th result of every return must be a lookup receiver there
						c, ok := ast.Unparen(as.Rhs[0]).(*ast.CallExpr)
						if !ok {
							all = false
							break
						}
						// a declared helper, or a function literal called on the spot
						var hbody *ast.BlockStmt
						if lit, ok := ast.Unparen(c.Fun).(*ast.FuncLit); ok {
							hbody = lit.Body
						} else if h := declOfFn[calleeOf(info, c)]; h != nil {
							hbody = h.Body
						}
						if hbody == nil {
							all = false
							break
						}
						hr := lookupRecv(hbody)
						ast.Inspect(hbody, func(k ast.Node) bool {
							if _, nested := k.(*ast.FuncLit); nested {
								return false
							}
							if rs, ok := k.(*ast.ReturnStmt); ok && i < len(rs.Results) {
								if exprStr(rs.Results[i]) == "nil" {
									return true
								}
								rid, ok := ast.Unparen(rs.Results[i]).(*ast.Ident)
								if !ok || !hr[info.Uses[rid]] {
									all = false
								}
							}
							return true
						})
					default:
						all = false
					}
				}
				return true
			})
			good = n > 0 && all
		}
		switch {
		case selfRHS == nil:
			r.bad(key, fd.Pos(), "parent:: no longer records the defining class (SelfClass) in the callee's context: a parent:: inside the called method starts from the runtime class again")
		case good:
			r.ok(key, selfRHS.Pos(), "the callee's SelfClass is the class on which the called method was found")
		default:
			r.bad(key, selfRHS.Pos(), "the callee's SelfClass ("+exprStr(selfRHS)+") is not the class on which the method lookup succeeded: when an intermediate class does not define the method, a parent:: inside it resolves one level too low and runs the same method again")
		}
	}

	// ---- LIKE ----
	r.curRule = "C08-LIKE"
	if fd := findFunc(npkg, "LikeExpression", "GetValue"); fd == nil {
		r.fail("anchor not found: node.(LikeExpression).GetValue")
	} else {
		info := npkg.TypesInfo
		fromCheck := map[types.Object]bool{}
		ast.Inspect(fd.Body, func(n ast.Node) bool {
			if as, ok := n.(*ast.AssignStmt); ok && len(as.Lhs) == 1 && len(as.Rhs) == 1 {
				if c, ok := ast.Unparen(as.Rhs[0]).(*ast.CallExpr); ok {
					if f, ok := calleeOf(info, c).(*types.Func); ok && (f.Name() == "checkClassStructure" || f.Name() == "checkInterfaceStructure") {
						if id, ok := as.Lhs[0].(*ast.Ident); ok {
							if o := info.Defs[id]; o != nil {
								fromCheck[o] = true
							}
						}
					}
				}
			}
			return true
		})
		bad := ""
		n := 0
		ast.Inspect(fd.Body, func(m ast.Node) bool {
			c, ok := m.(*ast.CallExpr)
			if !ok || len(c.Args) != 1 {
				return true
			}
			f, ok := calleeOf(info, c).(*types.Func)
			if !ok || f.Name() != "NewBoolValue" {
				return true
			}
			n++
			arg := ast.Unparen(c.Args[0])
			if exprStr(arg) == "false" {
				return true
			}
			if id, ok := arg.(*ast.Ident); ok && fromCheck[info.Uses[id]] {
				return true
			}
			if cc, ok := arg.(*ast.CallExpr); ok {
				if g, ok := calleeOf(info, cc).(*types.Func); ok && (g.Name() == "checkClassStructure" || g.Name() == "checkInterfaceStructure") {
					return true
				}
			}
			if bad == "" {
				bad = r.pos(c.Pos())
			}
			return true
		})
		key := funcKey(npkg, fd) + "#answers-from-structure-check"
		if n == 0 {
			r.fail("LikeExpression.GetValue builds no boolean answer")
		} else if bad == "" {
			r.ok(key, fd.Pos(), "every answer of `like` is false or the result of the structural comparison")
		} else {
			r.bad(key, fd.Pos(), "`like` answers with a value that is not the result of the structural comparison ("+bad+"): e.g. a nominal subtype is accepted although it re-declares a method with another parameter count")
		}
	}
	for _, fn := range []string{"checkClassStructure", "checkInterfaceStructure"} {
		fd := findFunc(npkg, "", fn)
		if fd == nil {
			r.fail("anchor not found: node.%s", fn)
			continue
		}
		info := npkg.TypesInfo
		fk := funcKey(npkg, fd)
		// iterates target.GetMethods() and compares len(GetParams()) — in the function or in the
		// package helpers it hands the method list to
		iter, cmp, early := false, false, false
		filtered := token.NoPos
		for _, cf := range closure(npkg, fd) {
			ast.Inspect(cf.Body, func(n ast.Node) bool {
				switch x := n.(type) {
				case *ast.RangeStmt:
					src := exprStr(x.X)
					if strings.Contains(src, "GetMethods") || strings.Contains(src, "Methods") {
						iter = true
					}
					// an unconditional return true inside the loop ends the iteration early
					for _, st := range x.Body.List {
						if rs, ok := st.(*ast.ReturnStmt); ok && len(rs.Results) == 1 && exprStr(rs.Results[0]) == "true" {
							early = true
						}
					}
				case *ast.BinaryExpr:
					if strings.Contains(exprStr(x.X), "GetParams") && strings.Contains(exprStr(x.Y), "GetParams") {
						// both sides are the *declared* parameter count — len(m.GetParams()), possibly through a
						// helper that returns exactly that — not a count filtered by optionality
						if c08DeclaredCount(r, npkg, x.X, 0) && c08DeclaredCount(r, npkg, x.Y, 0) {
							cmp = true
						} else {
							filtered = x.Pos()
						}
					}
				}
				return true
			})
		}
		// methods collected before the loop (targetMethods := target.GetMethods()) or handed to a helper
		ast.Inspect(fd.Body, func(n ast.Node) bool {
			if as, ok := n.(*ast.AssignStmt); ok && len(as.Rhs) == 1 && strings.Contains(exprStr(as.Rhs[0]), "GetMethods") {
				iter = true
			}
			if c, ok := n.(*ast.CallExpr); ok {
				for _, a := range c.Args {
					if strings.Contains(exprStr(a), "GetMethods") {
						iter = true
					}
				}
			}
			return true
		})
		if iter && cmp && !early {
			r.ok(fk+"#all-methods-and-arity", fd.Pos(), "every method the target declares is required, with the same number of parameters")
		} else if iter && !cmp && filtered != token.NoPos {
			r.bad(fk+"#all-methods-and-arity", filtered, "the parameter counts compared are not the declared counts len(GetParams()) of the two methods but counts computed from them (optional or variadic parameters left out): `like` accepts methods whose declared signatures differ")
		} else {
			r.bad(fk+"#all-methods-and-arity", fd.Pos(), "the structural test does not iterate all target methods with a parameter-count comparison (or leaves the loop with true early)")
		}
		// source parameter must not be the bare class statement (whose GetMethod does not inherit)
		p0 := fd.Type.Params.List[0]
		t := info.TypeOf(p0.Type)
		// … and, when the parameter is an interface both kinds satisfy, no caller hands the class statement in
		// (followed through wrappers that forward their own parameter)
		var stmtArg token.Pos
		if !isNamed(t, modPath+"/data", "ClassStmt") {
			var classStmtIface *types.Interface
			if tn, ok := dpkg.Types.Scope().Lookup("ClassStmt").(*types.TypeName); ok {
				classStmtIface, _ = tn.Type().Underlying().(*types.Interface)
			}
			isStmt := func(at types.Type) bool {
				if at == nil || classStmtIface == nil {
					return false
				}
				if isNamed(at, modPath+"/data", "ClassStmt") {
					return true
				}
				if _, isIface := at.Underlying().(*types.Interface); isIface {
					return false
				}
				return types.Implements(at, classStmtIface)
			}
			seenFn := map[*ast.FuncDecl]bool{}
			var check func(callee *ast.FuncDecl, idx int, depth int)
			check = func(callee *ast.FuncDecl, idx int, depth int) {
				if seenFn[callee] || depth > 3 {
					return
				}
				seenFn[callee] = true
				cobj := info.Defs[callee.Name]
				for _, g := range funcDecls(npkg) {
					if g.Body == nil {
						continue
					}
					ast.Inspect(g.Body, func(n ast.Node) bool {
						c, ok := n.(*ast.CallExpr)
						if !ok || calleeOf(info, c) != cobj || idx >= len(c.Args) {
							return true
						}
						a := ast.Unparen(c.Args[idx])
						// forwarded parameter of the caller: judged at the caller's own call sites
						if id, ok := a.(*ast.Ident); ok {
							k := 0
							for _, f := range g.Type.Params.List {
								for _, nm := range f.Names {
									if info.Defs[nm] == info.Uses[id] {
										check(g, k, depth+1)
										return true
									}
									k++
								}
							}
						}
						if isStmt(info.TypeOf(a)) && stmtArg == token.NoPos {
							stmtArg = c.Pos()
						}
						return true
					})
				}
			}
			check(fd, 0, 0)
		}
		if isNamed(t, modPath+"/data", "ClassStmt") {
			r.bad(fk+"#inheriting-lookup", fd.Pos(), "methods are looked up on the object's class statement, whose GetMethod reads its own table only: a method inherited from a parent does not count")
		} else if stmtArg != token.NoPos {
			r.bad(fk+"#inheriting-lookup", stmtArg, "a caller hands the structural test the object's class statement (its GetMethod reads its own table only) where the inheriting provider is meant: a method inherited from a parent does not count")
		} else {
			r.ok(fk+"#inheriting-lookup", fd.Pos(), "methods are looked up through a provider that includes inherited ones")
		}
	}
	_ = sort.Strings
}

// c08ImplementsFollowed: see the call site. closure gives the same-package static call closure of a function.
func c08ImplementsFollowed(r *Run, p *packages.Package, fd *ast.FuncDecl, closure func(*packages.Package, *ast.FuncDecl) []*ast.FuncDecl) {
	info := p.TypesInfo
	parents := map[ast.Node]ast.Node{}
	var stack []ast.Node
	ast.Inspect(fd.Body, func(n ast.Node) bool {
		if n == nil {
			stack = stack[:len(stack)-1]
			return true
		}
		if len(stack) > 0 {
			parents[n] = stack[len(stack)-1]
		}
		stack = append(stack, n)
		return true
	})
	// local closures: variable → literal
	litOf := map[types.Object]*ast.FuncLit{}
	ast.Inspect(fd.Body, func(n ast.Node) bool {
		if as, ok := n.(*ast.AssignStmt); ok && len(as.Lhs) == len(as.Rhs) {
			for i, l := range as.Lhs {
				if id, ok := l.(*ast.Ident); ok {
					if lit, ok := ast.Unparen(as.Rhs[i]).(*ast.FuncLit); ok {
						o := info.Defs[id]
						if o == nil {
							o = info.Uses[id]
						}
						if o != nil {
							litOf[o] = lit
						}
					}
				}
			}
		}
		return true
	})
	var follows func(n ast.Node, depth int) bool
	follows = func(n ast.Node, depth int) bool {
		if n == nil || depth > 3 {
			return false
		}
		found := false
		ast.Inspect(n, func(m ast.Node) bool {
			if found {
				return false
			}
			switch x := m.(type) {
			case *ast.Ident:
				if lit := litOf[info.Uses[x]]; lit != nil && ast.Node(lit) != n {
					if follows(lit.Body, depth+1) {
						found = true
					}
				}
			case *ast.CallExpr:
				if se, ok := ast.Unparen(x.Fun).(*ast.SelectorExpr); ok && se.Sel.Name == "GetExtends" {
					found = true
					return false
				}
				if cal := calleeFunc(info, x); cal != nil {
					if cp, cfd := r.declAnywhere(cal); cfd != nil {
						for _, g := range closure(cp, cfd) {
							ast.Inspect(g.Body, func(k ast.Node) bool {
								if c, ok := k.(*ast.CallExpr); ok {
									if se, ok := ast.Unparen(c.Fun).(*ast.SelectorExpr); ok && se.Sel.Name == "GetExtends" {
										found = true
									}
								}
								return !found
							})
							if found {
								break
							}
						}
					}
				}
			}
			return !found
		})
		return found
	}
	type group struct {
		consumes, followed bool
		pos                token.Pos
	}
	groups := map[string]*group{}
	var order []string
	note := func(recv string, pos token.Pos, followed bool) {
		g := groups[recv]
		if g == nil {
			g = &group{pos: pos}
			groups[recv] = g
			order = append(order, recv)
		}
		g.consumes = true
		if followed {
			g.followed = true
		}
	}
	ast.Inspect(fd.Body, func(n ast.Node) bool {
		c, ok := n.(*ast.CallExpr)
		if !ok {
			return true
		}
		se, ok := ast.Unparen(c.Fun).(*ast.SelectorExpr)
		if !ok || se.Sel.Name != "GetImplements" || len(c.Args) != 0 {
			return true
		}
		recv := exprStr(se.X)
		par := parents[c]
		for {
			if pe, ok := par.(*ast.ParenExpr); ok {
				par = parents[pe]
				continue
			}
			break
		}
		switch x := par.(type) {
		case *ast.RangeStmt:
			if ast.Unparen(x.X) == ast.Expr(c) {
				note(recv, c.Pos(), follows(x.Body, 0))
			}
		case *ast.CallExpr:
			cal := calleeFunc(info, x)
			if cal != nil && cal.Pkg() != nil && cal.Pkg().Path() == "slices" && len(x.Args) == 2 && ast.Unparen(x.Args[0]) == ast.Expr(c) {
				switch cal.Name() {
				case "Contains", "Index":
					note(recv, c.Pos(), false)
				case "ContainsFunc", "IndexFunc":
					note(recv, c.Pos(), follows(x.Args[1], 0))
				}
			} else if cal != nil {
				// handed to a function of the module: followed when that function's closure steps into interfaces
				if _, cfd := r.declAnywhere(cal); cfd != nil {
					if follows(x, 0) {
						note(recv, c.Pos(), true)
					}
				}
			}
		case *ast.AssignStmt:
			// impls := X.GetImplements(); for _, i := range impls { … }
			for i, rh := range x.Rhs {
				if ast.Unparen(rh) != ast.Expr(c) || i >= len(x.Lhs) {
					continue
				}
				id, ok := x.Lhs[i].(*ast.Ident)
				if !ok {
					continue
				}
				o := info.Defs[id]
				if o == nil {
					o = info.Uses[id]
				}
				ast.Inspect(fd.Body, func(m ast.Node) bool {
					switch y := m.(type) {
					case *ast.RangeStmt:
						if rid, ok := ast.Unparen(y.X).(*ast.Ident); ok && info.Uses[rid] == o {
							note(recv, c.Pos(), follows(y.Body, 0))
						}
					case *ast.CallExpr:
						if cal := calleeFunc(info, y); cal != nil && cal.Pkg() != nil && cal.Pkg().Path() == "slices" && len(y.Args) == 2 {
							if rid, ok := ast.Unparen(y.Args[0]).(*ast.Ident); ok && info.Uses[rid] == o {
								switch cal.Name() {
								case "Contains", "Index":
									note(recv, c.Pos(), false)
								case "ContainsFunc", "IndexFunc":
									note(recv, c.Pos(), follows(y.Args[1], 0))
								}
							}
						}
					}
					return true
				})
			}
		}
		return true
	})
	for _, recv := range order {
		g := groups[recv]
		key := funcKey(p, fd) + "#implements-followed:" + recv
		if g.followed {
			r.ok(key, g.pos, "the implements list of "+recv+" is followed into the interfaces it names (their parents are consulted)")
		} else {
			r.bad(key, g.pos, "the implements list of "+recv+" is only compared by name: an interface reached through the parents of an implemented interface is missed for this class (instanceof / type hint / catch disagree with the declared hierarchy)")
		}
	}
}

// c08WalksWithCallback: fd contains a loop that advances along the extends chain (its condition re-reads
// GetExtend() of a variable the body reassigns) and calls a function-typed parameter of fd in that loop.
func c08WalksWithCallback(info *types.Info, fd *ast.FuncDecl) bool {
	if fd.Body == nil || fd.Type.Params == nil {
		return false
	}
	cbs := map[types.Object]bool{}
	for _, f := range fd.Type.Params.List {
		if _, isFn := info.TypeOf(f.Type).Underlying().(*types.Signature); isFn {
			for _, nm := range f.Names {
				cbs[info.Defs[nm]] = true
			}
		}
	}
	if len(cbs) == 0 {
		return false
	}
	found := false
	ast.Inspect(fd.Body, func(n ast.Node) bool {
		fs, ok := n.(*ast.ForStmt)
		if !ok || fs.Cond == nil || found {
			return !found
		}
		var loopVar types.Object
		ast.Inspect(fs.Cond, func(m ast.Node) bool {
			if c, ok := m.(*ast.CallExpr); ok {
				if se, ok := ast.Unparen(c.Fun).(*ast.SelectorExpr); ok && se.Sel.Name == "GetExtend" {
					if id, ok := ast.Unparen(se.X).(*ast.Ident); ok {
						loopVar = info.Uses[id]
					}
				}
			}
			return true
		})
		if loopVar == nil {
			return true
		}
		reassigned, asks := false, false
		ast.Inspect(fs.Body, func(m ast.Node) bool {
			switch x := m.(type) {
			case *ast.AssignStmt:
				for _, l := range x.Lhs {
					if id, ok := l.(*ast.Ident); ok && info.Uses[id] == loopVar {
						reassigned = true
					}
				}
			case *ast.CallExpr:
				if id, ok := ast.Unparen(x.Fun).(*ast.Ident); ok && cbs[info.Uses[id]] {
					asks = true
				}
			}
			return true
		})
		if reassigned && asks {
			found = true
		}
		return !found
	})
	return found
}

// c08DeclaredCount: e is len(X.GetParams()), or a call of a module function all of whose returns are that
// for one of its parameters.
func c08DeclaredCount(r *Run, p *packages.Package, e ast.Expr, depth int) bool {
	info := p.TypesInfo
	c, ok := ast.Unparen(e).(*ast.CallExpr)
	if !ok {
		return false
	}
	if id, ok := ast.Unparen(c.Fun).(*ast.Ident); ok && id.Name == "len" && len(c.Args) == 1 {
		if _, isBuiltin := info.Uses[id].(*types.Builtin); isBuiltin {
			if ac, ok := ast.Unparen(c.Args[0]).(*ast.CallExpr); ok {
				if se, ok := ast.Unparen(ac.Fun).(*ast.SelectorExpr); ok && se.Sel.Name == "GetParams" {
					return true
				}
			}
			// len(params) where the helper received the list itself
			if _, ok := ast.Unparen(c.Args[0]).(*ast.Ident); ok && depth > 0 {
				return true
			}
		}
		return false
	}
	if depth >= 2 {
		return false
	}
	cal := calleeFunc(info, c)
	if cal == nil {
		return false
	}
	hp, hd := r.declAnywhere(cal)
	if hd == nil {
		return false
	}
	n, all := 0, true
	ast.Inspect(hd.Body, func(m ast.Node) bool {
		switch x := m.(type) {
		case *ast.FuncLit:
			return false
		case *ast.ForStmt, *ast.RangeStmt:
			all = false // a count computed by a loop is not the declared length
		case *ast.ReturnStmt:
			n++
			if len(x.Results) != 1 || !c08DeclaredCount(r, hp, x.Results[0], depth+1) {
				all = false
			}
		}
		return true
	})
	return all && n > 0
}

// c08FollowsInterfaceParents: reading GetExtends() inside some loop or recursion is not yet following it —
// a walk along the *class* chain that looks one level into each interface's parents is repeated but
// shallow. Following means the names GetExtends() hands out are themselves expanded: (a) the loop over a
// GetExtends() result calls back into a function that reaches this one (recursion per parent), (b) the
// parents are appended to a work list that a loop of this function consumes, or (c) the walk asks a
// callback at every level (iterator/visitor walkers).
func c08FollowsInterfaceParents(p *packages.Package, f *ast.FuncDecl, closure func(*packages.Package, *ast.FuncDecl) []*ast.FuncDecl) bool {
	info := p.TypesInfo
	if c08WalksWithCallback(info, f) {
		return true
	}
	isGetExtends := func(e ast.Expr) bool {
		c, ok := ast.Unparen(e).(*ast.CallExpr)
		if !ok {
			return false
		}
		se, ok := ast.Unparen(c.Fun).(*ast.SelectorExpr)
		return ok && se.Sel.Name == "GetExtends"
	}
	// variables holding a GetExtends() result
	held := map[types.Object]bool{}
	ast.Inspect(f.Body, func(n ast.Node) bool {
		if as, ok := n.(*ast.AssignStmt); ok && len(as.Lhs) == len(as.Rhs) {
			for i, r := range as.Rhs {
				if isGetExtends(r) {
					if id, ok := as.Lhs[i].(*ast.Ident); ok {
						held[info.ObjectOf(id)] = true
					}
				}
			}
		}
		return true
	})
	byObj := map[types.Object]*ast.FuncDecl{}
	for _, fd := range funcDecls(p) {
		byObj[info.Defs[fd.Name]] = fd
	}
	reachesF := func(g *ast.FuncDecl) bool {
		for _, h := range closure(p, g) {
			if h == f {
				return true
			}
		}
		return false
	}
	follows := false
	ast.Inspect(f.Body, func(n ast.Node) bool {
		switch x := n.(type) {
		case *ast.RangeStmt, *ast.ForStmt:
			src := false
			var body *ast.BlockStmt
			if rs, ok := x.(*ast.RangeStmt); ok {
				body = rs.Body
				src = isGetExtends(rs.X)
				if id, ok := ast.Unparen(rs.X).(*ast.Ident); ok && held[info.Uses[id]] {
					src = true
				}
			} else if fs := x.(*ast.ForStmt); fs.Cond != nil {
				// for k := 0; k < len(parents); k++ { … parents[k] … }
				body = fs.Body
				ast.Inspect(fs.Cond, func(m ast.Node) bool {
					if id, ok := m.(*ast.Ident); ok && held[info.Uses[id]] {
						src = true
					}
					if e, ok := m.(ast.Expr); ok && isGetExtends(e) {
						src = true
					}
					return true
				})
			}
			if !src || body == nil {
				return true
			}
			ast.Inspect(body, func(m ast.Node) bool {
				c, ok := m.(*ast.CallExpr)
				if !ok {
					return true
				}
				if g := byObj[calleeOf(info, c)]; g != nil && reachesF(g) {
					follows = true // (a)
				}
				if id, ok := ast.Unparen(c.Fun).(*ast.Ident); ok && id.Name == "append" {
					follows = true // (b) parents pushed one by one onto a work list
				}
				return true
			})
		case *ast.CallExpr:
			// (b) queue = append(queue, iface.GetExtends()...)
			if id, ok := ast.Unparen(x.Fun).(*ast.Ident); ok && id.Name == "append" {
				for _, a := range x.Args[1:] {
					if isGetExtends(a) {
						follows = true
					}
					if aid, ok := ast.Unparen(a).(*ast.Ident); ok && held[info.Uses[aid]] {
						follows = true
					}
				}
			}
			// (a') the parents handed as a whole to a function that reaches this one
			if g := byObj[calleeOf(info, x)]; g != nil && reachesF(g) {
				for _, a := range x.Args {
					if isGetExtends(a) {
						follows = true
					}
					if aid, ok := ast.Unparen(a).(*ast.Ident); ok && held[info.Uses[aid]] {
						follows = true
					}
				}
			}
		}
		return true
	})
	return follows
}
