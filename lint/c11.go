package main

import (
	"fmt"
	"go/ast"
	"go/types"
	"sort"

	"golang.org/x/tools/go/packages"
)

func init() {
	for _, e := range [][2]string{
		{"node.argcValue", "lazily filled copy of os.Args (a process constant): every request computes the same value"},
		{"node.argvValue", "lazily filled copy of os.Args (a process constant): every request computes the same value"},
		{"node.includeOnceCache", "mutex-protected cache of parsed include files keyed by path; its cross-program effect is listed under C20-GLOBALS"},
	} {
		assumeSite("C11-GLOBAL", e[0], e[1])
	}
	register(&PropDef{
		ID:          "C11",
		Patterns:    []string{"./node", "./std/net/http", "./runtime", "./data"},
		Explanation: "All requests run the same handler closure on the same AST in parallel goroutines. For 'a response depends on its request only' it is necessary that (GLOBAL) no code on the request path keeps request data in a package-level variable — every package-level variable of node and std/net/http that is written outside init is either synchronised process configuration, or a listed finding; (CTX) every ServeHTTP / middleware entry creates a fresh Context for the request (CreateContext) and binds the request and response objects into that context, never into the shared handler context. Response bytes and schedules are not enumerated.",
		Assumptions: []string{
			"request-path code = packages node and std/net/http (the evaluator and the HTTP binding)",
			"a write is an assignment, ++/--, delete/clear, or a mutating method of a sync/atomic/bytes value rooted at the variable",
		},
		Rules: []RuleDef{
			{Name: "C11-GLOBAL", Floor: 4, Doc: "no unsynchronised package-level state is written on the request path", Run: c11Run},
			{Name: "C11-CTX", Floor: 2, Doc: "each request entry point evaluates the handler in a context created for this request", Run: nop},
			{Name: "C11-NODE", Floor: 70, Doc: "the AST is shared by all concurrent requests: evaluation methods write no field of the node they belong to (caches, scratch buffers, counters), apart from the listed sites of the pinned tree", Run: c11Node},
		},
	})
}

// keyedByRequest: a sync.Map all of whose accesses use a *http.Request as the key is per-request state.
func keyedByRequest(pkg *packages.Package, v *types.Var) (bool, string) {
	if !isNamed(v.Type(), "sync", "Map") {
		return false, ""
	}
	info := pkg.TypesInfo
	n, all := 0, true
	for _, fd := range funcDecls(pkg) {
		ast.Inspect(fd.Body, func(m ast.Node) bool {
			c, ok := m.(*ast.CallExpr)
			if !ok {
				return true
			}
			se, ok := ast.Unparen(c.Fun).(*ast.SelectorExpr)
			if !ok {
				return true
			}
			id, ok := ast.Unparen(se.X).(*ast.Ident)
			if !ok || info.Uses[id] != v {
				return true
			}
			switch se.Sel.Name {
			case "Load", "Store", "LoadOrStore", "LoadAndDelete", "Delete", "Swap", "CompareAndSwap", "CompareAndDelete":
				n++
				t := info.TypeOf(c.Args[0])
				if p, ok := t.(*types.Pointer); !ok || !isNamed(p.Elem(), "net/http", "Request") {
					all = false
				}
			default:
				all = false // Range etc.: touches other requests' entries
			}
			return true
		})
	}
	if n > 0 && all {
		return true, "a sync.Map whose every access is keyed by the *http.Request being served: per-request state"
	}
	return false, ""
}

func c11Run(r *Run) {
	r.curRule = "C11-GLOBAL"
	globalsCensus(r, []string{"node", "std/net/http"},
		"package-level variable %s (%s) is written outside init by %s: with requests served in parallel it is shared by all of them, so one request reads or resets what another stored",
		keyedByRequest)

	r.curRule = "C11-CTX"
	hp := r.pkg("std/net/http")
	if hp == nil {
		return
	}
	info := hp.TypesInfo
	declOfFn := map[types.Object]*ast.FuncDecl{}
	for _, fd := range funcDecls(hp) {
		declOfFn[info.Defs[fd.Name]] = fd
	}
	n := 0
	entryCalls := map[ast.Node]bool{}
	// entry points: every function (or function literal) with parameters (http.ResponseWriter, *http.Request)
	// that calls a script function (.Call(ctx))
	check := func(name string, ft *ast.FuncType, body *ast.BlockStmt, pos ast.Node) {
		if ft.Params == nil || len(ft.Params.List) == 0 {
			return
		}
		hasW, hasR := false, false
		for _, f := range ft.Params.List {
			t := info.TypeOf(f.Type)
			if t == nil {
				continue
			}
			if isNamed(t, "net/http", "ResponseWriter") {
				hasW = true
			}
			if p, ok := t.(*types.Pointer); ok && isNamed(p.Elem(), "net/http", "Request") {
				hasR = true
			}
		}
		if !hasW || !hasR {
			return
		}
		// the script call
		var call *ast.CallExpr
		ast.Inspect(body, func(m ast.Node) bool {
			if _, ok := m.(*ast.FuncLit); ok && m != pos {
				return false
			}
			if c, ok := m.(*ast.CallExpr); ok {
				if se, ok := ast.Unparen(c.Fun).(*ast.SelectorExpr); ok && se.Sel.Name == "Call" && len(c.Args) == 1 {
					if isNamed(info.TypeOf(c.Args[0]), modPath+"/data", "Context") {
						call = c
					}
				}
			}
			return true
		})
		if call == nil {
			return
		}
		n++
		entryCalls[call] = true
		key := name + "#request-context"
		ctxID, ok := ast.Unparen(call.Args[0]).(*ast.Ident)
		if !ok {
			r.bad(key, call.Pos(), "the handler is called with a context expression that is not a local created for this request")
			return
		}
		ctxObj := info.Uses[ctxID]
		fresh, reused := false, false
		ast.Inspect(body, func(m ast.Node) bool {
			as, ok := m.(*ast.AssignStmt)
			if !ok || len(as.Lhs) != 1 || len(as.Rhs) != 1 {
				return true
			}
			id, ok := as.Lhs[0].(*ast.Ident)
			if !ok || (info.Defs[id] != ctxObj && info.Uses[id] != ctxObj) {
				return true
			}
			created := false
			if c, ok := ast.Unparen(as.Rhs[0]).(*ast.CallExpr); ok {
				if se, ok := ast.Unparen(c.Fun).(*ast.SelectorExpr); ok && se.Sel.Name == "CreateContext" {
					created = true
				}
				// ctx := f.callContext(): a helper of the package every return of which is a CreateContext call
				if !created {
					if cal := calleeFunc(info, c); cal != nil && cal.Pkg() == hp.Types {
						if hd := declOfFn[cal]; hd != nil && hd.Body != nil {
							rets, creates := 0, 0
							ast.Inspect(hd.Body, func(k ast.Node) bool {
								if _, isLit := k.(*ast.FuncLit); isLit {
									return false
								}
								if rs, ok := k.(*ast.ReturnStmt); ok && len(rs.Results) == 1 {
									rets++
									if rc, ok := ast.Unparen(rs.Results[0]).(*ast.CallExpr); ok {
										if rse, ok := ast.Unparen(rc.Fun).(*ast.SelectorExpr); ok && rse.Sel.Name == "CreateContext" {
											creates++
										}
									}
								}
								return true
							})
							created = rets > 0 && rets == creates
						}
					}
				}
			}
			if created {
				fresh = true
			} else {
				reused = true // some definition takes the context from elsewhere (a pool, a field, a channel)
			}
			return true
		})
		if reused {
			fresh = false
		}
		// the variable must be declared inside this body (not captured from the enclosing scope)
		inside := ctxObj != nil && ctxObj.Pos() >= body.Pos() && ctxObj.Pos() <= body.End()
		// request/response bound into the same context
		bound := 0
		var countBinds func(b *ast.BlockStmt, obj types.Object, depth int)
		countBinds = func(b *ast.BlockStmt, obj types.Object, depth int) {
			ast.Inspect(b, func(m ast.Node) bool {
				c, ok := m.(*ast.CallExpr)
				if !ok {
					return true
				}
				if se, ok := ast.Unparen(c.Fun).(*ast.SelectorExpr); ok && se.Sel.Name == "SetVariableValue" {
					if id, ok := ast.Unparen(se.X).(*ast.Ident); ok && info.Uses[id] == obj {
						bound++
					}
				}
				// the context handed to a helper of this package that binds into it
				if depth < 2 {
					if h := declOfFn[calleeOf(info, c)]; h != nil {
						for i, a := range c.Args {
							if id, ok := ast.Unparen(a).(*ast.Ident); ok && info.Uses[id] == obj {
								k := 0
								for _, f := range h.Type.Params.List {
									for _, nm := range f.Names {
										if k == i {
											countBinds(h.Body, info.Defs[nm], depth+1)
										}
										k++
									}
								}
							}
						}
					}
				}
				return true
			})
		}
		countBinds(body, ctxObj, 0)
		switch {
		case !fresh || !inside:
			r.bad(key, call.Pos(), "the handler runs in a context that is not created by CreateContext inside this request: locals and parameters are shared between requests in flight")
		case bound < 2:
			r.bad(key, call.Pos(), "the request and response objects are not both bound into the per-request context")
		default:
			r.ok(key, call.Pos(), "the handler runs in a context created for this request, with request and response bound into it")
		}
	}
	for _, fd := range funcDecls(hp) {
		check(funcKey(hp, fd), fd.Type, fd.Body, fd)
		ast.Inspect(fd.Body, func(m ast.Node) bool {
			if fl, ok := m.(*ast.FuncLit); ok {
				check(funcKey(hp, fd)+"$lit", fl.Type, fl.Body, fl)
			}
			return true
		})
	}
	if n == 0 {
		r.fail("no request entry point found in std/net/http")
	}
	c11CallFrames(r, hp, entryCalls)
	c11ProgramFrames(r)
}

// c11ProgramFrames: where the VM evaluates a parsed program (a script file, a view template, an include),
// the variable frame it runs in is made in that very call — the result of a call, or a frame the caller
// handed in — never one read back from a field, a map or a cache: a remembered frame is shared by every
// request that renders the same file at the same time.
func c11ProgramFrames(r *Run) {
	rp := r.pkg("runtime")
	if rp == nil {
		return
	}
	info := rp.TypesInfo
	for _, fd := range funcDecls(rp) {
		if fd.Body == nil {
			continue
		}
		params := map[types.Object]bool{}
		if fd.Type.Params != nil {
			for _, f := range fd.Type.Params.List {
				for _, nm := range f.Names {
					params[info.Defs[nm]] = true
				}
			}
		}
		// every definition of a local: its right-hand sides
		defs := map[types.Object][]ast.Expr{}
		ast.Inspect(fd.Body, func(n ast.Node) bool {
			as, ok := n.(*ast.AssignStmt)
			if !ok {
				return true
			}
			for i, l := range as.Lhs {
				id, ok := l.(*ast.Ident)
				if !ok || id.Name == "_" {
					continue
				}
				o := info.Defs[id]
				if o == nil {
					o = info.Uses[id]
				}
				if o == nil {
					continue
				}
				switch {
				case len(as.Rhs) == len(as.Lhs):
					defs[o] = append(defs[o], as.Rhs[i])
				case len(as.Rhs) == 1:
					defs[o] = append(defs[o], as.Rhs[0])
				}
			}
			return true
		})
		k := 0
		ast.Inspect(fd.Body, func(n ast.Node) bool {
			c, ok := n.(*ast.CallExpr)
			if !ok || len(c.Args) != 1 {
				return true
			}
			se, ok := ast.Unparen(c.Fun).(*ast.SelectorExpr)
			if !ok || se.Sel.Name != "GetValue" || !isNamed(info.TypeOf(se.X), modPath+"/node", "Program") {
				return true
			}
			k++
			key := funcKey(rp, fd) + "#program-frame"
			var fresh func(e ast.Expr, depth int) (bool, string)
			fresh = func(e ast.Expr, depth int) (bool, string) {
				switch x := ast.Unparen(e).(type) {
				case *ast.CallExpr:
					return true, ""
				case *ast.Ident:
					o := info.Uses[x]
					if params[o] {
						return true, ""
					}
					ds := defs[o]
					if len(ds) == 0 || depth > 3 {
						return false, exprStr(e)
					}
					for _, d := range ds {
						if ok, why := fresh(d, depth+1); !ok {
							return false, why
						}
					}
					return true, ""
				}
				return false, exprStr(e)
			}
			if ok, why := fresh(c.Args[0], 0); ok {
				r.ok(key, c.Pos(), "the program is evaluated in a frame made in this call (or handed in by the caller)")
			} else {
				r.bad(key, c.Pos(), "the program is evaluated in a frame read from "+why+", not made for this evaluation: requests that evaluate the same file at the same time share its variables")
			}
			return true
		})
	}
}

// c11Node: no node type writes its own fields while it is evaluated (the AST is shared by every request).
func c11Node(r *Run) {
	r.curRule = "C11-NODE"
	npkg := r.pkg("node")
	if npkg == nil {
		return
	}
	writes, examined := evalClosureFieldWrites(npkg)
	bad := map[string]bool{}
	for _, w := range writes {
		bad[w.typeName] = true
		r.bad("node.("+w.typeName+")#keeps-state:"+w.field, w.pos, "while it is evaluated the node writes its own field "+w.field+" ("+types.TypeString(w.ftype, func(p *types.Package) string { return p.Name() })+"): the same node is evaluated by every concurrent request, so the state is shared between requests (one request's data shows up in another's response, or a data race corrupts it)")
	}
	tns := []string{}
	for tn := range examined {
		tns = append(tns, tn)
	}
	sort.Strings(tns)
	for _, tn := range tns {
		if !bad[tn] {
			r.ok("node.("+tn+")#stateless-under-evaluation", examined[tn], "evaluation methods write no field of the node")
		}
	}
}

// c11CallFrames: wherever the HTTP binding calls into script code (X.Call(ctx)), the frame is made for
// that call — a local all of whose definitions are CreateContext calls — or was handed in as a parameter
// (then the caller is judged). A frame taken from a field, a pool, a channel or a once-initialised slot is
// shared by every request that reaches the call at the same time.
func c11CallFrames(r *Run, hp *packages.Package, skip map[ast.Node]bool) {
	info := hp.TypesInfo
	for _, fd := range funcDecls(hp) {
		if fd.Body == nil {
			continue
		}
		params := map[types.Object]bool{}
		collect := func(ft *ast.FuncType) {
			if ft.Params == nil {
				return
			}
			for _, f := range ft.Params.List {
				for _, nm := range f.Names {
					params[info.Defs[nm]] = true
				}
			}
		}
		collect(fd.Type)
		ast.Inspect(fd.Body, func(n ast.Node) bool {
			if lit, ok := n.(*ast.FuncLit); ok {
				collect(lit.Type)
			}
			return true
		})
		k := 0
		ast.Inspect(fd.Body, func(n ast.Node) bool {
			c, ok := n.(*ast.CallExpr)
			if !ok || len(c.Args) != 1 || skip[c] {
				return true
			}
			se, ok := ast.Unparen(c.Fun).(*ast.SelectorExpr)
			if !ok || se.Sel.Name != "Call" || !isNamed(info.TypeOf(c.Args[0]), modPath+"/data", "Context") {
				return true
			}
			id, ok := ast.Unparen(c.Args[0]).(*ast.Ident)
			if !ok {
				return true
			}
			o := info.Uses[id]
			if o == nil || params[o] {
				return true
			}
			defs, created := 0, 0
			ast.Inspect(fd.Body, func(m ast.Node) bool {
				as, ok := m.(*ast.AssignStmt)
				if !ok || len(as.Lhs) != len(as.Rhs) {
					return true
				}
				for i, l := range as.Lhs {
					lid, ok := l.(*ast.Ident)
					if !ok || (info.Defs[lid] != o && info.Uses[lid] != o) {
						continue
					}
					defs++
					if cc, ok := ast.Unparen(as.Rhs[i]).(*ast.CallExpr); ok {
						if cse, ok := ast.Unparen(cc.Fun).(*ast.SelectorExpr); ok && cse.Sel.Name == "CreateContext" {
							created++
						}
					}
				}
				return true
			})
			if defs == 0 {
				return true // captured from an enclosing scope: judged where it is defined
			}
			k++
			key := fmt.Sprintf("%s#call-frame:%s", funcKey(hp, fd), o.Name())
			if created == defs {
				r.ok(key, c.Pos(), "the script code runs in a frame created for this call")
			} else {
				r.bad(key, c.Pos(), "the script code runs in a frame that is not created for this call (it comes from a field, a pool or a once-initialised slot): requests that reach this call at the same time share its variables")
			}
			return true
		})
	}
}
