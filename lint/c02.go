package main

import (
	"fmt"
	"go/ast"
	"go/token"
	"go/types"
	"sort"
	"strings"

	"golang.org/x/tools/go/packages"
)

func init() {
	// constructs that swallow an operand's control on purpose
	for _, e := range [][2]string{
		{"node.(TryStatement).GetValue#dropped:c", "the pending control of the try/catch part is held across the finally block on purpose and returned after it; a control raised by finally itself replaces it (PHP semantics)"},
		{"node.(TryStatement).GetValue#dropped-at-return:c", "same construct when the finally loop lives in a helper: the exit that returns finally's own control leaves the pending one behind on purpose (PHP semantics)"},
		{"node.(TryStatement).GetValue#swallowed:c", "same construct: the pending control is known non-nil while finally runs, and finally's own control replaces it (PHP semantics)"},
		{"node.(CallMethod).handleFuncValue#discarded:argObj.GetValue", "binds a parameter's default value; default initialisers are constant expressions and raise no loop exit or return"},
		{"node.(ClassMethod).Call#swallowed:ctl", "a failing __toString() during return-type coercion is replaced by the return-type error thrown two lines below"},
		{"node.(CompactStatement).GetValue#swallowed:ctl", "compact() skips names that are not set; the lookup is a variable read, not a statement"},
		{"node.(UnsetStatement).GetValue#swallowed:acl", "unset() of a target that cannot be evaluated is a no-op by language definition (error suppression like isset)"},
		{"node.(FuncYieldStackState).GetReturn#swallowed:ctl", "Generator::getReturn drains the rest of a generator body and ignores non-return controls; generators are outside the program class of C02 (observation recorded in DESIGN.md)"},
		{"node.(UnsetStatement).GetValue#discarded:variable.SetValue", "unset() stores null into a plain variable slot; the store has no script code to run"},
	} {
		assumeSite("C02-CTL", e[0], e[1])
	}
	for _, f := range []string{"key", "value"} {
		assumeSite("C02-FRAME", "node.(YieldFromControl)#keeps-value:"+f, "`yield from` keeps its iteration state in the node that doubles as the control object; generators are outside the program class of C02 (two generators started from one `yield from` site share this state — observation in DESIGN.md)")
	}
	// own-field writes during evaluation that exist on the pinned tree (22 sites, read one by one): any
	// other write of a node's own field while it is being evaluated is reported
	for _, e := range nodeStateTable {
		tf := strings.SplitN(e[0], ".", 2)
		assumeSite("C02-FRAME", "node.("+tf[0]+")#keeps-state:"+tf[1], e[1])
		assumeSite("C11-NODE", "node.("+tf[0]+")#keeps-state:"+tf[1], e[1])
	}
	for _, f := range []string{"key", "value"} {
		assumeSite("C11-NODE", "node.(YieldFromControl)#keeps-state:"+f, "`yield from` keeps its iteration state in the control object of one generator; it is not reached by two requests unless they share a generator")
	}
}

// nodeStateTable: own-field writes during evaluation that exist on the pinned tree (read one by one);
// any other write of a node's own field while it is being evaluated is reported by C02-FRAME and C11-NODE.
var nodeStateTable = [][2]string{
	{"Annotation.class", "resolution cache: the class an annotation name resolves to (same answer for every activation under one VM; the cross-VM caveat is an observation in DESIGN.md)"},
	{"NewExpression.class", "resolution cache of the class named by the `new` expression (as above)"},
	{"NewClassGenerated.class", "resolution cache of the generated class (as above)"},
	{"CallLater.Fun", "resolution cache of a function looked up by name on first call (observation in DESIGN.md: a base-VM function first run on a TempVM keeps that TempVM's resolution)"},
	{"CallLater.FunName", "normalised name stored together with the resolution cache"},
	{"CallFunctionLater.Fun", "resolution cache of a function looked up by name on first call"},
	{"CallStaticMethodLater.call", "the static-call node is built once from the parsed names and reused; it holds no run-time value"},
	{"CallStaticPropertyLater.access", "the static-access node is built once from the parsed names and reused"},
	{"ClassMethod.staticLocals", "lazily created store of the method's `static` locals: per declaration by definition of `static`"},
	{"FunctionStatement.staticLocals", "lazily created store of the function's `static` locals: per declaration by definition of `static`"},
	{"ClassProperty.DefaultValue", "a constant default expression is folded once into its value"},
	{"ForYieldControl.BodyIndex", "a per-activation generator control object, not an AST node"},
	{"ForYieldControl.Value", "a per-activation generator control object, not an AST node"},
	{"ForeachArrayYieldControl.ArrayIndex", "a per-activation generator control object, not an AST node"},
	{"ForeachArrayYieldControl.BodyIndex", "a per-activation generator control object, not an AST node"},
	{"ForeachArrayYieldControl.Value", "a per-activation generator control object, not an AST node"},
}

func init() {
	register(&PropDef{
		ID:          "C02",
		Patterns:    []string{"./node", "./data", "./runtime", "./parser"},
		Explanation: "Non-local control flow is carried by data.Control values returned next to every evaluation result. 'Every loop exit and return transfers control to exactly the construct it names' needs, structurally: (CTL) a control returned by a child evaluation is never dropped — before the next child is evaluated, before the variable is overwritten and before the function returns without it, the control must have been tested, returned, or handed to another function; (CONT) in every loop node the continue arm leaves the loop over the body statements, so the rest of the iteration is skipped; (OWN) the break arm of a loop returns a nil control (the break is consumed here, not in the caller's loop), and function-like nodes consume a ReturnControl by returning its value with a nil control; (LEVEL) the level stored by `break N` / `continue N` is read by some loop; (CTX) CreateContext gives every call a freshly allocated variable vector. What programs print is not decided.",
		Assumptions: []string{
			"a control is 'handled' when it is compared with nil, type-tested, returned, or passed as an argument",
			"statement loops are ranges over a []data.GetValue field of the node",
		},
		Rules: []RuleDef{
			{Name: "C02-CONT", Floor: 3, Doc: "in each loop node, the continue arm never proceeds to the next body statement of the same iteration", Run: c02Run},
			{Name: "C02-OWN", Floor: 3, Doc: "a loop's break arm and a function's return arm hand back a nil control", Run: nop},
			{Name: "C02-CTL", Floor: 150, Doc: "a control returned by a child evaluation is tested, returned or passed on before the next evaluation, before it is overwritten and before the function returns", Run: nop},
			{Name: "C02-FALL", Floor: 1, Doc: "switch: a case block that ends without a control is followed by the next block (the block evaluation sits in a loop over the cases and is not followed by an unconditional return)", Run: nop},
			{Name: "C02-LEVEL", Floor: 2, Doc: "the level of break N / continue N is read by the loop nodes", Run: nop},
			{Name: "C02-FRAME", Floor: 78, Doc: "evaluation methods of AST nodes keep no run-time values (data.Value, cells, contexts) in the node: a node is shared by every activation that reaches it, recursive ones included", Run: nop},
			{Name: "C02-ORDER", Floor: 0, Doc: "branches of multi-way statements (match arms, switch cases, elseif branches, catch clauses) are picked by index only inside the loop that walks them in source order", Run: nop},
			{Name: "C02-BUILD", Floor: 100, Doc: "node constructors keep every child (expression, statement list, branch list) they are given: no child parameter is replaced or ignored before the node is built", Run: nop},
			{Name: "C02-CTX", Floor: 1, Doc: "Context.CreateContext allocates a fresh variable vector for every call", Run: nop},
		},
	})
}

type c02State struct {
	contPending  bool
	contNoCond   bool                  // a continue was taken and the loop's per-iteration condition has not been evaluated since
	contLoop     *ast.RangeStmt        // … in the body run by this statement loop
	contSrc      map[types.Object]bool // the control variable(s) found to hold the continue (tested variable, type-switch binding)
	breakPending bool
	breakCond    bool                          // a condition was evaluated inside the break arm (e.g. a level test)
	breakRoot    ast.Expr                      // the if-condition that established the break arm
	okOf         map[types.Object]string       // ok-variable → control kind it proves ("Break", "Continue", "Return")
	okSrc        map[types.Object]types.Object // ok-variable → the control variable that was asserted
	unchecked    map[types.Object]token.Pos
	nonNil       map[types.Object]token.Pos // control variables known non-nil and not yet consumed
}

func (s *c02State) clone() *c02State {
	n := &c02State{contPending: s.contPending, contNoCond: s.contNoCond, contLoop: s.contLoop, contSrc: s.contSrc, breakPending: s.breakPending, breakCond: s.breakCond, breakRoot: s.breakRoot, okOf: map[types.Object]string{}, okSrc: map[types.Object]types.Object{}, unchecked: map[types.Object]token.Pos{}, nonNil: map[types.Object]token.Pos{}}
	for k, v := range s.okSrc {
		n.okSrc[k] = v
	}
	for k, v := range s.nonNil {
		n.nonNil[k] = v
	}
	for k, v := range s.okOf {
		n.okOf[k] = v
	}
	for k, v := range s.unchecked {
		n.unchecked[k] = v
	}
	return n
}

func controlKind(t types.Type) string {
	for _, k := range []string{"BreakControl", "ContinueControl", "ReturnControl"} {
		if isNamed(t, modPath+"/data", k) {
			return strings.TrimSuffix(k, "Control")
		}
	}
	return ""
}

func c02Run(r *Run) {
	npkg := r.pkg("node")
	if npkg == nil {
		return
	}
	info := npkg.TypesInfo
	isControl := func(t types.Type) bool { return t != nil && isNamed(t, modPath+"/data", "Control") }
	isStmtList := func(t types.Type) bool {
		sl, ok := t.Underlying().(*types.Slice)
		return ok && isNamed(sl.Elem(), modPath+"/data", "GetValue")
	}
	objOf := func(e ast.Expr) types.Object {
		if id, ok := ast.Unparen(e).(*ast.Ident); ok {
			if o := info.Defs[id]; o != nil {
				return o
			}
			return info.Uses[id]
		}
		return nil
	}

	// the package has a level reducer for breaks (a function from a break control to the control the
	// enclosing construct must see): then a loop that consumes a break hands it to the reducer or tests
	// the level itself
	haveBreakReducer := false
	for _, fd := range funcDecls(npkg) {
		if fd.Recv == nil && fd.Type.Params != nil && len(fd.Type.Params.List) == 1 && fd.Type.Results != nil && len(fd.Type.Results.List) == 1 {
			if controlKind(info.TypeOf(fd.Type.Params.List[0].Type)) == "Break" && isControl(info.TypeOf(fd.Type.Results.List[0].Type)) {
				haveBreakReducer = true
			}
		}
	}
	haveContReducer := false
	for _, fd := range funcDecls(npkg) {
		if fd.Recv == nil && fd.Type.Params != nil && len(fd.Type.Params.List) == 1 && fd.Type.Results != nil && len(fd.Type.Results.List) == 1 {
			if controlKind(info.TypeOf(fd.Type.Params.List[0].Type)) == "Continue" && isControl(info.TypeOf(fd.Type.Results.List[0].Type)) {
				haveContReducer = true
			}
		}
	}
	declOf := map[*types.Func]*ast.FuncDecl{}
	for _, p := range r.ByPath {
		for _, fd := range funcDecls(p) {
			if f, ok := p.TypesInfo.Defs[fd.Name].(*types.Func); ok {
				declOf[f] = fd
			}
		}
	}
	type finding struct {
		rule, key, msg string
		pos            token.Pos
		ok             bool
	}
	var all []finding
	for _, fd := range funcDecls(npkg) {
		fk := funcKey(npkg, fd)
		// quick filter: function mentions data.Control
		hasCtl := false
		ast.Inspect(fd, func(n ast.Node) bool {
			if e, ok := n.(ast.Expr); ok {
				if tv, ok := info.Types[e]; ok && isControl(tv.Type) {
					hasCtl = true
				}
			}
			return !hasCtl
		})
		if !hasCtl {
			continue
		}
		// statement loops: range over a []data.GetValue that is a field of the receiver / a node
		stmtLoops := map[*ast.RangeStmt]bool{}
		ast.Inspect(fd.Body, func(n ast.Node) bool {
			if rs, ok := n.(*ast.RangeStmt); ok && isStmtList(info.TypeOf(rs.X)) {
				stmtLoops[rs] = true
			}
			return true
		})
		// the loop's per-iteration condition: evaluations of a child held in a field of the receiver
		// (u.Condition.GetValue(ctx), also the increment of a for) that sit inside the Go loop which
		// encloses the statement loop — what `continue` must still reach before the next iteration
		condEvals := map[*ast.CallExpr]bool{}
		perIteration := map[*ast.RangeStmt]bool{}
		var recvObj types.Object
		if fd.Recv != nil && len(fd.Recv.List) == 1 && len(fd.Recv.List[0].Names) == 1 {
			recvObj = info.Defs[fd.Recv.List[0].Names[0]]
		}
		isCondField := func(e ast.Expr) bool {
			se, ok := ast.Unparen(e).(*ast.SelectorExpr)
			if !ok || recvObj == nil {
				return false
			}
			id, ok := ast.Unparen(se.X).(*ast.Ident)
			if !ok || info.Uses[id] != recvObj {
				return false
			}
			return isNamed(info.TypeOf(se), modPath+"/data", "GetValue")
		}
		mentionsCondField := func(e ast.Expr) bool {
			found := false
			ast.Inspect(e, func(n ast.Node) bool {
				if x, ok := n.(ast.Expr); ok && isCondField(x) {
					found = true
				}
				return !found
			})
			return found
		}
		ast.Inspect(fd.Body, func(n ast.Node) bool {
			fs, ok := n.(*ast.ForStmt)
			if !ok {
				return true
			}
			var inner []*ast.RangeStmt
			var evals []*ast.CallExpr
			ast.Inspect(fs.Body, func(m ast.Node) bool {
				switch x := m.(type) {
				case *ast.FuncLit:
					return false
				case *ast.RangeStmt:
					if stmtLoops[x] {
						inner = append(inner, x)
					}
				case *ast.CallExpr:
					if se, ok := ast.Unparen(x.Fun).(*ast.SelectorExpr); ok && se.Sel.Name == "GetValue" && isCondField(se.X) {
						evals = append(evals, x)
					}
				}
				return true
			})
			if fs.Cond != nil {
				ast.Inspect(fs.Cond, func(m ast.Node) bool {
					if x, ok := m.(*ast.CallExpr); ok {
						if se, ok := ast.Unparen(x.Fun).(*ast.SelectorExpr); ok && se.Sel.Name == "GetValue" && isCondField(se.X) {
							evals = append(evals, x)
						}
					}
					return true
				})
			}
			if len(inner) > 0 && len(evals) > 0 {
				for _, rs := range inner {
					perIteration[rs] = true
				}
				for _, c := range evals {
					condEvals[c] = true
				}
			}
			return true
		})
		var fs []finding
		rec := func(rule, key string, pos token.Pos, ok bool, msg string) {
			for i := range fs {
				if fs[i].rule == rule && fs[i].pos == pos && fs[i].key == fk+"#"+key {
					if !ok {
						fs[i].ok = false
						fs[i].msg = msg
					}
					return
				}
			}
			fs = append(fs, finding{rule, fk + "#" + key, msg, pos, ok})
		}
		ctlResult := func(c *ast.CallExpr) *types.Func {
			cal, ok := calleeOf(info, c).(*types.Func)
			if !ok {
				return nil
			}
			sig := cal.Type().(*types.Signature)
			if sig.Results().Len() < 1 || !isControl(sig.Results().At(sig.Results().Len()-1).Type()) {
				return nil
			}
			return cal
		}
		// isSource: a call whose last result is a control raised by evaluating script code.
		// Methods of the Context interfaces are variable lookups, not evaluations.
		isSource := func(c *ast.CallExpr) bool {
			cal := ctlResult(c)
			if cal == nil {
				return false
			}
			if recv := cal.Type().(*types.Signature).Recv(); recv != nil {
				if nt := namedOf(recv.Type()); nt != nil && nt.Obj().Name() == "Context" {
					return false
				}
			}
			return true
		}
		isChildEval := func(c *ast.CallExpr) bool {
			cal := ctlResult(c)
			if cal == nil || !isSource(c) {
				return false
			}
			return cal.Name() == "GetValue" || cal.Name() == "Call" || cal.Name() == "SetValue" || cal.Name() == "GetZVal"
		}
		neverControls := func(c *ast.CallExpr) bool {
			cal := ctlResult(c)
			if cal == nil {
				return true
			}
			d := declOf[cal]
			if d == nil || d.Body == nil {
				return false
			}
			never := true
			ast.Inspect(d.Body, func(n ast.Node) bool {
				switch x := n.(type) {
				case *ast.FuncLit:
					return false
				case *ast.ReturnStmt:
					if len(x.Results) == 0 || exprStr(x.Results[len(x.Results)-1]) != "nil" {
						never = false
					}
				}
				return true
			})
			return never
		}
		// statement containers: methods of node types that hold child statement/expression lists.
		// Only there is "tested but not handed on" a loss of a loop exit or return; expression
		// helpers such as isset/empty/@ suppress errors on purpose.
		container := false
		if fd.Recv != nil && len(fd.Recv.List) > 0 {
			container = holdsChildren(info.TypeOf(fd.Recv.List[0].Type), isStmtList, 0)
		}
		for rs := range stmtLoops {
			if id, ok := ast.Unparen(rs.X).(*ast.Ident); ok {
				if v, ok := info.Uses[id].(*types.Var); ok && v.Parent() == info.Scopes[fd.Type] {
					container = true // a helper that runs a statement list handed to it as a parameter
				}
			}
		}
		// reducer: a function of this module that returns nil or a freshly built control, never one
		// of its parameters (nor a value type-asserted from one).
		reducer := func(c *ast.CallExpr) bool {
			cal := ctlResult(c)
			if cal == nil {
				return false
			}
			d := declOf[cal]
			if d == nil || d.Body == nil || d.Recv != nil {
				return false
			}
			fresh := true
			ast.Inspect(d.Body, func(n ast.Node) bool {
				if rs, ok := n.(*ast.ReturnStmt); ok {
					for _, res := range rs.Results {
						switch x := ast.Unparen(res).(type) {
						case *ast.UnaryExpr:
							if _, ok := x.X.(*ast.CompositeLit); !ok || x.Op != token.AND {
								fresh = false
							}
						case *ast.Ident:
							if x.Name != "nil" {
								fresh = false
							}
						default:
							fresh = false
						}
					}
				}
				return true
			})
			return fresh
		}
		tracked := map[types.Object]bool{}
		contBound := map[types.Object]types.Object{} // ok-variable of `ctrl, ok := c.(Kind)` → ctrl
		// classification results: `kind, ctl := classify(c)` — testing kind is how ctl is looked at
		sibling := map[types.Object]types.Object{}
		ast.Inspect(fd.Body, func(n ast.Node) bool {
			if as, ok := n.(*ast.AssignStmt); ok && len(as.Rhs) == 1 {
				if c, ok := ast.Unparen(as.Rhs[0]).(*ast.CallExpr); ok && isSource(c) {
					if o := objOf(as.Lhs[len(as.Lhs)-1]); o != nil {
						tracked[o] = true
						if len(as.Lhs) > 1 && !isChildEval(c) {
							for _, l := range as.Lhs[:len(as.Lhs)-1] {
								if so := objOf(l); so != nil {
									if bt, ok := so.Type().Underlying().(*types.Basic); ok && bt.Info()&(types.IsInteger|types.IsBoolean|types.IsString) != 0 {
										sibling[so] = o
									}
								}
							}
						}
					}
				}
			}
			return true
		})
		// position of the control among the results of this function
		ctlIdx, nResults := -1, 0
		if sig, ok := info.Defs[fd.Name].Type().(*types.Signature); ok {
			nResults = sig.Results().Len()
			for i := 0; i < nResults; i++ {
				if isControl(sig.Results().At(i).Type()) {
					ctlIdx = i
				}
			}
		}
		h := &Hooks{Info: info}
		h.Copy = func(s State) State { return s.(*c02State).clone() }
		h.Join = func(a, b State) State {
			x, y := a.(*c02State), b.(*c02State)
			n := x.clone()
			n.contPending = x.contPending || y.contPending
			n.contNoCond = x.contNoCond || y.contNoCond
			if n.contLoop == nil {
				n.contLoop = y.contLoop
			}
			if len(y.contSrc) > 0 {
				m := map[types.Object]bool{}
				for k := range x.contSrc {
					m[k] = true
				}
				for k := range y.contSrc {
					m[k] = true
				}
				n.contSrc = m
			}
			n.breakPending = x.breakPending && y.breakPending
			n.breakCond = x.breakCond || y.breakCond
			for k, v := range y.unchecked {
				if _, ok := n.unchecked[k]; !ok {
					n.unchecked[k] = v
				}
			}
			for k, v := range y.nonNil {
				if _, ok := n.nonNil[k]; !ok {
					n.nonNil[k] = v
				}
			}
			for k, v := range x.okOf {
				if y.okOf[k] != v {
					delete(n.okOf, k)
				}
			}
			return n
		}
		h.Equal = func(a, b State) bool {
			x, y := a.(*c02State), b.(*c02State)
			if x.contPending != y.contPending || x.contNoCond != y.contNoCond || x.breakPending != y.breakPending || x.breakCond != y.breakCond || len(x.unchecked) != len(y.unchecked) || len(x.okOf) != len(y.okOf) || len(x.nonNil) != len(y.nonNil) {
				return false
			}
			for k := range x.unchecked {
				if _, ok := y.unchecked[k]; !ok {
					return false
				}
			}
			for k := range x.nonNil {
				if _, ok := y.nonNil[k]; !ok {
					return false
				}
			}
			return true
		}
		// examine: the control has been looked at (nil test); consume: it has been handed on
		examine := func(s *c02State, e ast.Expr) {
			ast.Inspect(e, func(n ast.Node) bool {
				if id, ok := n.(*ast.Ident); ok {
					delete(s.unchecked, info.Uses[id])
					if sib, ok := sibling[info.Uses[id]]; ok {
						delete(s.unchecked, sib)
					}
				}
				return true
			})
		}
		consume := func(s *c02State, e ast.Expr) {
			ast.Inspect(e, func(n ast.Node) bool {
				if _, ok := n.(*ast.FuncLit); ok {
					return false
				}
				if id, ok := n.(*ast.Ident); ok {
					delete(s.unchecked, info.Uses[id])
					delete(s.nonNil, info.Uses[id])
				}
				return true
			})
		}
		rootOf := map[ast.Expr]ast.Expr{}
		ast.Inspect(fd.Body, func(n ast.Node) bool {
			if is, ok := n.(*ast.IfStmt); ok {
				ast.Inspect(is.Cond, func(m ast.Node) bool {
					if e, ok := m.(ast.Expr); ok {
						rootOf[e] = is.Cond
					}
					return true
				})
			}
			return true
		})
		var curStmtLoop *ast.RangeStmt
		contArmIn := map[*ast.RangeStmt]bool{}
		stmtLoopAt := func(pos token.Pos) *ast.RangeStmt {
			var best *ast.RangeStmt
			for rs := range stmtLoops {
				if pos >= rs.Body.Pos() && pos < rs.Body.End() && (best == nil || rs.Pos() > best.Pos()) {
					best = rs
				}
			}
			return best
		}
		setKind := func(s *c02State, kind string, root ast.Expr) {
			switch kind {
			case "Continue":
				s.contPending = true
				s.contNoCond = true
				s.contLoop = curStmtLoop
				if curStmtLoop != nil {
					contArmIn[curStmtLoop] = true
				}
			case "Break":
				s.breakPending = true
				s.breakCond = false
				s.breakRoot = root
			}
		}
		h.Cond = func(e ast.Expr, truth bool, st State) State {
			s := st.(*c02State)
			examine(s, e)
			if c, ok := ast.Unparen(e).(*ast.CallExpr); ok && !truth && len(c.Args) == 0 {
				if se, ok := ast.Unparen(c.Fun).(*ast.SelectorExpr); ok && se.Sel.Name == "IsContinue" {
					s.contPending, s.contNoCond, s.contSrc = false, false, nil // not a continue after all
				}
			}
			if s.contNoCond && mentionsCondField(e) {
				s.contNoCond = false // `if u.Condition != nil { … }`: a loop without a condition has none to re-test
			}
			if s.breakPending && (rootOf[e] == nil || rootOf[e] != s.breakRoot) && isIntCompare(info, e) {
				// a level test inside the break arm: handing a break on is then conditional
				s.breakCond = true
			}
			switch x := ast.Unparen(e).(type) {
			case *ast.Ident:
				if kind, ok := s.okOf[info.Uses[x]]; ok && truth {
					curStmtLoop = stmtLoopAt(e.Pos())
					setKind(s, kind, rootOf[e])
					if kind == "Continue" {
						s.contSrc = map[types.Object]bool{}
						if src := s.okSrc[info.Uses[x]]; src != nil {
							s.contSrc[src] = true
						}
						if v := contBound[info.Uses[x]]; v != nil {
							s.contSrc[v] = true
						}
					}
				}
				if src, ok := s.okSrc[info.Uses[x]]; ok && truth {
					// where the assertion holds, this kind of control is dealt with by the arm
					delete(s.unchecked, src)
					delete(s.nonNil, src)
				}
			case *ast.BinaryExpr:
				if (x.Op == token.NEQ && truth) || (x.Op == token.EQL && !truth) {
					var side ast.Expr
					if exprStr(x.Y) == "nil" {
						side = x.X
					} else if exprStr(x.X) == "nil" {
						side = x.Y
					}
					if side != nil && isControl(info.TypeOf(side)) {
						if o := objOf(side); o != nil && tracked[o] && container {
							s.nonNil[o] = x.Pos()
						}
					}
				}
			}
			return s
		}
		h.CaseMatch = func(tag, val ast.Expr, truth bool, st State) State {
			examine(st.(*c02State), tag)
			return st
		}
		h.TypeCase = func(x ast.Expr, bind *ast.Ident, cc *ast.CaseClause, st State) State {
			s := st.(*c02State)
			if x != nil {
				examine(s, x)
				if len(cc.List) > 0 {
					// an arm for explicit kinds deals with them; default / no arm leaves the control pending
					consume(s, x)
				}
			}
			for _, t := range cc.List {
				if tv, ok := info.Types[t]; ok && tv.IsType() {
					curStmtLoop = stmtLoopAt(cc.Pos())
					setKind(s, controlKind(tv.Type), nil)
					if controlKind(tv.Type) == "Continue" {
						s.contSrc = map[types.Object]bool{}
						if x != nil {
							if o := objOf(x); o != nil {
								s.contSrc[o] = true
							}
						}
						if o := info.Implicits[cc]; o != nil {
							s.contSrc[o] = true
						}
					}
				}
			}
			return s
		}
		h.Node = func(stm ast.Stmt, st State) {
			s := st.(*c02State)
			if rs, ok := stm.(*ast.RangeStmt); ok && stmtLoops[rs] {
				// entering the statement loop from outside: a new iteration of the construct
				s.contPending = false
				if s.contNoCond && len(condEvals) > 0 && perIteration[rs] && s.contLoop == rs {
					rec("C02-CONT", "condition-after-continue:"+strings.ReplaceAll(exprStr(rs.X), " ", ""), rs.Pos(), false, "after a continue the next iteration of the body starts without the loop's condition having been evaluated: `continue` must go to the condition test (do-while / do-until: the test at the end of the body), not around it")
				} else if len(condEvals) > 0 && perIteration[rs] && contArmIn[rs] {
					rec("C02-CONT", "condition-after-continue:"+strings.ReplaceAll(exprStr(rs.X), " ", ""), rs.Pos(), true, "every way from a continue arm to the next iteration passes the loop's condition")
				}
				if s.contLoop == rs || s.contLoop == nil {
					s.contNoCond = false
				}
			}
		}
		h.LoopHead = func(loop ast.Stmt, st State) State {
			s := st.(*c02State)
			if rs, ok := loop.(*ast.RangeStmt); ok && stmtLoops[rs] && s.contPending {
				rec("C02-CONT", "continue-arm:"+strings.ReplaceAll(exprStr(rs.X), " ", ""), rs.Pos(), false, "after a ContinueControl the loop over the body statements goes on with the next statement: the rest of the iteration is not skipped")
				s.contPending = false
			}
			return s
		}
		h.Visit = func(e ast.Expr, st State) State {
			s := st.(*c02State)
			switch x := e.(type) {
			case *ast.CallExpr:
				if condEvals[x] {
					s.contNoCond = false
				}
				// arguments are handed on
				for _, a := range x.Args {
					consume(s, a)
				}
				if isChildEval(x) && len(s.unchecked) > 0 {
					for o, p := range s.unchecked {
						rec("C02-CTL", "dropped:"+o.Name(), p, false, fmt.Sprintf("the control returned into %s is not tested, returned or passed on before the next evaluation (%s): code after a break/return/throw keeps running", o.Name(), exprStr(x.Fun)))
						delete(s.unchecked, o)
					}
				}
			case *ast.TypeAssertExpr:
				examine(s, x.X)
			case *ast.CompositeLit:
				consume(s, x)
			}
			return s
		}
		h.Stmt = func(stm ast.Stmt, st State) State {
			s := st.(*c02State)
			switch x := stm.(type) {
			case *ast.AssignStmt:
				// comma-ok type assertion to a control kind
				if len(x.Lhs) == 2 && len(x.Rhs) == 1 {
					if ta, ok := ast.Unparen(x.Rhs[0]).(*ast.TypeAssertExpr); ok && ta.Type != nil {
						if o := objOf(x.Lhs[1]); o != nil {
							delete(s.okOf, o)
							delete(s.okSrc, o)
							if kind := controlKind(info.TypeOf(ta.Type)); kind != "" {
								s.okOf[o] = kind
							}
							if src := objOf(ta.X); src != nil {
								s.okSrc[o] = src
							}
							if b := objOf(x.Lhs[0]); b != nil {
								contBound[o] = b
							}
						}
					}
				}
				// plain copies / other assignments mentioning a control hand it on
				allBlank := true
				for _, l := range x.Lhs {
					if id, ok := l.(*ast.Ident); !ok || id.Name != "_" {
						allBlank = false
					}
				}
				for _, rhs := range x.Rhs {
					if _, isCall := ast.Unparen(rhs).(*ast.CallExpr); !isCall && !allBlank {
						if _, isTA := ast.Unparen(rhs).(*ast.TypeAssertExpr); isTA {
							continue // a comma-ok assertion hands the control on only where ok holds
						}
						consume(s, rhs)
					}
				}
				// results of child evaluations
				if len(x.Rhs) == 1 {
					if c, ok := ast.Unparen(x.Rhs[0]).(*ast.CallExpr); ok && isSource(c) {
						l := x.Lhs[len(x.Lhs)-1]
						if id, ok := l.(*ast.Ident); ok {
							if id.Name == "_" {
								if !neverControls(c) && container && isChildEval(c) {
									rec("C02-CTL", "discarded:"+strings.ReplaceAll(exprStr(c.Fun), " ", ""), c.Pos(), false, "the control result of "+exprStr(c.Fun)+" is discarded with _: a break/return/throw raised inside is silently lost")
								}
							} else if o := objOf(id); o != nil {
								if p, pending := s.unchecked[o]; pending {
									rec("C02-CTL", "overwritten:"+o.Name(), p, false, "the control in "+o.Name()+" is overwritten by another evaluation before it was examined")
								}
								if p, pending := s.nonNil[o]; pending {
									rec("C02-CTL", "swallowed:"+o.Name(), p, false, "the control in "+o.Name()+" is known to be non-nil here and is overwritten without having been returned or passed on: a break/return/throw is swallowed")
									delete(s.nonNil, o)
								}
								s.unchecked[o] = c.Pos()
								s.breakPending = false
								rec("C02-CTL", "examined:"+o.Name(), c.Pos(), true, "control result examined before the next evaluation and handed on when non-nil")
							}
						}
					}
				}
			case *ast.ExprStmt:
				if c, ok := ast.Unparen(x.X).(*ast.CallExpr); ok && isChildEval(c) && container && !neverControls(c) {
					rec("C02-CTL", "discarded:"+strings.ReplaceAll(exprStr(c.Fun), " ", ""), c.Pos(), false, "the results of "+exprStr(c.Fun)+" are not used at all: a break/return/throw raised inside is silently lost")
				}
			}
			return s
		}
		atExit := func(s *c02State, pos token.Pos) {
			for o, p := range s.unchecked {
				rec("C02-CTL", "dropped-at-return:"+o.Name(), p, false, fmt.Sprintf("the function returns without the control held in %s having been tested or returned", o.Name()))
			}
			for o, p := range s.nonNil {
				rec("C02-CTL", "swallowed:"+o.Name(), p, false, fmt.Sprintf("the control in %s is known to be non-nil at this test, and a path from here leaves the function (line %d) without returning it or passing it on: a break/return/throw is swallowed", o.Name(), r.Fset.Position(pos).Line))
			}
		}
		h.Return = func(rs *ast.ReturnStmt, st State) {
			s := st.(*c02State)
			for _, res := range rs.Results {
				consume(s, res)
			}
			// the exit hands back a freshly built error throw (data.NewErrorThrow(…), utils.NewThrowf(…)): a
			// control known to be non-nil is replaced by an error the caller still sees, not silently lost
			for _, res := range rs.Results {
				if c, ok := ast.Unparen(res).(*ast.CallExpr); ok {
					if cal := calleeFunc(info, c); cal != nil && cal.Pkg() != nil && strings.HasPrefix(cal.Pkg().Path(), modPath) {
						sig := cal.Type().(*types.Signature)
						if sig.Recv() == nil && sig.Results().Len() == 1 && (isControl(sig.Results().At(0).Type()) || controlKind(sig.Results().At(0).Type()) != "" || isNamed(sig.Results().At(0).Type(), modPath+"/data", "ThrowValue")) && strings.Contains(cal.Name(), "Throw") {
							for o := range s.nonNil {
								delete(s.nonNil, o)
							}
						}
					}
				}
			}
			if len(rs.Results) == 0 && fd.Type.Results != nil {
				for _, f := range fd.Type.Results.List {
					for _, nm := range f.Names {
						delete(s.unchecked, info.Defs[nm])
						delete(s.nonNil, info.Defs[nm])
					}
				}
			}
			atExit(s, rs.Pos())
			// OWN: a continue the loop has recognised leaves it reduced by one level (or not at all): handing
			// back the very control that was tested makes `continue 2` continue one loop too far
			if s.contPending && len(s.contSrc) > 0 && haveContReducer && ctlIdx >= 0 && ctlIdx < len(rs.Results) && len(rs.Results) == nResults && len(stmtLoops) > 0 {
				last := rs.Results[ctlIdx]
				handsBack := false
				if c, ok := ast.Unparen(last).(*ast.CallExpr); !ok || !reducer(c) {
					ast.Inspect(last, func(n ast.Node) bool {
						if id, ok := n.(*ast.Ident); ok && s.contSrc[info.Uses[id]] {
							handsBack = true
						}
						return true
					})
				}
				if handsBack {
					rec("C02-OWN", "consumes:continue", rs.Pos(), false, "a control this loop has recognised as a continue is handed back as it is ("+exprStr(last)+"): its level is not reduced, so `continue 2` continues one loop too far")
				}
			}
			// OWN: on the break arm the control handed back must be nil
			if s.breakPending && ctlIdx >= 0 && ctlIdx < len(rs.Results) && len(rs.Results) == nResults {
				last := rs.Results[ctlIdx]
				if exprStr(last) == "nil" && !s.breakCond && haveBreakReducer && !isGeneratorState(npkg, fd) {
					rec("C02-OWN", "consumes:break", rs.Pos(), false, "the break is consumed here without its level having been looked at (no level test on this arm, and the control is not handed to the level reducer): `break 2` ends only this loop and the enclosing loop keeps running")
				} else if exprStr(last) == "nil" {
					rec("C02-OWN", "consumes:break", rs.Pos(), true, "the break is consumed here: nil control handed back")
				} else if c, ok := ast.Unparen(last).(*ast.CallExpr); ok && reducer(c) {
					rec("C02-OWN", "consumes:break", rs.Pos(), true, "one level of the break is consumed here: "+exprStr(c.Fun)+" hands back nil or a new control, never the break it was given")
				} else if t := info.TypeOf(last); t != nil && (isControl(t) || controlKind(t) != "") && !s.breakCond {
					rec("C02-OWN", "consumes:break", rs.Pos(), false, "on the break arm the loop unconditionally returns a non-nil control ("+exprStr(last)+"): the break also terminates the enclosing loop")
				}
			}
		}
		h.End = func(st State) { atExit(st.(*c02State), fd.Body.Rbrace) }
		WalkFunc(h, fd.Body, &c02State{okOf: map[types.Object]string{}, okSrc: map[types.Object]types.Object{}, unchecked: map[types.Object]token.Pos{}, nonNil: map[types.Object]token.Pos{}})
		// CONT obligations: one per statement loop in functions that test ContinueControl
		testsContinue := false
		ast.Inspect(fd.Body, func(n ast.Node) bool {
			if e, ok := n.(ast.Expr); ok {
				if tv, ok := info.Types[e]; ok && tv.IsType() && controlKind(tv.Type) == "Continue" {
					testsContinue = true
				}
			}
			return true
		})
		if testsContinue {
			loops := []*ast.RangeStmt{}
			for rs := range stmtLoops {
				loops = append(loops, rs)
			}
			sort.Slice(loops, func(i, j int) bool { return loops[i].Pos() < loops[j].Pos() })
			for _, rs := range loops {
				key := "continue-arm:" + strings.ReplaceAll(exprStr(rs.X), " ", "")
				bad := false
				for _, f := range fs {
					if f.rule == "C02-CONT" && f.pos == rs.Pos() && strings.Contains(f.key, "#continue-arm:") {
						bad = true
					}
				}
				if !bad {
					// only loops whose body contains the continue test
					inside := false
					ast.Inspect(rs.Body, func(n ast.Node) bool {
						if e, ok := n.(ast.Expr); ok {
							if tv, ok := info.Types[e]; ok && tv.IsType() && controlKind(tv.Type) == "Continue" {
								inside = true
							}
						}
						return true
					})
					if inside {
						fs = append(fs, finding{"C02-CONT", fk + "#" + key, "the continue arm leaves the loop over the body statements", rs.Pos(), true})
					}
				}
			}
		}
		all = append(all, fs...)
	}
	sort.SliceStable(all, func(i, j int) bool { return all[i].pos < all[j].pos })
	for _, f := range all {
		r.curRule = f.rule
		if f.ok {
			r.ok(f.key, f.pos, f.msg)
		} else {
			r.bad(f.key, f.pos, f.msg)
		}
	}
	c02Fall(r, npkg)
	c02Frame(r, npkg)
	c02Build(r, npkg)
	c02Order(r, npkg)
	c02Level(r, npkg)
	c02Reducers(r, npkg)
	c02Ctx(r)
}

func c02Level(r *Run, npkg *packages.Package) {
	r.curRule = "C02-LEVEL"
	info := npkg.TypesInfo
	for _, tn := range []string{"BreakStatement", "ContinueStatement"} {
		nt := r.lookupType(npkg, tn)
		if nt == nil {
			continue
		}
		st, ok := nt.Underlying().(*types.Struct)
		if !ok {
			continue
		}
		var lvl *types.Var
		for i := 0; i < st.NumFields(); i++ {
			if strings.EqualFold(st.Field(i).Name(), "level") {
				lvl = st.Field(i)
			}
		}
		key := "node." + tn + "#level"
		if lvl == nil {
			r.bad(key, nt.Obj().Pos(), tn+" carries no level: `"+strings.ToLower(strings.TrimSuffix(tn, "Statement"))+" N` cannot name the N-th enclosing loop")
			continue
		}
		reads := 0
		for _, fd := range funcDecls(npkg) {
			ast.Inspect(fd.Body, func(n ast.Node) bool {
				if se, ok := n.(*ast.SelectorExpr); ok {
					if s, ok := info.Selections[se]; ok && s.Obj() == lvl {
						reads++
					}
				}
				return true
			})
		}
		// composite-literal keys and assignments are writes; count reads only outside constructors
		if reads > 0 {
			r.ok(key, lvl.Pos(), fmt.Sprintf("the level is read (%d uses)", reads))
			c02ParserLevel(r, nt, tn)
		} else {
			r.bad(key, lvl.Pos(), "the parser stores the level of `"+strings.ToLower(strings.TrimSuffix(tn, "Statement"))+" N` but no loop node ever reads it: it behaves like level 1")
		}
	}
}

// c02Reducers: functions that turn a break/continue control into what the enclosing construct must
// see (parameter data.BreakControl / data.ContinueControl, result data.Control) hand back nil or a
// control whose level is exactly one less.
func c02Reducers(r *Run, npkg *packages.Package) {
	r.curRule = "C02-LEVEL"
	info := npkg.TypesInfo
	levelMinusOne := func(e ast.Expr, base string) bool {
		be, ok := ast.Unparen(e).(*ast.BinaryExpr)
		if !ok || be.Op != token.SUB || exprStr(be.Y) != "1" {
			return false
		}
		se, ok := ast.Unparen(be.X).(*ast.SelectorExpr)
		if !ok || !strings.EqualFold(se.Sel.Name, "level") {
			return false
		}
		return base == "" || exprStr(se.X) == base
	}
	freshReduced := func(e ast.Expr, base string) bool {
		ue, ok := ast.Unparen(e).(*ast.UnaryExpr)
		if !ok || ue.Op != token.AND {
			return false
		}
		cl, ok := ue.X.(*ast.CompositeLit)
		if !ok {
			return false
		}
		for _, el := range cl.Elts {
			if kv, ok := el.(*ast.KeyValueExpr); ok && strings.EqualFold(exprStr(kv.Key), "level") {
				return levelMinusOne(kv.Value, base)
			}
		}
		return false
	}
	for _, fd := range funcDecls(npkg) {
		if fd.Recv != nil || fd.Type.Params == nil || len(fd.Type.Params.List) != 1 || fd.Type.Results == nil || len(fd.Type.Results.List) != 1 {
			continue
		}
		pt := info.TypeOf(fd.Type.Params.List[0].Type)
		if controlKind(pt) != "Break" && controlKind(pt) != "Continue" {
			continue
		}
		if !isNamed(info.TypeOf(fd.Type.Results.List[0].Type), modPath+"/data", "Control") {
			continue
		}
		key := funcKey(npkg, fd) + "#reduces-level-by-one"
		okAll, n := true, 0
		why := ""
		ast.Inspect(fd.Body, func(m ast.Node) bool {
			rs, ok := m.(*ast.ReturnStmt)
			if !ok || len(rs.Results) != 1 {
				return true
			}
			n++
			res := ast.Unparen(rs.Results[0])
			switch {
			case exprStr(res) == "nil":
			case freshReduced(res, ""):
			default:
				// a remembered control: p.f — every store into f must build Level: X.Level - 1 for the same X
				se, isSel := res.(*ast.SelectorExpr)
				good := false
				if isSel {
					if sel, ok := info.Selections[se]; ok && sel.Kind() == types.FieldVal {
						fld := sel.Obj()
						stores, fine := 0, true
						for _, f2 := range funcDecls(npkg) {
							ast.Inspect(f2.Body, func(k ast.Node) bool {
								as, ok := k.(*ast.AssignStmt)
								if !ok {
									return true
								}
								for i, l := range as.Lhs {
									ls, ok := ast.Unparen(l).(*ast.SelectorExpr)
									if !ok {
										continue
									}
									if s2, ok := info.Selections[ls]; !ok || s2.Obj() != fld {
										continue
									}
									stores++
									if i >= len(as.Rhs) || !freshReduced(as.Rhs[i], exprStr(ls.X)) {
										fine = false
									}
								}
								return true
							})
						}
						good = stores > 0 && fine
					}
				}
				if !good {
					okAll = false
					why = exprStr(res)
				}
			}
			return true
		})
		if n == 0 {
			continue
		}
		if okAll {
			r.ok(key, fd.Pos(), "hands back nil or a control whose level is the received level minus one")
		} else {
			r.bad(key, fd.Pos(), "returns "+why+", which is not provably a control of level-1 (neither nil, nor &T{Level: x.Level - 1}, nor a field every store of which builds X.Level - 1): `break N` / `continue N` may unwind the wrong number of constructs")
		}
	}
}

func c02Ctx(r *Run) {
	r.curRule = "C02-CTX"
	rp := r.pkg("runtime")
	if rp == nil {
		return
	}
	info := rp.TypesInfo
	fd := findFunc(rp, "Context", "CreateContext")
	if fd == nil {
		r.fail("anchor not found: (*runtime.Context).CreateContext")
		return
	}
	key := funcKey(rp, fd) + "#fresh-variables"
	recv := info.Defs[fd.Recv.List[0].Names[0]]
	fresh, aliased := false, false
	ast.Inspect(fd.Body, func(n ast.Node) bool {
		kv, ok := n.(*ast.KeyValueExpr)
		if !ok || exprStr(kv.Key) != "variables" {
			return true
		}
		if c, ok := ast.Unparen(kv.Value).(*ast.CallExpr); ok {
			fresh = true
			_ = c
		}
		ast.Inspect(kv.Value, func(m ast.Node) bool {
			if se, ok := m.(*ast.SelectorExpr); ok {
				if id, ok := ast.Unparen(se.X).(*ast.Ident); ok && info.Uses[id] == recv && se.Sel.Name == "variables" {
					aliased = true
				}
			}
			return true
		})
		return true
	})
	if fresh && !aliased {
		r.ok(key, fd.Pos(), "the new context's variable vector is allocated by a call and does not alias the receiver's")
	} else {
		r.bad(key, fd.Pos(), "CreateContext does not allocate a fresh variable vector (it reuses the receiver's): locals of one call are visible to another")
	}
}

// holdsChildren: t (a node struct, possibly behind a pointer) has a field that is a list of child
// nodes, directly or inside a slice of structs (switch cases, catch blocks).
func holdsChildren(t types.Type, isList func(types.Type) bool, depth int) bool {
	if p, ok := t.(*types.Pointer); ok {
		t = p.Elem()
	}
	st, ok := t.Underlying().(*types.Struct)
	if !ok || depth > 2 {
		return false
	}
	for i := 0; i < st.NumFields(); i++ {
		ft := st.Field(i).Type()
		if isList(ft) {
			return true
		}
		if sl, ok := ft.Underlying().(*types.Slice); ok {
			if holdsChildren(sl.Elem(), isList, depth+1) {
				return true
			}
		}
	}
	return false
}

// c02ParserLevel: the parser builds the statement through a constructor call that receives a
// non-constant int (the parsed N).
func c02ParserLevel(r *Run, nt *types.Named, tn string) {
	pp := r.pkg("parser")
	if pp == nil {
		return
	}
	info := pp.TypesInfo
	key := "parser#" + tn + "-level-from-source"
	found, withLevel := token.NoPos, false
	for _, fd := range funcDecls(pp) {
		ast.Inspect(fd.Body, func(n ast.Node) bool {
			c, ok := n.(*ast.CallExpr)
			if !ok {
				return true
			}
			t := info.TypeOf(c)
			if t == nil || namedOf(t) != nt {
				return true
			}
			found = c.Pos()
			for _, a := range c.Args {
				tv := info.Types[a]
				if b, ok := tv.Type.Underlying().(*types.Basic); ok && b.Info()&types.IsInteger != 0 && tv.Value == nil {
					withLevel = true
				}
			}
			return true
		})
	}
	switch {
	case !found.IsValid():
		r.fail("no parser call constructs node.%s", tn)
	case withLevel:
		r.ok(key, found, "the parser passes the parsed level to the node constructor")
	default:
		r.bad(key, found, "the parser constructs "+tn+" without a level taken from the source: N is ignored")
	}
}

func isIntCompare(info *types.Info, e ast.Expr) bool {
	b, ok := ast.Unparen(e).(*ast.BinaryExpr)
	if !ok {
		return false
	}
	switch b.Op {
	case token.LSS, token.GTR, token.LEQ, token.GEQ, token.EQL, token.NEQ:
	default:
		return false
	}
	t := info.TypeOf(b.X)
	if t == nil {
		return false
	}
	bt, ok := t.Underlying().(*types.Basic)
	return ok && bt.Info()&types.IsInteger != 0
}

// c02Fall: in SwitchStatement.GetValue every evaluation of a case's statements is inside a loop and
// no unconditional return follows it in its block.
func c02Fall(r *Run, npkg *packages.Package) {
	r.curRule = "C02-FALL"
	info := npkg.TypesInfo
	fd := findFunc(npkg, "SwitchStatement", "GetValue")
	if fd == nil {
		r.fail("anchor not found: (*node.SwitchStatement).GetValue")
		return
	}
	sc := r.lookupType(npkg, "SwitchCase")
	if sc == nil {
		return
	}
	// an evaluation of a case block: a call that receives <case>.Statements, or <case>.GetValue(...)
	isCaseEval := func(c *ast.CallExpr) bool {
		if se, ok := ast.Unparen(c.Fun).(*ast.SelectorExpr); ok && se.Sel.Name == "GetValue" && namedOf(info.TypeOf(se.X)) == sc {
			return true
		}
		for _, a := range c.Args {
			if se, ok := ast.Unparen(a).(*ast.SelectorExpr); ok && se.Sel.Name == "Statements" && namedOf(info.TypeOf(se.X)) == sc {
				return true
			}
		}
		return false
	}
	n := 0
	key := funcKey(npkg, fd) + "#case-block-evaluation"
	// helpers of the package that GetValue delegates to are walked with the loop state of their call site
	visiting := map[*ast.FuncDecl]bool{fd: true}
	helperOf := func(c *ast.CallExpr) *ast.FuncDecl {
		fn := calleeFunc(info, c)
		if fn == nil || fn.Pkg() != npkg.Types {
			return nil
		}
		hd := declOf(npkg, fn)
		if hd == nil || hd.Body == nil {
			return nil
		}
		return hd
	}
	var reaches func(hd *ast.FuncDecl, depth int) bool
	reachMemo := map[*ast.FuncDecl]bool{}
	reaches = func(hd *ast.FuncDecl, depth int) bool {
		if v, ok := reachMemo[hd]; ok {
			return v
		}
		if depth > 3 {
			return false
		}
		reachMemo[hd] = false
		found := false
		ast.Inspect(hd.Body, func(m ast.Node) bool {
			if c, ok := m.(*ast.CallExpr); ok && !found {
				if isCaseEval(c) {
					found = true
				} else if h := helperOf(c); h != nil && h != hd && reaches(h, depth+1) {
					found = true
				}
			}
			return !found
		})
		reachMemo[hd] = found
		return found
	}
	var walk func(list []ast.Stmt, inLoop bool) bool
	var walkStmt func(st ast.Stmt, inLoop bool) bool
	// walk reports whether an evaluation in the list relied on the loop state inherited from the caller
	walk = func(list []ast.Stmt, inLoop bool) bool {
		flat := false
		for i, st := range list {
			has := false
			var helpers []*ast.FuncDecl
			ast.Inspect(st, func(m ast.Node) bool {
				switch x := m.(type) {
				case *ast.BlockStmt:
					return false // nested blocks are judged on their own
				case *ast.FuncLit:
					return false
				case *ast.CallExpr:
					if isCaseEval(x) {
						has = true
					} else if h := helperOf(x); h != nil && !visiting[h] && reaches(h, 0) {
						helpers = append(helpers, h)
					}
				}
				return true
			})
			if _, isBlockLike := st.(*ast.BlockStmt); !isBlockLike {
				for _, h := range helpers {
					visiting[h] = true
					if walk(h.Body.List, inLoop) {
						has = true // the helper evaluates the block without a loop of its own: judged at this call
					}
					delete(visiting, h)
				}
			}
			if _, isBlockLike := st.(*ast.BlockStmt); !isBlockLike && has {
				n++
				uncond := false
				for _, later := range list[i+1:] {
					if _, ok := later.(*ast.ReturnStmt); ok {
						uncond = true
					}
				}
				_, isRet := st.(*ast.ReturnStmt)
				switch {
				case uncond:
					r.bad(key, st.Pos(), "the evaluation of a case block is followed by an unconditional return: a case that ends without break leaves the switch instead of falling through")
				case isRet && len(visiting) > 1:
					flat = true // a helper that hands the block's result back: its caller decides what follows
				case !inLoop && len(visiting) > 1:
					flat = true
				case !inLoop:
					r.bad(key, st.Pos(), "the statements of the matched case are evaluated outside any loop over the cases: a case without break cannot continue into the next one")
				default:
					r.ok(key, st.Pos(), "a case block that ends normally is followed by the next iteration over the cases")
				}
			}
			if walkStmt(st, inLoop) {
				flat = true
			}
		}
		return flat
	}
	walkStmt = func(st ast.Stmt, inLoop bool) bool {
		flat := false
		switch x := st.(type) {
		case *ast.BlockStmt:
			flat = walk(x.List, inLoop)
		case *ast.IfStmt:
			flat = walk(x.Body.List, inLoop)
			if x.Else != nil && walkStmt(x.Else, inLoop) {
				flat = true
			}
		case *ast.ForStmt:
			walk(x.Body.List, true)
		case *ast.RangeStmt:
			walk(x.Body.List, true)
		case *ast.SwitchStmt:
			for _, cc := range x.Body.List {
				if walk(cc.(*ast.CaseClause).Body, inLoop) {
					flat = true
				}
			}
		case *ast.TypeSwitchStmt:
			for _, cc := range x.Body.List {
				if walk(cc.(*ast.CaseClause).Body, inLoop) {
					flat = true
				}
			}
		case *ast.LabeledStmt:
			flat = walkStmt(x.Stmt, inLoop)
		}
		return flat
	}
	walk(fd.Body.List, false)
	if n == 0 {
		r.fail("no evaluation of a case block found in (*node.SwitchStatement).GetValue")
	}
}

// c02Frame: no node type stores run-time values into itself during evaluation.
func c02Frame(r *Run, npkg *packages.Package) {
	r.curRule = "C02-FRAME"
	dataPath := modPath + "/data"
	var isRuntime func(t types.Type, depth int) bool
	isRuntime = func(t types.Type, depth int) bool {
		if t == nil || depth > 3 {
			return false
		}
		if isNamed(t, dataPath, "Value") || isNamed(t, dataPath, "Context") || isNamed(t, dataPath, "ZVal") {
			return true
		}
		switch u := t.(type) {
		case *types.Pointer:
			return isRuntime(u.Elem(), depth+1)
		case *types.Slice:
			return isRuntime(u.Elem(), depth+1)
		case *types.Array:
			return isRuntime(u.Elem(), depth+1)
		case *types.Map:
			return isRuntime(u.Elem(), depth+1)
		}
		return false
	}
	writes, examined := evalClosureFieldWrites(npkg)
	bad := map[string]bool{}
	for _, w := range writes {
		tstr := types.TypeString(w.ftype, func(p *types.Package) string { return p.Name() })
		if isRuntime(w.ftype, 0) {
			bad[w.typeName] = true
			r.bad("node.("+w.typeName+")#keeps-value:"+w.field, w.pos, "during evaluation the node stores run-time data ("+tstr+") in its own field "+w.field+": the node is shared by every activation that reaches it, so a nested or recursive evaluation of the same site overwrites it")
			continue
		}
		// any other state written into the node while it is evaluated (a cache, a scratch buffer, a
		// counter) is shared by every activation, every object and every concurrent request that reaches
		// this site; the sites that exist on the pinned tree are listed with their reasons
		bad[w.typeName] = true
		r.bad("node.("+w.typeName+")#keeps-state:"+w.field, w.pos, "during evaluation the node writes its own field "+w.field+" ("+tstr+"): an AST node is shared by every activation, every object and every concurrent request that reaches this site, so state kept there is seen by all of them (a cache answers for the wrong class, a scratch buffer is overwritten by a re-entrant or parallel evaluation)")
	}
	tns := []string{}
	for tn := range examined {
		tns = append(tns, tn)
	}
	sort.Strings(tns)
	for _, tn := range tns {
		if !bad[tn] {
			r.ok("node.("+tn+")#no-values-in-node", examined[tn], "evaluation methods keep no run-time value in the node")
		}
	}
}

// c02Build: a node constructor keeps every child it is given. Each parameter that carries program
// structure (data.GetValue, a slice of them, or a slice of branch structs) reaches the node it
// builds, unchanged or wrapped by a call that receives it; a constructor that reassigns such a
// parameter before building the node, or never uses it, drops part of the program.
func c02Build(r *Run, npkg *packages.Package) {
	r.curRule = "C02-BUILD"
	info := npkg.TypesInfo
	dataPath := modPath + "/data"
	var isChild func(t types.Type, depth int) bool
	isChild = func(t types.Type, depth int) bool {
		if t == nil || depth > 2 {
			return false
		}
		if isNamed(t, dataPath, "GetValue") {
			return true
		}
		switch u := t.Underlying().(type) {
		case *types.Slice:
			if isChild(u.Elem(), depth+1) {
				return true
			}
			if st, ok := u.Elem().Underlying().(*types.Struct); ok {
				for i := 0; i < st.NumFields(); i++ {
					if isChild(st.Field(i).Type(), depth+1) {
						return true
					}
				}
			}
		}
		return false
	}
	for _, fd := range funcDecls(npkg) {
		if fd.Recv != nil || !strings.HasPrefix(fd.Name.Name, "New") || fd.Body == nil || fd.Type.Results == nil {
			continue
		}
		fk := funcKey(npkg, fd)
		for _, f := range fd.Type.Params.List {
			if !isChild(info.TypeOf(f.Type), 0) {
				continue
			}
			for _, nm := range f.Names {
				if nm.Name == "_" {
					continue
				}
				po := info.Defs[nm]
				used, reassigned := false, token.NoPos
				// `if p == nil { p = default }` (or len(p) == 0) gives an absent child a default; nothing is dropped
				nilDefault := map[*ast.AssignStmt]bool{}
				ast.Inspect(fd.Body, func(n ast.Node) bool {
					is, ok := n.(*ast.IfStmt)
					if !ok {
						return true
					}
					absent := false
					if be, ok := ast.Unparen(is.Cond).(*ast.BinaryExpr); ok && be.Op == token.EQL {
						if id, ok := ast.Unparen(be.X).(*ast.Ident); ok && info.Uses[id] == po && exprStr(be.Y) == "nil" {
							absent = true
						}
						if c, ok := ast.Unparen(be.X).(*ast.CallExpr); ok && len(c.Args) == 1 && exprStr(c.Fun) == "len" && exprStr(be.Y) == "0" {
							if id, ok := ast.Unparen(c.Args[0]).(*ast.Ident); ok && info.Uses[id] == po {
								absent = true
							}
						}
					}
					if absent {
						for _, st := range is.Body.List {
							if as, ok := st.(*ast.AssignStmt); ok {
								nilDefault[as] = true
							}
						}
					}
					return true
				})
				ast.Inspect(fd.Body, func(n ast.Node) bool {
					switch x := n.(type) {
					case *ast.AssignStmt:
						for i, l := range x.Lhs {
							if id, ok := l.(*ast.Ident); ok && info.Uses[id] == po && x.Tok == token.ASSIGN {
								// p = wrap(p) keeps the child; anything else replaces it
								keeps := false
								if i < len(x.Rhs) && len(x.Rhs) == len(x.Lhs) {
									ast.Inspect(x.Rhs[i], func(m ast.Node) bool {
										if rid, ok := m.(*ast.Ident); ok && info.Uses[rid] == po {
											keeps = true
										}
										return true
									})
									if c, ok := ast.Unparen(x.Rhs[i]).(*ast.CallExpr); !ok || len(c.Args) == 0 {
										keeps = false
									} else if keeps {
										// only single-result wrappers of the same child (operandOrMissing(from, p))
										direct := false
										for _, a := range c.Args {
											if rid, ok := ast.Unparen(a).(*ast.Ident); ok && info.Uses[rid] == po {
												direct = true
											}
										}
										keeps = direct
									}
								}
								if !keeps && !reassigned.IsValid() && !nilDefault[x] {
									reassigned = x.Pos()
								}
							}
						}
					case *ast.Ident:
						if info.Uses[x] == po {
							used = true
						}
					}
					return true
				})
				key := fk + "#keeps-child:" + nm.Name
				switch {
				case reassigned.IsValid():
					r.bad(key, reassigned, "the constructor replaces its child parameter "+nm.Name+" before it builds the node: part of the program the parser handed over is dropped or altered at construction time")
				case !used:
					r.bad(key, nm.Pos(), "the constructor never uses its child parameter "+nm.Name+": that part of the program is dropped")
				default:
					r.ok(key, nm.Pos(), "the child handed to the constructor reaches the node")
				}
			}
		}
	}
}

// c02Order: the branches of a multi-way statement (match arms, switch cases, elseif branches, catch
// clauses) are reached only from the loop that walks them in source order: an element of the branch
// slice picked by an index outside such a loop (a jump table, an inline cache of "the arm taken last
// time") skips the branches written before it, together with the side effects of their conditions.
func c02Order(r *Run, npkg *packages.Package) {
	r.curRule = "C02-ORDER"
	info := npkg.TypesInfo
	dataPath := modPath + "/data"
	hasChild := func(st *types.Struct) bool {
		for i := 0; i < st.NumFields(); i++ {
			t := st.Field(i).Type()
			if isNamed(t, dataPath, "GetValue") {
				return true
			}
			if sl, ok := t.Underlying().(*types.Slice); ok && isNamed(sl.Elem(), dataPath, "GetValue") {
				return true
			}
		}
		return false
	}
	// branch-slice fields: field F []B of a node struct, B a struct of this package with children
	branchField := map[*types.Var]bool{}
	for _, name := range npkg.Types.Scope().Names() {
		tn, ok := npkg.Types.Scope().Lookup(name).(*types.TypeName)
		if !ok {
			continue
		}
		st, ok := tn.Type().Underlying().(*types.Struct)
		if !ok {
			continue
		}
		for i := 0; i < st.NumFields(); i++ {
			sl, ok := st.Field(i).Type().Underlying().(*types.Slice)
			if !ok {
				continue
			}
			if nt := namedOf(sl.Elem()); nt != nil && nt.Obj().Pkg() == npkg.Types {
				if bs, ok := nt.Underlying().(*types.Struct); ok && hasChild(bs) {
					branchField[st.Field(i)] = true
				}
			}
		}
	}
	fieldOf := func(e ast.Expr) *types.Var {
		if se, ok := ast.Unparen(e).(*ast.SelectorExpr); ok {
			if sel, ok := info.Selections[se]; ok {
				if v, ok := sel.Obj().(*types.Var); ok && branchField[v] {
					return v
				}
			}
		}
		return nil
	}
	mentions := func(n ast.Node, f *types.Var) bool {
		found := false
		if n == nil {
			return false
		}
		ast.Inspect(n, func(m ast.Node) bool {
			if e, ok := m.(ast.Expr); ok && fieldOf(e) == f {
				found = true
			}
			return !found
		})
		return found
	}
	seenType := map[string]bool{}
	for _, fd := range funcDecls(npkg) {
		if fd.Recv == nil || fd.Body == nil {
			continue
		}
		tn := recvTypeName(fd)
		fk := funcKey(npkg, fd)
		induction := map[types.Object]bool{} // loop counters of the enclosing loops (i in `for i := …; …; i++`, the key of a range)
		var walk func(n ast.Node, loops map[*types.Var]bool)
		walk = func(n ast.Node, loops map[*types.Var]bool) {
			ast.Inspect(n, func(m ast.Node) bool {
				if m == n {
					return true
				}
				switch x := m.(type) {
				case *ast.FuncLit:
					return false
				case *ast.RangeStmt:
					inner := loops
					if f := fieldOf(x.X); f != nil {
						inner = map[*types.Var]bool{f: true}
						for k := range loops {
							inner[k] = true
						}
					}
					var kobj types.Object
					if id, ok := x.Key.(*ast.Ident); ok && id.Name != "_" {
						kobj = info.Defs[id]
						if kobj != nil {
							induction[kobj] = true
						}
					}
					walk(x.Body, inner)
					if kobj != nil {
						delete(induction, kobj)
					}
					return false
				case *ast.ForStmt:
					inner := map[*types.Var]bool{}
					for k := range loops {
						inner[k] = true
					}
					for f := range branchField {
						if (x.Cond != nil && mentions(x.Cond, f)) || (x.Init != nil && mentions(x.Init, f)) {
							inner[f] = true
						}
					}
					var iobj types.Object
					if post, ok := x.Post.(*ast.IncDecStmt); ok && post.Tok == token.INC {
						if id, ok := ast.Unparen(post.X).(*ast.Ident); ok {
							iobj = info.Uses[id]
							if iobj != nil {
								induction[iobj] = true
							}
						}
					}
					walk(x.Body, inner)
					if iobj != nil {
						delete(induction, iobj)
					}
					return false
				case *ast.IndexExpr:
					if f := fieldOf(x.X); f != nil {
						seenType[tn] = true
						key := fk + "#in-order:" + f.Name()
						byCounter := false
						if id, ok := ast.Unparen(x.Index).(*ast.Ident); ok && induction[info.Uses[id]] {
							byCounter = true // indexed by the counter of an ascending loop: a walk in source order
						}
						// at := slices.IndexFunc(t.f, pred); t.f[at]: the library walked the branches in source
						// order and at is the first one whose condition held
						if id, ok := ast.Unparen(x.Index).(*ast.Ident); ok && !byCounter {
							o := info.Uses[id]
							ast.Inspect(fd.Body, func(k ast.Node) bool {
								as, ok := k.(*ast.AssignStmt)
								if !ok || len(as.Lhs) != 1 || len(as.Rhs) != 1 {
									return true
								}
								lid, ok := as.Lhs[0].(*ast.Ident)
								if !ok || (info.Defs[lid] != o && info.Uses[lid] != o) {
									return true
								}
								if c, ok := ast.Unparen(as.Rhs[0]).(*ast.CallExpr); ok && len(c.Args) == 2 && fieldOf(c.Args[0]) == f {
									if cal := calleeFunc(info, c); cal != nil && cal.Pkg() != nil && cal.Pkg().Path() == "slices" && cal.Name() == "IndexFunc" {
										byCounter = true
									}
								}
								return true
							})
						}
						if loops[f] || byCounter {
							r.ok(key, x.Pos(), "the branch is picked inside the loop that walks "+f.Name()+" in source order")
						} else {
							r.bad(key, x.Pos(), "a branch of "+f.Name()+" is picked by index outside the loop that walks the branches in source order ("+exprStr(x)+"): the branches written before it, and the side effects of their conditions, are skipped")
						}
					}
				}
				return true
			})
		}
		walk(fd.Body, map[*types.Var]bool{})
	}
	r.stat("branch_slice_fields", len(branchField))
}

// isGeneratorState: fd is a method of a generator resumption object (a type that implements
// data.YieldControl — it carries CreateStackState), not of a loop statement node. Generators are
// outside the construct list C02 quantifies over; their resumption loops are not judged as loop nodes.
func isGeneratorState(npkg *packages.Package, fd *ast.FuncDecl) bool {
	if fd.Recv == nil || len(fd.Recv.List) != 1 {
		return false
	}
	t := npkg.TypesInfo.TypeOf(fd.Recv.List[0].Type)
	if t == nil {
		return false
	}
	if _, isPtr := t.(*types.Pointer); !isPtr {
		t = types.NewPointer(t)
	}
	return types.NewMethodSet(t).Lookup(npkg.Types, "CreateStackState") != nil
}
