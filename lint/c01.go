package main

import (
	"fmt"
	"go/ast"
	"go/token"
	"path/filepath"
	"sort"
	"strings"
)

func init() {
	for _, e := range [][2]string{
		{"lexer.handleHeredocString#slice:input[start:endPos]", "closure parameter: every call passes the result of tryCloseMarker (markerStart+len(identifier) <= len(input), checked inside it) and start+3 <= pos <= markerStart; relations between a closure parameter and captured integers are not tracked"},
		{"parser.(ClassParser).Parse#index:p.tokens[i]@range(genericParamNames)", "i < endIdx where endIdx is either startIdx (then the loop body is unreachable since i starts at startIdx+1) or an index i' < len(p.tokens) found by the preceding scan: a disjunction the zone domain cannot keep"},
		{"parser.(InterfaceParser).Parse#index:p.parser.tokens[i]@for(i<endIdx)", "same scan-then-rewrite shape as ClassParser.Parse: endIdx is startIdx or an index below len(tokens)"},
		{"parser.(DefaultScope).AddVariable#slice:name[0:1]", "variable names come from VARIABLE / IDENTIFIER token literals or from non-empty constants at every call site; emptiness of a string argument is not tracked across 60+ callers"},
		{"parser.(DefaultScope).AddVariable#slice:name[1:]", "dominated by name[0:1] == \"$\", which already requires a non-empty name"},
		{"parser.(HtmlForAttributeParser).parseForExpression#slice:forStr[inIndex+4:]", "inIndex is -1 (returned before) or a loop index i < len(forStr)-3: a disjunction the zone domain cannot keep"},
		{"parser.convertControlKeywords#slice:result[j+1:bestParenEnd]@for(pos<len(result))", "bestParenEnd is the index of the ')' matching the '(' at j found by the balanced scan (k >= j, result[k] == ')'); the relation is carried through four best* variables"},
		{"parser.convertControlKeywords#slice:result[searchFrom:]@for", "searchFrom = candidateStart + len(kw) where kw was found at candidateStart by strings.Index, so it fits; the needle length is a variable, which the suffix-offset model keeps only for constants"},
		{"parser.convertShortPatterns#slice:block[lastEnd:]", "regions are appended as {codeStart, i} with codeStart < i <= len(block) in increasing order; bounds stored in a slice of structs are not tracked"},
		{"parser.convertShortPatterns#slice:block[lastEnd:r.start]@range(regions)", "regions are appended as {codeStart, i} with codeStart < i <= len(block) in increasing order; bounds stored in a slice of structs are not tracked"},
		{"parser.convertShortPatterns#slice:block[r.start:r.end]@range(regions)", "regions are appended as {codeStart, i} with codeStart < i <= len(block) in increasing order; bounds stored in a slice of structs are not tracked"},
	} {
		assumeSite("C01-IDX", e[0], e[1])
	}
	register(&PropDef{
		ID:          "C01",
		Patterns:    []string{"./lexer", "./parser", "./token", "./node"},
		Explanation: "Decides structural clauses of 'lexing and parsing any byte string terminates with a program or a diagnostic and never crashes': (IDX) every index and slice expression over the source text, its rune/byte copies and the token slices in lexer and parser is proven within bounds on every path by a difference-bound (zone) abstract interpretation; further rules (EOF exit of token loops, progress, reachable panics, operand presence, recursion guards) are added below as they are built. The time bound and the content of diagnostics are not decided.",
		Assumptions: []string{
			"A-IDX-NONNEG: integer cursors obtained from calls or fields are non-negative unless computed by subtraction, decrement or a modelled library call that can return -1",
			"strings are immutable; a slice's length changes only through assignment to the tracked term or a call that may write it",
			"library models: strings.Index*/LastIndex* results, utf8.DecodeRune* sizes relative to the suffix they were computed on",
		},
		Rules: []RuleDef{
			{Name: "C01-IDX", Floor: 60, Doc: "every s[i] / s[i:j] over strings and slices in lexer and parser is within bounds on every path (zone abstract interpretation; unresolved sites listed construct by construct)", Run: c01Idx},
		},
	})
}

func c01Idx(r *Run) {
	for _, rel := range []string{"lexer", "parser"} {
		pkg := r.pkg(rel)
		if pkg == nil {
			continue
		}
		a := newIdxAnalyzer(r, pkg)
		a.runAll(funcDecls(pkg))
		for _, co := range a.callObls {
			key := fmt.Sprintf("%s#call-pre:%s", funcKey(pkg, co.fn), strings.ReplaceAll(co.what, " ", ""))
			if co.ok {
				r.ok(key, co.pos, "callee precondition proven at this call: "+co.what)
			} else {
				r.bad(key, co.pos, "callee indexes its text assuming "+co.what+", which is not proven at this call")
			}
		}
		sort.SliceStable(a.sites, func(i, j int) bool { return a.sites[i].pos < a.sites[j].pos })
		for _, s := range a.sites {
			file := filepath.Base(r.Fset.Position(s.pos).Filename)
			_ = file
			key := fmt.Sprintf("%s#%s:%s", funcKey(pkg, s.fn), s.kind, strings.ReplaceAll(s.expr, " ", ""))
			if ctx := loopContext(s.fn, s.pos); ctx != "" {
				key += "@" + ctx
			}
			if s.ok {
				r.ok(key, s.pos, s.msg)
			} else {
				r.bad(key, s.pos, s.msg)
			}
		}
	}
	_ = ast.Inspect
}

// loopContext names the innermost loop enclosing pos by its header, so that equal index
// expressions in different loops of one function get different, edit-stable keys.
func loopContext(fd *ast.FuncDecl, pos token.Pos) string {
	ctx := ""
	ast.Inspect(fd.Body, func(n ast.Node) bool {
		if n == nil || pos < n.Pos() || pos >= n.End() {
			return n == nil || (pos >= n.Pos() && pos < n.End())
		}
		switch x := n.(type) {
		case *ast.ForStmt:
			if x.Cond != nil {
				ctx = "for(" + strings.ReplaceAll(exprStr(x.Cond), " ", "") + ")"
			} else {
				ctx = "for"
			}
		case *ast.RangeStmt:
			ctx = "range(" + strings.ReplaceAll(exprStr(x.X), " ", "") + ")"
		}
		return true
	})
	return ctx
}
