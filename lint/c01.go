package main

import (
	"fmt"
	"go/ast"
	"go/token"
	"path/filepath"
	"sort"
	"strings"
)

func init() {
	for _, e := range [][2]string{
		{"lexer.(Lexer).Tokenize#progress:for(pos<len(input))/continue@if(HandleSpecialToken(input,pos,line,linePos);ok)", "pos = result.NewPos: HandleSpecialToken returns ok only with NewPos > start (every handler returns start+k, k >= 1, on success); lower-bound return facts through struct fields are not tracked"},
		{"lexer.(Lexer).Tokenize#progress:for(pos<len(input))/continue@if(l.matchLongestToken(input,pos);ok)", "pos += length: matchLongestToken returns ok only with a non-nil match, which is recorded only after currentPos advanced past pos; the correlation between the match pointer and the length is a disjunction"},
		{"lexer.(Lexer).TokenizeTemplate#progress:for(pos<len(input))/continue@if(HandleSpecialToken(input,pos,line,linePos);ok)", "same as Tokenize"},
		{"lexer.(Lexer).TokenizeTemplate#progress:for(pos<len(input))/continue@if(l.matchLongestToken(input,pos);ok)", "same as Tokenize"},
		{"lexer.(Lexer).TokenizeTemplate#progress:for(pos<len(input))/end of body", "outer mode loop: the HTML branch ends with pos = len(input) or the position of '<?php' plus 5, the PHP branch is the inner loop that ends at '?>' (pos += 2) or at the end; progress of the inner loops is proven separately"},
		{"lexer.(HtmlLexer).Tokenize#progress:for(h.pos<len(h.input))/continue@if(h.pos<len(h.input)&&h.isWhitespace(h.input[h.pos]))", "h.advance() under h.pos < len(h.input) advances by one (proven for the inner loops); here the fact is lost across the preceding chain of process* calls whose snapshots enlarge the zone beyond the widening budget"},
	} {
		assumeSite("C01-PROG", e[0], e[1])
	}
	for _, m := range []string{"processAssign", "processCdata", "processColon", "processHtmlComment", "processIdentifier", "processNumber", "processProcessingInstruction", "processWhitespace"} {
		assumeSite("C01-PROG", "lexer.(HtmlLexer).Tokenize#progress:for(h.pos<len(h.input))/continue@if(h."+m+"();ok)", m+" returns ok only after a counted or guarded run of h.advance() calls from a position it has just tested to be inside the input; the conditional advance summary covers loops guarded by pos < len but not the fixed-count `for i := 0; i < n` form after a pos+n <= len test")
	}
	for _, e := range [][2]string{
		{"lexer.handleHeredocString#slice:input[start:endPos]", "closure parameter: every call passes the result of tryCloseMarker (markerStart+len(identifier) <= len(input), checked inside it) and start+3 <= pos <= markerStart; relations between a closure parameter and captured integers are not tracked"},
		{"parser.(ClassParser).Parse#index:p.tokens[i]@range(genericParamNames)", "i < endIdx where endIdx is either startIdx (then the loop body is unreachable since i starts at startIdx+1) or an index i' < len(p.tokens) found by the preceding scan: a disjunction the zone domain cannot keep"},
		{"parser.(InterfaceParser).Parse#index:p.parser.tokens[i]@for(i<endIdx)", "same scan-then-rewrite shape as ClassParser.Parse: endIdx is startIdx or an index below len(tokens)"},
		{"parser.(DefaultScope).AddVariable#slice:name[0:1]", "variable names come from VARIABLE / IDENTIFIER token literals or from non-empty constants at every call site; emptiness of a string argument is not tracked across 60+ callers"},
		{"parser.(DefaultScope).AddVariable#slice:name[1:]", "dominated by name[0:1] == \"$\", which already requires a non-empty name"},
		{"parser.(HtmlForAttributeParser).parseForExpression#slice:forStr[inIndex+4:]", "inIndex is -1 (returned before) or a loop index i < len(forStr)-3: a disjunction the zone domain cannot keep"},
		{"parser.convertControlKeywords#slice:result[j+1:bestParenEnd]@for(pos<len(result))", "bestParenEnd is the index of the ')' matching the '(' at j found by the balanced scan (k >= j, result[k] == ')'); the relation is carried through four best* variables"},
		{"parser.convertControlKeywords#slice:result[searchFrom:]@for", "searchFrom = candidateStart + len(kw) where kw was found at candidateStart by strings.Index, so it fits; the needle length is a variable, which the suffix-offset model keeps only for constants"},
		{"parser.convertShortPatterns#slice:block[lastEnd:]", "regions are appended as {codeStart, i} with codeStart < i <= len(block) in increasing order; bounds stored in a slice of structs are not tracked"},
		{"parser.convertShortPatterns#slice:block[lastEnd:r.start]@range(regions)", "regions are appended as {codeStart, i} with codeStart < i <= len(block) in increasing order; bounds stored in a slice of structs are not tracked"},
		{"parser.convertShortPatterns#slice:block[r.start:r.end]@range(regions)", "regions are appended as {codeStart, i} with codeStart < i <= len(block) in increasing order; bounds stored in a slice of structs are not tracked"},
	} {
		assumeSite("C01-IDX", e[0], e[1])
	}
	register(&PropDef{
		ID:          "C01",
		Patterns:    []string{"./lexer", "./parser", "./token", "./node"},
		Explanation: "Decides structural clauses of 'lexing and parsing any byte string terminates with a program or a diagnostic and never crashes': (IDX) every index and slice expression over the source text, its rune/byte copies and the token slices in lexer and parser is proven within bounds on every path by a difference-bound (zone) abstract interpretation; further rules (EOF exit of token loops, progress, reachable panics, operand presence, recursion guards) are added below as they are built. The time bound and the content of diagnostics are not decided.",
		Assumptions: []string{
			"A-IDX-NONNEG: integer cursors obtained from calls or fields are non-negative unless computed by subtraction, decrement or a modelled library call that can return -1",
			"strings are immutable; a slice's length changes only through assignment to the tracked term or a call that may write it",
			"library models: strings.Index*/LastIndex* results, utf8.DecodeRune* sizes relative to the suffix they were computed on",
		},
		Rules: []RuleDef{
			{Name: "C01-EOF", Floor: 40, Doc: "every token-driven loop of the parser leaves at end of input: its condition is false there, or no path through its body returns to the head (cursor predicates evaluated three-valued from accessor contracts that are themselves checked)", Run: c01EOF},
			{Name: "C01-PROG", Floor: 20, Doc: "every cursor-bounded loop of the lexer strictly advances its cursor on each path back to the loop head", Run: c01Prog},
			{Name: "C01-PANIC", Floor: 1, Doc: "no explicit panic() in lexer, parser or token can be reached with a possible value (type-switch defaults are dead when every implementation is a case)", Run: c01Panic},
			{Name: "C01-NIL", Floor: 6, Doc: "operator-node constructors replace a nil operand before storing it, so an accepted source with a missing operand ends in a script error, not a nil dereference; statement nodes with witnessed crashes are listed", Run: c01Nil},
			{Name: "C01-REC", Floor: 1, Doc: "every recursive component of the parser's call graph passes a depth guard", Run: c01Rec},
			{Name: "C01-IDX", Floor: 60, Doc: "every s[i] / s[i:j] over strings and slices in lexer and parser is within bounds on every path (zone abstract interpretation; unresolved sites listed construct by construct)", Run: c01Idx},
		},
	})
}

func c01Idx(r *Run) {
	for _, rel := range []string{"lexer", "parser"} {
		pkg := r.pkg(rel)
		if pkg == nil {
			continue
		}
		a := idxAnalysisOf(r, rel)
		for _, co := range a.callObls {
			key := fmt.Sprintf("%s#call-pre:%s", funcKey(pkg, co.fn), strings.ReplaceAll(co.what, " ", ""))
			if co.ok {
				r.ok(key, co.pos, "callee precondition proven at this call: "+co.what)
			} else {
				r.bad(key, co.pos, "callee indexes its text assuming "+co.what+", which is not proven at this call")
			}
		}
		sort.SliceStable(a.sites, func(i, j int) bool { return a.sites[i].pos < a.sites[j].pos })
		for _, s := range a.sites {
			file := filepath.Base(r.Fset.Position(s.pos).Filename)
			_ = file
			key := fmt.Sprintf("%s#%s:%s", funcKey(pkg, s.fn), s.kind, strings.ReplaceAll(s.expr, " ", ""))
			if ctx := loopContext(s.fn, s.pos); ctx != "" {
				key += "@" + ctx
			}
			if s.ok {
				r.ok(key, s.pos, s.msg)
			} else {
				r.bad(key, s.pos, s.msg)
			}
		}
	}
	_ = ast.Inspect
}

// c01Prog: every cursor-bounded loop of the lexer strictly advances its cursor on each path
// that returns to the loop head (decided with the same zone interpretation as C01-IDX).
func c01Prog(r *Run) {
	pkg := r.pkg("lexer")
	if pkg == nil {
		return
	}
	a := idxAnalysisOf(r, "lexer")
	var sites []*progSite
	for _, ps := range a.progress {
		sites = append(sites, ps)
	}
	sort.Slice(sites, func(i, j int) bool { return sites[i].site.Pos() < sites[j].site.Pos() })
	for _, ps := range sites {
		if !ps.seen {
			continue
		}
		how := "end of body"
		if _, ok := ps.site.(*ast.BranchStmt); ok {
			how = "continue"
		} else if ps.site == ast.Node(ps.loop) {
			how = "after post statement"
		}
		if how == "continue" {
			how += ifContext(ps.fn, ps.site.Pos())
		}
		key := fmt.Sprintf("%s#progress:for(%s)/%s", funcKey(pkg, ps.fn), strings.ReplaceAll(exprStr(ps.loop.Cond), " ", ""), how)
		if ps.ok {
			r.ok(key, ps.site.Pos(), "on this way back to the loop head "+ps.cursor+" has advanced by at least one")
		} else {
			r.bad(key, ps.site.Pos(), "this way back to the loop head does not advance "+ps.cursor+": the lexer can spin on some input")
		}
	}
}

// idxAnalysisOf runs (once per run) the zone analysis of a package.
func idxAnalysisOf(r *Run, rel string) *idxAnalyzer {
	if r.cache == nil {
		r.cache = map[string]any{}
	}
	if a, ok := r.cache["idx:"+rel].(*idxAnalyzer); ok {
		return a
	}
	a := newIdxAnalyzer(r, r.pkg(rel))
	a.runAll(funcDecls(r.pkg(rel)))
	r.cache["idx:"+rel] = a
	return a
}

// loopContext names the innermost loop enclosing pos by its header, so that equal index
// expressions in different loops of one function get different, edit-stable keys.
func loopContext(fd *ast.FuncDecl, pos token.Pos) string {
	ctx := ""
	ast.Inspect(fd.Body, func(n ast.Node) bool {
		if n == nil || pos < n.Pos() || pos >= n.End() {
			return n == nil || (pos >= n.Pos() && pos < n.End())
		}
		switch x := n.(type) {
		case *ast.ForStmt:
			if x.Cond != nil {
				ctx = "for(" + strings.ReplaceAll(exprStr(x.Cond), " ", "") + ")"
			} else {
				ctx = "for"
			}
		case *ast.RangeStmt:
			ctx = "range(" + strings.ReplaceAll(exprStr(x.X), " ", "") + ")"
		}
		return true
	})
	return ctx
}

// ifContext names the innermost if statement enclosing pos by its header.
func ifContext(fd *ast.FuncDecl, pos token.Pos) string {
	ctx := ""
	ast.Inspect(fd.Body, func(n ast.Node) bool {
		if n == nil || pos < n.Pos() || pos >= n.End() {
			return n == nil || (pos >= n.Pos() && pos < n.End())
		}
		if x, ok := n.(*ast.IfStmt); ok && pos >= x.Body.Pos() && pos < x.Body.End() {
			ctx = "@if("
			if x.Init != nil {
				if as, ok := x.Init.(*ast.AssignStmt); ok && len(as.Rhs) == 1 {
					ctx += strings.ReplaceAll(exprStr(as.Rhs[0]), " ", "") + ";"
				}
			}
			ctx += strings.ReplaceAll(exprStr(x.Cond), " ", "") + ")"
		}
		return true
	})
	return ctx
}
