package main

import (
	"fmt"
	"go/ast"
	"go/token"
	"go/types"
	"sort"
	"strings"

	"golang.org/x/tools/go/packages"
)

func init() {
	register(&PropDef{
		ID:       "C03",
		Patterns: []string{"./node", "./data", "./std"},
		Explanation: "Decides two structural clauses of the operator semantics: (a) 'no operand combination crashes the interpreter' — in every operator node (the types built by node.NewBinaryExpression and the unary/ternary/coalesce/increment constructors, with the package functions they call) each single-result type assertion on an operand is dominated by a test that fixes the operand's dynamic type to one that satisfies it, each integer or float division has its divisor value tested against zero on every path, and each shift has a signed count rejected when negative; " +
			"(b) 'a value is truthy in every boolean context alike' — every boolean context obtains its decision from data.AsBool and none inspects a scalar payload itself. Numeric results, comparison laws and what AsBool answers are value-level and are not decided.",
		Assumptions: []string{
			"Go panics: failed single-result type assertion, integer division by zero, negative shift count",
			"operator node set derived from the constructors reachable from node.NewBinaryExpression and the named unary/ternary/coalesce/incr/decr constructors",
			"facts are killed on assignment to the tested variable; function calls do not change local variables",
		},
		Rules: []RuleDef{
			{Name: "C03-ASSERT", Floor: 8, Doc: "every single-result type assertion on an operand value in an operator node is dominated by a type test that makes it succeed", Run: c03Run},
			{Name: "C03-DIV", Floor: 2, Doc: "every / and % in an operator node has its divisor value itself tested non-zero on every path reaching it", Run: nop},
			{Name: "C03-SHIFT", Floor: 1, Doc: "every shift by a signed, non-constant count is dominated by a rejection of negative counts", Run: nop},
			{Name: "C03-PROMOTE", Floor: 4, Doc: "an operand that may be a float is not converted to an int on the way into + - * / or a comparison (the float value type answers the int conversion by truncating)", Run: nop},
			{Name: "C03-TRUTH", Floor: 3, Doc: "every boolean context (if/elseif, while, do-while, for, ?:, !, &&, ||) decides through data.AsBool and does not compare an Int/Float/String/Array payload itself", Run: nop},
		},
	})
}

// operatorScope returns the operator node types and the functions (methods + helpers) to analyse.
func operatorScope(r *Run, npkg *packages.Package) (map[*types.Named]bool, []*ast.FuncDecl) {
	info := npkg.TypesInfo
	declOf := map[*types.Func]*ast.FuncDecl{}
	for _, fd := range funcDecls(npkg) {
		if o, ok := info.Defs[fd.Name].(*types.Func); ok {
			declOf[o] = fd
		}
	}
	roots := []string{"NewBinaryExpression", "NewTernaryExpression", "NewNullCoalesceExpression", "NewUnaryExpression", "NewUnaryIncr", "NewUnaryDecr", "NewPostfixIncr", "NewPostfixDecr"}
	typesSet := map[*types.Named]bool{}
	seenCtor := map[*types.Func]bool{}
	var visitCtor func(f *types.Func, d int)
	visitCtor = func(f *types.Func, d int) {
		fd := declOf[f]
		if fd == nil || seenCtor[f] || d > 3 {
			return
		}
		seenCtor[f] = true
		ast.Inspect(fd.Body, func(n ast.Node) bool {
			switch x := n.(type) {
			case *ast.CompositeLit:
				if nt := namedOf(info.TypeOf(x)); nt != nil && nt.Obj().Pkg() == npkg.Types {
					if _, ok := nt.Underlying().(*types.Struct); ok {
						typesSet[nt] = true
					}
				}
			case *ast.CallExpr:
				if cal, ok := calleeOf(info, x).(*types.Func); ok && cal.Pkg() == npkg.Types && strings.HasPrefix(strings.ToLower(cal.Name()), "new") {
					visitCtor(cal, d+1)
				}
			}
			return true
		})
	}
	for _, name := range roots {
		o, _ := npkg.Types.Scope().Lookup(name).(*types.Func)
		if o == nil {
			r.fail("anchor not found: node.%s", name)
			continue
		}
		visitCtor(o, 0)
	}
	// only node types that implement data.GetValue-like evaluation (have a GetValue method)
	for nt := range typesSet {
		if o, _, _ := types.LookupFieldOrMethod(types.NewPointer(nt), true, npkg.Types, "GetValue"); o == nil {
			delete(typesSet, nt)
		}
	}
	// functions: methods of these types + package functions they call (transitively, depth 3)
	inScope := map[*ast.FuncDecl]bool{}
	var order []*ast.FuncDecl
	var add func(fd *ast.FuncDecl, d int)
	add = func(fd *ast.FuncDecl, d int) {
		if fd == nil || inScope[fd] || d > 3 {
			return
		}
		inScope[fd] = true
		order = append(order, fd)
		ast.Inspect(fd.Body, func(n ast.Node) bool {
			if c, ok := n.(*ast.CallExpr); ok {
				if cal, ok := calleeOf(info, c).(*types.Func); ok && cal.Pkg() == npkg.Types {
					if cfd := declOf[cal]; cfd != nil {
						// follow plain functions and methods of scope types only
						if cfd.Recv == nil {
							add(cfd, d+1)
						} else if nt := namedOf(info.TypeOf(cfd.Recv.List[0].Type)); nt != nil && typesSet[nt] {
							add(cfd, d+1)
						}
					}
				}
			}
			return true
		})
	}
	for _, fd := range funcDecls(npkg) {
		if fd.Recv == nil {
			continue
		}
		if nt := namedOf(info.TypeOf(fd.Recv.List[0].Type)); nt != nil && typesSet[nt] {
			add(fd, 0)
		}
	}
	// the constructors of the operator nodes and the helpers they call run operator arithmetic too when
	// they fold constants at parse time
	for f := range seenCtor {
		add(declOf[f], 1)
	}
	sort.Slice(order, func(i, j int) bool { return order[i].Pos() < order[j].Pos() })
	return typesSet, order
}

type c03State struct {
	narrow  map[types.Object][]types.Type // variable → possible dynamic types (after a successful test)
	nonzero map[string]bool               // expression strings known non-zero
	nonneg  map[string]bool               // expression strings known >= 0
	okOf    map[types.Object]c03Pending   // ok-variable of a comma-ok assertion → what it proves
}

type c03Pending struct {
	x   types.Object
	v   types.Object
	typ types.Type
}

func (s *c03State) clone() *c03State {
	n := &c03State{narrow: map[types.Object][]types.Type{}, nonzero: map[string]bool{}, nonneg: map[string]bool{}, okOf: map[types.Object]c03Pending{}}
	for k, v := range s.narrow {
		n.narrow[k] = v
	}
	for k := range s.nonzero {
		n.nonzero[k] = true
	}
	for k := range s.nonneg {
		n.nonneg[k] = true
	}
	for k, v := range s.okOf {
		n.okOf[k] = v
	}
	return n
}

func typeListEqual(a, b []types.Type) bool {
	if len(a) != len(b) {
		return false
	}
	for i := range a {
		if !types.Identical(a[i], b[i]) {
			return false
		}
	}
	return true
}

func c03Run(r *Run) {
	npkg := r.pkg("node")
	dpkg := r.pkg("data")
	if npkg == nil || dpkg == nil {
		return
	}
	info := npkg.TypesInfo
	scopeTypes, fns := operatorScope(r, npkg)
	r.stat("operator_node_types", len(scopeTypes))
	r.stat("operator_functions", len(fns))
	if len(scopeTypes) < 25 {
		r.fail("only %d operator node types found from the constructors; anchors moved", len(scopeTypes))
	}
	getValueT := dpkg.Types.Scope().Lookup("GetValue")
	valueT := dpkg.Types.Scope().Lookup("Value")
	if getValueT == nil || valueT == nil {
		r.fail("anchor not found: data.GetValue / data.Value")
		return
	}
	isOperandType := func(t types.Type) bool {
		// operand values are carried as data.GetValue or data.Value (interfaces)
		if t == nil {
			return false
		}
		if _, ok := t.Underlying().(*types.Interface); !ok {
			return false
		}
		return isNamed(t, modPath+"/data", "GetValue") || isNamed(t, modPath+"/data", "Value")
	}

	type site struct {
		rule, key, msg string
		pos            token.Pos
		ok             bool
	}
	for _, fd := range fns {
		fk := funcKey(npkg, fd)
		var sites []site
		record := func(rule, key string, pos token.Pos, ok bool, msg string) {
			for i := range sites {
				if sites[i].rule == rule && sites[i].pos == pos {
					if !ok {
						sites[i].ok = false
						sites[i].msg = msg
					}
					return
				}
			}
			sites = append(sites, site{rule, fk + "#" + key, msg, pos, ok})
		}
		// comma-ok assertions and type-switch guards are not single-result
		commaOK := map[*ast.TypeAssertExpr]bool{}
		ast.Inspect(fd.Body, func(n ast.Node) bool {
			switch x := n.(type) {
			case *ast.AssignStmt:
				if len(x.Lhs) == 2 && len(x.Rhs) == 1 {
					if ta, ok := ast.Unparen(x.Rhs[0]).(*ast.TypeAssertExpr); ok {
						commaOK[ta] = true
					}
				}
			case *ast.ValueSpec:
				if len(x.Names) == 2 && len(x.Values) == 1 {
					if ta, ok := ast.Unparen(x.Values[0]).(*ast.TypeAssertExpr); ok {
						commaOK[ta] = true
					}
				}
			}
			return true
		})
		objOf := func(e ast.Expr) types.Object {
			if id, ok := ast.Unparen(e).(*ast.Ident); ok {
				if o := info.Uses[id]; o != nil {
					return o
				}
				return info.Defs[id]
			}
			return nil
		}
		h := &Hooks{Info: info}
		h.Copy = func(s State) State { return s.(*c03State).clone() }
		h.Join = func(a, b State) State {
			x, y := a.(*c03State), b.(*c03State)
			n := &c03State{narrow: map[types.Object][]types.Type{}, nonzero: map[string]bool{}, nonneg: map[string]bool{}, okOf: map[types.Object]c03Pending{}}
			for k, v := range x.narrow {
				if w, ok := y.narrow[k]; ok {
					// union of possibilities
					u := append([]types.Type{}, v...)
					for _, t := range w {
						dup := false
						for _, e := range u {
							if types.Identical(e, t) {
								dup = true
							}
						}
						if !dup {
							u = append(u, t)
						}
					}
					n.narrow[k] = u
				}
			}
			for k := range x.nonzero {
				if y.nonzero[k] {
					n.nonzero[k] = true
				}
			}
			for k := range x.nonneg {
				if y.nonneg[k] {
					n.nonneg[k] = true
				}
			}
			for k, v := range x.okOf {
				if w, ok := y.okOf[k]; ok && w == v {
					n.okOf[k] = v
				}
			}
			return n
		}
		h.Equal = func(a, b State) bool {
			x, y := a.(*c03State), b.(*c03State)
			if len(x.narrow) != len(y.narrow) || len(x.nonzero) != len(y.nonzero) || len(x.nonneg) != len(y.nonneg) || len(x.okOf) != len(y.okOf) {
				return false
			}
			for k, v := range x.narrow {
				if w, ok := y.narrow[k]; !ok || !typeListEqual(v, w) {
					return false
				}
			}
			for k := range x.nonzero {
				if !y.nonzero[k] {
					return false
				}
			}
			for k := range x.nonneg {
				if !y.nonneg[k] {
					return false
				}
			}
			return true
		}
		kill := func(s *c03State, o types.Object) {
			if o == nil {
				return
			}
			delete(s.narrow, o)
			delete(s.okOf, o)
			name := o.Name()
			for k := range s.nonzero {
				if strings.Contains(k, name) {
					delete(s.nonzero, k)
				}
			}
			for k := range s.nonneg {
				if strings.Contains(k, name) {
					delete(s.nonneg, k)
				}
			}
		}
		h.TypeCase = func(x ast.Expr, bind *ast.Ident, cc *ast.CaseClause, st State) State {
			s := st.(*c03State)
			if cc.List == nil {
				return s
			}
			var ts []types.Type
			for _, t := range cc.List {
				if tv, ok := info.Types[t]; ok && tv.IsType() {
					ts = append(ts, tv.Type)
				} else {
					ts = nil // case nil etc.
					break
				}
			}
			if ts == nil {
				return s
			}
			if o := objOf(x); o != nil {
				s.narrow[o] = ts
			}
			if bind != nil {
				if io := info.Implicits[cc]; io != nil {
					s.narrow[io] = ts
				}
			}
			return s
		}
		h.Cond = func(e ast.Expr, truth bool, st State) State {
			s := st.(*c03State)
			switch x := ast.Unparen(e).(type) {
			case *ast.Ident:
				if p, ok := s.okOf[info.Uses[x]]; ok && truth {
					if p.x != nil {
						s.narrow[p.x] = []types.Type{p.typ}
					}
					if p.v != nil {
						s.narrow[p.v] = []types.Type{p.typ}
					}
				}
			case *ast.BinaryExpr:
				isZero := func(e ast.Expr) bool {
					tv, ok := info.Types[e]
					return ok && tv.Value != nil && (tv.Value.String() == "0" || tv.Value.String() == "0.0")
				}
				var other ast.Expr
				op := x.Op
				if isZero(x.Y) {
					other = x.X
				} else if isZero(x.X) {
					other = x.Y
					switch op { // mirror
					case token.LSS:
						op = token.GTR
					case token.GTR:
						op = token.LSS
					case token.LEQ:
						op = token.GEQ
					case token.GEQ:
						op = token.LEQ
					}
				}
				if other != nil {
					k := exprStr(ast.Unparen(other))
					switch {
					case op == token.EQL && !truth, op == token.NEQ && truth:
						s.nonzero[k] = true
					case op == token.GTR && truth, op == token.LEQ && !truth:
						s.nonzero[k] = true
						s.nonneg[k] = true
					case op == token.LSS && truth, op == token.GEQ && !truth:
						s.nonzero[k] = true
					case op == token.LSS && !truth, op == token.GEQ && truth:
						s.nonneg[k] = true
					}
				}
			}
			return s
		}
		h.Stmt = func(stm ast.Stmt, st State) State {
			s := st.(*c03State)
			switch x := stm.(type) {
			case *ast.AssignStmt:
				for _, l := range x.Lhs {
					kill(s, objOf(l))
				}
				if len(x.Lhs) == 2 && len(x.Rhs) == 1 {
					if ta, ok := ast.Unparen(x.Rhs[0]).(*ast.TypeAssertExpr); ok && ta.Type != nil {
						if okObj := objOf(x.Lhs[1]); okObj != nil {
							s.okOf[okObj] = c03Pending{x: objOf(ta.X), v: objOf(x.Lhs[0]), typ: info.TypeOf(ta.Type)}
						}
					}
				}
				// v := x   copies what is known about x
				if len(x.Lhs) == 1 && len(x.Rhs) == 1 {
					if src := objOf(x.Rhs[0]); src != nil {
						if ts, ok := s.narrow[src]; ok {
							if dst := objOf(x.Lhs[0]); dst != nil {
								s.narrow[dst] = ts
							}
						}
					}
				}
			case *ast.IncDecStmt:
				kill(s, objOf(x.X))
			case *ast.DeclStmt:
			}
			return s
		}
		h.RangeBody = func(rs *ast.RangeStmt, st State) State {
			s := st.(*c03State)
			if rs.Key != nil {
				kill(s, objOf(rs.Key))
			}
			if rs.Value != nil {
				kill(s, objOf(rs.Value))
			}
			return s
		}
		satisfies := func(dyn types.Type, want types.Type) bool {
			if types.Identical(dyn, want) {
				return true
			}
			if wi, ok := want.Underlying().(*types.Interface); ok {
				if _, isIface := dyn.Underlying().(*types.Interface); isIface {
					// knowing only an interface: it must itself guarantee the wanted method set
					return types.Implements(dyn, wi)
				}
				return types.Implements(dyn, wi)
			}
			return false
		}
		h.Visit = func(e ast.Expr, st State) State {
			s := st.(*c03State)
			switch x := e.(type) {
			case *ast.TypeAssertExpr:
				if x.Type == nil {
					return s
				}
				if _, isVar := ast.Unparen(x.X).(*ast.Ident); !isVar || !isOperandType(info.TypeOf(x.X)) {
					return s
				}
				if commaOK[x] {
					record("C03-ASSERT", "assert-ok:"+exprStr(x), x.Pos(), true, "comma-ok form: a mismatch is a false result, not a panic")
					return s
				}
				want := info.TypeOf(x.Type)
				key := "assert:" + exprStr(x)
				ts, known := s.narrow[objOf(x.X)]
				if !known {
					record("C03-ASSERT", key, x.Pos(), false, fmt.Sprintf("%s: the operand's dynamic type is not established on this path; any value that is not a %s (array, object, null interface…) panics the interpreter", exprStr(x), types.TypeString(want, types.RelativeTo(npkg.Types))))
					return s
				}
				for _, t := range ts {
					if !satisfies(t, want) {
						record("C03-ASSERT", key, x.Pos(), false, fmt.Sprintf("%s: on this path the operand may be a %s, which does not satisfy %s", exprStr(x), types.TypeString(t, types.RelativeTo(npkg.Types)), types.TypeString(want, types.RelativeTo(npkg.Types))))
						return s
					}
				}
				record("C03-ASSERT", key, x.Pos(), true, "assertion dominated by a type test that makes it succeed")
			case *ast.BinaryExpr:
				switch x.Op {
				case token.QUO, token.REM:
					tv, ok := info.Types[x.Y]
					if !ok {
						return s
					}
					bt, isBasic := tv.Type.Underlying().(*types.Basic)
					if !isBasic || bt.Info()&(types.IsInteger|types.IsFloat) == 0 {
						return s
					}
					key := "div:" + exprStr(x)
					if tv.Value != nil {
						if tv.Value.String() != "0" {
							return s
						}
						record("C03-DIV", key, x.Pos(), false, "division by the constant zero")
						return s
					}
					d := ast.Unparen(x.Y)
					k := exprStr(d)
					good := s.nonzero[k]
					if !good {
						// widening integer conversion of a tested value
						if c, ok := d.(*ast.CallExpr); ok && len(c.Args) == 1 {
							if ctv, ok := info.Types[c.Fun]; ok && ctv.IsType() {
								from := info.TypeOf(c.Args[0])
								fb, _ := from.Underlying().(*types.Basic)
								tb, _ := ctv.Type.Underlying().(*types.Basic)
								if fb != nil && tb != nil && fb.Info()&types.IsInteger != 0 && tb.Info()&types.IsInteger != 0 && s.nonzero[exprStr(ast.Unparen(c.Args[0]))] {
									if sizeOfBasic(tb) >= sizeOfBasic(fb) {
										good = true
									}
								}
								if fb != nil && tb != nil && fb.Info()&types.IsInteger != 0 && tb.Info()&types.IsFloat != 0 && s.nonzero[exprStr(ast.Unparen(c.Args[0]))] {
									good = true
								}
							}
						}
					}
					if good {
						record("C03-DIV", key, x.Pos(), true, "divisor "+k+" tested non-zero on every path")
					} else {
						record("C03-DIV", key, x.Pos(), false, fmt.Sprintf("divisor %s is not itself tested against zero on every path reaching the %s (a zero divisor panics for integers and yields ±Inf/NaN instead of a catchable error for floats)", k, x.Op))
					}
				case token.SHL, token.SHR:
					tv, ok := info.Types[x.Y]
					if !ok || tv.Value != nil {
						return s
					}
					if _, isBasic := tv.Type.Underlying().(*types.Basic); !isBasic {
						return s
					}
					key := "shift:" + exprStr(x)
					// the count must be the operand value itself: masking or reducing it (count & 63,
					// count % 64) makes large counts wrap instead of shifting everything out
					masked := false
					ast.Inspect(x.Y, func(n ast.Node) bool {
						if be, ok := n.(*ast.BinaryExpr); ok && (be.Op == token.AND || be.Op == token.REM) {
							masked = true
						}
						return true
					})
					// a count produced by a package function: look at what that function returns
					if id, ok := ast.Unparen(x.Y).(*ast.Ident); ok && !masked {
						cobj := info.Uses[id]
						ast.Inspect(fd.Body, func(n ast.Node) bool {
							as, ok := n.(*ast.AssignStmt)
							if !ok || len(as.Rhs) != 1 {
								return true
							}
							call, ok := ast.Unparen(as.Rhs[0]).(*ast.CallExpr)
							if !ok {
								return true
							}
							for ri, l := range as.Lhs {
								lid, ok := l.(*ast.Ident)
								if !ok || (info.Defs[lid] != cobj && info.Uses[lid] != cobj) {
									continue
								}
								cal, _ := calleeOf(info, call).(*types.Func)
								if cal == nil || cal.Pkg() != npkg.Types {
									continue
								}
								for _, cfd := range funcDecls(npkg) {
									if info.Defs[cfd.Name] != cal {
										continue
									}
									ast.Inspect(cfd.Body, func(m ast.Node) bool {
										rs, ok := m.(*ast.ReturnStmt)
										if !ok || ri >= len(rs.Results) {
											return true
										}
										ast.Inspect(rs.Results[ri], func(k ast.Node) bool {
											if be, ok := k.(*ast.BinaryExpr); ok && (be.Op == token.AND || be.Op == token.REM) {
												masked = true
											}
											return true
										})
										return true
									})
								}
							}
							return true
						})
					}
					if masked {
						record("C03-SHIFT", key, x.Pos(), false, "the shift count is masked or reduced ("+exprStr(x.Y)+"): counts of 64 and more wrap around instead of shifting every bit out")
						return s
					}
					// look through a conversion to an unsigned type: the signed source must be tested
					cnt := ast.Unparen(x.Y)
					for {
						c, ok := cnt.(*ast.CallExpr)
						if !ok || len(c.Args) != 1 {
							break
						}
						if ctv, ok := info.Types[c.Fun]; !ok || !ctv.IsType() {
							break
						}
						cnt = ast.Unparen(c.Args[0])
					}
					ctv, ok := info.Types[cnt]
					if !ok {
						return s
					}
					if cb, ok := ctv.Type.Underlying().(*types.Basic); ok && cb.Info()&types.IsUnsigned != 0 {
						record("C03-SHIFT", key, x.Pos(), true, "unsigned shift count")
						return s
					}
					k := exprStr(cnt)
					if s.nonneg[k] {
						record("C03-SHIFT", key, x.Pos(), true, "shift count "+k+" rejected when negative")
					} else {
						record("C03-SHIFT", key, x.Pos(), false, "signed shift count "+k+" is not rejected when negative: Go panics with 'negative shift amount' (or a conversion to unsigned turns it into a huge count)")
					}
				}
			}
			return s
		}
		WalkFunc(h, fd.Body, &c03State{narrow: map[types.Object][]types.Type{}, nonzero: map[string]bool{}, nonneg: map[string]bool{}, okOf: map[types.Object]c03Pending{}})
		for _, s := range sites {
			r.curRule = s.rule
			if s.ok {
				r.ok(s.key, s.pos, s.msg)
			} else {
				r.bad(s.key, s.pos, s.msg)
			}
		}
	}
	c03Promote(r, npkg)
	c03Order(r, dpkg, npkg)
	c03Truth(r, npkg, dpkg)
}

func sizeOfBasic(b *types.Basic) int {
	switch b.Kind() {
	case types.Int8, types.Uint8:
		return 1
	case types.Int16, types.Uint16:
		return 2
	case types.Int32, types.Uint32, types.Float32:
		return 4
	}
	return 8
}

// c03Truth: boolean contexts decide through data.AsBool.
func c03Truth(r *Run, npkg, dpkg *packages.Package) {
	r.curRule = "C03-TRUTH"
	info := npkg.TypesInfo
	// the truthiness interface of package data, found by role: the interface whose only method is
	// `() (bool, error)` (data.AsBool today)
	var asBool *types.TypeName
	for _, name := range dpkg.Types.Scope().Names() {
		tn, ok := dpkg.Types.Scope().Lookup(name).(*types.TypeName)
		if !ok {
			continue
		}
		it, ok := tn.Type().Underlying().(*types.Interface)
		if !ok || it.NumMethods() != 1 {
			continue
		}
		sig := it.Method(0).Type().(*types.Signature)
		if sig.Params().Len() != 0 || sig.Results().Len() != 2 {
			continue
		}
		b, ok := sig.Results().At(0).Type().Underlying().(*types.Basic)
		if !ok || b.Kind() != types.Bool || !isErrorType(sig.Results().At(1).Type()) {
			continue
		}
		if asBool != nil {
			r.fail("two interfaces of package data convert to (bool, error): %s and %s; the truthiness interface is ambiguous", asBool.Name(), tn.Name())
			return
		}
		asBool = tn
	}
	if asBool == nil {
		r.fail("anchor not found: no interface of package data has the single method () (bool, error) (data.AsBool)")
		return
	}
	asBoolIface := asBool.Type().Underlying().(*types.Interface)
	asBoolMethod := asBoolIface.Method(0).Name()
	// boolean-context nodes: (type, field holding the condition)
	contexts := []struct{ typ, field, what string }{
		{"IfStatement", "Condition", "if"},
		{"WhileStatement", "Condition", "while"},
		{"DoWhileStatement", "Condition", "do-while"},
		{"ForStatement", "Condition", "for"},
		{"TernaryExpression", "Condition", "?:"},
		{"UnaryExpression", "Right", "!"},
		{"BinaryLand", "Left", "&&"},
		{"BinaryLor", "Left", "||"},
	}
	scalarPayload := func(t types.Type) bool {
		for _, n := range []string{"IntValue", "FloatValue", "StringValue", "ArrayValue", "NullValue"} {
			if isNamed(t, modPath+"/data", n) {
				return true
			}
		}
		return false
	}
	declOf := map[*types.Func]*ast.FuncDecl{}
	for _, fd := range funcDecls(npkg) {
		if o, ok := info.Defs[fd.Name].(*types.Func); ok {
			declOf[o] = fd
		}
	}
	var reachesAsBool func(body ast.Node, d int) bool
	reachesAsBool = func(body ast.Node, d int) bool {
		found := false
		ast.Inspect(body, func(n ast.Node) bool {
			x, ok := n.(*ast.CallExpr)
			if !ok || found {
				return !found
			}
			cal, ok := calleeOf(info, x).(*types.Func)
			if !ok {
				return true
			}
			if cal.Name() == asBoolMethod {
				if sig, ok := cal.Type().(*types.Signature); ok && sig.Recv() != nil {
					rt := sig.Recv().Type()
					if types.Identical(rt.Underlying(), asBoolIface) || types.Implements(rt, asBoolIface) {
						found = true
					}
				}
			} else if fd := declOf[cal]; fd != nil && fd.Body != nil && d < 2 {
				if reachesAsBool(fd.Body, d+1) {
					found = true
				}
			}
			return true
		})
		return found
	}
	for _, c := range contexts {
		nt := r.lookupType(npkg, c.typ)
		if nt == nil {
			continue
		}
		// all methods of the type that evaluate the condition field
		found := false
		for _, fd := range funcDecls(npkg) {
			if recvTypeName(fd) != c.typ {
				continue
			}
			evaluates := false
			var helpers []*ast.FuncDecl // helpers that receive the condition field and evaluate it
			ast.Inspect(fd.Body, func(n ast.Node) bool {
				if call, ok := n.(*ast.CallExpr); ok {
					if se, ok := ast.Unparen(call.Fun).(*ast.SelectorExpr); ok && se.Sel.Name == "GetValue" {
						if in, ok := ast.Unparen(se.X).(*ast.SelectorExpr); ok && in.Sel.Name == c.field {
							evaluates = true
						}
					}
					if cal, ok := calleeOf(info, call).(*types.Func); ok {
						if hd := declOf[cal]; hd != nil && hd != fd && hd.Body != nil {
							for i, a := range call.Args {
								if in, ok := ast.Unparen(a).(*ast.SelectorExpr); ok && in.Sel.Name == c.field {
									if po := paramObjAt(info, hd, i); po != nil && callsGetValueOn(info, hd.Body, po) {
										evaluates = true
										helpers = append(helpers, hd)
									}
								}
							}
						}
					}
				}
				return true
			})
			if !evaluates {
				continue
			}
			found = true
			key := funcKey(npkg, fd) + "#truth:" + c.what
			callsAsBool := reachesAsBool(fd.Body, 0)
			var payloadPos token.Pos
			var payloadWhat string
			scan := func(n ast.Node) bool {
				switch x := n.(type) {
				case *ast.BinaryExpr:
					// comparison of a scalar payload (.Value / len(.Value) / len(.List)) with a constant
					switch x.Op {
					case token.EQL, token.NEQ, token.GTR, token.LSS, token.GEQ, token.LEQ:
					default:
						return true
					}
					for _, side := range []ast.Expr{x.X, x.Y} {
						e := ast.Unparen(side)
						if c, ok := e.(*ast.CallExpr); ok && len(c.Args) == 1 {
							if id, ok := ast.Unparen(c.Fun).(*ast.Ident); ok && id.Name == "len" {
								e = ast.Unparen(c.Args[0])
							}
						}
						if se, ok := e.(*ast.SelectorExpr); ok && (se.Sel.Name == "Value" || se.Sel.Name == "List") {
							if scalarPayload(info.TypeOf(se.X)) && payloadPos == token.NoPos {
								payloadPos = x.Pos()
								payloadWhat = exprStr(x)
							}
						}
					}
				}
				return true
			}
			ast.Inspect(fd.Body, scan)
			for _, hd := range helpers {
				ast.Inspect(hd.Body, scan)
			}
			switch {
			case payloadPos != token.NoPos:
				r.bad(key, payloadPos, fmt.Sprintf("%s context computes truthiness itself (%s) instead of asking data.AsBool: the same value can be true here and false in another context", c.what, payloadWhat))
			case !callsAsBool:
				r.bad(key, fd.Pos(), fmt.Sprintf("%s context never consults data.AsBool", c.what))
			default:
				r.ok(key, fd.Pos(), c.what+" decides through data.AsBool")
			}
		}
		if !found {
			r.fail("no method of node.%s evaluates its %s field: boolean context anchor moved", c.typ, c.field)
		}
	}
	c03BoolCast(r, asBoolIface, asBoolMethod)
	c03TruthHelpers(r, npkg, asBoolIface, asBoolMethod)
}

// c03BoolCast: the (bool) conversion function is a boolean context like the others: it asks the
// truthiness interface first and has no arm for a concrete value type in front of it.
func c03BoolCast(r *Run, asBoolIface *types.Interface, asBoolMethod string) {
	sp := r.pkg("std")
	if sp == nil {
		return
	}
	info := sp.TypesInfo
	// the function object whose GetName answers "bool"
	var recv string
	for _, fd := range funcDecls(sp) {
		if fd.Name.Name != "GetName" || fd.Recv == nil || fd.Body == nil || len(fd.Body.List) != 1 {
			continue
		}
		rs, ok := fd.Body.List[0].(*ast.ReturnStmt)
		if !ok || len(rs.Results) != 1 {
			continue
		}
		if tv, ok := info.Types[rs.Results[0]]; ok && tv.Value != nil && tv.Value.ExactString() == `"bool"` {
			recv = recvTypeName(fd)
		}
	}
	if recv == "" {
		r.fail("the (bool) conversion function (a std function object named \"bool\") was not found")
		return
	}
	call := findFunc(sp, recv, "Call")
	if call == nil {
		r.fail("std.%s has no Call method", recv)
		return
	}
	key := funcKey(sp, call) + "#truth:(bool)"
	isTruthIface := func(t types.Type) bool {
		it, ok := t.Underlying().(*types.Interface)
		return ok && types.Identical(it, asBoolIface)
	}
	isConcreteValue := func(t types.Type) bool {
		pt, ok := t.(*types.Pointer)
		if !ok {
			return false
		}
		nt := namedOf(pt.Elem())
		return nt != nil && nt.Obj().Pkg() != nil && nt.Obj().Pkg().Path() == modPath+"/data" && strings.HasSuffix(nt.Obj().Name(), "Value")
	}
	consults := false
	var early token.Pos
	earlyWhat := ""
	ast.Inspect(call.Body, func(n ast.Node) bool {
		switch x := n.(type) {
		case *ast.CallExpr:
			if se, ok := ast.Unparen(x.Fun).(*ast.SelectorExpr); ok && se.Sel.Name == asBoolMethod {
				consults = true
			}
		case *ast.TypeSwitchStmt:
			seenTruth := false
			for _, c := range x.Body.List {
				cc := c.(*ast.CaseClause)
				for _, t := range cc.List {
					tv, ok := info.Types[t]
					if !ok || !tv.IsType() {
						continue
					}
					if isTruthIface(tv.Type) {
						seenTruth = true
					} else if !seenTruth && isConcreteValue(tv.Type) && !early.IsValid() {
						early, earlyWhat = cc.Pos(), types.TypeString(tv.Type, func(p *types.Package) string { return p.Name() })
					}
				}
			}
		}
		return true
	})
	switch {
	case early.IsValid():
		r.bad(key, early, "the (bool) conversion has an arm for "+earlyWhat+" in front of the truthiness interface: that kind of value is judged by a rule of its own here and by data."+asBoolMethod+" in if / while / ?: / ! / && / ||, so the same value can be true in one context and false in another")
	case !consults:
		r.bad(key, call.Pos(), "the (bool) conversion never consults the truthiness interface")
	default:
		r.ok(key, call.Pos(), "(bool) decides through the truthiness interface first")
	}
}

// paramObjAt returns the object of the i-th parameter of fd (nil when it has none).
func paramObjAt(info *types.Info, fd *ast.FuncDecl, i int) types.Object {
	k := 0
	for _, f := range fd.Type.Params.List {
		if len(f.Names) == 0 {
			k++
			continue
		}
		for _, nm := range f.Names {
			if k == i {
				return info.Defs[nm]
			}
			k++
		}
	}
	return nil
}

// callsGetValueOn reports whether body calls GetValue on the given variable.
func callsGetValueOn(info *types.Info, body ast.Node, o types.Object) bool {
	found := false
	ast.Inspect(body, func(n ast.Node) bool {
		if call, ok := n.(*ast.CallExpr); ok {
			if se, ok := ast.Unparen(call.Fun).(*ast.SelectorExpr); ok && se.Sel.Name == "GetValue" {
				if id, ok := ast.Unparen(se.X).(*ast.Ident); ok && info.Uses[id] == o {
					found = true
				}
			}
		}
		return !found
	})
	return found
}

func isErrorType(t types.Type) bool {
	return types.Identical(t, types.Universe.Lookup("error").Type())
}

// c03TruthHelpers: a helper of package node that turns an operand into a bool through the truthiness
// interface (operandAsBool(v) (bool, error)) is itself a boolean context: it has no arm for a concrete
// value type (other than the bool value type, whose payload *is* its truth) in front of the interface
// test — such an arm gives that kind of value a second truth rule, valid only where the helper is used.
func c03TruthHelpers(r *Run, npkg *packages.Package, asBoolIface *types.Interface, asBoolMethod string) {
	info := npkg.TypesInfo
	isTruthIface := func(t types.Type) bool {
		it, ok := t.Underlying().(*types.Interface)
		return ok && types.Identical(it, asBoolIface)
	}
	concreteValue := func(t types.Type) string {
		pt, ok := t.(*types.Pointer)
		if !ok {
			return ""
		}
		nt := namedOf(pt.Elem())
		if nt == nil || nt.Obj().Pkg() == nil || nt.Obj().Pkg().Path() != modPath+"/data" || !strings.HasSuffix(nt.Obj().Name(), "Value") || nt.Obj().Name() == "BoolValue" {
			return ""
		}
		return nt.Obj().Name()
	}
	for _, fd := range funcDecls(npkg) {
		if fd.Body == nil || fd.Recv != nil || fd.Type.Params == nil || fd.Type.Results == nil {
			continue
		}
		fn, _ := info.Defs[fd.Name].(*types.Func)
		if fn == nil {
			continue
		}
		sig := fn.Type().(*types.Signature)
		if sig.Results().Len() == 0 {
			continue
		}
		if b, ok := sig.Results().At(0).Type().Underlying().(*types.Basic); !ok || b.Kind() != types.Bool {
			continue
		}
		// the operand parameter
		var param types.Object
		for i := 0; i < sig.Params().Len(); i++ {
			pt := sig.Params().At(i).Type()
			if isNamed(pt, modPath+"/data", "GetValue") || isNamed(pt, modPath+"/data", "Value") {
				param = paramObjAt(info, fd, i)
			}
		}
		if param == nil {
			continue
		}
		truthAt, early := token.NoPos, token.NoPos
		earlyWhat := ""
		onParam := func(e ast.Expr) bool {
			id, ok := ast.Unparen(e).(*ast.Ident)
			return ok && info.Uses[id] == param
		}
		note := func(t types.Type, pos token.Pos) {
			if isTruthIface(t) {
				if truthAt == token.NoPos || pos < truthAt {
					truthAt = pos
				}
			} else if w := concreteValue(t); w != "" {
				if early == token.NoPos || pos < early {
					early, earlyWhat = pos, w
				}
			}
		}
		ast.Inspect(fd.Body, func(n ast.Node) bool {
			switch x := n.(type) {
			case *ast.TypeAssertExpr:
				if x.Type != nil && onParam(x.X) {
					note(info.TypeOf(x.Type), x.Pos())
				}
			case *ast.TypeSwitchStmt:
				subject := false
				switch a := x.Assign.(type) {
				case *ast.ExprStmt:
					if ta, ok := ast.Unparen(a.X).(*ast.TypeAssertExpr); ok {
						subject = onParam(ta.X)
					}
				case *ast.AssignStmt:
					if len(a.Rhs) == 1 {
						if ta, ok := ast.Unparen(a.Rhs[0]).(*ast.TypeAssertExpr); ok {
							subject = onParam(ta.X)
						}
					}
				}
				if subject {
					for _, c := range x.Body.List {
						for _, te := range c.(*ast.CaseClause).List {
							if tv, ok := info.Types[te]; ok && tv.IsType() {
								note(tv.Type, c.Pos())
							}
						}
					}
				}
			}
			return true
		})
		if truthAt == token.NoPos {
			continue // not a truth helper
		}
		key := funcKey(npkg, fd) + "#truth-helper"
		if early != token.NoPos && early < truthAt {
			r.bad(key, early, "this truthiness helper has an arm for "+earlyWhat+" in front of the truthiness interface: that kind of value is judged by a rule of its own where the helper is used (operands of || and &&) and by data."+asBoolMethod+" in if / while / ?: / ! / (bool), so the same value can be true in one context and false in another")
		} else {
			r.ok(key, fd.Pos(), "the helper decides through the truthiness interface first")
		}
	}
}
