package main

import (
	"go/ast"
	"go/token"
	"go/types"
	"strings"

	"golang.org/x/tools/go/packages"
)

// A small partial evaluator for the token→node constructor dispatch: node.NewBinaryExpression is
// evaluated once per operator token with the token known and the operands symbolic, whatever the
// shape of the dispatch (one switch, helper functions, token→token tables, early returns).

type pvKind int

const (
	pvUnknown  pvKind = iota
	pvTok             // a token type constant
	pvOperator        // the operator token object (its Type() is tok)
	pvBool
	pvNil
	pvLeaf // a symbolic operand, named after the entry function's parameter
	pvNode // a constructor call
	pvTuple
	pvPanic
)

type pv struct {
	kind  pvKind
	tok   types.Object
	b     bool
	name  string
	args  []*pv
	pos   token.Pos
	tuple []*pv
}

var pvU = &pv{kind: pvUnknown}

type pvEval struct {
	pkg    *packages.Package
	info   *types.Info
	isTok  func(types.Object) bool
	depth  int
	budget int
}

func pvSame(a, b *pv) bool {
	if a == nil || b == nil || a.kind != b.kind {
		return false
	}
	switch a.kind {
	case pvTok, pvOperator:
		return a.tok == b.tok
	case pvBool:
		return a.b == b.b
	case pvNil, pvPanic:
		return true
	case pvLeaf:
		return a.name == b.name
	case pvNode:
		if a.name != b.name || len(a.args) != len(b.args) {
			return false
		}
		for i := range a.args {
			if !pvSame(a.args[i], b.args[i]) {
				return false
			}
		}
		return true
	}
	return false
}

func pvMerge(a, b *pv) *pv {
	if pvSame(a, b) {
		return a
	}
	return pvU
}

// call evaluates fd with the given arguments; the result is the returned value (a tuple for several results).
func (ev *pvEval) call(fd *ast.FuncDecl, args []*pv) *pv {
	if ev.depth > 5 || ev.budget <= 0 {
		return pvU
	}
	ev.depth++
	defer func() { ev.depth-- }()
	env := map[types.Object]*pv{}
	i := 0
	for _, f := range fd.Type.Params.List {
		for _, nm := range f.Names {
			if i < len(args) {
				env[ev.info.Defs[nm]] = args[i]
			}
			i++
		}
		if len(f.Names) == 0 {
			i++
		}
	}
	ret, done := ev.exec(fd.Body.List, env)
	if !done {
		return pvU
	}
	return ret
}

func (ev *pvEval) exec(list []ast.Stmt, env map[types.Object]*pv) (*pv, bool) {
	for _, st := range list {
		ev.budget--
		if ev.budget <= 0 {
			return pvU, true
		}
		switch x := st.(type) {
		case *ast.ReturnStmt:
			if len(x.Results) == 1 {
				return ev.expr(x.Results[0], env), true
			}
			t := &pv{kind: pvTuple}
			for _, e := range x.Results {
				t.tuple = append(t.tuple, ev.expr(e, env))
			}
			return t, true
		case *ast.ExprStmt:
			if c, ok := x.X.(*ast.CallExpr); ok {
				if id, ok := c.Fun.(*ast.Ident); ok && id.Name == "panic" {
					if _, isBuiltin := ev.info.Uses[id].(*types.Builtin); isBuiltin {
						return &pv{kind: pvPanic}, true
					}
				}
			}
		case *ast.AssignStmt:
			ev.assign(x, env)
		case *ast.DeclStmt:
			if gd, ok := x.Decl.(*ast.GenDecl); ok {
				for _, sp := range gd.Specs {
					if vs, ok := sp.(*ast.ValueSpec); ok {
						for i, nm := range vs.Names {
							v := pvU
							if i < len(vs.Values) {
								v = ev.expr(vs.Values[i], env)
							}
							env[ev.info.Defs[nm]] = v
						}
					}
				}
			}
		case *ast.BlockStmt:
			if r, done := ev.exec(x.List, env); done {
				return r, true
			}
		case *ast.IfStmt:
			if r, done := ev.ifStmt(x, env); done {
				return r, true
			}
		case *ast.SwitchStmt:
			if x.Init != nil {
				ev.exec([]ast.Stmt{x.Init}, env)
			}
			if x.Tag == nil {
				return pvU, true
			}
			tag := ev.expr(x.Tag, env)
			if tag.kind != pvTok {
				return pvU, true
			}
			var chosen, def *ast.CaseClause
			for _, c := range x.Body.List {
				cc := c.(*ast.CaseClause)
				if cc.List == nil {
					def = cc
				}
				for _, v := range cc.List {
					cv := ev.expr(v, env)
					if cv.kind != pvTok {
						return pvU, true
					}
					if cv.tok == tag.tok && chosen == nil {
						chosen = cc
					}
				}
			}
			if chosen == nil {
				chosen = def
			}
			if chosen != nil {
				for _, s := range chosen.Body {
					if b, ok := s.(*ast.BranchStmt); ok && b.Tok == token.FALLTHROUGH {
						return pvU, true
					}
				}
				if r, done := ev.exec(chosen.Body, env); done {
					return r, true
				}
			}
		default:
			// loops, type switches, go/defer: anything assigned inside becomes unknown
			ast.Inspect(st, func(n ast.Node) bool {
				if a, ok := n.(*ast.AssignStmt); ok {
					for _, l := range a.Lhs {
						if id, ok := l.(*ast.Ident); ok {
							if o := ev.obj(id); o != nil {
								env[o] = pvU
							}
						}
					}
				}
				if _, ok := n.(*ast.ReturnStmt); ok {
					env[nil] = pvU // marker: a return hides in an unsupported statement
				}
				return true
			})
			if env[nil] != nil {
				delete(env, nil)
				return pvU, true
			}
		}
	}
	return nil, false
}

func (ev *pvEval) obj(id *ast.Ident) types.Object {
	if o := ev.info.Defs[id]; o != nil {
		return o
	}
	return ev.info.Uses[id]
}

func (ev *pvEval) assign(x *ast.AssignStmt, env map[types.Object]*pv) {
	var vals []*pv
	if len(x.Rhs) == 1 && len(x.Lhs) > 1 {
		v := ev.expr(x.Rhs[0], env)
		if v.kind == pvTuple && len(v.tuple) == len(x.Lhs) {
			vals = v.tuple
		} else {
			for range x.Lhs {
				vals = append(vals, pvU)
			}
		}
	} else {
		for _, e := range x.Rhs {
			vals = append(vals, ev.expr(e, env))
		}
	}
	for i, l := range x.Lhs {
		id, ok := l.(*ast.Ident)
		if !ok || id.Name == "_" || i >= len(vals) {
			continue
		}
		if o := ev.obj(id); o != nil {
			if x.Tok != token.ASSIGN && x.Tok != token.DEFINE {
				env[o] = pvU
			} else {
				env[o] = vals[i]
			}
		}
	}
}

func copyEnv(env map[types.Object]*pv) map[types.Object]*pv {
	c := make(map[types.Object]*pv, len(env))
	for k, v := range env {
		c[k] = v
	}
	return c
}

func (ev *pvEval) ifStmt(x *ast.IfStmt, env map[types.Object]*pv) (*pv, bool) {
	if x.Init != nil {
		ev.exec([]ast.Stmt{x.Init}, env)
	}
	cond := ev.expr(x.Cond, env)
	runElse := func(e map[types.Object]*pv) (*pv, bool) {
		switch el := x.Else.(type) {
		case *ast.BlockStmt:
			return ev.exec(el.List, e)
		case *ast.IfStmt:
			return ev.ifStmt(el, e)
		}
		return nil, false
	}
	if cond.kind == pvBool {
		if cond.b {
			return ev.exec(x.Body.List, env)
		}
		return runElse(env)
	}
	// undecided: run both arms on copies, join
	e1, e2 := copyEnv(env), copyEnv(env)
	r1, d1 := ev.exec(x.Body.List, e1)
	r2, d2 := runElse(e2)
	for k := range env {
		env[k] = pvMerge(e1[k], e2[k])
	}
	for k, v := range e1 {
		if _, ok := env[k]; !ok {
			env[k] = pvMerge(v, e2[k])
		}
	}
	switch {
	case d1 && d2:
		return pvMerge(r1, r2), true
	case d1 || d2:
		// one arm returns, the other continues: the continuation decides only if it agrees
		env[nil] = nil
		delete(env, nil)
		return pvU, true
	}
	return nil, false
}

func (ev *pvEval) expr(e ast.Expr, env map[types.Object]*pv) *pv {
	switch x := ast.Unparen(e).(type) {
	case *ast.Ident:
		o := ev.info.Uses[x]
		if o == nil {
			return pvU
		}
		if v, ok := env[o]; ok {
			return v
		}
		if ev.isTok(o) {
			return &pv{kind: pvTok, tok: o}
		}
		switch o := o.(type) {
		case *types.Nil:
			return &pv{kind: pvNil}
		case *types.Const:
			if b, ok := o.Type().Underlying().(*types.Basic); ok && b.Info()&types.IsBoolean != 0 {
				return &pv{kind: pvBool, b: o.Val().String() == "true"}
			}
		}
		return pvU
	case *ast.SelectorExpr:
		if o := ev.info.Uses[x.Sel]; o != nil && ev.isTok(o) {
			return &pv{kind: pvTok, tok: o}
		}
		return pvU
	case *ast.UnaryExpr:
		if x.Op == token.NOT {
			if v := ev.expr(x.X, env); v.kind == pvBool {
				return &pv{kind: pvBool, b: !v.b}
			}
		}
		return pvU
	case *ast.BinaryExpr:
		a, b := ev.expr(x.X, env), ev.expr(x.Y, env)
		switch x.Op {
		case token.LAND, token.LOR:
			if a.kind == pvBool && b.kind == pvBool {
				if x.Op == token.LAND {
					return &pv{kind: pvBool, b: a.b && b.b}
				}
				return &pv{kind: pvBool, b: a.b || b.b}
			}
			if a.kind == pvBool && ((x.Op == token.LAND && !a.b) || (x.Op == token.LOR && a.b)) {
				return a
			}
			if b.kind == pvBool && ((x.Op == token.LAND && !b.b) || (x.Op == token.LOR && b.b)) {
				return b
			}
		case token.EQL, token.NEQ:
			eq, known := false, false
			switch {
			case a.kind == pvTok && b.kind == pvTok:
				eq, known = a.tok == b.tok, true
			case a.kind == pvNil && b.kind == pvNil:
				eq, known = true, true
			case (a.kind == pvNode && b.kind == pvNil) || (a.kind == pvNil && b.kind == pvNode):
				eq, known = false, true
			case a.kind == pvBool && b.kind == pvBool:
				eq, known = a.b == b.b, true
			}
			if known {
				return &pv{kind: pvBool, b: eq == (x.Op == token.EQL)}
			}
		}
		return pvU
	case *ast.CallExpr:
		return ev.callExpr(x, env)
	}
	return pvU
}

func (ev *pvEval) callExpr(x *ast.CallExpr, env map[types.Object]*pv) *pv {
	// operator.Type()
	if se, ok := ast.Unparen(x.Fun).(*ast.SelectorExpr); ok && len(x.Args) == 0 {
		if recv := ev.expr(se.X, env); recv.kind == pvOperator && se.Sel.Name == "Type" {
			return &pv{kind: pvTok, tok: recv.tok}
		}
	}
	// conversion T(x)
	if tv, ok := ev.info.Types[x.Fun]; ok && tv.IsType() && len(x.Args) == 1 {
		return ev.expr(x.Args[0], env)
	}
	cal := calleeFunc(ev.info, x)
	if cal == nil {
		return pvU
	}
	args := make([]*pv, len(x.Args))
	hasTok := false
	for i, a := range x.Args {
		args[i] = ev.expr(a, env)
		switch args[i].kind {
		case pvTok, pvOperator:
			hasTok = true
		}
	}
	var hd *ast.FuncDecl
	if cal.Pkg() == ev.pkg.Types {
		hd = declOf(ev.pkg, cal)
	}
	if hasTok && hd != nil && hd.Body != nil {
		return ev.call(hd, args)
	}
	if strings.HasPrefix(cal.Name(), "New") {
		return &pv{kind: pvNode, name: cal.Name(), args: args, pos: x.Pos()}
	}
	// an operand wrapper (same type in and out) keeps the identity of the operand
	if sig, ok := cal.Type().(*types.Signature); ok && sig.Results().Len() == 1 {
		var same *pv
		n := 0
		for i, a := range args {
			if a.kind == pvLeaf && i < sig.Params().Len() && types.Identical(sig.Params().At(i).Type(), sig.Results().At(0).Type()) {
				same = a
				n++
			}
		}
		if n == 1 {
			return same
		}
	}
	return pvU
}
