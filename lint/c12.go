package main

import (
	"fmt"
	"go/ast"
	"go/token"
	"go/types"
	"os"
	"sort"
	"strings"

	"golang.org/x/tools/go/callgraph/cha"
	"golang.org/x/tools/go/callgraph/vta"
	"golang.org/x/tools/go/ssa"
	"golang.org/x/tools/go/ssa/ssautil"
)

func init() {
	assumeSite("C12-DELEG", "runtime.(TempVM).CompileLoad#delegates:CompileLoad", "ahead-of-time compile mode registers into the base VM on purpose (see the CompileMode fallbacks in TempVM.GetOrLoadClass/LoadPkg); not used while serving requests")
	assumeSite("C12-DELEG", "runtime.(TempVM).RunCompiledFile#delegates:RunCompiledFile", "ahead-of-time compiled files are a process-wide registry (RegisterCompiledFile is Go-side, from generated code) run once per process in the base VM, like CompileLoad; the programs come from outside the module, so whether the call graph sees a path depends only on how (*VM).RunCompiledFile shares its tail with LoadAndRun")
	assumeSite("C12-DELEG", "runtime.(TempVM).RegisterFunction#delegates:RegisterFunction", "Go-side registration API: native functions are process-wide by design")
	assumeSite("C12-DELEG", "runtime.(TempVM).RegisterReflectClass#delegates:RegisterReflectClass", "Go-side registration API: native classes are process-wide by design")
	assumeSite("C12-DELEG", "runtime.(TempVM).RunShutdownCallbacks#delegates:RunShutdownCallbacks", "process-level shutdown callbacks run once at process end in the base VM's context; not part of serving a request")
	assumeSite("C12-DELEG", "runtime.(TempVM).ThrowControl#delegates:ThrowControl", "the uncaught-exception handler is process-wide by design (SetExceptionHandler delegates to the base VM); it runs the script's handler closure, not request code")
	register(&PropDef{
		ID:          "C12",
		Patterns:    []string{"./runtime", "./std/php"},
		Explanation: "A request-scoped TempVM must keep its definitions to itself and still resolve everything the base VM has. Decided structurally: (OWN) TempVM.AddClass/AddInterface/AddFunc write only the receiver's own tables; (DELEG) a TempVM method delegates to a base-VM method only if no path from that base method (CHA call graph over the whole program) reaches (*VM).AddClass/AddInterface/AddFunc — otherwise definitions made on behalf of the TempVM land in the base VM; the intentional process-wide registrations are listed; (PARSER) the parser a TempVM parses with is the clone bound to it by PrepareParse; (READ) every TempVM lookup consults the base VM on some path; (ESC) the added-* tables are not stored anywhere else. Histories (what an earlier request did) are not enumerated.",
		Assumptions: []string{
			"call graph: VTA refined from CHA over go/ssa (sound for the program as loaded, over-approximate: it can only add delegation edges to the forbidden set, never hide one)",
		},
		Rules: []RuleDef{
			{Name: "C12-OWN", Floor: 1, Doc: "TempVM.Add* write only the TempVM's own maps", Run: c12Run},
			{Name: "C12-DELEG", Floor: 10, Doc: "no TempVM method delegates to a base-VM method from which the base VM's Add* is reachable (except listed process-wide registrations)", Run: nop},
			{Name: "C12-PARSER", Floor: 1, Doc: "TempVM parses with the parser cloned and bound to it by PrepareParse; the base parser is only cloned", Run: nop},
			{Name: "C12-READ", Floor: 2, Doc: "every TempVM lookup falls back to (or starts with) the base VM", Run: nop},
			{Name: "C12-ESC", Floor: 1, Doc: "the added-class/interface/function tables do not escape the TempVM", Run: nop},
		},
	})
}

// c12FunctionObjects: the objects behind the built-in functions (types of std/php with a Call method) are
// registered once on the base VM and shared with every request-scoped VM. They keep nothing between
// calls: a memo of what one request's VM answered (class_exists, function_exists, a resolved class) is an
// answer given to all the others. One obligation per function type; a store into a field of the receiver
// while it is called — assignment, ++, delete, a mutating method of a sync/atomic container held in a
// field — is the violation.
func c12FunctionObjects(r *Run) {
	sp := r.pkg("std/php")
	if sp == nil {
		return
	}
	r.curRule = "C12-ESC"
	writes, examined := evalClosureFieldWrites(sp)
	bad := map[string]bool{}
	for _, w := range writes {
		bad[w.typeName] = true
		r.bad("std/php.("+w.typeName+")#remembers:"+w.field, w.pos, "the function object stores "+w.field+" while it is called: it is shared by the base VM and every request-scoped VM, so what one request's VM answered (or defined) is handed to all the others")
	}
	names := []string{}
	for tn := range examined {
		if !bad[tn] {
			names = append(names, tn)
		}
	}
	sort.Strings(names)
	for _, tn := range names {
		r.ok("std/php.("+tn+")#stateless", examined[tn], "the function object keeps nothing between calls")
	}
}

func c12Run(r *Run) {
	c12FunctionObjects(r)
	pkg := r.pkg("runtime")
	if pkg == nil {
		return
	}
	info := pkg.TypesInfo
	tvm := r.lookupType(pkg, "TempVM")
	vm := r.lookupType(pkg, "VM")
	if tvm == nil || vm == nil {
		return
	}
	tst := tvm.Underlying().(*types.Struct)
	// the base VM: the field of TempVM whose type is *VM (named, or embedded so that the base VM's
	// methods are promoted)
	var fBase *types.Var
	for i := 0; i < tst.NumFields(); i++ {
		if pt, ok := tst.Field(i).Type().(*types.Pointer); ok && namedOf(pt.Elem()) == vm {
			fBase = tst.Field(i)
		}
	}
	if fBase == nil {
		r.fail("anchor not found: TempVM has no field of type *VM (the base VM)")
		return
	}
	ownMaps := map[*types.Var]bool{}
	var fParser *types.Var
	for i := 0; i < tst.NumFields(); i++ {
		f := tst.Field(i)
		if _, ok := f.Type().Underlying().(*types.Map); ok {
			ownMaps[f] = true
		}
		if isNamed(f.Type(), modPath+"/parser", "Parser") {
			fParser = f
		}
	}
	fieldOf := func(e ast.Expr) *types.Var {
		if se, ok := ast.Unparen(e).(*ast.SelectorExpr); ok {
			if s, ok := info.Selections[se]; ok {
				if v, ok := s.Obj().(*types.Var); ok {
					return v
				}
			}
		}
		return nil
	}
	methods := map[string]*ast.FuncDecl{}
	for _, fd := range funcDecls(pkg) {
		if recvTypeName(fd) == "TempVM" {
			methods[fd.Name.Name] = fd
		}
	}
	// calls of the form  <recv>.Base.M(...)
	baseCalls := func(fd *ast.FuncDecl) map[string]*ast.CallExpr {
		out := map[string]*ast.CallExpr{}
		ast.Inspect(fd.Body, func(n ast.Node) bool {
			c, ok := n.(*ast.CallExpr)
			if !ok {
				return true
			}
			se, ok := ast.Unparen(c.Fun).(*ast.SelectorExpr)
			if ok && fieldOf(se.X) == fBase {
				out[se.Sel.Name] = c
			}
			// vm.M(…) where M is promoted from the embedded base VM
			if ok && fBase.Embedded() {
				if sel, isSel := info.Selections[se]; isSel && sel.Kind() == types.MethodVal && len(sel.Index()) > 1 {
					if pt, isPtr := info.TypeOf(se.X).(*types.Pointer); isPtr && namedOf(pt.Elem()) == tvm {
						if m, isFn := sel.Obj().(*types.Func); isFn {
							if rs := m.Type().(*types.Signature).Recv(); rs != nil {
								if rpt, ok := rs.Type().(*types.Pointer); ok && namedOf(rpt.Elem()) == vm {
									out[se.Sel.Name] = c
								}
							}
						}
					}
				}
			}
			// a method value of the base VM handed to a helper (lookup(vm.Base.GetClass, …)) is a call
			// the helper makes on this method's behalf
			for _, a := range c.Args {
				if ase, ok := ast.Unparen(a).(*ast.SelectorExpr); ok && fieldOf(ase.X) == fBase {
					if _, isFunc := info.TypeOf(ase).Underlying().(*types.Signature); isFunc {
						if _, seen := out[ase.Sel.Name]; !seen {
							out[ase.Sel.Name] = c
						}
					}
				}
				// the base VM itself handed to a lookup helper as one of the layers to ask, together with a
				// method expression naming the question (firstDefined(name, layer.GetClass, vm.Base, vm.local()))
				if fieldOf(a) == fBase {
					for _, b := range c.Args {
						if bse, ok := ast.Unparen(b).(*ast.SelectorExpr); ok {
							if _, isFunc := info.TypeOf(bse).Underlying().(*types.Signature); isFunc {
								if _, isType := info.Types[bse.X]; isType && info.Types[bse.X].IsType() {
									if _, seen := out[bse.Sel.Name]; !seen {
										out[bse.Sel.Name] = c
									}
								}
							}
						}
					}
				}
			}
			return true
		})
		return out
	}

	// ---- OWN ----
	r.curRule = "C12-OWN"
	for _, name := range []string{"AddClass", "AddInterface", "AddFunc"} {
		fd := methods[name]
		if fd == nil {
			r.fail("anchor not found: (*TempVM).%s", name)
			continue
		}
		key := funcKey(pkg, fd) + "#own-table"
		writesOwn, bad := false, ""
		// own storage: whatever is reached from the TempVM receiver without passing through the base VM
		// (its map fields, or the maps of a helper struct it holds); helpers that receive such storage
		// as receiver or argument are followed
		throughBase := func(e ast.Expr) bool {
			via := false
			ast.Inspect(e, func(n ast.Node) bool {
				if x, ok := n.(ast.Expr); ok {
					if fieldOf(x) == fBase {
						via = true
					}
					if t := info.TypeOf(x); t != nil {
						if pt, ok := t.(*types.Pointer); ok && namedOf(pt.Elem()) == vm {
							via = true
						}
					}
				}
				return !via
			})
			return via
		}
		var visit func(body *ast.BlockStmt, own map[types.Object]bool, depth int)
		visit = func(body *ast.BlockStmt, own map[types.Object]bool, depth int) {
			var ownExpr func(e ast.Expr) bool
			ownExpr = func(e ast.Expr) bool {
				switch x := ast.Unparen(e).(type) {
				case *ast.Ident:
					return own[info.Uses[x]]
				case *ast.SelectorExpr:
					return !throughBase(x) && ownExpr(x.X)
				case *ast.StarExpr:
					return ownExpr(x.X)
				case *ast.UnaryExpr:
					return x.Op == token.AND && ownExpr(x.X)
				}
				return false
			}
			// local aliases (tbl := t.addedFuncs, s := vm.local)
			for pass := 0; pass < 2; pass++ {
				ast.Inspect(body, func(n ast.Node) bool {
					if as, ok := n.(*ast.AssignStmt); ok && len(as.Lhs) == len(as.Rhs) {
						for i := range as.Lhs {
							if id, ok := as.Lhs[i].(*ast.Ident); ok && ownExpr(as.Rhs[i]) {
								if o := info.Defs[id]; o != nil {
									own[o] = true
								}
							}
						}
					}
					return true
				})
			}
			ast.Inspect(body, func(n ast.Node) bool {
				switch x := n.(type) {
				case *ast.AssignStmt:
					for _, l := range x.Lhs {
						if ix, ok := ast.Unparen(l).(*ast.IndexExpr); ok {
							if _, isMap := info.TypeOf(ix.X).Underlying().(*types.Map); !isMap {
								continue
							}
							if ownExpr(ix.X) {
								writesOwn = true
							} else if throughBase(ix.X) {
								bad = "stores into " + exprStr(ix.X)
							}
						}
					}
				case *ast.CallExpr:
					if se, ok := ast.Unparen(x.Fun).(*ast.SelectorExpr); ok && fieldOf(se.X) == fBase {
						bad = "calls Base." + se.Sel.Name
						return true
					}
					if depth >= 3 {
						return true
					}
					cal := calleeFunc(info, x)
					if cal == nil || cal.Pkg() != pkg.Types {
						return true
					}
					hd := declOf(pkg, cal)
					if hd == nil || hd.Body == nil {
						return true
					}
					sub := map[types.Object]bool{}
					if se, ok := ast.Unparen(x.Fun).(*ast.SelectorExpr); ok && hd.Recv != nil && len(hd.Recv.List) == 1 && len(hd.Recv.List[0].Names) == 1 && ownExpr(se.X) {
						sub[info.Defs[hd.Recv.List[0].Names[0]]] = true
					}
					for i, a := range x.Args {
						if ownExpr(a) {
							if po := paramObjAt(info, hd, i); po != nil {
								sub[po] = true
							}
						}
					}
					if len(sub) > 0 {
						visit(hd.Body, sub, depth+1)
					}
				}
				return true
			})
		}
		root := map[types.Object]bool{}
		if fd.Recv != nil && len(fd.Recv.List) == 1 && len(fd.Recv.List[0].Names) == 1 {
			root[info.Defs[fd.Recv.List[0].Names[0]]] = true
		}
		visit(fd.Body, root, 0)
		switch {
		case bad != "":
			r.bad(key, fd.Pos(), fmt.Sprintf("TempVM.%s %s: the definition becomes visible outside this request", name, bad))
		case !writesOwn:
			r.bad(key, fd.Pos(), fmt.Sprintf("TempVM.%s does not record the definition in the TempVM's own table", name))
		default:
			r.ok(key, fd.Pos(), "records the definition in the TempVM's own table only")
		}
	}

	// OWN (fresh): every TempVM gets tables of its own — no value copy of a TempVM (a struct copy shares
	// the map headers), and a composite literal fills the table fields with storage built on the spot
	{
		isFreshStorage := func(e ast.Expr) bool {
			var fresh func(e ast.Expr, depth int) bool
			fresh = func(e ast.Expr, depth int) bool {
				switch x := ast.Unparen(e).(type) {
				case *ast.CompositeLit:
					return true
				case *ast.UnaryExpr:
					_, isLit := ast.Unparen(x.X).(*ast.CompositeLit)
					return x.Op == token.AND && isLit
				case *ast.Ident:
					return x.Name == "nil"
				case *ast.CallExpr:
					if id, ok := ast.Unparen(x.Fun).(*ast.Ident); ok && (id.Name == "make" || id.Name == "new") {
						if _, isBuiltin := info.Uses[id].(*types.Builtin); isBuiltin {
							return true
						}
					}
					if depth >= 2 {
						return false
					}
					cal := calleeFunc(info, x)
					if cal == nil || cal.Pkg() != pkg.Types {
						return false
					}
					hd := declOf(pkg, cal)
					if hd == nil || hd.Body == nil {
						return false
					}
					all, n := true, 0
					ast.Inspect(hd.Body, func(m ast.Node) bool {
						if _, ok := m.(*ast.FuncLit); ok {
							return false
						}
						if rs, ok := m.(*ast.ReturnStmt); ok && len(rs.Results) == 1 {
							n++
							if !fresh(rs.Results[0], depth+1) {
								all = false
							}
						}
						return true
					})
					return n > 0 && all
				}
				return false
			}
			return fresh(e, 0)
		}
		// storage fields: maps, and pointers to package structs that hold maps
		storage := map[*types.Var]bool{}
		for i := 0; i < tst.NumFields(); i++ {
			f := tst.Field(i)
			if ownMaps[f] {
				storage[f] = true
				continue
			}
			if f == fBase {
				continue
			}
			if pt, ok := f.Type().(*types.Pointer); ok {
				if nt := namedOf(pt.Elem()); nt != nil && nt.Obj().Pkg() == pkg.Types && nt != vm && nt != tvm {
					if st, ok := nt.Underlying().(*types.Struct); ok {
						for j := 0; j < st.NumFields(); j++ {
							if _, isMap := st.Field(j).Type().Underlying().(*types.Map); isMap {
								storage[f] = true
							}
						}
					}
				}
			}
		}
		nLits := 0
		for _, fd := range funcDecls(pkg) {
			fk := funcKey(pkg, fd)
			ast.Inspect(fd.Body, func(n ast.Node) bool {
				switch x := n.(type) {
				case *ast.StarExpr:
					// *p used as a value of type TempVM (t := *proto): the copy shares every table
					if tv, ok := info.Types[x]; ok && tv.IsValue() && namedOf(tv.Type) == tvm {
						if _, isPtr := tv.Type.(*types.Pointer); !isPtr {
							r.bad(fk+"#tempvm-value-copy", x.Pos(), "a TempVM is created by copying another TempVM value ("+exprStr(x)+"): the copy shares the class, interface and function tables of the original, so definitions of one request are visible to the others")
						}
					}
				case *ast.CompositeLit:
					if namedOf(info.TypeOf(x)) != tvm {
						return true
					}
					nLits++
					okAll := true
					for _, el := range x.Elts {
						kv, ok := el.(*ast.KeyValueExpr)
						if !ok {
							continue
						}
						id, ok := kv.Key.(*ast.Ident)
						if !ok {
							continue
						}
						if f, ok := info.Uses[id].(*types.Var); ok && storage[f] && !isFreshStorage(kv.Value) {
							okAll = false
							r.bad(fk+"#fresh-table:"+f.Name(), kv.Pos(), "the "+f.Name()+" table of a new TempVM is not built on the spot ("+exprStr(kv.Value)+"): temporary VMs share it")
						}
					}
					if okAll {
						r.ok(fk+"#fresh-tables", x.Pos(), "a new TempVM gets tables built for it (or none, created on first use)")
					}
				}
				return true
			})
		}
		if nLits == 0 {
			r.fail("no composite literal of runtime.TempVM found: the constructor moved")
		}
	}

	// ---- DELEG: which *VM methods can reach a (*VM) method that stores a definition ----
	r.curRule = "C12-DELEG"
	// a definition store: vm.F[k] = v or vm.F.Store(k, v) with v a class/interface/function statement
	isDefinition := func(t types.Type) bool {
		if t == nil {
			return false
		}
		for _, n := range []string{"ClassStmt", "InterfaceStmt", "FuncStmt"} {
			if isNamed(t, modPath+"/data", n) {
				return true
			}
		}
		return false
	}
	storesDefinition := map[string]bool{}
	for _, fd := range funcDecls(pkg) {
		if recvTypeName(fd) != "VM" || len(fd.Recv.List[0].Names) == 0 {
			continue
		}
		recv := info.Defs[fd.Recv.List[0].Names[0]]
		rooted := func(e ast.Expr) bool {
			for {
				switch x := ast.Unparen(e).(type) {
				case *ast.SelectorExpr:
					if id, ok := ast.Unparen(x.X).(*ast.Ident); ok && info.Uses[id] == recv {
						return true
					}
					e = x.X
					continue
				case *ast.IndexExpr:
					e = x.X
					continue
				}
				return false
			}
		}
		// the stored value is a definition, or a small record built around one (typeEntry{class: c})
		carriesDefinition := func(e ast.Expr) bool {
			if isDefinition(info.TypeOf(e)) {
				return true
			}
			if cl, ok := ast.Unparen(e).(*ast.CompositeLit); ok {
				for _, el := range cl.Elts {
					v := el
					if kv, ok := el.(*ast.KeyValueExpr); ok {
						v = kv.Value
					}
					if isDefinition(info.TypeOf(v)) {
						return true
					}
				}
			}
			return false
		}
		fromOwnTable := map[types.Object]bool{}
		ast.Inspect(fd.Body, func(n ast.Node) bool {
			if rs, ok := n.(*ast.RangeStmt); ok && rooted(rs.X) && rs.Value != nil {
				if id, ok := rs.Value.(*ast.Ident); ok && isDefinition(info.TypeOf(id)) {
					fromOwnTable[info.Defs[id]] = true
				}
			}
			return true
		})
		ast.Inspect(fd.Body, func(n ast.Node) bool {
			switch x := n.(type) {
			case *ast.AssignStmt:
				for i, l := range x.Lhs {
					if ix, ok := ast.Unparen(l).(*ast.IndexExpr); ok && rooted(ix.X) && i < len(x.Rhs) && carriesDefinition(x.Rhs[i]) {
						// an index over definitions the VM already holds (for k, v := range vm.classMap { vm.byFold[fold(k)] = v })
						// adds no definition: the stored value is the range value of one of the receiver's own tables
						if fromOwnTable[objOf12(info, x.Rhs[i])] {
							continue
						}
						storesDefinition[fd.Name.Name] = true
					}
				}
			case *ast.CallExpr:
				// a helper of the package that stores what it is given into a table it is given (or into the
				// helper struct it belongs to): registerOnce(vm.classMap, name, c) / vm.defs.addClass(c)
				if cal := calleeFunc(info, x); cal != nil && cal.Pkg() == pkg.Types {
					if hd := declOf(pkg, cal.Origin()); hd != nil && hd != fd && c12StoresParam(info, hd) {
						passesDef, passesTable := false, false
						for _, a := range x.Args {
							if carriesDefinition(a) {
								passesDef = true
							}
							if rooted(a) {
								passesTable = true
							}
						}
						if se, ok := ast.Unparen(x.Fun).(*ast.SelectorExpr); ok && rooted(se.X) {
							passesTable = true
						}
						if passesDef && passesTable {
							storesDefinition[fd.Name.Name] = true
						}
					}
				}
				if se, ok := ast.Unparen(x.Fun).(*ast.SelectorExpr); ok && rooted(se.X) {
					switch se.Sel.Name {
					case "Store", "LoadOrStore", "Swap":
						if len(x.Args) == 2 && isDefinition(info.TypeOf(x.Args[1])) {
							storesDefinition[fd.Name.Name] = true
						}
					}
				}
			}
			return true
		})
	}
	r.buildSSA()
	sp := r.ssaPkg("runtime")
	if sp == nil {
		return
	}
	cg := vta.CallGraph(ssautil.AllFunctions(r.ssaProg), cha.CallGraph(r.ssaProg))
	vmT := types.NewPointer(vm)
	mset := r.ssaProg.MethodSets.MethodSet(vmT)
	targets := map[*ssa.Function]bool{}
	vmMethods := map[string]*ssa.Function{}
	for i := 0; i < mset.Len(); i++ {
		fn := r.ssaProg.MethodValue(mset.At(i))
		if fn == nil {
			continue
		}
		vmMethods[fn.Name()] = fn
		if storesDefinition[fn.Name()] {
			targets[fn] = true
		}
	}
	for _, must := range []string{"AddClass", "AddInterface", "AddFunc"} {
		if fn := vmMethods[must]; fn == nil || !targets[fn] {
			r.fail("(*VM).%s not recognised as storing a definition into the base VM", must)
			return
		}
	}
	r.stat("base_vm_methods_storing_definitions", len(targets))
	// forward reachability inside the module only: edges through the standard library conflate every
	// callback of the program (sync.Once.Do, sort.Slice, …); a closure created by a module function is
	// treated as called by it, which covers the callbacks the module hands to library code
	inModule := func(f *ssa.Function) bool {
		return f != nil && f.Pkg != nil && strings.HasPrefix(f.Pkg.Pkg.Path(), modPath) || (f != nil && f.Parent() != nil && f.Parent().Pkg != nil && strings.HasPrefix(f.Parent().Pkg.Pkg.Path(), modPath))
	}
	succ := func(f *ssa.Function) []*ssa.Function {
		var out []*ssa.Function
		if n := cg.Nodes[f]; n != nil {
			for _, e := range n.Out {
				if inModule(e.Callee.Func) {
					out = append(out, e.Callee.Func)
				}
			}
		}
		out = append(out, f.AnonFuncs...)
		return out
	}
	memo := map[*ssa.Function]bool{}
	reachesFrom := func(start *ssa.Function) bool {
		if v, ok := memo[start]; ok {
			return v
		}
		seen := map[*ssa.Function]bool{start: true}
		q := []*ssa.Function{start}
		for len(q) > 0 {
			f := q[0]
			q = q[1:]
			if targets[f] && f != start {
				memo[start] = true
				return true
			}
			for _, c := range succ(f) {
				if !seen[c] {
					seen[c] = true
					q = append(q, c)
				}
			}
		}
		memo[start] = false
		return false
	}
	// the same question with the calls the start function makes through its own function-typed
	// parameters left out
	reachesWithoutCallbacks := func(start *ssa.Function) bool {
		viaParam := map[ssa.CallInstruction]bool{}
		for _, b := range start.Blocks {
			for _, in := range b.Instrs {
				if ci, ok := in.(ssa.CallInstruction); ok && !ci.Common().IsInvoke() {
					if _, isParam := ci.Common().Value.(*ssa.Parameter); isParam {
						viaParam[ci] = true
					}
				}
			}
		}
		if len(viaParam) == 0 {
			return reachesFrom(start)
		}
		seen := map[*ssa.Function]bool{start: true}
		var q []*ssa.Function
		if n := cg.Nodes[start]; n != nil {
			for _, e := range n.Out {
				if viaParam[e.Site] || !inModule(e.Callee.Func) || seen[e.Callee.Func] {
					continue
				}
				seen[e.Callee.Func] = true
				q = append(q, e.Callee.Func)
			}
		}
		for _, af := range start.AnonFuncs {
			if !seen[af] {
				seen[af] = true
				q = append(q, af)
			}
		}
		for len(q) > 0 {
			f := q[0]
			q = q[1:]
			if targets[f] {
				return true
			}
			for _, c := range succ(f) {
				if !seen[c] {
					seen[c] = true
					q = append(q, c)
				}
			}
		}
		return false
	}
	literalCallbacksOnly := func(call *ast.CallExpr) bool {
		n := 0
		for _, a := range call.Args {
			if _, isFunc := info.TypeOf(a).Underlying().(*types.Signature); !isFunc {
				continue
			}
			if _, isLit := ast.Unparen(a).(*ast.FuncLit); !isLit {
				return false
			}
			n++
		}
		return n > 0
	}
	reaches := map[*ssa.Function]bool{}
	for _, fn := range vmMethods {
		if targets[fn] || reachesFrom(fn) {
			reaches[fn] = true
		}
	}
	if os.Getenv("C12DEBUG") != "" {
		// print one path from the named *VM method to a target
		start := vmMethods[os.Getenv("C12DEBUG")]
		if start != nil {
			prev := map[*ssa.Function]*ssa.Function{}
			q := []*ssa.Function{start}
			seen := map[*ssa.Function]bool{start: true}
			var hit *ssa.Function
			for len(q) > 0 && hit == nil {
				f := q[0]
				q = q[1:]
				for _, c := range succ(f) {
					if c == nil || seen[c] {
						continue
					}
					seen[c] = true
					prev[c] = f
					if targets[c] {
						hit = c
						break
					}
					q = append(q, c)
				}
			}
			for f := hit; f != nil; f = prev[f] {
				fmt.Println("  PATH", f.String())
			}
		}
	}
	definers := []string{}
	for name, fn := range vmMethods {
		if reaches[fn] {
			definers = append(definers, name)
		}
	}
	sort.Strings(definers)
	r.stat("base_vm_methods_that_can_define", len(definers))
	names := []string{}
	for n := range methods {
		names = append(names, n)
	}
	sort.Strings(names)
	for _, name := range names {
		fd := methods[name]
		for m, call := range baseCalls(fd) {
			key := fmt.Sprintf("%s#delegates:%s", funcKey(pkg, fd), m)
			fn := vmMethods[m]
			if fn == nil {
				continue
			}
			if reaches[fn] && literalCallbacksOnly(call) && !reachesWithoutCallbacks(fn) {
				// a higher-order base method (oncePerFile(file, func…)) given function literals written in
				// this TempVM method: what the literals do is this method's own code (their delegations are
				// judged above like any other); the base method itself is judged without the calls it makes
				// through its function-typed parameters, which the call graph resolves to every callback
				// any caller passes
				r.ok(key, call.Pos(), fmt.Sprintf("Base.%s cannot reach the base VM's Add* except through the callbacks passed here, which are function literals of this method", m))
				continue
			}
			if reaches[fn] {
				r.bad(key, call.Pos(), fmt.Sprintf("TempVM.%s delegates to Base.%s, from which a base-VM method that stores a class/interface/function definition into the base VM is reachable: definitions made or resolved for this request land in the base VM and every later request sees them", name, m))
			} else {
				r.ok(key, call.Pos(), fmt.Sprintf("Base.%s cannot reach the base VM's Add*", m))
			}
		}
	}

	// with the base VM embedded, every method of *VM that TempVM does not declare itself is reachable on
	// a TempVM by promotion: an implicit delegation, judged like an explicit forwarder
	if fBase.Embedded() {
		vmIface := map[string]bool{}
		if dp := r.pkg("data"); dp != nil {
			if tn, ok := dp.Types.Scope().Lookup("VM").(*types.TypeName); ok {
				if it, ok := tn.Type().Underlying().(*types.Interface); ok {
					for i := 0; i < it.NumMethods(); i++ {
						vmIface[it.Method(i).Name()] = true
					}
				}
			}
		}
		ms := types.NewMethodSet(types.NewPointer(tvm))
		var promoted []string
		for i := 0; i < ms.Len(); i++ {
			sel := ms.At(i)
			if len(sel.Index()) > 1 && methods[sel.Obj().Name()] == nil {
				// only what users of a TempVM can call: it is handed around as a data.VM
				if !vmIface[sel.Obj().Name()] {
					continue
				}
				if fn := vmMethods[sel.Obj().Name()]; fn != nil {
					promoted = append(promoted, sel.Obj().Name())
				}
			}
		}
		sort.Strings(promoted)
		for _, m := range promoted {
			key := fmt.Sprintf("runtime.(TempVM).%s#delegates:%s", m, m)
			if reaches[vmMethods[m]] {
				r.bad(key, tvm.Obj().Pos(), fmt.Sprintf("TempVM.%s is the base VM's method (promoted from the embedded *VM), from which a method that stores a class/interface/function definition into the base VM is reachable: definitions made or resolved for this request land in the base VM and every later request sees them", m))
			} else {
				r.ok(key, tvm.Obj().Pos(), fmt.Sprintf("the promoted Base.%s cannot reach the base VM's Add*", m))
			}
		}
	}

	// ---- PARSER ----
	r.curRule = "C12-PARSER"
	if fParser == nil {
		r.fail("TempVM has no parser field")
	} else {
		for _, name := range names {
			fd := methods[name]
			ast.Inspect(fd.Body, func(n ast.Node) bool {
				as, ok := n.(*ast.AssignStmt)
				if !ok {
					return true
				}
				for i, l := range as.Lhs {
					if fieldOf(l) != fParser {
						continue
					}
					key := funcKey(pkg, fd) + "#parser-assigned"
					// the assigned value must be a local that was cloned and bound with SetVM(receiver)
					bound := false
					if i < len(as.Rhs) {
						if id, ok := ast.Unparen(as.Rhs[i]).(*ast.Ident); ok {
							obj := info.Uses[id]
							cloned, setvm := false, false
							ast.Inspect(fd.Body, func(m ast.Node) bool {
								switch y := m.(type) {
								case *ast.AssignStmt:
									if len(y.Lhs) == 1 && len(y.Rhs) == 1 {
										if lid, ok := y.Lhs[0].(*ast.Ident); ok && info.Defs[lid] == obj {
											if c, ok := ast.Unparen(y.Rhs[0]).(*ast.CallExpr); ok {
												if se, ok := ast.Unparen(c.Fun).(*ast.SelectorExpr); ok && se.Sel.Name == "Clone" {
													cloned = true
												}
											}
										}
									}
								case *ast.CallExpr:
									if se, ok := ast.Unparen(y.Fun).(*ast.SelectorExpr); ok && se.Sel.Name == "SetVM" && len(y.Args) == 1 {
										if xid, ok := ast.Unparen(se.X).(*ast.Ident); ok && info.Uses[xid] == obj {
											if aid, ok := ast.Unparen(y.Args[0]).(*ast.Ident); ok && len(fd.Recv.List[0].Names) > 0 && info.Uses[aid] == info.Defs[fd.Recv.List[0].Names[0]] {
												setvm = true
											}
										}
									}
								}
								return true
							})
							bound = cloned && setvm
						}
					}
					if bound {
						r.ok(key, as.Pos(), "the TempVM's parser is a clone bound to the TempVM (SetVM(receiver))")
					} else {
						r.bad(key, as.Pos(), "the parser stored in the TempVM is not a fresh clone bound to it with SetVM: classes parsed through it register in whichever VM that parser belongs to")
					}
				}
				return true
			})
			// uses of Base.parser other than as an argument to a function that clones it
			ast.Inspect(fd.Body, func(n ast.Node) bool {
				c, ok := n.(*ast.CallExpr)
				if !ok {
					return true
				}
				se, ok := ast.Unparen(c.Fun).(*ast.SelectorExpr)
				if !ok {
					return true
				}
				// <recv>.Base.parser.X(...)
				if inner, ok := ast.Unparen(se.X).(*ast.SelectorExpr); ok && inner.Sel.Name == "parser" && fieldOf(inner.X) == fBase && se.Sel.Name != "Clone" {
					r.bad(funcKey(pkg, fd)+"#base-parser-use:"+se.Sel.Name, c.Pos(), "a TempVM method uses the base VM's parser directly ("+se.Sel.Name+"): whatever it defines is registered in the base VM")
				}
				// a clone of the base VM's parser still belongs to the base VM until SetVM(receiver) rebinds it
				if inner, ok := ast.Unparen(se.X).(*ast.SelectorExpr); ok && inner.Sel.Name == "parser" && fieldOf(inner.X) == fBase && se.Sel.Name == "Clone" {
					var holder types.Object
					ast.Inspect(fd.Body, func(m ast.Node) bool {
						if as, ok := m.(*ast.AssignStmt); ok && len(as.Lhs) == 1 && len(as.Rhs) == 1 && ast.Unparen(as.Rhs[0]) == ast.Expr(c) {
							if id, ok := as.Lhs[0].(*ast.Ident); ok {
								holder = info.ObjectOf(id)
							}
						}
						return true
					})
					rebound := false
					if holder != nil && len(fd.Recv.List[0].Names) > 0 {
						recvObj := info.Defs[fd.Recv.List[0].Names[0]]
						ast.Inspect(fd.Body, func(m ast.Node) bool {
							if y, ok := m.(*ast.CallExpr); ok && len(y.Args) == 1 {
								if yse, ok := ast.Unparen(y.Fun).(*ast.SelectorExpr); ok && yse.Sel.Name == "SetVM" {
									if xid, ok := ast.Unparen(yse.X).(*ast.Ident); ok && info.Uses[xid] == holder {
										if aid, ok := ast.Unparen(y.Args[0]).(*ast.Ident); ok && info.Uses[aid] == recvObj {
											rebound = true
										}
									}
								}
							}
							return true
						})
					}
					key := funcKey(pkg, fd) + "#base-parser-clone"
					if rebound {
						r.ok(key, c.Pos(), "the clone of the base VM's parser is rebound to this TempVM (SetVM(receiver))")
					} else {
						r.bad(key, c.Pos(), "a TempVM method parses with a clone of the base VM's parser that is never rebound with SetVM(receiver): a clone keeps the VM of its original, so what the parsed code declares registers in the base VM")
					}
				}
				return true
			})
		}
	}

	// ---- READ ----
	r.curRule = "C12-READ"
	for _, name := range []string{"GetClass", "GetInterface", "GetFunc", "GetOrLoadClass", "GetOrLoadInterface", "LoadPkg", "GetConstant"} {
		fd := methods[name]
		if fd == nil && fBase.Embedded() {
			if obj, _, _ := types.LookupFieldOrMethod(types.NewPointer(tvm), true, pkg.Types, name); obj != nil {
				r.ok("runtime.(TempVM)."+name+"#consults-base", tvm.Obj().Pos(), "the lookup is the base VM's own method, promoted from the embedded *VM")
				continue
			}
		}
		if fd == nil {
			r.fail("anchor not found: (*TempVM).%s", name)
			continue
		}
		key := funcKey(pkg, fd) + "#consults-base"
		// directly, or through helpers of the package it calls (resolveClass(name) (def, found, ctl))
		var consults func(d *ast.FuncDecl, depth int) bool
		consults = func(d *ast.FuncDecl, depth int) bool {
			if d == nil || d.Body == nil || depth > 2 {
				return false
			}
			if len(baseCalls(d)) > 0 {
				return true
			}
			found := false
			ast.Inspect(d.Body, func(n ast.Node) bool {
				if c, ok := n.(*ast.CallExpr); ok && !found {
					if cal := calleeFunc(pkg.TypesInfo, c); cal != nil && cal.Pkg() == pkg.Types {
						// a helper stands for the base lookup only if it cannot answer "not there" before it
						// has asked the base (a negative cache in front of the base call does not count)
						if hd := declOf(pkg, cal); hd != nil && hd != d && consults(hd, depth+1) && !c12MissBeforeBase(pkg.TypesInfo, hd, baseCalls(hd)) {
							found = true
						}
					}
				}
				return !found
			})
			return found
		}
		if consults(fd, 0) && len(baseCalls(fd)) > 0 && c12MissBeforeBase(pkg.TypesInfo, fd, baseCalls(fd)) {
			r.bad(key, fd.Pos(), "the lookup can answer \"not found\" (false, or a found-flag that may be false) on a path that has not asked the base VM: names of that form defined on the base VM are not resolvable through the TempVM")
		} else if consults(fd, 0) {
			r.ok(key, fd.Pos(), "the lookup consults the base VM")
		} else {
			r.bad(key, fd.Pos(), "the lookup never consults the base VM: names defined on the base VM are not resolvable through the TempVM")
		}
	}

	// ---- ESC ----
	r.curRule = "C12-ESC"
	escaped := false
	for _, p := range r.Roots {
		for _, fd := range funcDecls(p) {
			pinfo := p.TypesInfo
			ast.Inspect(fd.Body, func(n ast.Node) bool {
				se, ok := n.(*ast.SelectorExpr)
				if !ok {
					return true
				}
				s, ok := pinfo.Selections[se]
				if !ok {
					return true
				}
				v, ok := s.Obj().(*types.Var)
				if !ok || !ownMaps[v] {
					return true
				}
				if p != pkg || recvTypeName(fd) != "TempVM" {
					// a view type of the same package that wraps the TempVM (requestLayer{vm *TempVM}) reads the
					// tables on the TempVM's behalf
					isView := false
					if p == pkg && fd.Recv != nil && len(fd.Recv.List) == 1 {
						rt := pinfo.TypeOf(fd.Recv.List[0].Type)
						if pt, ok := rt.(*types.Pointer); ok {
							rt = pt.Elem()
						}
						if vst, ok := rt.Underlying().(*types.Struct); ok {
							for i := 0; i < vst.NumFields(); i++ {
								ft := vst.Field(i).Type()
								if pt, ok := ft.(*types.Pointer); ok {
									ft = pt.Elem()
								}
								if namedOf(ft) == tvm {
									isView = true
								}
							}
						}
					}
					if !(p == pkg && (isView || buildsTempVM(pinfo, fd, tvm))) {
						escaped = true
						r.bad(funcKey(p, fd)+"#uses:"+v.Name(), se.Pos(), "the TempVM's private table "+v.Name()+" is accessed outside TempVM's methods")
					}
				}
				return true
			})
			// returning or storing the map itself
			if p == pkg && recvTypeName(fd) == "TempVM" {
				ast.Inspect(fd.Body, func(n ast.Node) bool {
					switch x := n.(type) {
					case *ast.ReturnStmt:
						for _, res := range x.Results {
							if f := fieldOf(res); f != nil && ownMaps[f] {
								escaped = true
								r.bad(funcKey(p, fd)+"#returns:"+f.Name(), x.Pos(), "returns the private table itself (callers can mutate or retain it)")
							}
						}
					case *ast.AssignStmt:
						for i, rhs := range x.Rhs {
							if f := fieldOf(rhs); f != nil && ownMaps[f] && i < len(x.Lhs) {
								if _, isIdent := x.Lhs[i].(*ast.Ident); !isIdent {
									escaped = true
									r.bad(funcKey(p, fd)+"#stores:"+f.Name(), x.Pos(), "stores the private table into another object")
								}
							}
						}
					}
					return true
				})
			}
		}
	}
	if !escaped {
		r.ok("TempVM#tables-private", tvm.Obj().Pos(), fmt.Sprintf("%d private tables are touched only by TempVM's own methods and never returned or stored elsewhere", len(ownMaps)))
	}
}

// buildsTempVM: fd is a constructor — it contains a composite literal of the TempVM type and returns it.
func buildsTempVM(info *types.Info, fd *ast.FuncDecl, tvm *types.Named) bool {
	found := false
	ast.Inspect(fd.Body, func(n ast.Node) bool {
		if cl, ok := n.(*ast.CompositeLit); ok {
			if namedOf(info.TypeOf(cl)) == tvm {
				found = true
			}
		}
		return true
	})
	return found
}

// c12MissBeforeBase: some path through fd returns a "not found" answer (a literal false result) without
// having made one of the given base-VM calls.
func c12MissBeforeBase(info *types.Info, fd *ast.FuncDecl, base map[string]*ast.CallExpr) bool {
	if len(base) == 0 {
		return false // the helper consults the base through further helpers: judged there
	}
	isBase := map[*ast.CallExpr]bool{}
	for _, c := range base {
		isBase[c] = true
	}
	type st struct {
		asked bool
		yes   map[types.Object]bool // bool variables known to be true on this path
	}
	bad := false
	h := &Hooks{Info: info}
	h.Copy = func(s State) State {
		n := &st{asked: s.(*st).asked, yes: map[types.Object]bool{}}
		for k := range s.(*st).yes {
			n.yes[k] = true
		}
		return n
	}
	h.Join = func(a, b State) State {
		n := &st{asked: a.(*st).asked && b.(*st).asked, yes: map[types.Object]bool{}}
		for k := range a.(*st).yes {
			if b.(*st).yes[k] {
				n.yes[k] = true
			}
		}
		return n
	}
	h.Equal = func(a, b State) bool {
		x, y := a.(*st), b.(*st)
		if x.asked != y.asked || len(x.yes) != len(y.yes) {
			return false
		}
		for k := range x.yes {
			if !y.yes[k] {
				return false
			}
		}
		return true
	}
	h.Cond = func(e ast.Expr, truth bool, s State) State {
		if id, ok := ast.Unparen(e).(*ast.Ident); ok && truth {
			s.(*st).yes[info.Uses[id]] = true
		}
		return s
	}
	h.Stmt = func(stm ast.Stmt, s State) State {
		if as, ok := stm.(*ast.AssignStmt); ok {
			for _, l := range as.Lhs {
				if id, ok := l.(*ast.Ident); ok {
					delete(s.(*st).yes, info.ObjectOf(id))
				}
			}
		}
		return s
	}
	h.Visit = func(e ast.Expr, s State) State {
		if c, ok := e.(*ast.CallExpr); ok && isBase[c] {
			s.(*st).asked = true
		}
		return s
	}
	h.Return = func(rs *ast.ReturnStmt, s State) {
		if s.(*st).asked {
			return
		}
		for _, res := range rs.Results {
			if exprStr(res) == "false" {
				bad = true
			}
			// return f, ok — a found-flag that may be false hands out a miss as well
			if id, ok := ast.Unparen(res).(*ast.Ident); ok {
				if v, ok := info.Uses[id].(*types.Var); ok {
					if bt, ok := v.Type().Underlying().(*types.Basic); ok && bt.Kind() == types.Bool && !s.(*st).yes[v] {
						bad = true
					}
				}
			}
		}
	}
	WalkFunc(h, fd.Body, &st{yes: map[types.Object]bool{}})
	return bad
}

// c12StoresParam: the function stores one of its parameters (or a record built around it) into a map that
// is a parameter of it or a field of its receiver: m[k] = v.
func c12StoresParam(info *types.Info, fd *ast.FuncDecl) bool {
	if fd.Body == nil {
		return false
	}
	params := map[types.Object]bool{}
	if fd.Type.Params != nil {
		for _, f := range fd.Type.Params.List {
			for _, nm := range f.Names {
				params[info.Defs[nm]] = true
			}
		}
	}
	var recv types.Object
	if fd.Recv != nil && len(fd.Recv.List) == 1 && len(fd.Recv.List[0].Names) == 1 {
		recv = info.Defs[fd.Recv.List[0].Names[0]]
	}
	mentionsParam := func(e ast.Expr) bool {
		found := false
		ast.Inspect(e, func(n ast.Node) bool {
			if id, ok := n.(*ast.Ident); ok && params[info.Uses[id]] {
				found = true
			}
			return !found
		})
		return found
	}
	found := false
	ast.Inspect(fd.Body, func(n ast.Node) bool {
		as, ok := n.(*ast.AssignStmt)
		if !ok {
			return true
		}
		for i, l := range as.Lhs {
			ix, ok := ast.Unparen(l).(*ast.IndexExpr)
			if !ok || i >= len(as.Rhs) {
				continue
			}
			if _, isMap := info.TypeOf(ix.X).Underlying().(*types.Map); !isMap {
				continue
			}
			base := ast.Unparen(ix.X)
			okBase := false
			switch b := base.(type) {
			case *ast.Ident:
				okBase = params[info.Uses[b]]
			case *ast.SelectorExpr:
				if id, ok := ast.Unparen(b.X).(*ast.Ident); ok && (info.Uses[id] == recv || params[info.Uses[id]]) {
					okBase = true
				}
			}
			if okBase && mentionsParam(as.Rhs[i]) {
				found = true
			}
		}
		return !found
	})
	return found
}


func objOf12(info *types.Info, e ast.Expr) types.Object {
	if id, ok := ast.Unparen(e).(*ast.Ident); ok {
		return info.Uses[id]
	}
	return nil
}
