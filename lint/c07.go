package main

import (
	"fmt"
	"go/ast"
	"go/token"
	"go/types"
	"sort"
	"strings"

	"golang.org/x/tools/go/packages"
)

func init() {
	assumeSite("C07-NEW", "node.(NewAnonymousClassExpression).GetValue#creates-object", "an anonymous class is declared by the new-expression itself and the grammar has no `abstract` there")
	register(&PropDef{
		ID:          "C07",
		Patterns:    []string{"./node", "./data"},
		Explanation: "Visibility and declared types are enforced separately at every access path. Structurally necessary: (VIS) in every access-path node (node types Call*/Nullsafe*/IndexExpression) a member declaration looked up on an object seen from outside (*data.ClassValue) or on a class named in the source (data.ClassStmt and its static lookup interfaces) reaches its use — GetValue/SetValue/Call, or being handed to another function — only after its GetModifier() has been consulted on that path; lookups of magic methods by a constant \"__name\" are exempt; a static lookup that returns a bare value gives no way to test the modifier and is a violation by construction; (PRIV) the private arm of a modifier test uses a predicate different from the protected arm; (TYPE) each boundary that stores into a typed slot (property stores of every access path, parameter binding, function/method return) consults Types.Is before the store/return; (NEW) every creation of an object from a class statement is preceded by the abstract-class rejection, and the concrete class statements validate abstract methods when instantiated. Whether Types.Is and the hierarchy predicate answer correctly is value-level (C08) and not decided.",
		Assumptions: []string{
			"access-path nodes are identified by type name (Call*, Nullsafe*, IndexExpression): the list found is printed in evidence",
			"a member variable passed to a helper counts as used unless the helper itself calls GetModifier on that parameter",
		},
		Rules: []RuleDef{
			{Name: "C07-VIS", Floor: 10, Doc: "member lookups from outside reach their use only through a modifier test", Run: c07Run},
			{Name: "C07-PRIV", Floor: 1, Doc: "private and protected are decided by different predicates", Run: nop},
			{Name: "C07-TYPE", Floor: 3, Doc: "typed boundaries consult Types.Is", Run: nop},
			{Name: "C07-REJECT", Floor: 5, Doc: "on a path where the declared type's Is(value) answered false, the boundary neither stores nor returns successfully (unless a later Is on the value answers true)", Run: nop},
			{Name: "C07-PRED", Floor: 1, Doc: "the visibility predicate grants access only on an identity between one party itself (caller class, bound scope, or target class) and a member of the other's extends chain", Run: nop},
			{Name: "C07-NEW", Floor: 2, Doc: "object creation is preceded by the abstract-class rejection; concrete classes validate abstract methods", Run: nop},
		},
	})
}

type c07State struct {
	unchecked map[types.Object]token.Pos
	magic     map[types.Object]bool // ok-variable → member object it guards (stored as keys of okOf)
	okOf      map[types.Object]types.Object
	typeUn    map[types.Object]token.Pos // looked-up property declarations whose type has not been consulted
}

func (s *c07State) clone() *c07State {
	n := &c07State{unchecked: map[types.Object]token.Pos{}, magic: map[types.Object]bool{}, okOf: map[types.Object]types.Object{}}
	for k, v := range s.okOf {
		n.okOf[k] = v
	}
	n.typeUn = map[types.Object]token.Pos{}
	for k, v := range s.typeUn {
		n.typeUn[k] = v
	}
	for k, v := range s.unchecked {
		n.unchecked[k] = v
	}
	for k, v := range s.magic {
		n.magic[k] = v
	}
	return n
}

func c07Run(r *Run) {
	npkg, dpkg := r.pkg("node"), r.pkg("data")
	if npkg == nil || dpkg == nil {
		return
	}
	info := npkg.TypesInfo
	dataPath := modPath + "/data"
	c07TypeWrappers(r, npkg, dpkg)
	// a call of a type-predicate wrapper (accepts(declared, value), data.Accepts(...)) consults the declared type
	isWrapperCall := func(c *ast.CallExpr) bool {
		_, ok := c07Wrappers[calleeOf(info, c)]
		return ok
	}
	isMemberDecl := func(t types.Type) bool {
		return isNamed(t, dataPath, "Property") || isNamed(t, dataPath, "Method")
	}
	outsideRecv := func(t types.Type) bool {
		if t == nil {
			return false
		}
		if p, ok := t.(*types.Pointer); ok {
			if isNamed(p.Elem(), dataPath, "ClassValue") {
				return true
			}
			return false
		}
		for _, n := range []string{"ClassStmt", "GetStaticMethod", "GetStaticProperty", "GetMethod", "GetProperty"} {
			if isNamed(t, dataPath, n) {
				return true
			}
		}
		return false
	}
	accessNodeType := func(fd *ast.FuncDecl) bool {
		tn := recvTypeName(fd)
		return strings.HasPrefix(tn, "Call") || strings.HasPrefix(tn, "Nullsafe") || tn == "IndexExpression"
	}
	// package-level helpers that an access node calls (two levels deep) and that look members up
	// themselves (resolveStaticCallable(ctx, class, name)) are part of the access path
	accessHelper := map[*ast.FuncDecl]bool{}
	{
		declByObj := map[types.Object]*ast.FuncDecl{}
		for _, fd := range funcDecls(npkg) {
			declByObj[info.Defs[fd.Name]] = fd
		}
		looksUp := func(fd *ast.FuncDecl) bool {
			found := false
			ast.Inspect(fd.Body, func(n ast.Node) bool {
				if c, ok := n.(*ast.CallExpr); ok {
					if se, ok := ast.Unparen(c.Fun).(*ast.SelectorExpr); ok {
						nm := se.Sel.Name
						if strings.HasPrefix(nm, "Get") && (strings.Contains(nm, "Property") || strings.Contains(nm, "Method")) && len(c.Args) > 0 {
							if cal, ok := calleeOf(info, c).(*types.Func); ok && cal.Type().(*types.Signature).Results().Len() > 0 && isMemberDecl(cal.Type().(*types.Signature).Results().At(0).Type()) {
								found = true
							}
						}
					}
				}
				return !found
			})
			return found
		}
		var frontier []*ast.FuncDecl
		for _, fd := range funcDecls(npkg) {
			if accessNodeType(fd) && fd.Body != nil {
				frontier = append(frontier, fd)
			}
		}
		for depth := 0; depth < 2; depth++ {
			var next []*ast.FuncDecl
			for _, fd := range frontier {
				ast.Inspect(fd.Body, func(n ast.Node) bool {
					if c, ok := n.(*ast.CallExpr); ok {
						if h := declByObj[calleeOf(info, c)]; h != nil && h.Recv == nil && h.Body != nil && !accessHelper[h] {
							if looksUp(h) {
								accessHelper[h] = true
							}
							next = append(next, h)
						}
					}
					return true
				})
			}
			frontier = next
		}
	}
	// any other evaluation method of a node that looks a property declaration up on a value it evaluated
	// (a destructuring target, an assignment node with a property branch of its own) is an access path too
	propertyPath := map[*ast.FuncDecl]bool{}
	for _, fd := range funcDecls(npkg) {
		if fd.Recv == nil || fd.Body == nil || accessNodeType(fd) {
			continue
		}
		switch fd.Name.Name {
		case "GetValue", "SetValue", "GetZVal", "Call":
		default:
			continue
		}
		ast.Inspect(fd.Body, func(n ast.Node) bool {
			if c, ok := n.(*ast.CallExpr); ok {
				if se, ok := ast.Unparen(c.Fun).(*ast.SelectorExpr); ok && se.Sel.Name == "GetPropertyStmt" && len(c.Args) == 1 {
					propertyPath[fd] = true
				}
			}
			return true
		})
	}
	accessNode := func(fd *ast.FuncDecl) bool {
		return accessNodeType(fd) || accessHelper[fd] || propertyPath[fd]
	}
	// self:: / static:: / parent:: can only be written inside class code: the caller is in the
	// hierarchy by construction, so the outside rule is not armed there.
	insidePath := func(fd *ast.FuncDecl) bool {
		tn := recvTypeName(fd)
		return strings.HasPrefix(tn, "CallSelf") || strings.HasPrefix(tn, "CallStaticKeyword") || strings.HasPrefix(tn, "CallParent")
	}
	// helpers that hand a looked-up member declaration back to their caller — as a result of member type
	// or inside a result struct of this package that has a member-typed field: the duty to consult the
	// modifier travels with the value, so the helper's successful return is not a use and the caller
	// is judged on the result it receives. function → result index
	carriesMember := func(t types.Type) bool {
		if isMemberDecl(t) {
			return true
		}
		if nt := namedOf(t); nt != nil && nt.Obj().Pkg() == npkg.Types {
			if st, ok := nt.Underlying().(*types.Struct); ok {
				for i := 0; i < st.NumFields(); i++ {
					if isMemberDecl(st.Field(i).Type()) {
						return true
					}
				}
			}
		}
		return false
	}
	returnsMember := map[*types.Func]int{}
	for round := 0; round < 4; round++ {
		for _, fd := range funcDecls(npkg) {
			f, ok := info.Defs[fd.Name].(*types.Func)
			if !ok || fd.Body == nil {
				continue
			}
			if _, done := returnsMember[f]; done {
				continue
			}
			switch fd.Name.Name {
			case "GetValue", "SetValue", "Call", "GetZVal":
				continue
			}
			sig := f.Type().(*types.Signature)
			for i := 0; i < sig.Results().Len(); i++ {
				if carriesMember(sig.Results().At(i).Type()) {
					looks := false
					ast.Inspect(fd.Body, func(n ast.Node) bool {
						if c, ok := n.(*ast.CallExpr); ok {
							if cal, ok := calleeOf(info, c).(*types.Func); ok {
								nm := cal.Name()
								if strings.HasPrefix(nm, "Get") && (strings.Contains(nm, "Property") || strings.Contains(nm, "Method")) {
									looks = true
								}
								if _, ok := returnsMember[cal]; ok {
									looks = true
								}
							}
						}
						return true
					})
					if looks {
						returnsMember[f] = i
					}
					break
				}
			}
		}
	}
	// methods of a member-carrying struct that consult the carried member's modifier (target.reachableFrom(ctx))
	carrierGate := map[*types.Func]bool{}
	for _, fd := range funcDecls(npkg) {
		f, ok := info.Defs[fd.Name].(*types.Func)
		if !ok || fd.Body == nil || fd.Recv == nil || len(fd.Recv.List) != 1 || len(fd.Recv.List[0].Names) != 1 {
			continue
		}
		if !carriesMember(info.TypeOf(fd.Recv.List[0].Type)) {
			continue
		}
		recv := info.Defs[fd.Recv.List[0].Names[0]]
		ast.Inspect(fd.Body, func(n ast.Node) bool {
			if c, ok := n.(*ast.CallExpr); ok {
				if se, ok := ast.Unparen(c.Fun).(*ast.SelectorExpr); ok && se.Sel.Name == "GetModifier" {
					root := ast.Unparen(se.X)
					for {
						if sx, ok := root.(*ast.SelectorExpr); ok {
							root = ast.Unparen(sx.X)
							continue
						}
						break
					}
					if id, ok := root.(*ast.Ident); ok && info.Uses[id] == recv {
						carrierGate[f] = true
					}
				}
			}
			return true
		})
	}
	// helpers that check the modifier of a parameter
	checksParam := map[*types.Func]map[int]bool{}
	for _, fd := range funcDecls(npkg) {
		f, ok := info.Defs[fd.Name].(*types.Func)
		if !ok {
			continue
		}
		sig := f.Type().(*types.Signature)
		ast.Inspect(fd.Body, func(n ast.Node) bool {
			c, ok := n.(*ast.CallExpr)
			if !ok {
				return true
			}
			se, ok := ast.Unparen(c.Fun).(*ast.SelectorExpr)
			if !ok || se.Sel.Name != "GetModifier" {
				return true
			}
			if id, ok := ast.Unparen(se.X).(*ast.Ident); ok {
				for i := 0; i < sig.Params().Len(); i++ {
					if sig.Params().At(i) == info.Uses[id] {
						if checksParam[f] == nil {
							checksParam[f] = map[int]bool{}
						}
						checksParam[f][i] = true
					}
				}
			}
			return true
		})
	}

	// visibility gates: package functions that consult GetModifier() of a declaration and answer with a
	// control; an access-path type is "gated" when an evaluation entry of it tests such a gate's result
	gates := map[types.Object]bool{}
	for _, fd := range funcDecls(npkg) {
		if fd.Type.Results == nil {
			continue
		}
		// functions, and methods of helper types (a declaration-lookup result, a table entry); the
		// evaluation entries of the access nodes themselves are not gates
		switch fd.Name.Name {
		case "GetValue", "SetValue", "GetZVal", "SetProperty":
			if fd.Recv != nil {
				continue
			}
		}
		sig, ok := info.Defs[fd.Name].Type().(*types.Signature)
		if !ok || sig.Results().Len() != 1 || !isNamed(sig.Results().At(0).Type(), dataPath, "Control") {
			continue
		}
		mod := false
		ast.Inspect(fd.Body, func(n ast.Node) bool {
			if c, ok := n.(*ast.CallExpr); ok {
				if se, ok := ast.Unparen(c.Fun).(*ast.SelectorExpr); ok && se.Sel.Name == "GetModifier" {
					mod = true
				}
			}
			return true
		})
		if mod {
			gates[info.Defs[fd.Name]] = true
		}
	}
	gatedType := map[string]bool{}
	{
		byType := map[string][]*ast.FuncDecl{}
		for _, fd := range funcDecls(npkg) {
			if tn := recvTypeName(fd); tn != "" {
				byType[tn] = append(byType[tn], fd)
			}
		}
		for tn, fds := range byType {
			for _, fd := range fds {
				switch fd.Name.Name {
				case "GetValue", "SetValue", "GetZVal", "SetProperty":
				default:
					continue
				}
				ast.Inspect(fd.Body, func(n ast.Node) bool {
					is, ok := n.(*ast.IfStmt)
					if !ok || is.Init == nil {
						return true
					}
					as, ok := is.Init.(*ast.AssignStmt)
					if !ok || len(as.Rhs) != 1 {
						return true
					}
					c, ok := ast.Unparen(as.Rhs[0]).(*ast.CallExpr)
					if !ok || !gates[calleeOf(info, c)] {
						return true
					}
					for _, st := range is.Body.List {
						if _, ok := st.(*ast.ReturnStmt); ok {
							gatedType[tn+"."+fd.Name.Name] = true
						}
					}
					return true
				})
			}
		}
	}
	// a read entry (GetValue) covers the lookups of the helpers it calls; a write entry (SetProperty) its own
	gatedFor := func(fd *ast.FuncDecl) bool {
		tn := recvTypeName(fd)
		if fd.Name.Name == "SetProperty" || fd.Name.Name == "SetValue" {
			return gatedType[tn+"."+fd.Name.Name]
		}
		return gatedType[tn+".GetValue"]
	}
	r.curRule = "C07-VIS"
	nodesSeen := map[string]bool{}
	// helpers whose bare lookup is covered by the gate of their own node's evaluation entry
	entryGated := map[*ast.FuncDecl]bool{}
	defer func() {
		// … which holds only for calls that come through that entry: a call of the helper from another
		// node type (or a package function) hands the member out without the gate unless the caller
		// tests a gate itself
		r.curRule = "C07-VIS"
		var hs []*ast.FuncDecl
		for h := range entryGated {
			if h.Name.Name != "GetValue" && h.Name.Name != "SetValue" && h.Name.Name != "GetZVal" && h.Name.Name != "SetProperty" {
				hs = append(hs, h)
			}
		}
		sort.Slice(hs, func(i, j int) bool { return hs[i].Pos() < hs[j].Pos() })
		for _, h := range hs {
			hobj := info.Defs[h.Name]
			for _, g := range funcDecls(npkg) {
				if g.Body == nil || recvTypeName(g) == recvTypeName(h) {
					continue
				}
				ast.Inspect(g.Body, func(n ast.Node) bool {
					c, ok := n.(*ast.CallExpr)
					if !ok || calleeOf(info, c) != hobj {
						return true
					}
					key := funcKey(npkg, g) + "#calls-ungated-lookup:" + recvTypeName(h) + "." + h.Name.Name
					gated := false
					ast.Inspect(g.Body, func(m ast.Node) bool {
						if gc, ok := m.(*ast.CallExpr); ok && gates[calleeOf(info, gc)] {
							gated = true
						}
						return true
					})
					if gated {
						r.ok(key, c.Pos(), "the caller tests a visibility gate itself")
					} else {
						r.bad(key, c.Pos(), fmt.Sprintf("%s fetches the member through %s.%s, the lookup half of that node's evaluation, and skips the visibility gate its GetValue applies: private and protected members are readable through this path", funcKey(npkg, g), recvTypeName(h), h.Name.Name))
					}
					return true
				})
			}
		}
	}()
	type privArm struct {
		fk             string
		pos            token.Pos
		privP, protP   *types.Func
		havePriv, both bool
	}
	var arms []privArm
	for _, fd := range funcDecls(npkg) {
		if !accessNode(fd) {
			continue
		}
		nodesSeen[recvTypeName(fd)] = true
		fk := funcKey(npkg, fd)
		armed := !insidePath(fd)
		type rep struct {
			key, msg string
			pos      token.Pos
			ok       bool
		}
		var reps []rep
		add := func(key string, pos token.Pos, ok bool, msg string) {
			for i := range reps {
				if reps[i].key == key && reps[i].pos == pos {
					if !ok {
						reps[i].ok, reps[i].msg = false, msg
					}
					return
				}
			}
			reps = append(reps, rep{key, msg, pos, ok})
		}
		lookupPos := map[types.Object]token.Pos{}
		weak := map[types.Object]bool{}
		propVars := map[types.Object]bool{}
		typeAlias := map[types.Object]types.Object{} // t := property.GetType()
		ast.Inspect(fd.Body, func(m ast.Node) bool {
			as, ok := m.(*ast.AssignStmt)
			if !ok || len(as.Lhs) != 1 || len(as.Rhs) != 1 {
				return true
			}
			c, ok := ast.Unparen(as.Rhs[0]).(*ast.CallExpr)
			if !ok {
				return true
			}
			se, ok := ast.Unparen(c.Fun).(*ast.SelectorExpr)
			if !ok || se.Sel.Name != "GetType" {
				return true
			}
			if src, ok := ast.Unparen(se.X).(*ast.Ident); ok {
				if l, ok := as.Lhs[0].(*ast.Ident); ok {
					if lo := info.Defs[l]; lo != nil {
						typeAlias[lo] = info.Uses[src]
					}
				}
			}
			return true
		})
		h := &Hooks{Info: info}
		h.Copy = func(s State) State { return s.(*c07State).clone() }
		h.Join = func(a, b State) State {
			x, y := a.(*c07State), b.(*c07State)
			n := x.clone()
			for k, v := range y.unchecked {
				if _, ok := n.unchecked[k]; !ok {
					n.unchecked[k] = v
				}
			}
			for k := range y.magic {
				n.magic[k] = true
			}
			for k, v := range y.typeUn {
				if _, ok := n.typeUn[k]; !ok {
					n.typeUn[k] = v
				}
			}
			return n
		}
		h.Equal = func(a, b State) bool {
			x, y := a.(*c07State), b.(*c07State)
			if len(x.unchecked) != len(y.unchecked) || len(x.typeUn) != len(y.typeUn) {
				return false
			}
			for k := range x.unchecked {
				if _, ok := y.unchecked[k]; !ok {
					return false
				}
			}
			return true
		}
		use := func(s *c07State, o types.Object, pos token.Pos, how string) {
			if p, pending := s.unchecked[o]; pending && armed {
				add("unchecked-member:"+o.Name(), p, false, fmt.Sprintf("the member declaration looked up here is %s (line %d) on a path that never consulted its GetModifier(): private/protected members are reachable from outside through this access path", how, r.Fset.Position(pos).Line))
				delete(s.unchecked, o)
			}
		}
		h.Visit = func(e ast.Expr, st State) State {
			s := st.(*c07State)
			c, ok := e.(*ast.CallExpr)
			if !ok {
				return s
			}
			if isWrapperCall(c) {
				// data.Accepts(property.GetType(), value): the declared type of every property named in the
				// arguments is consulted
				for _, a := range c.Args {
					ast.Inspect(a, func(m ast.Node) bool {
						if id, ok := m.(*ast.Ident); ok {
							if o := info.Uses[id]; propVars[o] {
								delete(s.typeUn, o)
							} else if src, ok := typeAlias[o]; ok {
								delete(s.typeUn, src)
							}
						}
						return true
					})
				}
			}
			if se, ok := ast.Unparen(c.Fun).(*ast.SelectorExpr); ok {
				if se.Sel.Name == "Is" && len(c.Args) == 1 {
					// property.GetType().Is(value)  /  t := property.GetType(); t.Is(value)
					ast.Inspect(se.X, func(m ast.Node) bool {
						if id, ok := m.(*ast.Ident); ok {
							if o := info.Uses[id]; propVars[o] {
								delete(s.typeUn, o)
							} else if src, ok := typeAlias[o]; ok {
								delete(s.typeUn, src)
							}
						}
						return true
					})
				}
				if (se.Sel.Name == "SetProperty" || se.Sel.Name == "Store") && len(c.Args) == 2 {
					if id, ok := ast.Unparen(c.Args[1]).(*ast.Ident); ok && id.Name == "value" {
						for o, p := range s.typeUn {
							add("typed-store:"+o.Name(), p, false, fmt.Sprintf("the property declaration looked up here is followed by a store of the incoming value (line %d) on a path that never consulted its declared type (Types.Is)", r.Fset.Position(c.Pos()).Line))
							delete(s.typeUn, o)
						}
					}
				}
				if cal, ok := calleeOf(info, c).(*types.Func); ok && carrierGate[cal] {
					if id, ok := ast.Unparen(se.X).(*ast.Ident); ok {
						if o := info.Uses[id]; o != nil {
							delete(s.unchecked, o)
						}
					}
				}
				if se.Sel.Name == "GetModifier" {
					// target.method.GetModifier(): the member carried by a tracked struct is consulted
					root := ast.Unparen(se.X)
					for {
						if sx, ok := root.(*ast.SelectorExpr); ok {
							root = ast.Unparen(sx.X)
							continue
						}
						break
					}
					if id, ok := root.(*ast.Ident); ok {
						if o := info.Uses[id]; o != nil {
							if _, tracked := lookupPos[o]; tracked {
								delete(s.unchecked, o)
							}
						}
					}
				}
				if id, ok := ast.Unparen(se.X).(*ast.Ident); ok {
					o := info.Uses[id]
					if _, tracked := lookupPos[o]; tracked {
						switch se.Sel.Name {
						case "GetModifier":
							delete(s.unchecked, o)
						case "GetValue", "SetValue", "Call", "GetZVal":
							use(s, o, c.Pos(), "used ("+se.Sel.Name+")")
						}
					}
				}
			}
			for i, a := range c.Args {
				id, ok := ast.Unparen(a).(*ast.Ident)
				if !ok {
					continue
				}
				o := info.Uses[id]
				if _, tracked := lookupPos[o]; !tracked {
					continue
				}
				if cal, ok := calleeOf(info, c).(*types.Func); ok && checksParam[cal][i] {
					delete(s.unchecked, o)
					continue
				}
				use(s, o, c.Pos(), "handed to "+exprStr(c.Fun))
			}
			return s
		}
		h.Cond = func(e ast.Expr, truth bool, st State) State {
			s := st.(*c07State)
			// target.found is false: the carrier holds no member on this branch
			if se, ok := ast.Unparen(e).(*ast.SelectorExpr); ok && !truth {
				if id, ok := ast.Unparen(se.X).(*ast.Ident); ok {
					if o := info.Uses[id]; o != nil && carriesMember(o.Type()) && !isMemberDecl(o.Type()) {
						if b, ok := info.TypeOf(se).Underlying().(*types.Basic); ok && b.Kind() == types.Bool {
							delete(s.unchecked, o)
						}
					}
				}
			}
			if id, ok := ast.Unparen(e).(*ast.Ident); ok && !truth {
				if m, ok := s.okOf[info.Uses[id]]; ok {
					delete(s.unchecked, m) // the lookup found nothing on this branch
					delete(s.typeUn, m)
				}
			}
			// `m.GetType() != nil` false branch: the member has no declared type, nothing to consult
			if be, ok := ast.Unparen(e).(*ast.BinaryExpr); ok && exprStr(be.Y) == "nil" {
				if c, ok := ast.Unparen(be.X).(*ast.CallExpr); ok {
					if se, ok := ast.Unparen(c.Fun).(*ast.SelectorExpr); ok && se.Sel.Name == "GetType" {
						if id, ok := ast.Unparen(se.X).(*ast.Ident); ok {
							if (be.Op == token.NEQ && !truth) || (be.Op == token.EQL && truth) {
								delete(s.typeUn, info.Uses[id])
							}
						}
					}
				}
				if id, ok := ast.Unparen(be.X).(*ast.Ident); ok {
					if src, ok := typeAlias[info.Uses[id]]; ok && ((be.Op == token.NEQ && !truth) || (be.Op == token.EQL && truth)) {
						delete(s.typeUn, src)
					}
				}
			}
			// `m != nil` false branch: nothing found either
			if be, ok := ast.Unparen(e).(*ast.BinaryExpr); ok && exprStr(be.Y) == "nil" {
				if id, ok := ast.Unparen(be.X).(*ast.Ident); ok {
					if (be.Op == token.NEQ && !truth) || (be.Op == token.EQL && truth) {
						delete(s.unchecked, info.Uses[id])
					}
				}
			}
			return s
		}
		h.Return = func(rs *ast.ReturnStmt, st State) {
			s := st.(*c07State)
			if len(rs.Results) == 0 || exprStr(rs.Results[len(rs.Results)-1]) != "nil" {
				return // leaves with a control (error) or has no results
			}
			objs := []types.Object{}
			for o := range s.unchecked {
				objs = append(objs, o)
			}
			// a helper that hands the member (or the struct carrying it) back: the caller is judged
			if f, ok := info.Defs[fd.Name].(*types.Func); ok {
				if ri, carries := returnsMember[f]; carries && ri < len(rs.Results) {
					if id, ok := ast.Unparen(rs.Results[ri]).(*ast.Ident); ok {
						delete(s.unchecked, info.Uses[id])
						objs = objs[:0]
						for o := range s.unchecked {
							objs = append(objs, o)
						}
					}
				}
			}
			for _, o := range objs {
				if weak[o] {
					// received from a helper (no found-flag of its own here): judged where it is used or where
					// what is handed out is built from it
					mentioned := false
					for _, res := range rs.Results {
						ast.Inspect(res, func(n ast.Node) bool {
							if id, ok := n.(*ast.Ident); ok && info.Uses[id] == o {
								mentioned = true
							}
							return !mentioned
						})
					}
					if !mentioned {
						continue
					}
				}
				use(s, o, rs.Pos(), "found and the access succeeds")
			}
		}
		h.Stmt = func(stm ast.Stmt, st State) State {
			s := st.(*c07State)
			as, ok := stm.(*ast.AssignStmt)
			if !ok {
				return s
			}
			// target = T{method: m} / target.method = m / target.method, ok = lookup(): the obligation moves to
			// (or starts on) the struct that carries the member
			rootObj := func(e ast.Expr) types.Object {
				e = ast.Unparen(e)
				for {
					if sx, ok := e.(*ast.SelectorExpr); ok {
						e = ast.Unparen(sx.X)
						continue
					}
					break
				}
				if id, ok := e.(*ast.Ident); ok {
					if o := info.Defs[id]; o != nil {
						return o
					}
					return info.Uses[id]
				}
				return nil
			}
			if len(as.Lhs) == len(as.Rhs) {
				for i := range as.Lhs {
					lo := rootObj(as.Lhs[i])
					if lo == nil {
						continue
					}
					var carried []types.Object
					switch rx := ast.Unparen(as.Rhs[i]).(type) {
					case *ast.CompositeLit:
						for _, el := range rx.Elts {
							v := el
							if kv, ok := el.(*ast.KeyValueExpr); ok {
								v = kv.Value
							}
							if id, ok := ast.Unparen(v).(*ast.Ident); ok {
								carried = append(carried, info.Uses[id])
							}
						}
					case *ast.Ident:
						if _, isSel := ast.Unparen(as.Lhs[i]).(*ast.SelectorExpr); isSel {
							carried = append(carried, info.Uses[rx])
						}
					}
					for _, ro := range carried {
						if p, pending := s.unchecked[ro]; pending && ro != lo {
							delete(s.unchecked, ro)
							s.unchecked[lo] = p
							lookupPos[lo] = p
						}
					}
				}
			}
			if len(as.Rhs) == 1 {
				if c, ok := ast.Unparen(as.Rhs[0]).(*ast.CallExpr); ok {
					if cal, ok := calleeOf(info, c).(*types.Func); ok {
						if ri, carries := returnsMember[cal]; carries && ri < len(as.Lhs) {
							if lo := rootObj(as.Lhs[ri]); lo != nil {
								s.unchecked[lo] = c.Pos()
								lookupPos[lo] = c.Pos()
								weak[lo] = true
							}
						}
					}
				}
			}
			// method = m : the obligation on m moves to method
			if len(as.Lhs) == len(as.Rhs) {
				for i := range as.Lhs {
					rid, ok := ast.Unparen(as.Rhs[i]).(*ast.Ident)
					if !ok {
						continue
					}
					ro := info.Uses[rid]
					p, pending := s.unchecked[ro]
					if !pending {
						continue
					}
					if lid, ok := as.Lhs[i].(*ast.Ident); ok {
						lo := info.Defs[lid]
						if lo == nil {
							lo = info.Uses[lid]
						}
						if lo != nil && lo != ro {
							delete(s.unchecked, ro)
							s.unchecked[lo] = p
							lookupPos[lo] = p
						}
					}
				}
			}
			if len(as.Rhs) != 1 {
				return s
			}
			c, ok := ast.Unparen(as.Rhs[0]).(*ast.CallExpr)
			if !ok {
				return s
			}
			se, ok := ast.Unparen(c.Fun).(*ast.SelectorExpr)
			if !ok {
				return s
			}
			cal, ok := calleeOf(info, c).(*types.Func)
			if !ok {
				return s
			}
			sig := cal.Type().(*types.Signature)
			if sig.Results().Len() == 0 {
				return s
			}
			outside := outsideRecv(info.TypeOf(se.X))
			inside := false
			if p, ok := info.TypeOf(se.X).(*types.Pointer); ok && isNamed(p.Elem(), dataPath, "ThisValue") {
				inside = true
			}
			if !outside && !inside {
				return s
			}
			res0 := sig.Results().At(0).Type()
			name := cal.Name()
			isLookup := strings.HasPrefix(name, "Get") && (strings.Contains(name, "Property") || strings.Contains(name, "Method"))
			if !isLookup || len(c.Args) == 0 {
				return s
			}
			// a constant name: a magic method (__get, __call…) or a method of an engine-level interface
			// (offsetGet, current, count…) the interpreter calls on the script's behalf — not a member the
			// script named
			if _, ok := ast.Unparen(c.Args[0]).(*ast.BasicLit); ok {
				return s
			}
			if isMemberDecl(res0) {
				if id, ok := as.Lhs[0].(*ast.Ident); ok && id.Name != "_" {
					o := info.Defs[id]
					if o == nil {
						o = info.Uses[id]
					}
					if o != nil && isNamed(res0, dataPath, "Property") {
						s.typeUn[o] = c.Pos()
						propVars[o] = true
					}
					if o != nil && len(as.Lhs) == 2 {
						if okID, ok := as.Lhs[1].(*ast.Ident); ok && okID.Name != "_" {
							okObj := info.Defs[okID]
							if okObj == nil {
								okObj = info.Uses[okID]
							}
							if okObj != nil {
								s.okOf[okObj] = o
							}
						}
					}
					if o != nil && outside {
						s.unchecked[o] = c.Pos()
						lookupPos[o] = c.Pos()
						add("member-lookup:"+name, c.Pos(), true, "every use of the member is preceded by a modifier test")
					}
				}
			} else if outside && armed && isNamed(res0, dataPath, "Value") && strings.Contains(name, "Static") {
				if gatedFor(fd) {
					entryGated[fd] = true
					add("static-value-lookup:"+name, c.Pos(), true, "the value is fetched bare, and the evaluation entry of this node tests a visibility gate (a function that consults the declaration's GetModifier()) before handing it out")
					return s
				}
				add("static-value-lookup:"+name, c.Pos(), false, "the static member is fetched as a bare value ("+name+" returns data.Value): this access path has no declaration to test, so private/protected static members are readable from anywhere")
			}
			return s
		}
		{
			WalkFunc(h, fd.Body, &c07State{unchecked: map[types.Object]token.Pos{}, magic: map[types.Object]bool{}, okOf: map[types.Object]types.Object{}, typeUn: map[types.Object]token.Pos{}})
		}
		// rewrite "member-lookup" ok entries that have a violation at the same position
		for _, x := range reps {
			if !x.ok && strings.HasPrefix(x.key, "unchecked-member:") {
				for i := range reps {
					if reps[i].ok && reps[i].pos == x.pos {
						reps[i].key = ""
					}
				}
			}
		}
		sort.SliceStable(reps, func(i, j int) bool { return reps[i].pos < reps[j].pos })
		for _, x := range reps {
			if x.key == "" {
				continue
			}
			if strings.HasPrefix(x.key, "typed-store:") {
				r.curRule = "C07-TYPE"
			}
			if x.ok {
				r.ok(fk+"#"+x.key, x.pos, x.msg)
			} else {
				r.bad(fk+"#"+x.key, x.pos, x.msg)
			}
			r.curRule = "C07-VIS"
		}
		// PRIV: the restricted modifiers are told apart — an if/else-if chain comparing the modifier with
		// ModifierPrivate then ModifierProtected, or two neighbouring ifs doing the same — and each arm
		// decides by a predicate (called in the arm's condition or in its body)
		which := func(e ast.Expr) string {
			out := ""
			ast.Inspect(e, func(m ast.Node) bool {
				if se, ok := m.(*ast.SelectorExpr); ok {
					if se.Sel.Name == "ModifierPrivate" || se.Sel.Name == "ModifierProtected" {
						if out != "" && out != se.Sel.Name {
							out = "both"
						} else if out == "" {
							out = se.Sel.Name
						}
					}
				}
				return true
			})
			return out
		}
		pred := func(is *ast.IfStmt) *types.Func {
			var out *types.Func
			look := func(n ast.Node) {
				ast.Inspect(n, func(m ast.Node) bool {
					if c, ok := m.(*ast.CallExpr); ok && out == nil {
						if f, ok := calleeOf(info, c).(*types.Func); ok && f.Pkg() != nil && r.ByPath[f.Pkg().Path()] != nil && !strings.HasPrefix(f.Name(), "New") && f.Type().(*types.Signature).Recv() == nil {
							if res := f.Type().(*types.Signature).Results(); res.Len() > 0 {
								if b, ok := res.At(0).Type().Underlying().(*types.Basic); ok && b.Kind() == types.Bool {
									out = f
								}
							}
						}
					}
					return out == nil
				})
			}
			look(is.Cond)
			if out == nil {
				look(is.Body)
			}
			return out
		}
		var blocks func(list []ast.Stmt)
		blocks = func(list []ast.Stmt) {
			for i, st := range list {
				is, ok := st.(*ast.IfStmt)
				if !ok || which(is.Cond) != "ModifierPrivate" {
					continue
				}
				var other *ast.IfStmt
				if el, ok := is.Else.(*ast.IfStmt); ok && which(el.Cond) == "ModifierProtected" {
					other = el
				} else if is.Else == nil && i+1 < len(list) {
					if nx, ok := list[i+1].(*ast.IfStmt); ok && which(nx.Cond) == "ModifierProtected" {
						other = nx
					}
				}
				if other == nil {
					continue
				}
				arms = append(arms, privArm{fk: fk, pos: is.Pos(), privP: pred(is), protP: pred(other)})
			}
		}
		ast.Inspect(fd.Body, func(n ast.Node) bool {
			switch x := n.(type) {
			case *ast.BlockStmt:
				blocks(x.List)
			case *ast.CaseClause:
				blocks(x.Body)
			}
			return true
		})
	}
	names := []string{}
	for n := range nodesSeen {
		names = append(names, n)
	}
	sort.Strings(names)
	r.stat("access_path_node_types", len(names))
	// whether a member may be used depends on who asks: an access node that remembers what it resolved
	// for one caller (a per-call-site cache) hands it to the next caller without the modifier test
	{
		tabled := map[string]bool{}
		for _, e := range nodeStateTable {
			tabled[e[0]] = true
		}
		writes, examined := evalClosureFieldWrites(npkg)
		bad := map[string]bool{}
		for _, w := range writes {
			if !nodesSeen[w.typeName] || tabled[w.typeName+"."+w.field] {
				continue
			}
			bad[w.typeName] = true
			r.bad("node.("+w.typeName+")#remembers-resolution:"+w.field, w.pos, "the access node stores "+w.field+" while it is evaluated: a member resolved for one caller is kept for the next one, whose right to see it was never tested")
		}
		for _, tn := range names {
			if pos, ok := examined[tn]; ok && !bad[tn] {
				r.ok("node.("+tn+")#resolves-for-each-caller", pos, "the access node keeps nothing between evaluations")
			}
		}
	}

	// a gate that receives the modifier as a value (table-driven form): one predicate call decides for
	// every restricted modifier, so private and protected cannot differ
	for _, fd := range funcDecls(npkg) {
		if fd.Body == nil || fd.Type.Params == nil {
			continue
		}
		takesModifier := false
		for _, f := range fd.Type.Params.List {
			if isNamed(info.TypeOf(f.Type), dataPath, "Modifier") {
				takesModifier = true
			}
		}
		if !takesModifier {
			continue
		}
		called := map[*types.Func]bool{}
		ast.Inspect(fd.Body, func(m ast.Node) bool {
			if c, ok := m.(*ast.CallExpr); ok {
				if f, ok := calleeOf(info, c).(*types.Func); ok && f.Pkg() != nil && r.ByPath[f.Pkg().Path()] != nil && isVisibilityPredicate(f, dataPath) {
					called[f] = true
				}
			}
			return true
		})
		if len(called) == 1 {
			for p := range called {
				arms = append(arms, privArm{fk: funcKey(npkg, fd), pos: fd.Pos(), privP: p, protP: p})
			}
		}
	}
	r.curRule = "C07-PRIV"
	for _, a := range arms {
		key := a.fk + "#private-vs-protected"
		switch {
		case a.privP == nil || a.protP == nil:
			r.info(key, a.pos, "modifier chain without a recognisable predicate")
		case a.privP == a.protP:
			r.bad(key, a.pos, "the private arm and the protected arm both decide by "+a.privP.Name()+": a subclass (or a parent) is granted access to private members")
		default:
			r.ok(key, a.pos, "private decided by "+a.privP.Name()+", protected by "+a.protP.Name())
		}
	}

	// ---- TYPE ----
	r.curRule = "C07-TYPE"
	declByObj := map[types.Object]*ast.FuncDecl{}
	for _, fd := range funcDecls(npkg) {
		declByObj[info.Defs[fd.Name]] = fd
	}
	var callsIsDepth func(fd *ast.FuncDecl, depth int) (int, token.Pos)
	callsIs := func(fd *ast.FuncDecl) (int, token.Pos) { return callsIsDepth(fd, 0) }
	callsIsDepth = func(fd *ast.FuncDecl, depth int) (int, token.Pos) {
		n, pos := 0, token.NoPos
		ast.Inspect(fd.Body, func(m ast.Node) bool {
			if c, ok := m.(*ast.CallExpr); ok {
				// a helper of this package that answers with a control and consults the type itself
				if h := declByObj[calleeOf(info, c)]; h != nil && h != fd && depth < 2 {
					if k, _ := callsIsDepth(h, depth+1); k > 0 {
						n++
						if !pos.IsValid() {
							pos = c.Pos()
						}
					}
				}
				if se, ok := ast.Unparen(c.Fun).(*ast.SelectorExpr); ok && se.Sel.Name == "Is" && len(c.Args) == 1 {
					if t := info.TypeOf(se.X); t != nil && isNamed(t, dataPath, "Types") {
						n++
						if !pos.IsValid() {
							pos = c.Pos()
						}
					}
				}
				if isWrapperCall(c) {
					n++
					if !pos.IsValid() {
						pos = c.Pos()
					}
				}
			}
			return true
		})
		return n, pos
	}
	// property stores: every access-path method that calls SetProperty / StaticProperty.Store with a parameter named value
	for _, fd := range funcDecls(npkg) {
		if !accessNode(fd) {
			continue
		}
		stores := token.NoPos
		ast.Inspect(fd.Body, func(m ast.Node) bool {
			if c, ok := m.(*ast.CallExpr); ok {
				if se, ok := ast.Unparen(c.Fun).(*ast.SelectorExpr); ok && (se.Sel.Name == "SetProperty" || se.Sel.Name == "Store") && len(c.Args) == 2 {
					if id, ok := ast.Unparen(c.Args[1]).(*ast.Ident); ok && id.Name == "value" {
						if se.Sel.Name == "Store" {
							if x, ok := ast.Unparen(se.X).(*ast.SelectorExpr); !ok || x.Sel.Name != "StaticProperty" {
								return true
							}
						}
						if !stores.IsValid() {
							stores = c.Pos()
						}
					}
				}
			}
			return true
		})
		if !stores.IsValid() || recvTypeName(fd) == "IndexExpression" {
			continue
		}
		key := funcKey(npkg, fd) + "#typed-property-store"
		if n, _ := callsIs(fd); n > 0 {
			r.ok(key, stores, "the property store path consults the declared type (Types.Is)")
		} else if callers := c07CallersOf(npkg, fd); !fd.Name.IsExported() && len(callers) > 0 && func() bool {
			// a helper of the access node (the arm for properties without a declaration, a shared tail):
			// it is reached only through methods that consult the declared type themselves
			for _, cfd := range callers {
				if n, _ := callsIs(cfd); n == 0 {
					return false
				}
			}
			return true
		}() {
			r.ok(key, stores, "a helper reached only from store paths that consult the declared type themselves")
		} else {
			r.bad(key, stores, "stores a value into a property without consulting the declared type: a typed property accepts any value through this access path")
		}
	}
	for _, b := range []struct{ recv, fn, what string }{
		{"", "paramSetValue", "parameter binding"},
		{"FunctionStatement", "Call", "function return"},
		{"ClassMethod", "Call", "method return"},
	} {
		fd := findFunc(npkg, b.recv, b.fn)
		if fd == nil {
			r.fail("anchor not found: node.%s.%s", b.recv, b.fn)
			continue
		}
		key := funcKey(npkg, fd) + "#typed-boundary"
		n, pos := callsIs(fd)
		// parameter binding may delegate to Parameter.SetValue
		if n == 0 && b.fn == "paramSetValue" {
			if p := findFunc(npkg, "Parameter", "SetValue"); p != nil {
				n, pos = callsIs(p)
			}
		}
		if n > 0 {
			r.ok(key, pos, b.what+" consults the declared type (Types.Is)")
		} else {
			r.bad(key, fd.Pos(), b.what+" never consults the declared type: typed "+b.what+" accepts any value")
		}
	}

	// ---- REJECT ----
	c07Reject(r, npkg)
	// ---- PRED ----
	preds := map[*types.Func]bool{}
	for _, a := range arms {
		if a.privP != nil {
			preds[a.privP] = true
		}
		if a.protP != nil {
			preds[a.protP] = true
		}
	}
	if len(preds) == 0 {
		// no modifier chain names a predicate: take the visibility predicates by role
		for _, fd := range funcDecls(npkg) {
			if f, ok := info.Defs[fd.Name].(*types.Func); ok && fd.Recv == nil && isVisibilityPredicate(f, dataPath) {
				preds[f] = true
			}
		}
		if dp := r.ByPath[dataPath]; dp != nil {
			for _, fd := range funcDecls(dp) {
				if f, ok := dp.TypesInfo.Defs[fd.Name].(*types.Func); ok && fd.Recv == nil && isVisibilityPredicate(f, dataPath) {
					preds[f] = true
				}
			}
		}
	}
	c07Pred(r, preds)

	// ---- NEW ----
	r.curRule = "C07-NEW"
	classStmt := func(t types.Type) bool { return t != nil && isNamed(t, dataPath, "ClassStmt") }
	for _, fd := range funcDecls(npkg) {
		var creates []*ast.CallExpr
		ast.Inspect(fd.Body, func(m ast.Node) bool {
			if c, ok := m.(*ast.CallExpr); ok {
				if se, ok := ast.Unparen(c.Fun).(*ast.SelectorExpr); ok && se.Sel.Name == "GetValue" && classStmt(info.TypeOf(se.X)) && len(c.Args) == 1 {
					if ac, ok := ast.Unparen(c.Args[0]).(*ast.CallExpr); ok {
						if ase, ok := ast.Unparen(ac.Fun).(*ast.SelectorExpr); ok && ase.Sel.Name == "CreateBaseContext" {
							creates = append(creates, c)
						}
					}
				}
			}
			return true
		})
		for _, c := range creates {
			se := ast.Unparen(c.Fun).(*ast.SelectorExpr)
			key := funcKey(npkg, fd) + "#creates-object"
			rejected := false
			ast.Inspect(fd.Body, func(m ast.Node) bool {
				if cc, ok := m.(*ast.CallExpr); ok && cc.Pos() < c.Pos() {
					if f, ok := calleeOf(info, cc).(*types.Func); ok && f.Name() == "IsAbstractClassStmt" && len(cc.Args) == 1 && exprStr(cc.Args[0]) == exprStr(se.X) {
						rejected = true
					}
				}
				return true
			})
			if rejected {
				r.ok(key, c.Pos(), "abstract classes are rejected before the object is created")
			} else {
				r.bad(key, c.Pos(), "creates an object from "+exprStr(se.X)+" without the abstract-class rejection (IsAbstractClassStmt) on this route")
			}
		}
	}
	for _, tn := range []string{"ClassStatement", "ClassGeneric"} {
		fd := findFunc(npkg, tn, "GetValue")
		if fd == nil {
			r.fail("anchor not found: node.(%s).GetValue", tn)
			continue
		}
		c07Validates(r, npkg, fd)
	}
}

type c07RejState struct {
	failed map[string]token.Pos // value expression (as text) whose declared-type test answered false on this path
	passed map[string]bool      // value expressions whose declared-type test answered true on every path here
}

// c07Reject: in every function of package node that calls Types.Is(v), the false outcome leads to a
// control, not to a store or a successful return.
func c07Reject(r *Run, npkg *packages.Package) {
	r.curRule = "C07-REJECT"
	info := npkg.TypesInfo
	dataPath := modPath + "/data"
	var isTypesIs func(e ast.Expr) (string, bool)
	isTypesIs = func(e ast.Expr) (string, bool) {
		c, ok := ast.Unparen(e).(*ast.CallExpr)
		if !ok || len(c.Args) != 1 {
			return "", false
		}
		se, ok := ast.Unparen(c.Fun).(*ast.SelectorExpr)
		if !ok || se.Sel.Name != "Is" {
			return "", false
		}
		if t := info.TypeOf(se.X); t == nil || !isNamed(t, dataPath, "Types") {
			return "", false
		}
		return exprStr(c.Args[0]), true
	}
	plainIs := isTypesIs
	var wrapperOf func(c *ast.CallExpr) ([2]int, bool)
	isTypesIs = func(e ast.Expr) (string, bool) {
		if v, ok := plainIs(e); ok {
			return v, true
		}
		if c, ok := ast.Unparen(e).(*ast.CallExpr); ok && wrapperOf != nil {
			if idx, ok := wrapperOf(c); ok && idx[1] < len(c.Args) {
				return exprStr(c.Args[idx[1]]), true
			}
		}
		return "", false
	}
	wrapper := c07Wrappers
	wrapperOf = func(c *ast.CallExpr) ([2]int, bool) {
		idx, ok := wrapper[calleeOf(info, c)]
		return idx, ok
	}
	for _, fd := range funcDecls(npkg) {
		if _, isWrapper := wrapper[info.Defs[fd.Name]]; isWrapper {
			continue // judged above
		}
		// boundary functions: those with a parameter or local of type data.Value that is tested
		has := false
		ast.Inspect(fd.Body, func(n ast.Node) bool {
			if e, ok := n.(ast.Expr); ok {
				if _, ok := isTypesIs(e); ok {
					has = true
				}
			}
			return !has
		})
		if !has {
			continue
		}
		// only enforcement boundaries: the function stores (SetVariableValue/SetProperty/SetIndexZVal/Store)
		// or is a Call method returning (value, control)
		fk := funcKey(npkg, fd)
		if tn := recvTypeName(fd); tn != "" {
			// keyed by the node type, not the method: moving the test into a helper method of the same
			// type keeps the construct (and a listed finding) the same
			fk = "node.(" + tn + ")"
		}
		nres := 0
		if fd.Type.Results != nil {
			nres = fd.Type.Results.NumFields()
		}
		ctlLast := false
		if sig, ok := info.Defs[fd.Name].Type().(*types.Signature); ok && sig.Results().Len() > 0 {
			ctlLast = isNamed(sig.Results().At(sig.Results().Len()-1).Type(), dataPath, "Control")
		}
		if !ctlLast {
			continue // predicates and helpers that answer bool are not boundaries
		}
		type rep struct {
			key, msg string
			pos      token.Pos
			ok       bool
		}
		var reps []rep
		seenTest := map[token.Pos]bool{}
		h := &Hooks{Info: info}
		h.Copy = func(s State) State {
			n := &c07RejState{failed: map[string]token.Pos{}, passed: map[string]bool{}}
			for k, v := range s.(*c07RejState).failed {
				n.failed[k] = v
			}
			for k := range s.(*c07RejState).passed {
				n.passed[k] = true
			}
			return n
		}
		h.Join = func(a, b State) State {
			n := h.Copy(a).(*c07RejState)
			for k, v := range b.(*c07RejState).failed {
				if _, ok := n.failed[k]; !ok {
					n.failed[k] = v
				}
			}
			for k := range n.passed {
				if !b.(*c07RejState).passed[k] {
					delete(n.passed, k)
				}
			}
			return n
		}
		h.Equal = func(a, b State) bool {
			x, y := a.(*c07RejState), b.(*c07RejState)
			if len(x.failed) != len(y.failed) || len(x.passed) != len(y.passed) {
				return false
			}
			for k := range x.failed {
				if _, ok := y.failed[k]; !ok {
					return false
				}
			}
			for k := range x.passed {
				if !y.passed[k] {
					return false
				}
			}
			return true
		}
		h.Cond = func(e ast.Expr, truth bool, st State) State {
			s := st.(*c07RejState)
			if v, ok := isTypesIs(e); ok {
				if !seenTest[e.Pos()] {
					seenTest[e.Pos()] = true
					reps = append(reps, rep{"type-test:" + v, "the false outcome of this test leads to a control on every path", e.Pos(), true})
				}
				if truth {
					delete(s.failed, v)
					s.passed[v] = true
				} else {
					s.failed[v] = e.Pos()
					delete(s.passed, v)
				}
			}
			return s
		}
		flag := func(s *c07RejState, pos token.Pos, how string) {
			for v, p := range s.failed {
				for i := range reps {
					if reps[i].pos == p {
						reps[i].ok = false
						reps[i].msg = fmt.Sprintf("after the declared type rejected %s here, the function still %s (line %d): a value of the wrong type is accepted at this boundary", v, how, r.Fset.Position(pos).Line)
					}
				}
				delete(s.failed, v)
			}
		}
		h.Visit = func(e ast.Expr, st State) State {
			s := st.(*c07RejState)
			if c, ok := e.(*ast.CallExpr); ok && len(s.failed) > 0 {
				if se, ok := ast.Unparen(c.Fun).(*ast.SelectorExpr); ok {
					switch se.Sel.Name {
					case "SetVariableValue", "SetProperty", "SetIndexZVal", "Store":
						flag(s, c.Pos(), "stores through "+se.Sel.Name)
					}
				}
			}
			return s
		}
		h.Return = func(rs *ast.ReturnStmt, st State) {
			s := st.(*c07RejState)
			if len(s.failed) == 0 || len(rs.Results) != nres || nres == 0 {
				return
			}
			if exprStr(rs.Results[nres-1]) == "nil" {
				// a converted value that itself passed the declared type's test is what crosses the boundary
				if nres >= 2 && s.passed[exprStr(rs.Results[0])] {
					return
				}
				flag(s, rs.Pos(), "returns successfully")
			}
		}
		WalkFunc(h, fd.Body, &c07RejState{failed: map[string]token.Pos{}, passed: map[string]bool{}})
		sort.SliceStable(reps, func(i, j int) bool { return reps[i].pos < reps[j].pos })
		for _, x := range reps {
			if x.ok {
				r.ok(fk+"#"+x.key, x.pos, x.msg)
			} else {
				r.bad(fk+"#"+x.key, x.pos, x.msg)
			}
		}
	}
}

// c07Pred: every way a visibility predicate can answer true is justified by an equality in which one
// side is a party itself (caller class / bound scope / target class) and the other side belongs to the
// other party (itself or its extends chain). Helpers that answer bool are analysed with the tags of
// the arguments at each call site.
func c07Pred(r *Run, preds map[*types.Func]bool) {
	r.curRule = "C07-PRED"
	type grant struct {
		pos token.Pos
		ok  bool
	}
	// analyse returns the grant sites of fd when its parameters carry the given tags
	// (1=C0 2=C+ 4=T0 8=T+), and whether every grant is justified
	var analyse func(pkg *packages.Package, fd *ast.FuncDecl, paramTags []int, depth int) []grant
	analyse = func(pkg *packages.Package, fd *ast.FuncDecl, paramTags []int, depth int) []grant {
		info := pkg.TypesInfo
		tags := map[types.Object]int{}
		k := 0
		for _, f := range fd.Type.Params.List {
			for _, nm := range f.Names {
				if k < len(paramTags) {
					tags[info.Defs[nm]] = paramTags[k]
				}
				k++
			}
		}
		grantVar := map[types.Object]bool{} // bool locals that hold a justified answer of a helper
		var tagOf func(e ast.Expr) int
		tagOf = func(e ast.Expr) int {
			switch x := ast.Unparen(e).(type) {
			case *ast.Ident:
				return tags[info.Uses[x]]
			case *ast.StarExpr:
				return tagOf(x.X)
			case *ast.SelectorExpr:
				return tagOf(x.X)
			case *ast.TypeAssertExpr:
				return tagOf(x.X)
			case *ast.CallExpr:
				if se, ok := ast.Unparen(x.Fun).(*ast.SelectorExpr); ok {
					base := tagOf(se.X)
					switch se.Sel.Name {
					case "GetName":
						return base
					case "GetExtend":
						return derive(base)
					}
				}
				out := 0
				for _, a := range x.Args {
					out |= derive(tagOf(a))
				}
				return out
			}
			return 0
		}
		var helperGrants []grant
		for pass := 0; pass < 4; pass++ {
			ast.Inspect(fd.Body, func(n ast.Node) bool {
				switch x := n.(type) {
				case *ast.TypeSwitchStmt:
					// switch v := e.(type): v carries e's tags in every clause
					if as, ok := x.Assign.(*ast.AssignStmt); ok && len(as.Rhs) == 1 {
						if ta, ok := ast.Unparen(as.Rhs[0]).(*ast.TypeAssertExpr); ok {
							t := tagOf(ta.X)
							for _, cc := range x.Body.List {
								if o := info.Implicits[cc]; o != nil {
									tags[o] |= t
								}
							}
						}
					}
				case *ast.AssignStmt:
					for i, l := range x.Lhs {
						id, ok := l.(*ast.Ident)
						if !ok || id.Name == "_" {
							continue
						}
						o := info.Defs[id]
						if o == nil {
							o = info.Uses[id]
						}
						if o == nil {
							continue
						}
						var rhs ast.Expr
						if len(x.Rhs) == len(x.Lhs) {
							rhs = x.Rhs[i]
						} else if len(x.Rhs) == 1 && i == 0 {
							rhs = x.Rhs[0]
						}
						if rhs != nil {
							tags[o] |= tagOf(rhs)
						}
					}
				}
				return true
			})
		}
		// helper calls whose first result is bool: analyse with the argument tags of this call site
		if depth < 2 {
			ast.Inspect(fd.Body, func(n ast.Node) bool {
				as, ok := n.(*ast.AssignStmt)
				if !ok || len(as.Rhs) != 1 {
					return true
				}
				c, ok := ast.Unparen(as.Rhs[0]).(*ast.CallExpr)
				if !ok {
					return true
				}
				hf, _ := calleeOf(info, c).(*types.Func)
				hp, h := r.declAnywhere(hf)
				if h == nil || h == fd || h.Type.Results == nil {
					return true
				}
				sig := hf.Type().(*types.Signature)
				if b, ok := sig.Results().At(0).Type().Underlying().(*types.Basic); !ok || b.Kind() != types.Bool {
					return true
				}
				at := make([]int, len(c.Args))
				for i, a := range c.Args {
					at[i] = tagOf(a)
				}
				gs := analyse(hp, h, at, depth+1)
				all := len(gs) > 0
				for _, g := range gs {
					if !g.ok {
						all = false
					}
				}
				helperGrants = append(helperGrants, gs...)
				if id, ok := as.Lhs[0].(*ast.Ident); ok && all {
					o := info.Defs[id]
					if o == nil {
						o = info.Uses[id]
					}
					if o != nil {
						grantVar[o] = true
					}
				}
				return true
			})
		}
		boolDefs := map[types.Object]ast.Expr{}
		ast.Inspect(fd.Body, func(n ast.Node) bool {
			if as, ok := n.(*ast.AssignStmt); ok && len(as.Lhs) == 1 && len(as.Rhs) == 1 {
				if id, ok := as.Lhs[0].(*ast.Ident); ok {
					if o := info.Defs[id]; o != nil {
						if b, ok := o.Type().Underlying().(*types.Basic); ok && b.Kind() == types.Bool {
							boolDefs[o] = as.Rhs[0]
						}
					}
				}
			}
			return true
		})
		var justified func(cond ast.Expr) bool
		justified = func(cond ast.Expr) bool {
			good := false
			ast.Inspect(cond, func(n ast.Node) bool {
				if id, ok := n.(*ast.Ident); ok {
					o := info.Uses[id]
					if grantVar[o] {
						good = true
					}
					if def, ok := boolDefs[o]; ok && justified(def) {
						good = true
					}
				}
				be, ok := n.(*ast.BinaryExpr)
				if !ok || be.Op != token.EQL {
					return true
				}
				a, b := tagOf(be.X), tagOf(be.Y)
				pair := func(x, y int) bool {
					return (x&1 != 0 && y&4 != 0) || (x&2 != 0 && y&4 != 0) || (x&1 != 0 && y&8 != 0)
				}
				if pair(a, b) || pair(b, a) {
					good = true
				}
				return true
			})
			return good
		}
		var out []grant
		var visit func(list []ast.Stmt, conds []ast.Expr)
		visit = func(list []ast.Stmt, conds []ast.Expr) {
			for _, st := range list {
				switch x := st.(type) {
				case *ast.ReturnStmt:
					if len(x.Results) == 0 {
						continue
					}
					res := ast.Unparen(x.Results[0])
					isTrue := exprStr(res) == "true"
					isGrantVar := false
					if id, ok := res.(*ast.Ident); ok && grantVar[info.Uses[id]] {
						isGrantVar = true
					}
					if !isTrue && !isGrantVar {
						// a returned expression that may be true: a variable or a helper call
						if exprStr(res) == "false" {
							continue
						}
						if id, ok := res.(*ast.Ident); ok {
							if v, ok := info.Uses[id].(*types.Var); ok {
								if b, ok := v.Type().Underlying().(*types.Basic); ok && b.Kind() == types.Bool {
									out = append(out, grant{x.Pos(), justified(res)})
								}
							}
						}
						continue
					}
					ok := isGrantVar
					for _, c := range conds {
						if justified(c) {
							ok = true
						}
					}
					out = append(out, grant{x.Pos(), ok})
				case *ast.IfStmt:
					visit(x.Body.List, append(append([]ast.Expr{}, conds...), x.Cond))
					if x.Else != nil {
						if eb, ok := x.Else.(*ast.BlockStmt); ok {
							visit(eb.List, conds)
						} else {
							visit([]ast.Stmt{x.Else}, conds)
						}
					}
				case *ast.ForStmt:
					visit(x.Body.List, conds)
				case *ast.RangeStmt:
					visit(x.Body.List, conds)
				case *ast.BlockStmt:
					visit(x.List, conds)
				case *ast.SwitchStmt:
					for _, cc := range x.Body.List {
						visit(cc.(*ast.CaseClause).Body, conds)
					}
				case *ast.TypeSwitchStmt:
					for _, cc := range x.Body.List {
						visit(cc.(*ast.CaseClause).Body, conds)
					}
				}
			}
		}
		visit(fd.Body.List, nil)
		for _, g := range helperGrants {
			if !g.ok {
				out = append(out, g)
			}
		}
		return out
	}
	fns := []*types.Func{}
	for f := range preds {
		fns = append(fns, f)
	}
	sort.Slice(fns, func(i, j int) bool { return fns[i].FullName() < fns[j].FullName() })
	for _, fn := range fns {
		ppkg, fd := r.declAnywhere(fn)
		if fd == nil || fd.Recv != nil {
			continue
		}
		name := fn.Name()
		info := ppkg.TypesInfo
		fk := funcKey(ppkg, fd)
		var pt []int
		for _, f := range fd.Type.Params.List {
			for range f.Names {
				t := info.TypeOf(f.Type)
				switch {
				case isNamed(t, modPath+"/data", "ClassStmt"):
					pt = append(pt, 4)
				case isNamed(t, modPath+"/data", "Context"):
					pt = append(pt, 1)
				default:
					pt = append(pt, 0)
				}
			}
		}
		gs := analyse(ppkg, fd, pt, 0)
		if len(gs) == 0 {
			r.fail("visibility predicate %s never answers true", name)
		}
		sort.Slice(gs, func(i, j int) bool { return gs[i].pos < gs[j].pos })
		for _, g := range gs {
			key := fk + "#grants"
			if g.ok {
				r.ok(key, g.pos, "access is granted on an identity between one party itself and the other party or its ancestors")
			} else {
				r.bad(key, g.pos, "access is granted without an identity between one party itself and a member of the other's extends chain (for example on two chains meeting at a common root): unrelated or sibling classes reach private/protected members")
			}
		}
	}
}

func derive(t int) int {
	out := 0
	if t&3 != 0 {
		out |= 2
	}
	if t&12 != 0 {
		out |= 8
	}
	return out
}

type c07ValState struct {
	called, validated, abstract bool
	memo                        map[*types.Var]bool // bool fields known true on this path
}

// c07Validates: on every path to the creation of the object (NewClassValue) the class is abstract,
// or ValidateConcreteClassAbstractMethods was called and answered nil, or the path was taken under a
// bool field that is only ever set after such a successful validation.
func c07Validates(r *Run, npkg *packages.Package, fd *ast.FuncDecl) {
	info := npkg.TypesInfo
	recv := info.Defs[fd.Recv.List[0].Names[0]]
	key := funcKey(npkg, fd) + "#validates-abstract-methods"
	fieldOfRecv := func(e ast.Expr) *types.Var {
		se, ok := ast.Unparen(e).(*ast.SelectorExpr)
		if !ok {
			return nil
		}
		if id, ok := ast.Unparen(se.X).(*ast.Ident); !ok || info.Uses[id] != recv {
			return nil
		}
		if sel, ok := info.Selections[se]; ok {
			if v, ok := sel.Obj().(*types.Var); ok {
				return v
			}
		}
		return nil
	}
	memoSetUnvalidated := map[*types.Var]bool{} // field set to true on a path without a successful validation
	type creation struct {
		pos token.Pos
		st  c07ValState
	}
	var creations []creation
	h := &Hooks{Info: info}
	h.Copy = func(s State) State {
		x := s.(*c07ValState)
		n := &c07ValState{called: x.called, validated: x.validated, abstract: x.abstract, memo: map[*types.Var]bool{}}
		for k := range x.memo {
			n.memo[k] = true
		}
		return n
	}
	h.Join = func(a, b State) State {
		x, y := a.(*c07ValState), b.(*c07ValState)
		n := &c07ValState{called: x.called && y.called, validated: x.validated && y.validated, abstract: x.abstract && y.abstract, memo: map[*types.Var]bool{}}
		// a path qualifies by any one of its reasons; keep per-path reasons by recording a synthetic reason
		if (x.validated || x.abstract || len(x.memo) > 0) && (y.validated || y.abstract || len(y.memo) > 0) {
			// both sides are covered by some reason: remember that as "validated-or-equivalent" unless a memo is needed
			for k := range x.memo {
				n.memo[k] = true
			}
			for k := range y.memo {
				n.memo[k] = true
			}
			if !(x.validated && y.validated) && !(x.abstract && y.abstract) && len(n.memo) == 0 {
				n.validated = true // mixed reasons (abstract on one side, validated on the other)
			}
			if (x.validated || x.abstract) && (y.validated || y.abstract) {
				n.validated = true
				n.memo = map[*types.Var]bool{}
			}
		}
		return n
	}
	h.Equal = func(a, b State) bool {
		x, y := a.(*c07ValState), b.(*c07ValState)
		return x.called == y.called && x.validated == y.validated && x.abstract == y.abstract && len(x.memo) == len(y.memo)
	}
	h.Cond = func(e ast.Expr, truth bool, st State) State {
		s := st.(*c07ValState)
		neg := false
		x := ast.Unparen(e)
		if u, ok := x.(*ast.UnaryExpr); ok && u.Op == token.NOT {
			neg, x = true, ast.Unparen(u.X)
		}
		if f := fieldOfRecv(x); f != nil {
			if b, ok := f.Type().Underlying().(*types.Basic); ok && b.Kind() == types.Bool {
				isTrue := truth != neg
				if f.Name() == "IsAbstract" {
					if isTrue {
						s.abstract = true
					}
				} else if isTrue {
					s.memo[f] = true
				}
			}
		}
		if be, ok := x.(*ast.BinaryExpr); ok && exprStr(be.Y) == "nil" && s.called {
			if (be.Op == token.NEQ && !truth) || (be.Op == token.EQL && truth) {
				s.validated = true
			}
		}
		return s
	}
	h.Visit = func(e ast.Expr, st State) State {
		s := st.(*c07ValState)
		if c, ok := e.(*ast.CallExpr); ok {
			if f, ok := calleeOf(info, c).(*types.Func); ok {
				switch f.Name() {
				case "ValidateConcreteClassAbstractMethods":
					s.called = true
				case "NewClassValue":
					cp := *s
					cp.memo = map[*types.Var]bool{}
					for k := range s.memo {
						cp.memo[k] = true
					}
					creations = append(creations, creation{c.Pos(), cp})
				}
			}
		}
		return s
	}
	h.Stmt = func(stm ast.Stmt, st State) State {
		s := st.(*c07ValState)
		if as, ok := stm.(*ast.AssignStmt); ok {
			for i, l := range as.Lhs {
				if f := fieldOfRecv(l); f != nil && i < len(as.Rhs) && exprStr(as.Rhs[i]) == "true" && !s.validated {
					memoSetUnvalidated[f] = true
				}
			}
		}
		return s
	}
	WalkFunc(h, fd.Body, &c07ValState{memo: map[*types.Var]bool{}})
	if len(creations) == 0 {
		r.fail("%s creates no object (NewClassValue not found)", funcKey(npkg, fd))
		return
	}
	for _, c := range creations {
		okReason := c.st.validated || c.st.abstract
		for f := range c.st.memo {
			if !memoSetUnvalidated[f] {
				okReason = true
			}
		}
		if okReason {
			r.ok(key, c.pos, "the object is created only for an abstract-free class: validation answered nil on this path (or the class is abstract and rejected elsewhere)")
		} else {
			r.bad(key, c.pos, "the object is created on a path on which the inherited abstract methods were not validated (validation skipped, or skipped under a flag that is set before the validation has succeeded)")
		}
	}
}

// isVisibilityPredicate: a bool-answering function of (data.Context, data.ClassStmt) — "may the code
// running in this context see a member of that class".
func isVisibilityPredicate(f *types.Func, dataPath string) bool {
	sig, ok := f.Type().(*types.Signature)
	if !ok || sig.Recv() != nil || sig.Results().Len() != 1 || sig.Params().Len() != 2 {
		return false
	}
	if b, ok := sig.Results().At(0).Type().Underlying().(*types.Basic); !ok || b.Kind() != types.Bool {
		return false
	}
	return isNamed(sig.Params().At(0).Type(), dataPath, "Context") && isNamed(sig.Params().At(1).Type(), dataPath, "ClassStmt")
}

// c07Wrappers: type-predicate wrappers of the module (packages node and data), filled by c07TypeWrappers.
var c07Wrappers map[types.Object][2]int

// c07TypeWrappers finds and judges the type-predicate wrappers: bool functions of (…, data.Types, …, value)
// — a call of one is a type test like Types.Is, provided the wrapper answers true only after Types.Is
// answered true for that value, or because there is no declared type at all (declared == nil).
func c07TypeWrappers(r *Run, pkgs ...*packages.Package) {
	r.curRule = "C07-REJECT"
	dataPath := modPath + "/data"
	wrapper := map[types.Object][2]int{}
	c07Wrappers = wrapper
	for _, npkg := range pkgs {
		if npkg == nil {
			continue
		}
		info := npkg.TypesInfo
		for _, fd := range funcDecls(npkg) {
			f, ok := info.Defs[fd.Name].(*types.Func)
			if !ok || fd.Body == nil {
				continue
			}
			sig := f.Type().(*types.Signature)
			if sig.Results().Len() != 1 {
				continue
			}
			if b, ok := sig.Results().At(0).Type().Underlying().(*types.Basic); !ok || b.Kind() != types.Bool {
				continue
			}
			ti, vi := -1, -1
			for i := 0; i < sig.Params().Len(); i++ {
				pt := sig.Params().At(i).Type()
				if isNamed(pt, dataPath, "Types") {
					ti = i
				} else if isNamed(pt, dataPath, "Value") || isNamed(pt, dataPath, "GetValue") {
					vi = i
				}
			}
			if ti < 0 || vi < 0 {
				continue
			}
			tObj, vObj := paramObjAt(info, fd, ti), paramObjAt(info, fd, vi)
			if tObj == nil || vObj == nil {
				continue
			}
			// does it consult Is on its parameters at all?
			consults := false
			ast.Inspect(fd.Body, func(n ast.Node) bool {
				if c, ok := n.(*ast.CallExpr); ok {
					if se, ok := ast.Unparen(c.Fun).(*ast.SelectorExpr); ok && se.Sel.Name == "Is" && len(c.Args) == 1 {
						if id, ok := ast.Unparen(se.X).(*ast.Ident); ok && info.Uses[id] == tObj {
							consults = true
						}
					}
				}
				return true
			})
			if !consults {
				continue
			}
			wrapper[f] = [2]int{ti, vi}
			// every `return true` lies behind a true answer of declared.Is(value)
			type st struct{ passed bool }
			var early token.Pos
			h := &Hooks{Info: info}
			h.Copy = func(s State) State { c := *s.(*st); return &c }
			h.Join = func(a, b State) State { return &st{a.(*st).passed && b.(*st).passed} }
			h.Equal = func(a, b State) bool { return *a.(*st) == *b.(*st) }
			h.Cond = func(e ast.Expr, truth bool, s State) State {
				if c, ok := ast.Unparen(e).(*ast.CallExpr); ok && truth {
					if se, ok := ast.Unparen(c.Fun).(*ast.SelectorExpr); ok && se.Sel.Name == "Is" && len(c.Args) == 1 {
						tid, ok1 := ast.Unparen(se.X).(*ast.Ident)
						vid, ok2 := ast.Unparen(c.Args[0]).(*ast.Ident)
						if ok1 && ok2 && info.Uses[tid] == tObj && info.Uses[vid] == vObj {
							s.(*st).passed = true
						}
					}
				}
				return s
			}
			h.Return = func(rs *ast.ReturnStmt, s State) {
				if len(rs.Results) != 1 || early.IsValid() {
					return
				}
				res := ast.Unparen(rs.Results[0])
				if exprStr(res) == "true" && !s.(*st).passed {
					early = rs.Pos()
				}
				// return declared.Is(value) is the test itself, and so is a disjunction whose every arm is that
				// test (possibly narrowed by further conjuncts) or "there is no declared type" (declared == nil);
				// any other non-constant answer is not understood
				if exprStr(res) != "true" && exprStr(res) != "false" {
					var isTest func(e ast.Expr) bool
					isTest = func(e ast.Expr) bool {
						e = ast.Unparen(e)
						if c, ok := e.(*ast.CallExpr); ok {
							if se, ok := ast.Unparen(c.Fun).(*ast.SelectorExpr); ok && se.Sel.Name == "Is" && len(c.Args) == 1 {
								tid, ok1 := ast.Unparen(se.X).(*ast.Ident)
								vid, ok2 := ast.Unparen(c.Args[0]).(*ast.Ident)
								return ok1 && ok2 && info.Uses[tid] == tObj && info.Uses[vid] == vObj
							}
						}
						if be, ok := e.(*ast.BinaryExpr); ok {
							switch be.Op {
							case token.LOR:
								return isTest(be.X) && isTest(be.Y)
							case token.LAND:
								return isTest(be.X) || isTest(be.Y)
							case token.EQL:
								if id, ok := ast.Unparen(be.X).(*ast.Ident); ok && info.Uses[id] == tObj && exprStr(be.Y) == "nil" {
									return true
								}
							}
						}
						return false
					}
					if isTest(res) {
						return
					}
					if !s.(*st).passed {
						early = rs.Pos()
					}
				}
			}
			WalkFunc(h, fd.Body, &st{})
			key := funcKey(npkg, fd) + "#predicate-tests"
			if early.IsValid() {
				r.bad(key, early, "this type predicate answers true on a path on which the declared type's Is(value) was not consulted (a memo or fast path): a value of another type is accepted at every boundary that uses it")
			} else {
				r.ok(key, fd.Pos(), "answers true only after the declared type's Is(value) answered true")
			}
		}
	}
}

// c07CallersOf: the functions of the package that call fd (statically resolved).
func c07CallersOf(p *packages.Package, fd *ast.FuncDecl) []*ast.FuncDecl {
	target := p.TypesInfo.Defs[fd.Name]
	var out []*ast.FuncDecl
	for _, g := range funcDecls(p) {
		if g == fd || g.Body == nil {
			continue
		}
		found := false
		ast.Inspect(g.Body, func(n ast.Node) bool {
			if c, ok := n.(*ast.CallExpr); ok && calleeOf(p.TypesInfo, c) == target {
				found = true
			}
			return !found
		})
		if found {
			out = append(out, g)
		}
	}
	return out
}
