package main

import (
	"fmt"
	"go/ast"
	"go/constant"
	"go/token"
	"go/types"
	"golang.org/x/tools/go/packages"
	"path/filepath"
	"sort"
	"strings"
)

func init() {
	register(&PropDef{
		ID:          "C17",
		Patterns:    []string{"./runtime", "./utils"},
		Explanation: "Values cross the Go boundary through reflection. Decided structurally: (KIND) in every function that switches on the Kind of a target reflect.Type, each reflect.Value it returns for that target is converted to the target type (Convert/New/Zero of that type) — otherwise reflect.Value.Call panics for every kind or named type the static Go type does not equal; (EXH) the result conversion keeps the numeric kinds the property lists (sized ints, unsigned ints, float32) numeric instead of falling into the stringifying default, and the parameter conversion ends in a catchable error for unsupported kinds; (NARROW) narrowing numeric conversions in the generic argument converters are range-checked, an integer does not reach its target through float64, and a signed script integer is sign-tested before it becomes an unsigned Go value; a Go result is asked IsNil() before Elem(). The values themselves are not decided.",
		Assumptions: []string{
			"reflect.Value.Call requires each argument to be assignable to the parameter type",
			"a conversion T(x) to a narrower or differently signed integer/float type silently wraps or truncates in Go",
		},
		Rules: []RuleDef{
			{Name: "C17-KIND", Floor: 6, Doc: "every reflect.Value produced inside a switch over targetType.Kind() is converted to targetType before it is returned", Run: c17Run},
			{Name: "C17-EXH", Floor: 4, Doc: "result conversion has numeric cases for sized ints, unsigned ints and float32; parameter conversion's default arm returns an error", Run: nop},
			{Name: "C17-NARROW", Floor: 3, Doc: "narrowing conversions in utils' generic converters are dominated by a range check with an error arm", Run: nop},
		},
	})
}

func c17Run(r *Run) {
	rp := r.pkg("runtime")
	up := r.pkg("utils")
	if rp == nil || up == nil {
		return
	}
	info := rp.TypesInfo
	isReflectType := func(t types.Type) bool { return isNamed(t, "reflect", "Type") }
	isReflectValue := func(t types.Type) bool { return isNamed(t, "reflect", "Value") }
	c17ZeroTests(r, rp)
	c17IntRoute(r, rp, up)
	// shape-independent form of KIND: in every converter (a function with a reflect.Type parameter whose
	// first result is a reflect.Value) a returned value built with reflect.ValueOf is converted to that
	// type parameter; unsupported kinds end in an error
	for _, fd := range funcDecls(rp) {
		if fd.Type.Results == nil || fd.Type.Results.NumFields() < 1 {
			continue
		}
		sig, ok := info.Defs[fd.Name].Type().(*types.Signature)
		if !ok || !isReflectValue(sig.Results().At(0).Type()) {
			continue
		}
		var tparam types.Object
		for i := 0; i < sig.Params().Len(); i++ {
			if isReflectType(sig.Params().At(i).Type()) {
				tparam = sig.Params().At(i)
			}
		}
		// the target type may be held by the receiver (a per-parameter converter object chosen at
		// registration time: stringParam{goType}.accept(value))
		targetName := ""
		if tparam != nil {
			targetName = tparam.Name()
		} else if fd.Recv != nil && len(fd.Recv.List) == 1 && len(fd.Recv.List[0].Names) == 1 {
			rt := info.TypeOf(fd.Recv.List[0].Type)
			if pt, ok := rt.(*types.Pointer); ok {
				rt = pt.Elem()
			}
			if st, ok := rt.Underlying().(*types.Struct); ok {
				for i := 0; i < st.NumFields(); i++ {
					if isReflectType(st.Field(i).Type()) {
						targetName = fd.Recv.List[0].Names[0].Name + "." + st.Field(i).Name()
					}
				}
			}
		}
		if targetName == "" {
			continue
		}
		fk := funcKey(rp, fd)
		r.curRule = "C17-KIND"
		n := 0
		ast.Inspect(fd.Body, func(m ast.Node) bool {
			if _, ok := m.(*ast.FuncLit); ok {
				return false
			}
			rs, ok := m.(*ast.ReturnStmt)
			if !ok || len(rs.Results) == 0 {
				return true
			}
			res := ast.Unparen(rs.Results[0])
			if id, isId := res.(*ast.Ident); isId {
				obj := info.Uses[id]
				ast.Inspect(fd.Body, func(k ast.Node) bool {
					if as, ok := k.(*ast.AssignStmt); ok && len(as.Lhs) == 1 && len(as.Rhs) == 1 {
						if lid, ok := as.Lhs[0].(*ast.Ident); ok && (info.Defs[lid] == obj || info.Uses[lid] == obj) {
							res = ast.Unparen(as.Rhs[0])
						}
					}
					return true
				})
			}
			// only values built here with reflect.ValueOf are judged
			built := false
			ast.Inspect(res, func(k ast.Node) bool {
				if c, ok := k.(*ast.CallExpr); ok {
					if se, ok := ast.Unparen(c.Fun).(*ast.SelectorExpr); ok && se.Sel.Name == "ValueOf" {
						if id, ok := ast.Unparen(se.X).(*ast.Ident); ok && id.Name == "reflect" {
							built = true
						}
					}
				}
				return true
			})
			if !built {
				return true
			}
			n++
			key := fmt.Sprintf("%s#converts-to-parameter-type", fk)
			if c17ConvertedTo(res, targetName) {
				r.ok(key, rs.Pos(), "the value built for the Go parameter is converted to the parameter's exact type")
			} else {
				r.bad(key, rs.Pos(), fmt.Sprintf("returns %s without converting it to %s: reflect.Value.Call panics for any parameter whose type is not exactly the static Go type (e.g. int64, or a named string type)", exprStr(res), targetName))
			}
			return true
		})
	}
	for _, fd := range funcDecls(rp) {
		fk := funcKey(rp, fd)
		ast.Inspect(fd.Body, func(n ast.Node) bool {
			sw, ok := n.(*ast.SwitchStmt)
			if !ok || sw.Tag == nil {
				return true
			}
			call, ok := ast.Unparen(sw.Tag).(*ast.CallExpr)
			if !ok {
				return true
			}
			se, ok := ast.Unparen(call.Fun).(*ast.SelectorExpr)
			if !ok || se.Sel.Name != "Kind" {
				return true
			}
			recvT := info.TypeOf(se.X)
			switch {
			case isReflectType(recvT):
				// parameter direction: values built for target type se.X
				target := exprStr(se.X)
				hasDefaultErr := false
				for _, c := range sw.Body.List {
					cc := c.(*ast.CaseClause)
					kinds := []string{}
					for _, k := range cc.List {
						kinds = append(kinds, strings.TrimPrefix(exprStr(k), "reflect."))
					}
					if cc.List == nil {
						// default arm must return an error
						ast.Inspect(cc, func(m ast.Node) bool {
							if rs, ok := m.(*ast.ReturnStmt); ok && len(rs.Results) == 2 && exprStr(rs.Results[1]) != "nil" {
								hasDefaultErr = true
							}
							// the arm may hand out a converter object whose conversion always fails
							// (unsupportedParam{goType}): the error is raised when the parameter is bound
							if rs, ok := m.(*ast.ReturnStmt); ok && len(rs.Results) == 1 && c17AlwaysFailing(rp, info.TypeOf(rs.Results[0])) {
								hasDefaultErr = true
							}
							return true
						})
						continue
					}
					ast.Inspect(cc, func(m ast.Node) bool {
						rs, ok := m.(*ast.ReturnStmt)
						if !ok || len(rs.Results) == 0 || !isReflectValue(info.TypeOf(rs.Results[0])) {
							return true
						}
						res := ast.Unparen(rs.Results[0])
						if cl, ok := res.(*ast.CompositeLit); ok && len(cl.Elts) == 0 {
							return true // reflect.Value{} with an error
						}
						r.curRule = "C17-KIND"
						key := fmt.Sprintf("%s#case:%s", fk, strings.Join(kinds, ","))
						if id, isId := res.(*ast.Ident); isId {
							// a local built earlier: judge its defining expression
							obj := info.Uses[id]
							ast.Inspect(fd.Body, func(k ast.Node) bool {
								if as, ok := k.(*ast.AssignStmt); ok && len(as.Lhs) == 1 && len(as.Rhs) == 1 {
									if lid, ok := as.Lhs[0].(*ast.Ident); ok && (info.Defs[lid] == obj || info.Uses[lid] == obj) {
										res = ast.Unparen(as.Rhs[0])
									}
								}
								return true
							})
						}
						if c17ConvertedTo(res, target) {
							r.ok(key, rs.Pos(), "value converted to the target type before it is handed to reflect.Call")
						} else if c17ExactTypeGuard(rp, cc, rs, res, target) {
							r.ok(key, rs.Pos(), "the unconverted value is returned only where the target type has been compared equal to the value's own static type")
						} else {
							r.bad(key, rs.Pos(), fmt.Sprintf("returns %s for kinds [%s] without converting it to %s: reflect.Value.Call panics for any parameter whose type is not exactly the static Go type (e.g. int64, or a named string type)", exprStr(res), strings.Join(kinds, ","), target))
						}
						return true
					})
				}
				r.curRule = "C17-EXH"
				key := fk + "#default-arm"
				if hasDefaultErr {
					r.ok(key, sw.Pos(), "unsupported parameter kinds end in a catchable error")
				} else {
					r.bad(key, sw.Pos(), "the switch over parameter kinds has no default arm returning an error: an unsupported signature yields an invalid reflect.Value and the call panics")
				}
			case isReflectValue(recvT):
				// result direction: numeric kinds must stay numeric
				if !strings.Contains(strings.ToLower(fd.Name.Name), "script") {
					return true
				}
				covered := map[string]string{}
				for _, c := range sw.Body.List {
					cc := c.(*ast.CaseClause)
					ctor := ""
					ast.Inspect(cc, func(m ast.Node) bool {
						if ce, ok := m.(*ast.CallExpr); ok {
							if cal, ok := calleeOf(info, ce).(*types.Func); ok && cal.Pkg() != nil && cal.Pkg().Path() == modPath+"/data" && strings.HasPrefix(cal.Name(), "New") && ctor == "" {
								ctor = cal.Name()
							}
						}
						return true
					})
					if ctor == "" {
						// return uintToScriptValue(v.Uint()): a package helper builds the script value (after a range test)
						ast.Inspect(cc, func(m ast.Node) bool {
							ce, ok := m.(*ast.CallExpr)
							if !ok || ctor != "" {
								return true
							}
							for _, hd := range funcDecls(rp) {
								if hd.Body == nil || info.Defs[hd.Name] != calleeOf(info, ce) {
									continue
								}
								ast.Inspect(hd.Body, func(k ast.Node) bool {
									if he, ok := k.(*ast.CallExpr); ok {
										if cal, ok := calleeOf(info, he).(*types.Func); ok && cal.Pkg() != nil && cal.Pkg().Path() == modPath+"/data" && strings.HasPrefix(cal.Name(), "New") && ctor == "" {
											ctor = cal.Name()
										}
									}
									return true
								})
							}
							return true
						})
					}
					for _, k := range cc.List {
						covered[strings.TrimPrefix(exprStr(k), "reflect.")] = ctor
					}
				}
				// the value handed to the script constructor is the reflect accessor's result itself
				r.curRule = "C17-KIND"
				for _, c := range sw.Body.List {
					cc := c.(*ast.CaseClause)
					if cc.List == nil {
						continue
					}
					kinds := []string{}
					scalar := false
					for _, k := range cc.List {
						kn := strings.TrimPrefix(exprStr(k), "reflect.")
						kinds = append(kinds, kn)
						if strings.HasPrefix(kn, "Int") || strings.HasPrefix(kn, "Uint") || strings.HasPrefix(kn, "Float") || kn == "Bool" || kn == "String" {
							scalar = true
						}
					}
					if !scalar {
						// pointers, structs, slices …: what the script receives for them is not a scalar image of the Go
						// value in the first place (an arm that dereferences and converts again is judged on the inner kind)
						continue
					}
					ast.Inspect(cc, func(m ast.Node) bool {
						ce, ok := m.(*ast.CallExpr)
						if !ok {
							return true
						}
						cal, ok := calleeOf(info, ce).(*types.Func)
						if !ok || cal.Pkg() == nil || cal.Pkg().Path() != modPath+"/data" || !strings.HasPrefix(cal.Name(), "New") || len(ce.Args) != 1 {
							return true
						}
						arg := ast.Unparen(ce.Args[0])
						for {
							conv, ok := arg.(*ast.CallExpr)
							if !ok || len(conv.Args) != 1 {
								break
							}
							if tv, ok := info.Types[conv.Fun]; !ok || !tv.IsType() {
								break
							}
							arg = ast.Unparen(conv.Args[0])
						}
						direct := false
						if ac, ok := arg.(*ast.CallExpr); ok {
							if se, ok := ast.Unparen(ac.Fun).(*ast.SelectorExpr); ok && isReflectValue(info.TypeOf(se.X)) {
								switch se.Sel.Name {
								case "Int", "Uint", "Float", "Bool", "String":
									direct = true
								}
							}
						}
						key := fmt.Sprintf("%s#result-direct:%s", fk, strings.Join(kinds, ","))
						if direct {
							r.ok(key, ce.Pos(), "the script value is built from the reflect accessor's result (at most a Go numeric conversion)")
						} else {
							r.bad(key, ce.Pos(), fmt.Sprintf("%s(%s): the value given to the script is not the reflect accessor's result itself but a transformation of it: the script does not receive exactly what Go returned", cal.Name(), exprStr(ce.Args[0])))
						}
						return true
					})
				}
				r.curRule = "C17-EXH"
				groups := []struct {
					name  string
					kinds []string
					want  string
				}{
					{"signed", []string{"Int", "Int8", "Int16", "Int32", "Int64"}, "NewIntValue"},
					{"unsigned", []string{"Uint", "Uint8", "Uint16", "Uint32", "Uint64"}, "NewIntValue"},
					{"float", []string{"Float32", "Float64"}, "NewFloatValue"},
					{"bool", []string{"Bool"}, "NewBoolValue"},
					{"string", []string{"String"}, "NewStringValue"},
				}
				for _, g := range groups {
					key := fmt.Sprintf("%s#result-kinds:%s", fk, g.name)
					var missing []string
					for _, k := range g.kinds {
						if covered[k] != g.want {
							missing = append(missing, k)
						}
					}
					if len(missing) == 0 {
						r.ok(key, sw.Pos(), fmt.Sprintf("%s kinds map to %s", g.name, g.want))
					} else {
						r.bad(key, sw.Pos(), fmt.Sprintf("result kinds %v do not map to %s (they fall into another arm, typically the stringifying default): the script receives a value of the wrong type", missing, g.want))
					}
				}
			}
			return true
		})
	}
	c17KindTables(r, rp)
	r.curRule = "C17-NARROW"
	c17SignedToUnsigned(r, rp)
	r.curRule = "C17-EXH"
	c17NilBeforeElem(r, rp)
	// NARROW: utils generic converters
	r.curRule = "C17-NARROW"
	uinfo := up.TypesInfo
	// scope: the generic converters and the package helpers they call
	inScope := map[*ast.FuncDecl]bool{}
	{
		byObj := map[types.Object]*ast.FuncDecl{}
		for _, fd := range funcDecls(up) {
			byObj[uinfo.Defs[fd.Name]] = fd
		}
		var work []*ast.FuncDecl
		for _, fd := range funcDecls(up) {
			if strings.HasPrefix(fd.Name.Name, "convertFrom") {
				inScope[fd] = true
				work = append(work, fd)
			}
		}
		for len(work) > 0 {
			fd := work[0]
			work = work[1:]
			ast.Inspect(fd.Body, func(n ast.Node) bool {
				if c, ok := n.(*ast.CallExpr); ok {
					if h := byObj[calleeOf(uinfo, c)]; h != nil && !inScope[h] {
						inScope[h] = true
						work = append(work, h)
					}
				}
				return true
			})
		}
	}
	// a range predicate: a package function with an error result that compares its first parameter
	rangePredicate := func(c *ast.CallExpr) bool {
		f, ok := calleeOf(uinfo, c).(*types.Func)
		if !ok || f.Pkg() != up.Types {
			return false
		}
		sig := f.Type().(*types.Signature)
		if sig.Results().Len() != 1 || sig.Results().At(0).Type().String() != "error" || sig.Params().Len() == 0 {
			return false
		}
		for _, fd := range funcDecls(up) {
			if uinfo.Defs[fd.Name] != f {
				continue
			}
			p0 := sig.Params().At(0)
			cmp := false
			ast.Inspect(fd.Body, func(n ast.Node) bool {
				if be, ok := n.(*ast.BinaryExpr); ok {
					switch be.Op {
					case token.LSS, token.LEQ, token.GTR, token.GEQ:
						for _, side := range []ast.Expr{be.X, be.Y} {
							if id, ok := ast.Unparen(side).(*ast.Ident); ok && uinfo.Uses[id] == p0 {
								cmp = true
							}
						}
					}
				}
				return true
			})
			return cmp
		}
		return false
	}
	for _, fd := range funcDecls(up) {
		if !inScope[fd] {
			continue
		}
		fk := funcKey(up, fd)
		// a conversion is guarded when an earlier sibling statement in its statement list is an if
		// that compares the converted expression and leaves the function
		guardedAt := func(pos token.Pos, x string) bool {
			found := false
			var visitList func(list []ast.Stmt)
			visitList = func(list []ast.Stmt) {
				for i, st := range list {
					if pos >= st.Pos() && pos < st.End() {
						for _, prev := range list[:i] {
							// err = rangeCheck(x, lo, hi …) with the error handed back by the function
							if as, ok := prev.(*ast.AssignStmt); ok && len(as.Rhs) == 1 && len(as.Lhs) == 1 {
								if rc, ok := ast.Unparen(as.Rhs[0]).(*ast.CallExpr); ok && len(rc.Args) > 0 && exprStr(ast.Unparen(rc.Args[0])) == x && rangePredicate(rc) {
									if eid, ok := as.Lhs[0].(*ast.Ident); ok && returnsErrVar(fd, eid.Name) {
										found = true
									}
								}
							}
							ifs, ok := prev.(*ast.IfStmt)
							if !ok {
								continue
							}
							mentions, leaves := false, false
							ast.Inspect(ifs.Cond, func(m ast.Node) bool {
								if be, ok := m.(*ast.BinaryExpr); ok {
									switch be.Op {
									case token.LSS, token.GTR, token.LEQ, token.GEQ:
										if exprStr(ast.Unparen(be.X)) == x || exprStr(ast.Unparen(be.Y)) == x {
											mentions = true
										}
									}
								}
								return true
							})
							for _, b := range ifs.Body.List {
								if _, ok := b.(*ast.ReturnStmt); ok {
									leaves = true
								}
							}
							if mentions && leaves {
								found = true
							}
						}
						// descend
						ast.Inspect(st, func(m ast.Node) bool {
							switch y := m.(type) {
							case *ast.BlockStmt:
								if pos >= y.Pos() && pos < y.End() && m != ast.Node(st) {
									visitList(y.List)
									return false
								}
							case *ast.CaseClause:
								if pos >= y.Pos() && pos < y.End() {
									visitList(y.Body)
									return false
								}
							}
							return true
						})
					}
				}
			}
			visitList(fd.Body.List)
			return found
		}
		ast.Inspect(fd.Body, func(n ast.Node) bool {
			c, ok := n.(*ast.CallExpr)
			if !ok || len(c.Args) != 1 {
				return true
			}
			tv, ok := uinfo.Types[c.Fun]
			if !ok || !tv.IsType() {
				return true
			}
			tb, ok := tv.Type.Underlying().(*types.Basic)
			if !ok || tb.Info()&(types.IsInteger|types.IsFloat) == 0 {
				return true
			}
			at := uinfo.TypeOf(c.Args[0])
			ab, ok := at.Underlying().(*types.Basic)
			if !ok || ab.Info()&(types.IsInteger|types.IsFloat) == 0 {
				return true
			}
			if av, ok := uinfo.Types[c.Args[0]]; ok && av.Value != nil {
				return true
			}
			narrow := false
			switch {
			case ab.Info()&types.IsFloat != 0:
				// float sources are ordinary numeric coercion (3.7 → 3); representability of floats is not judged
				return true
			case ab.Info()&types.IsInteger != 0 && tb.Info()&types.IsInteger != 0:
				narrow = sizeOfBasic(tb) < sizeOfBasic(ab) || (tb.Info()&types.IsUnsigned != 0) != (ab.Info()&types.IsUnsigned != 0)
			case ab.Info()&types.IsFloat != 0 && tb.Info()&types.IsFloat != 0:
				narrow = sizeOfBasic(tb) < sizeOfBasic(ab)
			}
			if !narrow {
				return true
			}
			// an operand that only ever holds small constants (bit := 0; if b { bit = 1 }) fits every integer type
			if id, ok := ast.Unparen(c.Args[0]).(*ast.Ident); ok {
				obj := uinfo.Uses[id]
				n, small := 0, true
				ast.Inspect(fd.Body, func(k ast.Node) bool {
					switch x := k.(type) {
					case *ast.AssignStmt:
						for i, l := range x.Lhs {
							lid, ok := l.(*ast.Ident)
							if !ok || (uinfo.Defs[lid] != obj && uinfo.Uses[lid] != obj) {
								continue
							}
							n++
							if len(x.Rhs) != len(x.Lhs) || x.Tok == token.ADD_ASSIGN || x.Tok == token.SUB_ASSIGN || x.Tok == token.MUL_ASSIGN {
								small = false
								continue
							}
							cv, ok := uinfo.Types[x.Rhs[i]]
							if !ok || cv.Value == nil {
								small = false
								continue
							}
							if v, exact := constant.Int64Val(constant.ToInt(cv.Value)); !exact || v < 0 || v > 127 {
								small = false
							}
						}
					case *ast.IncDecStmt:
						if lid, ok := x.X.(*ast.Ident); ok && uinfo.Uses[lid] == obj {
							small = false
						}
					case *ast.UnaryExpr:
						if x.Op == token.AND {
							if lid, ok := x.X.(*ast.Ident); ok && uinfo.Uses[lid] == obj {
								small = false
							}
						}
					}
					return true
				})
				if n > 0 && small {
					return true
				}
			}
			key := fmt.Sprintf("%s#narrow:%s(%s)", fk, tb.Name(), ab.Name())
			if guardedAt(c.Pos(), exprStr(ast.Unparen(c.Args[0]))) {
				r.ok(key, c.Pos(), "narrowing conversion with a range check in the function")
			} else {
				r.bad(key, c.Pos(), fmt.Sprintf("%s(%s) narrows %s to %s with no range check: a script value that does not fit is silently wrapped or truncated instead of being reported", tb.Name(), exprStr(c.Args[0]), ab.Name(), tb.Name()))
			}
			return true
		})
	}
}

// c17ConvertedTo: the expression ends in .Convert(target), or is reflect.New/Zero(target)[.Elem()].
func c17ConvertedTo(e ast.Expr, target string) bool {
	derefs := 0
	for {
		c, ok := ast.Unparen(e).(*ast.CallExpr)
		if !ok {
			return false
		}
		se, ok := ast.Unparen(c.Fun).(*ast.SelectorExpr)
		if !ok {
			return false
		}
		switch se.Sel.Name {
		case "Convert":
			return len(c.Args) == 1 && exprStr(c.Args[0]) == target
		case "New":
			if len(c.Args) != 1 {
				return false
			}
			// reflect.New(T).Elem() is a T; reflect.New(T.Elem()) itself is a T when T is a pointer type
			if derefs == 0 {
				return strings.ReplaceAll(exprStr(c.Args[0]), " ", "") == target+".Elem()"
			}
			return exprStr(c.Args[0]) == target
		case "Zero":
			return len(c.Args) == 1 && exprStr(c.Args[0]) == target
		case "Elem":
			e = se.X
			derefs++
			continue
		}
		return false
	}
}

// returnsErrVar: the function has `if <name> != nil { return …, <name> }`.
func returnsErrVar(fd *ast.FuncDecl, name string) bool {
	found := false
	ast.Inspect(fd.Body, func(n ast.Node) bool {
		is, ok := n.(*ast.IfStmt)
		if !ok {
			return true
		}
		be, ok := ast.Unparen(is.Cond).(*ast.BinaryExpr)
		if !ok || be.Op != token.NEQ || exprStr(be.X) != name || exprStr(be.Y) != "nil" {
			return true
		}
		for _, st := range is.Body.List {
			if rs, ok := st.(*ast.ReturnStmt); ok && len(rs.Results) > 0 && exprStr(rs.Results[len(rs.Results)-1]) == name {
				found = true
			}
		}
		return true
	})
	return found
}

// c17KindTables: the table form of the kind dispatch. A map keyed by reflect.Kind whose values are
// converter functions is judged like the arms of a `switch v.Kind()`: for the result direction
// (func(reflect.Value) → script value) every entry builds the script value from the reflect accessor's
// result and the numeric/bool/string kind groups map to their constructors; for the parameter direction
// (func(script value) → (native, error)) a lookup that misses ends in an error.
func c17KindTables(r *Run, rp *packages.Package) {
	info := rp.TypesInfo
	isKind := func(t types.Type) bool { return t != nil && isNamed(t, "reflect", "Kind") }
	isReflectValue := func(t types.Type) bool { return isNamed(t, "reflect", "Value") }
	isScriptValue := func(t types.Type) bool {
		return isNamed(t, modPath+"/data", "GetValue") || isNamed(t, modPath+"/data", "Value")
	}
	type dirT int
	const (
		none dirT = iota
		outbound
		inbound
	)
	direction := func(t types.Type) dirT {
		m, ok := t.Underlying().(*types.Map)
		if !ok || !isKind(m.Key()) {
			return none
		}
		sig, ok := m.Elem().Underlying().(*types.Signature)
		if !ok || sig.Params().Len() != 1 {
			return none
		}
		switch {
		case isReflectValue(sig.Params().At(0).Type()) && sig.Results().Len() >= 1 && isScriptValue(sig.Results().At(0).Type()):
			return outbound
		case isScriptValue(sig.Params().At(0).Type()) && sig.Results().Len() == 2 && isErrorType(sig.Results().At(1).Type()):
			return inbound
		}
		return none
	}
	kindName := func(e ast.Expr) (string, bool) {
		if se, ok := ast.Unparen(e).(*ast.SelectorExpr); ok && isKind(info.TypeOf(se)) {
			if _, isConst := info.Uses[se.Sel].(*types.Const); isConst {
				return se.Sel.Name, true
			}
		}
		return "", false
	}
	for _, fd := range funcDecls(rp) {
		fk := funcKey(rp, fd)
		// local closures: name → literal (single definition)
		lits := map[types.Object]*ast.FuncLit{}
		ast.Inspect(fd.Body, func(n ast.Node) bool {
			if as, ok := n.(*ast.AssignStmt); ok && len(as.Lhs) == 1 && len(as.Rhs) == 1 {
				if id, ok := as.Lhs[0].(*ast.Ident); ok {
					if lit, ok := ast.Unparen(as.Rhs[0]).(*ast.FuncLit); ok {
						if o := info.Defs[id]; o != nil {
							lits[o] = lit
						}
					}
				}
			}
			return true
		})
		resolve := func(e ast.Expr) *ast.FuncLit {
			switch x := ast.Unparen(e).(type) {
			case *ast.FuncLit:
				return x
			case *ast.Ident:
				return lits[info.Uses[x]]
			}
			return nil
		}
		type entryT struct {
			kinds []string
			lit   *ast.FuncLit
			pos   token.Pos
		}
		var outs []entryT
		var add func(n ast.Node, loopKinds map[types.Object][]string)
		add = func(n ast.Node, loopKinds map[types.Object][]string) {
			ast.Inspect(n, func(m ast.Node) bool {
				switch x := m.(type) {
				case *ast.FuncLit:
					return false
				case *ast.RangeStmt:
					if x == n {
						return true
					}
					// for _, kind := range []reflect.Kind{…}
					if cl, ok := ast.Unparen(x.X).(*ast.CompositeLit); ok && x.Value != nil {
						if id, ok := x.Value.(*ast.Ident); ok {
							var ks []string
							for _, el := range cl.Elts {
								if k, ok := kindName(el); ok {
									ks = append(ks, k)
								}
							}
							if len(ks) > 0 {
								lk := map[types.Object][]string{}
								for o, v := range loopKinds {
									lk[o] = v
								}
								lk[info.Defs[id]] = ks
								add(x.Body, lk)
								return false
							}
						}
					}
				case *ast.AssignStmt:
					for i, l := range x.Lhs {
						ix, ok := ast.Unparen(l).(*ast.IndexExpr)
						if !ok || i >= len(x.Rhs) || direction(info.TypeOf(ix.X)) != outbound {
							continue
						}
						var ks []string
						if k, ok := kindName(ix.Index); ok {
							ks = []string{k}
						} else if id, ok := ast.Unparen(ix.Index).(*ast.Ident); ok {
							ks = loopKinds[info.Uses[id]]
						}
						if lit := resolve(x.Rhs[i]); lit != nil && len(ks) > 0 {
							outs = append(outs, entryT{ks, lit, x.Pos()})
						}
					}
				case *ast.CompositeLit:
					if direction(info.TypeOf(x)) == outbound {
						for _, el := range x.Elts {
							if kv, ok := el.(*ast.KeyValueExpr); ok {
								if k, ok := kindName(kv.Key); ok {
									if lit := resolve(kv.Value); lit != nil {
										outs = append(outs, entryT{[]string{k}, lit, kv.Pos()})
									}
								}
							}
						}
					}
				}
				return true
			})
		}
		add(fd.Body, nil)
		if len(outs) > 0 {
			covered := map[string]string{}
			for _, e := range outs {
				ctor := ""
				ast.Inspect(e.lit.Body, func(m ast.Node) bool {
					ce, ok := m.(*ast.CallExpr)
					if !ok {
						return true
					}
					cal, ok := calleeOf(info, ce).(*types.Func)
					if !ok || cal.Pkg() == nil || cal.Pkg().Path() != modPath+"/data" || !strings.HasPrefix(cal.Name(), "New") {
						return true
					}
					if ctor == "" {
						ctor = cal.Name()
					}
					if len(ce.Args) != 1 {
						return true
					}
					arg := ast.Unparen(ce.Args[0])
					for {
						conv, ok := arg.(*ast.CallExpr)
						if !ok || len(conv.Args) != 1 {
							break
						}
						if tv, ok := info.Types[conv.Fun]; !ok || !tv.IsType() {
							break
						}
						arg = ast.Unparen(conv.Args[0])
					}
					direct := false
					if ac, ok := arg.(*ast.CallExpr); ok {
						if se, ok := ast.Unparen(ac.Fun).(*ast.SelectorExpr); ok && isReflectValue(info.TypeOf(se.X)) {
							switch se.Sel.Name {
							case "Int", "Uint", "Float", "Bool", "String":
								direct = true
							}
						}
					}
					r.curRule = "C17-KIND"
					key := fmt.Sprintf("%s#result-direct:%s", fk, strings.Join(e.kinds, ","))
					if direct {
						r.ok(key, ce.Pos(), "the script value is built from the reflect accessor's result (at most a Go numeric conversion)")
					} else {
						r.bad(key, ce.Pos(), fmt.Sprintf("%s(%s): the value given to the script is not the reflect accessor's result itself but a transformation of it: the script does not receive exactly what Go returned", cal.Name(), exprStr(ce.Args[0])))
					}
					return true
				})
				for _, k := range e.kinds {
					covered[k] = ctor
				}
			}
			r.curRule = "C17-EXH"
			for _, g := range []struct {
				name  string
				kinds []string
				want  string
			}{
				{"signed", []string{"Int", "Int8", "Int16", "Int32", "Int64"}, "NewIntValue"},
				{"unsigned", []string{"Uint", "Uint8", "Uint16", "Uint32", "Uint64"}, "NewIntValue"},
				{"float", []string{"Float32", "Float64"}, "NewFloatValue"},
				{"bool", []string{"Bool"}, "NewBoolValue"},
				{"string", []string{"String"}, "NewStringValue"},
			} {
				key := fmt.Sprintf("%s#result-kinds:%s", fk, g.name)
				var missing []string
				for _, k := range g.kinds {
					if covered[k] != g.want {
						missing = append(missing, k)
					}
				}
				if len(missing) == 0 {
					r.ok(key, outs[0].pos, fmt.Sprintf("%s kinds map to %s", g.name, g.want))
				} else {
					r.bad(key, outs[0].pos, fmt.Sprintf("result kinds %v do not map to %s (they fall to the stringifying fallback or another entry): the script receives a value of the wrong type", missing, g.want))
				}
			}
		}
		// parameter direction: v, ok := table[T.Kind()] — a miss must end in an error
		ast.Inspect(fd.Body, func(n ast.Node) bool {
			as, ok := n.(*ast.AssignStmt)
			if !ok || len(as.Lhs) != 2 || len(as.Rhs) != 1 {
				return true
			}
			ix, ok := ast.Unparen(as.Rhs[0]).(*ast.IndexExpr)
			if !ok || direction(info.TypeOf(ix.X)) != inbound {
				return true
			}
			okID, isID := as.Lhs[1].(*ast.Ident)
			if !isID {
				return true
			}
			okObj := info.Defs[okID]
			if okObj == nil {
				okObj = info.Uses[okID]
			}
			errs := false
			ast.Inspect(fd.Body, func(m ast.Node) bool {
				is, ok := m.(*ast.IfStmt)
				if !ok {
					return true
				}
				u, ok := ast.Unparen(is.Cond).(*ast.UnaryExpr)
				if !ok || u.Op != token.NOT {
					return true
				}
				if id, ok := ast.Unparen(u.X).(*ast.Ident); !ok || info.Uses[id] != okObj {
					return true
				}
				for _, st := range is.Body.List {
					if rs, ok := st.(*ast.ReturnStmt); ok && len(rs.Results) >= 1 && exprStr(rs.Results[len(rs.Results)-1]) != "nil" {
						errs = true
					}
				}
				return true
			})
			r.curRule = "C17-EXH"
			key := fk + "#default-arm"
			if errs {
				r.ok(key, as.Pos(), "a parameter kind that is not in the table ends in a catchable error")
			} else {
				r.bad(key, as.Pos(), "the lookup of the parameter kind in the converter table has no error exit for a miss: an unsupported signature yields an invalid reflect.Value and the call panics")
			}
			return true
		})
	}
}

// c17ZeroTests: a Go result is "nothing" only when it is invalid or nil. reflect.Value.IsZero is also true
// for 0, 0.0, "" and false, so a zero test that decides what the script receives turns those results
// into something else (null). In the bridge (package runtime) every IsZero() on a reflect.Value must sit
// under a test that restricts the value to a kind that can be nil (Ptr, Interface, Map, Slice, Func,
// Chan, UnsafePointer) — in the same condition or an enclosing switch/if on Kind(). One obligation per
// function that handles reflect values.
func c17ZeroTests(r *Run, rp *packages.Package) {
	r.curRule = "C17-EXH"
	info := rp.TypesInfo
	nilable := map[string]bool{"Ptr": true, "Pointer": true, "Interface": true, "Map": true, "Slice": true, "Func": true, "Chan": true, "UnsafePointer": true}
	for _, fd := range funcDecls(rp) {
		if fd.Body == nil {
			continue
		}
		handles := false
		ast.Inspect(fd, func(n ast.Node) bool {
			if e, ok := n.(ast.Expr); ok {
				if t := info.TypeOf(e); t != nil && isNamed(t, "reflect", "Value") {
					handles = true
				}
			}
			return !handles
		})
		if !handles {
			continue
		}
		parents := map[ast.Node]ast.Node{}
		var stack []ast.Node
		ast.Inspect(fd.Body, func(n ast.Node) bool {
			if n == nil {
				stack = stack[:len(stack)-1]
				return true
			}
			if len(stack) > 0 {
				parents[n] = stack[len(stack)-1]
			}
			stack = append(stack, n)
			return true
		})
		mentionsNilableKind := func(n ast.Node) bool {
			found := false
			ast.Inspect(n, func(m ast.Node) bool {
				if se, ok := m.(*ast.SelectorExpr); ok && nilable[se.Sel.Name] {
					if id, ok := ast.Unparen(se.X).(*ast.Ident); ok {
						if pn, ok := info.Uses[id].(*types.PkgName); ok && pn.Imported().Path() == "reflect" {
							found = true
						}
					}
				}
				return !found
			})
			return found
		}
		bad := token.NoPos
		ast.Inspect(fd.Body, func(n ast.Node) bool {
			c, ok := n.(*ast.CallExpr)
			if !ok || len(c.Args) != 0 {
				return true
			}
			se, ok := ast.Unparen(c.Fun).(*ast.SelectorExpr)
			if !ok || se.Sel.Name != "IsZero" || !isNamed(info.TypeOf(se.X), "reflect", "Value") {
				return true
			}
			guarded := false
			for p := parents[c]; p != nil; p = parents[p] {
				switch x := p.(type) {
				case *ast.BinaryExpr:
					if x.Op == token.LAND && mentionsNilableKind(x) {
						guarded = true
					}
				case *ast.IfStmt:
					if mentionsNilableKind(x.Cond) && !(x.Else != nil && within(x.Else, c)) {
						guarded = true
					}
				case *ast.CaseClause:
					for _, e := range x.List {
						if mentionsNilableKind(e) {
							guarded = true
						}
					}
				}
			}
			if !guarded && bad == token.NoPos {
				bad = c.Pos()
			}
			return true
		})
		key := funcKey(rp, fd) + "#nothing-means-nil"
		if bad != token.NoPos {
			r.bad(key, bad, "a reflect.Value is tested with IsZero() without being restricted to a kind that can be nil: IsZero is true for 0, 0.0, \"\" and false too, so such results (or arguments) are treated as absent — a Go function returning 0 or \"\" gives the script null")
		} else {
			r.ok(key, fd.Pos(), "no zero-value test decides what crosses the boundary (absence is tested with IsValid/IsNil only)")
		}
	}
}

func within(outer ast.Node, inner ast.Node) bool {
	return outer != nil && inner != nil && outer.Pos() <= inner.Pos() && inner.End() <= outer.End()
}

// c17AlwaysFailing: t is a type of the package all of whose methods with an error result return a
// non-nil error on every path (and it has at least one such method).
func c17AlwaysFailing(p *packages.Package, t types.Type) bool {
	nt := namedOf(t)
	if nt == nil || nt.Obj().Pkg() != p.Types {
		return false
	}
	n := 0
	for _, fd := range funcDecls(p) {
		if fd.Recv == nil || fd.Body == nil || namedOf(p.TypesInfo.TypeOf(fd.Recv.List[0].Type)) != nt {
			continue
		}
		sig := p.TypesInfo.Defs[fd.Name].Type().(*types.Signature)
		if sig.Results().Len() == 0 || !isErrorType(sig.Results().At(sig.Results().Len()-1).Type()) {
			continue
		}
		n++
		ok := true
		ast.Inspect(fd.Body, func(m ast.Node) bool {
			if rs, isRet := m.(*ast.ReturnStmt); isRet {
				if len(rs.Results) == 0 || exprStr(rs.Results[len(rs.Results)-1]) == "nil" {
					ok = false
				}
			}
			return true
		})
		if !ok {
			return false
		}
	}
	return n > 0
}

// c17IntRoute: a script value that may be an int does not travel through float64 on its way into an
// integer on the Go side. IntValue answers the float conversion (AsFloat) too, and float64 holds integers
// exactly only up to 2^53, so `f, ok := v.(AsFloat)` … `intN(f.AsFloat())` alters large ints and turns
// PHP_INT_MAX into MinInt64. In the bridge (packages runtime and utils): a float obtained from operand X
// through the float-conversion interface and then converted to an integer type is a violation unless X is
// known not to be an int there — the assertion sits in the else branch of (or after a terminating) test of
// X for int-ness, or in a type-switch clause that follows one taking the int value type / AsInt.
func c17IntRoute(r *Run, pkgs ...*packages.Package) {
	r.curRule = "C17-NARROW"
	dataPath := modPath + "/data"
	for _, p := range pkgs {
		if p == nil {
			continue
		}
		info := p.TypesInfo
		isIntish := func(t types.Type) bool {
			return t != nil && (isNamed(t, dataPath, "AsInt") || isNamed(t, dataPath, "IntValue"))
		}
		objOf := func(e ast.Expr) types.Object {
			if id, ok := ast.Unparen(e).(*ast.Ident); ok {
				if o := info.Defs[id]; o != nil {
					return o
				}
				return info.Uses[id]
			}
			return nil
		}
		for _, fd := range funcDecls(p) {
			if fd.Body == nil {
				continue
			}
			parents := map[ast.Node]ast.Node{}
			var stack []ast.Node
			ast.Inspect(fd.Body, func(n ast.Node) bool {
				if n == nil {
					stack = stack[:len(stack)-1]
					return true
				}
				if len(stack) > 0 {
					parents[n] = stack[len(stack)-1]
				}
				stack = append(stack, n)
				return true
			})
			// float views: f, ok := X.(AsFloat)  /  switch f := X.(type) { case AsFloat: }
			type view struct {
				x  types.Object
				at ast.Node
			}
			views := map[types.Object]view{}
			ast.Inspect(fd.Body, func(n ast.Node) bool {
				switch x := n.(type) {
				case *ast.AssignStmt:
					if len(x.Rhs) == 1 {
						if ta, ok := ast.Unparen(x.Rhs[0]).(*ast.TypeAssertExpr); ok && ta.Type != nil && isNamed(info.TypeOf(ta.Type), dataPath, "AsFloat") {
							if src := objOf(ta.X); src != nil {
								if v := objOf(x.Lhs[0]); v != nil {
									views[v] = view{src, x}
								}
							}
						}
					}
				case *ast.CaseClause:
					if o := info.Implicits[x]; o != nil && len(x.List) == 1 && isNamed(info.TypeOf(x.List[0]), dataPath, "AsFloat") {
						if body, ok := parents[x].(*ast.BlockStmt); ok {
							if ts, ok := parents[body].(*ast.TypeSwitchStmt); ok {
								if as, ok := ts.Assign.(*ast.AssignStmt); ok && len(as.Rhs) == 1 {
									if ta, ok := ast.Unparen(as.Rhs[0]).(*ast.TypeAssertExpr); ok {
										if src := objOf(ta.X); src != nil {
											views[o] = view{src, x}
										}
									}
								}
							}
						}
					}
				}
				return true
			})
			if len(views) == 0 {
				continue
			}
			// floats read through a view: v, err := f.AsFloat()
			floats := map[types.Object]view{}
			ast.Inspect(fd.Body, func(n ast.Node) bool {
				as, ok := n.(*ast.AssignStmt)
				if !ok || len(as.Rhs) != 1 || len(as.Lhs) == 0 {
					return true
				}
				c, ok := ast.Unparen(as.Rhs[0]).(*ast.CallExpr)
				if !ok {
					return true
				}
				if se, ok := ast.Unparen(c.Fun).(*ast.SelectorExpr); ok && se.Sel.Name == "AsFloat" && len(c.Args) == 0 {
					if vw, ok := views[objOf(se.X)]; ok {
						if res := objOf(as.Lhs[0]); res != nil {
							floats[res] = vw
						}
					}
				}
				return true
			})
			// is X known not to be an int at node at?
			notInt := func(x types.Object, at ast.Node) bool {
				isIntTest := func(n ast.Node) bool {
					hit := false
					ast.Inspect(n, func(m ast.Node) bool {
						if ta, ok := m.(*ast.TypeAssertExpr); ok && ta.Type != nil && isIntish(info.TypeOf(ta.Type)) && objOf(ta.X) == x {
							hit = true
						}
						return true
					})
					return hit
				}
				var child ast.Node = at
				for n := parents[at]; n != nil; child, n = n, parents[n] {
					switch b := n.(type) {
					case *ast.IfStmt:
						if b.Else != nil && ast.Node(b.Else) == child {
							if (b.Init != nil && isIntTest(b.Init)) || isIntTest(b.Cond) {
								return true
							}
						}
					case *ast.BlockStmt:
						for _, st := range b.List {
							if ast.Node(st) == child {
								break
							}
							if is, ok := st.(*ast.IfStmt); ok && ((is.Init != nil && isIntTest(is.Init)) || isIntTest(is.Cond)) && containsReturn(is.Body) {
								return true
							}
						}
					case *ast.CaseClause:
						if body, ok := parents[b].(*ast.BlockStmt); ok {
							if _, ok := parents[body].(*ast.TypeSwitchStmt); ok {
								for _, st := range body.List {
									if st == ast.Stmt(b) {
										break
									}
									for _, te := range st.(*ast.CaseClause).List {
										if isIntish(info.TypeOf(te)) {
											return true
										}
									}
								}
							}
						}
					}
				}
				return false
			}
			fk := funcKey(p, fd)
			n := 0
			ast.Inspect(fd.Body, func(m ast.Node) bool {
				c, ok := m.(*ast.CallExpr)
				if !ok || len(c.Args) != 1 {
					return true
				}
				tv, ok := info.Types[c.Fun]
				if !ok || !tv.IsType() || !isIntType(tv.Type) {
					return true
				}
				vw, ok := floats[objOf(c.Args[0])]
				if !ok {
					return true
				}
				n++
				key := fmt.Sprintf("%s#int-through-float:%s", fk, vw.x.Name())
				if n > 1 {
					key += fmt.Sprintf("#%d", n)
				}
				if notInt(vw.x, vw.at) {
					r.ok(key, c.Pos(), "the value converted through float64 is known not to be an int here")
				} else {
					r.bad(key, c.Pos(), "value "+vw.x.Name()+" may be an int, is read through the float conversion (an int answers it too) and then turned into an integer: ints beyond 2^53 arrive altered on the Go side and the largest int becomes the smallest")
				}
				return true
			})
		}
	}
}

// c17SignedToUnsigned (C17-NARROW, clause #signed-to-unsigned): in the reflect bridge a script integer
// (signed) that becomes a Go unsigned value is tested for its sign first — uint64(-1) is
// 18446744073709551615, and reflect's OverflowUint sees only the converted value. Judged: conversions
// T(x) with T unsigned, x a signed integer variable, outside if-conditions (a conversion inside a
// range test is the test's own argument); discharged when on every path to it a comparison of x with
// a constant (<, <=, >, >=) has been evaluated.
func c17SignedToUnsigned(r *Run, rp *packages.Package) {
	info := rp.TypesInfo
	isUnsigned := func(t types.Type) bool {
		b, ok := t.Underlying().(*types.Basic)
		return ok && b.Info()&types.IsUnsigned != 0
	}
	isSigned := func(t types.Type) bool {
		b, ok := t.Underlying().(*types.Basic)
		return ok && b.Info()&types.IsInteger != 0 && b.Info()&types.IsUnsigned == 0
	}
	type st map[types.Object]bool
	for _, fd := range funcDecls(rp) {
		file := filepath.Base(r.Fset.Position(fd.Pos()).Filename)
		if !strings.HasPrefix(file, "reflect") || fd.Body == nil {
			continue
		}
		// conversions inside conditions
		inCond := map[ast.Node]bool{}
		ast.Inspect(fd.Body, func(n ast.Node) bool {
			if is, ok := n.(*ast.IfStmt); ok {
				ast.Inspect(is.Cond, func(m ast.Node) bool {
					if m != nil {
						inCond[m] = true
					}
					return true
				})
			}
			return true
		})
		fk := funcKey(rp, fd)
		verdict := map[token.Pos]bool{}
		name := map[token.Pos]string{}
		h := &Hooks{Info: info}
		h.Copy = func(s State) State {
			n := st{}
			for k := range s.(st) {
				n[k] = true
			}
			return n
		}
		h.Join = func(a, b State) State {
			n := st{}
			for k := range a.(st) {
				if b.(st)[k] {
					n[k] = true
				}
			}
			return n
		}
		h.Equal = func(a, b State) bool {
			if len(a.(st)) != len(b.(st)) {
				return false
			}
			for k := range a.(st) {
				if !b.(st)[k] {
					return false
				}
			}
			return true
		}
		h.Cond = func(e ast.Expr, truth bool, s State) State {
			if be, ok := ast.Unparen(e).(*ast.BinaryExpr); ok {
				switch be.Op {
				case token.LSS, token.LEQ, token.GTR, token.GEQ:
					for _, pair := range [][2]ast.Expr{{be.X, be.Y}, {be.Y, be.X}} {
						if id, ok := ast.Unparen(pair[0]).(*ast.Ident); ok {
							if tv, ok := info.Types[pair[1]]; ok && tv.Value != nil {
								s.(st)[info.Uses[id]] = true
							}
						}
					}
				}
			}
			return s
		}
		h.Stmt = func(stm ast.Stmt, s State) State {
			if as, ok := stm.(*ast.AssignStmt); ok {
				for _, l := range as.Lhs {
					if id, ok := l.(*ast.Ident); ok {
						delete(s.(st), info.ObjectOf(id))
					}
				}
			}
			return s
		}
		h.Visit = func(e ast.Expr, s State) State {
			c, ok := e.(*ast.CallExpr)
			if !ok || len(c.Args) != 1 || inCond[c] {
				return s
			}
			tv, ok := info.Types[c.Fun]
			if !ok || !tv.IsType() || !isUnsigned(tv.Type) {
				return s
			}
			id, ok := ast.Unparen(c.Args[0]).(*ast.Ident)
			if !ok || !isSigned(info.TypeOf(id)) {
				return s
			}
			if atv, ok := info.Types[c.Args[0]]; ok && atv.Value != nil {
				return s
			}
			tested := s.(st)[info.Uses[id]]
			if prev, seen := verdict[c.Pos()]; !seen || (prev && !tested) {
				verdict[c.Pos()] = tested
			}
			name[c.Pos()] = exprStr(c)
			return s
		}
		WalkFunc(h, fd.Body, st{})
		var ps []token.Pos
		for p := range verdict {
			ps = append(ps, p)
		}
		sort.Slice(ps, func(i, j int) bool { return ps[i] < ps[j] })
		for _, p := range ps {
			key := fk + "#signed-to-unsigned:" + strings.ReplaceAll(name[p], " ", "")
			if verdict[p] {
				r.ok(key, p, name[p]+": the signed value has been compared with a constant on every path to the conversion")
			} else {
				r.bad(key, p, name[p]+": a signed script integer is converted to an unsigned Go type without its sign having been tested: a negative argument arrives as a huge positive number (reflect's OverflowUint sees only the converted value)")
			}
		}
	}
}

// c17NilBeforeElem (C17-EXH, clause #nil-before-elem): a function that turns a Go result (a reflect.Value
// parameter) into a script value dereferences it with Elem() only after IsNil() has been asked on every
// path — a nil *T, nil interface or nil map handed back by Go is a legitimate result, and Elem() of it is
// the zero Value whose Interface()/Int()/String() panic.
func c17NilBeforeElem(r *Run, rp *packages.Package) {
	info := rp.TypesInfo
	type st map[string]bool
	for _, fd := range funcDecls(rp) {
		if fd.Body == nil || fd.Type.Results == nil || len(fd.Type.Results.List) == 0 {
			continue
		}
		if !isNamed(info.TypeOf(fd.Type.Results.List[0].Type), modPath+"/data", "GetValue") && !isNamed(info.TypeOf(fd.Type.Results.List[0].Type), modPath+"/data", "Value") {
			continue
		}
		params := map[types.Object]bool{}
		for _, f := range fd.Type.Params.List {
			if c17IsReflectValue(info.TypeOf(f.Type)) {
				for _, nm := range f.Names {
					params[info.Defs[nm]] = true
				}
			}
		}
		if len(params) == 0 {
			continue
		}
		fk := funcKey(rp, fd)
		verdict := map[token.Pos]bool{}
		name := map[token.Pos]string{}
		h := &Hooks{Info: info}
		h.Copy = func(s State) State {
			n := st{}
			for k := range s.(st) {
				n[k] = true
			}
			return n
		}
		h.Join = func(a, b State) State {
			n := st{}
			for k := range a.(st) {
				if b.(st)[k] {
					n[k] = true
				}
			}
			return n
		}
		h.Equal = func(a, b State) bool {
			if len(a.(st)) != len(b.(st)) {
				return false
			}
			for k := range a.(st) {
				if !b.(st)[k] {
					return false
				}
			}
			return true
		}
		h.Cond = func(e ast.Expr, truth bool, s State) State {
			if c, ok := ast.Unparen(e).(*ast.CallExpr); ok && len(c.Args) == 0 {
				if se, ok := ast.Unparen(c.Fun).(*ast.SelectorExpr); ok && se.Sel.Name == "IsNil" {
					s.(st)[exprStr(se.X)] = true
				}
			}
			return s
		}
		h.Visit = func(e ast.Expr, s State) State {
			c, ok := e.(*ast.CallExpr)
			if !ok || len(c.Args) != 0 {
				return s
			}
			se, ok := ast.Unparen(c.Fun).(*ast.SelectorExpr)
			if !ok || se.Sel.Name != "Elem" || !c17IsReflectValue(info.TypeOf(se.X)) {
				return s
			}
			id, ok := ast.Unparen(se.X).(*ast.Ident)
			if !ok || !params[info.Uses[id]] {
				return s
			}
			tested := s.(st)[exprStr(se.X)]
			if prev, seen := verdict[c.Pos()]; !seen || (prev && !tested) {
				verdict[c.Pos()] = tested
			}
			name[c.Pos()] = exprStr(c)
			return s
		}
		WalkFunc(h, fd.Body, st{})
		var ps []token.Pos
		for p := range verdict {
			ps = append(ps, p)
		}
		sort.Slice(ps, func(i, j int) bool { return ps[i] < ps[j] })
		for _, p := range ps {
			key := fk + "#nil-before-elem:" + strings.ReplaceAll(name[p], " ", "")
			if verdict[p] {
				r.ok(key, p, name[p]+": IsNil() has been asked on every path to the dereference")
			} else {
				r.bad(key, p, name[p]+": the Go result is dereferenced without IsNil() having been asked: a nil pointer / interface returned by the Go function makes the bridge panic instead of giving the script null")
			}
		}
	}
}

func c17IsReflectValue(t types.Type) bool { return t != nil && isNamed(t, "reflect", "Value") }


// c17ExactTypeGuard: `return reflect.ValueOf(v)` without Convert is a value of the target type exactly when the
// target reflect.Type equals reflect.TypeOf of v's static type. Accepted: the return sits in the then-branch of
// an `if` whose condition is `target == G` (or a bool variable defined as that comparison in the same case
// clause), G a package-level variable initialised with reflect.TypeOf(e), and e has the static type of v.
// A comparison of kinds (target.Kind() == reflect.Int) does not qualify: a named int has that kind too.
func c17ExactTypeGuard(p *packages.Package, scope ast.Node, rs *ast.ReturnStmt, res ast.Expr, target string) bool {
	info := p.TypesInfo
	c, ok := ast.Unparen(res).(*ast.CallExpr)
	if !ok || len(c.Args) != 1 {
		return false
	}
	se, ok := ast.Unparen(c.Fun).(*ast.SelectorExpr)
	if !ok || se.Sel.Name != "ValueOf" {
		return false
	}
	vt := info.TypeOf(c.Args[0])
	if vt == nil {
		return false
	}
	// G := reflect.TypeOf(e) at package level → type of e
	typeOfVar := func(e ast.Expr) types.Type {
		id, ok := ast.Unparen(e).(*ast.Ident)
		if !ok {
			return nil
		}
		v, ok := info.Uses[id].(*types.Var)
		if !ok || v.Parent() != p.Types.Scope() {
			return nil
		}
		var out types.Type
		for _, f := range p.Syntax {
			for _, d := range f.Decls {
				gd, ok := d.(*ast.GenDecl)
				if !ok {
					continue
				}
				for _, sp := range gd.Specs {
					vs, ok := sp.(*ast.ValueSpec)
					if !ok {
						continue
					}
					for i, nm := range vs.Names {
						if info.Defs[nm] == v && i < len(vs.Values) {
							if tc, ok := ast.Unparen(vs.Values[i]).(*ast.CallExpr); ok && len(tc.Args) == 1 {
								if tse, ok := ast.Unparen(tc.Fun).(*ast.SelectorExpr); ok && tse.Sel.Name == "TypeOf" {
									out = info.TypeOf(tc.Args[0])
								}
							}
						}
					}
				}
			}
		}
		return out
	}
	isExactCmp := func(e ast.Expr) bool {
		be, ok := ast.Unparen(e).(*ast.BinaryExpr)
		if !ok || be.Op != token.EQL {
			return false
		}
		for _, pair := range [][2]ast.Expr{{be.X, be.Y}, {be.Y, be.X}} {
			if exprStr(ast.Unparen(pair[0])) == target {
				if gt := typeOfVar(pair[1]); gt != nil && types.Identical(gt, vt) {
					return true
				}
			}
		}
		return false
	}
	// bool variables of the scope defined as such a comparison (and never reassigned)
	exactVars := map[types.Object]bool{}
	assigned := map[types.Object]int{}
	ast.Inspect(scope, func(n ast.Node) bool {
		if as, ok := n.(*ast.AssignStmt); ok && len(as.Lhs) == len(as.Rhs) {
			for i, l := range as.Lhs {
				if id, ok := l.(*ast.Ident); ok {
					o := info.ObjectOf(id)
					assigned[o]++
					if isExactCmp(as.Rhs[i]) {
						exactVars[o] = true
					}
				}
			}
		}
		return true
	})
	guarded := false
	ast.Inspect(scope, func(n ast.Node) bool {
		is, ok := n.(*ast.IfStmt)
		if !ok || rs.Pos() < is.Body.Pos() || rs.End() > is.Body.End() {
			return true
		}
		if isExactCmp(is.Cond) {
			guarded = true
		}
		if id, ok := ast.Unparen(is.Cond).(*ast.Ident); ok {
			if o := info.Uses[id]; exactVars[o] && assigned[o] == 1 {
				guarded = true
			}
		}
		return true
	})
	return guarded
}
