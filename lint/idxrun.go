package main

import (
	"fmt"
	"go/ast"
	"go/token"
	"go/types"
	"strings"

	"golang.org/x/tools/go/packages"
)

func newIdxAnalyzer(r *Run, pkg *packages.Package) *idxAnalyzer {
	a := &idxAnalyzer{r: r, pkg: pkg, info: pkg.TypesInfo, retLE: map[types.Object][]retFact{}, writes: map[*types.Func]map[string]bool{},
		declOf: map[*types.Func]*ast.FuncDecl{}, callStates: map[*types.Func][]callCtx{},
		pre: map[types.Object][]prePair{}, preLevel: map[types.Object]int{}, litOf: map[types.Object]*ast.FuncLit{},
		progress: map[ast.Node]*progSite{}, delta: map[*types.Func]map[string]fieldDelta{}, inv: map[*types.Named][]invPair{}, invBad: map[string]bool{}, mono: map[*types.Func]map[string]bool{}, lenKeep: map[*types.Func]bool{}}
	a.track = func(t types.Type) bool {
		switch u := t.Underlying().(type) {
		case *types.Basic:
			return u.Info()&types.IsString != 0
		case *types.Slice:
			// rune/byte copies of the text and token slices
			if b, ok := u.Elem().Underlying().(*types.Basic); ok {
				return b.Kind() == types.Rune || b.Kind() == types.Byte || b.Kind() == types.Int32 || b.Kind() == types.Uint8
			}
			if isNamed(u.Elem(), modPath+"/lexer", "Token") {
				return true
			}
			if nt := namedOf(u.Elem()); nt != nil && nt.Obj().Pkg() != nil && nt.Obj().Pkg().Path() == modPath+"/lexer" {
				return true
			}
		}
		return false
	}
	for _, fd := range funcDecls(pkg) {
		if o, ok := a.info.Defs[fd.Name].(*types.Func); ok {
			a.declOf[o] = fd
		}
	}
	a.computeWrites()
	return a
}

// computeWrites: for every method, the set of receiver fields it may assign (transitively
// through calls on the same receiver).
func (a *idxAnalyzer) computeWrites() {
	direct := map[*types.Func]map[string]bool{}
	calls := map[*types.Func][]*types.Func{}
	for fn, fd := range a.declOf {
		if fd.Recv == nil || len(fd.Recv.List) == 0 || len(fd.Recv.List[0].Names) == 0 {
			continue
		}
		recvObj := a.info.Defs[fd.Recv.List[0].Names[0]]
		w := map[string]bool{}
		mark := func(e ast.Expr) {
			for {
				switch x := ast.Unparen(e).(type) {
				case *ast.IndexExpr:
					e = x.X
					continue
				case *ast.StarExpr:
					e = x.X
					continue
				case *ast.SelectorExpr:
					// outermost field of the receiver
					root := x
					for {
						if in, ok := ast.Unparen(root.X).(*ast.SelectorExpr); ok {
							root = in
							continue
						}
						break
					}
					if id, ok := ast.Unparen(root.X).(*ast.Ident); ok && a.info.Uses[id] == recvObj {
						w[root.Sel.Name] = true
					}
				}
				return
			}
		}
		ast.Inspect(fd.Body, func(n ast.Node) bool {
			switch x := n.(type) {
			case *ast.AssignStmt:
				for _, l := range x.Lhs {
					mark(l)
				}
			case *ast.IncDecStmt:
				mark(x.X)
			case *ast.UnaryExpr:
				if x.Op == token.AND {
					mark(x.X)
				}
			case *ast.CallExpr:
				if se, ok := ast.Unparen(x.Fun).(*ast.SelectorExpr); ok {
					if id, ok := ast.Unparen(se.X).(*ast.Ident); ok && a.info.Uses[id] == recvObj {
						if cal, ok := calleeOf(a.info, x).(*types.Func); ok {
							calls[fn] = append(calls[fn], cal)
						}
					}
					// embedded struct promoted call: p.Parser.next() or promoted p.next() is caught by receiver identity above
				}
			}
			return true
		})
		direct[fn] = w
	}
	for changed := true; changed; {
		changed = false
		for fn, cs := range calls {
			for _, c := range cs {
				for f := range direct[c] {
					if !direct[fn][f] {
						direct[fn][f] = true
						changed = true
					}
				}
				if _, known := direct[c]; !known && a.declOf[c] == nil {
					// unknown callee on own receiver: assume it may write anything
					if !direct[fn]["*"] {
						direct[fn]["*"] = true
						changed = true
					}
				}
			}
		}
	}
	for fn, w := range direct {
		if w["*"] {
			continue // unknown: analyzer falls back to forgetting everything
		}
		a.writes[fn] = w
	}
}

type loopInfo struct {
	prev *zone
	n    int
}

// analyseFunc runs the zone interpreter over one function body (and its literals as separate units).
func (a *idxAnalyzer) analyseFunc(fd *ast.FuncDecl) {
	a.curFn = fd
	obj, _ := a.info.Defs[fd.Name].(*types.Func)
	a.setUnit(obj, fd.Type.Params, fd)
	a.retStates = nil
	a.walkBody(fd.Body, a.entryZone())
	if obj != nil {
		a.summariseUnit(obj, obj.Type().(*types.Signature), fd.Type, fd.Body)
		a.summariseDeltas(obj, fd)
	}
	ast.Inspect(fd.Body, func(n ast.Node) bool {
		if l, ok := n.(*ast.FuncLit); ok {
			var id types.Object
			for o, lit := range a.litOf {
				if lit == l {
					id = o
				}
			}
			a.setUnit(id, l.Type.Params, nil)
			a.retStates = nil
			a.walkBody(l.Body, a.entryZone())
			if id != nil {
				if sig, ok := a.info.TypeOf(l).(*types.Signature); ok {
					a.summariseUnit(id, sig, l.Type, l.Body)
				}
			}
		}
		return true
	})
}

func (a *idxAnalyzer) walkBody(body *ast.BlockStmt, entry *zone) {
	info := a.info
	loops := map[ast.Stmt]*loopInfo{}
	h := &Hooks{Info: info}
	h.Copy = func(s State) State { return s.(*zone).clone() }
	h.Join = func(x, y State) State { return joinZones(x.(*zone), y.(*zone)) }
	h.Equal = func(x, y State) bool { return zonesEqual(x.(*zone), y.(*zone)) }
	h.LoopEnter = func(l ast.Stmt) { delete(loops, l) }
	h.LoopHead = func(l ast.Stmt, st State) State {
		z := st.(*zone)
		z.close()
		li := loops[l]
		if li == nil {
			li = &loopInfo{}
			loops[l] = li
		}
		li.n++
		if li.prev != nil && li.n > 3 {
			// widening: drop constraints that keep growing
			for k, w := range z.e {
				if pw, ok := li.prev.e[k]; !ok || w > pw {
					delete(z.e, k)
				}
			}
			z.closed = false
		}
		for k := range z.e {
			if strings.HasPrefix(k[0], "pre#") || strings.HasPrefix(k[1], "pre#") {
				delete(z.e, k)
			}
		}
		li.prev = z.clone()
		if fs, ok := l.(*ast.ForStmt); ok {
			if ck, _ := a.loopCursor(fs); ck != "" {
				g := fmt.Sprintf("ghost#%d", fs.Pos())
				z.forget(g)
				z.neg[g] = z.neg[ck]
				z.add(g, ck, 0)
				z.add(ck, g, 0)
			}
		}
		return z
	}
	checkBack := func(fs *ast.ForStmt, site ast.Node, st State) {
		ck, cname := a.loopCursor(fs)
		if ck == "" {
			return
		}
		ps := a.progress[site]
		if ps == nil {
			ps = &progSite{fn: a.curFn, loop: fs, site: site, cursor: cname, ok: true}
			a.progress[site] = ps
		}
		z := st.(*zone)
		ps.seen = true
		if !z.le(fmt.Sprintf("ghost#%d", fs.Pos()), ck, -1) {
			ps.ok = false
			if idxDebug != "" && strings.Contains(a.r.pos(site.Pos()), idxDebug) {
				fmt.Printf("IDXDEBUG progress %s cursor=%s\n   %s\n", a.r.pos(site.Pos()), ck, z.dump())
			}
		}
	}
	h.BackEdge = func(fs *ast.ForStmt, st State) { checkBack(fs, fs, st) }
	h.BackEdgeAt = func(fs *ast.ForStmt, site ast.Node, st State) { checkBack(fs, site, st) }
	h.Cond = func(e ast.Expr, truth bool, st State) State {
		z := st.(*zone)
		a.refine(z, e, truth)
		if z.inconsistent() {
			return nil // this branch is infeasible
		}
		return z
	}
	h.Visit = func(e ast.Expr, st State) State {
		z := st.(*zone)
		switch x := e.(type) {
		case *ast.IndexExpr:
			if _, isMap := info.TypeOf(x.X).Underlying().(*types.Map); !isMap {
				if tv, ok := info.Types[x.X]; ok && !tv.IsType() {
					if _, isFn := tv.Type.Underlying().(*types.Signature); !isFn {
						a.checkIndex(z, x)
					}
				}
			}
		case *ast.SliceExpr:
			a.checkSlice(z, x)
		case *ast.CallExpr:
			a.checkCallPre(z, x)
			if !a.sameRecvCall(z, x) {
				a.invalidateByCall(z, x)
			}
		}
		return z
	}
	h.Stmt = func(stm ast.Stmt, st State) State {
		z := st.(*zone)
		switch x := stm.(type) {
		case *ast.AssignStmt:
			switch {
			case x.Tok == token.ASSIGN || x.Tok == token.DEFINE:
				if len(x.Lhs) == len(x.Rhs) {
					for i := range x.Lhs {
						if lit, ok := ast.Unparen(x.Rhs[i]).(*ast.FuncLit); ok {
							if id, ok := x.Lhs[i].(*ast.Ident); ok {
								o := info.Defs[id]
								if o == nil {
									o = info.Uses[id]
								}
								if o != nil {
									a.litOf[o] = lit
								}
							}
						}
					}
					if len(x.Lhs) == 1 {
						a.assign(z, x.Lhs[0], x.Rhs[0])
					} else {
						// parallel assignment: when no target occurs in another source the
						// assignments can be modelled one after the other
						indep := true
						for _, l := range x.Lhs {
							lk, ok := a.termKey(l)
							if !ok {
								continue
							}
							for _, rr := range x.Rhs {
								ast.Inspect(rr, func(n ast.Node) bool {
									if e, ok := n.(ast.Expr); ok {
										if k, ok := a.termKey(e); ok && (k == lk || termMentions(k, lk)) {
											indep = false
										}
									}
									return true
								})
							}
						}
						for i := range x.Lhs {
							if indep {
								a.assign(z, x.Lhs[i], x.Rhs[i])
							} else {
								a.assign(z, x.Lhs[i], nil)
							}
						}
					}
				} else if len(x.Rhs) == 1 {
					if call, ok := ast.Unparen(x.Rhs[0]).(*ast.CallExpr); ok {
						a.tupleAssign(z, x.Lhs, call)
					} else {
						for _, l := range x.Lhs {
							a.assign(z, l, nil)
						}
					}
				}
			case x.Tok == token.ADD_ASSIGN || x.Tok == token.SUB_ASSIGN:
				if len(x.Lhs) == 1 {
					op := token.ADD
					if x.Tok == token.SUB_ASSIGN {
						op = token.SUB
					}
					synth := &ast.BinaryExpr{X: x.Lhs[0], Op: op, Y: x.Rhs[0]}
					// the synthetic node has no type info: handle through lin on parts
					a.assignOp(z, x.Lhs[0], op, x.Rhs[0])
					_ = synth
				}
			default:
				for _, l := range x.Lhs {
					a.assign(z, l, nil)
				}
			}
		case *ast.IncDecStmt:
			if k, ok := a.termKey(x.X); ok && isIntType(info.TypeOf(x.X)) {
				if x.Tok == token.INC {
					z.shift(k, 1)
				} else {
					z.shift(k, -1)
				}
			}
		case *ast.DeclStmt:
			if gd, ok := x.Decl.(*ast.GenDecl); ok {
				for _, sp := range gd.Specs {
					vs, ok := sp.(*ast.ValueSpec)
					if !ok {
						continue
					}
					for i, n := range vs.Names {
						if i < len(vs.Values) && len(vs.Values) == len(vs.Names) {
							a.assign(z, n, vs.Values[i])
						} else if len(vs.Values) == 0 && isIntType(info.TypeOf(n)) {
							if k, ok := a.termKey(n); ok {
								z.forget(k)
								z.add(k, zeroTerm, 0)
								z.add(zeroTerm, k, 0)
							}
						}
					}
				}
			}
		}
		return z
	}
	h.RangeBody = func(rs *ast.RangeStmt, st State) State {
		z := st.(*zone)
		if rs.Key != nil {
			if k, ok := a.termKey(rs.Key); ok {
				z.forget(k)
				t := info.TypeOf(rs.X)
				switch u := t.Underlying().(type) {
				case *types.Basic:
					if u.Info()&types.IsString != 0 {
						if sk, ok := a.seqKey(rs.X); ok {
							z.add(k, "len("+sk+")", -1)
						}
					} else if u.Info()&types.IsInteger != 0 {
						if l, ok := a.lin(rs.X); ok {
							if sk, ok := l.single(); ok {
								z.add(k, sk, l.c-1)
							}
						}
					}
				case *types.Slice:
					if sk, ok := a.seqKey(rs.X); ok {
						z.add(k, "len("+sk+")", -1)
					}
				}
			}
		}
		if rs.Value != nil {
			if k, ok := a.termKey(rs.Value); ok {
				z.forget(k)
			}
		}
		return z
	}
	h.Return = func(rs *ast.ReturnStmt, st State) {
		a.retStates = append(a.retStates, retCtx{rs, st.(*zone).clone()})
		a.checkInvAtExit(st.(*zone))
		if a.exitHook != nil {
			a.exitHook(st.(*zone), rs)
		}
	}
	h.End = func(st State) {
		a.checkInvAtExit(st.(*zone))
		if a.exitHook != nil {
			a.exitHook(st.(*zone), nil)
		}
	}
	WalkFunc(h, body, entry)
}

// assignOp models  x += e  /  x -= e.
func (a *idxAnalyzer) assignOp(z *zone, lhs ast.Expr, op token.Token, rhs ast.Expr) {
	key, ok := a.termKey(lhs)
	if !ok || !isIntType(a.info.TypeOf(lhs)) {
		if ok {
			z.forget(key)
		}
		return
	}
	r, rok := a.lin(rhs)
	if !rok {
		z.forget(key)
		z.neg[key] = true
		return
	}
	if len(r.t) == 0 {
		if op == token.ADD {
			z.shift(key, r.c)
		} else {
			z.shift(key, -r.c)
		}
		return
	}
	if op == token.ADD {
		// r += a (+c) where r is an offset into seq[a:]: the result is an absolute position
		if ak, ok := r.single(); ok {
			if o, ok := z.offOf[key]; ok && o.base == ak {
				z.close()
				minR := o.minR
				if w, ok := z.e[[2]string{zeroTerm, key}]; ok && -w > minR {
					minR = -w
				}
				z.forget(key)
				z.add(key, "len("+o.seq+")", r.c-o.plus)
				z.add(ak, key, -(minR + r.c)) // key >= a + minR + c
				if !z.neg[ak] && minR+r.c >= 0 {
					z.add(zeroTerm, key, 0)
				} else {
					z.neg[key] = true
				}
				return
			}
		}
		// x += r + c where r is relative to a suffix starting at x
		if rk, ok := r.single(); ok {
			if o, ok := z.offOf[rk]; ok && o.base == key {
				seqLen := "len(" + o.seq + ")"
				z.close()
				minR := o.minR
				if w, ok := z.e[[2]string{zeroTerm, rk}]; ok && -w > minR {
					minR = -w
				}
				if minR+r.c >= 0 {
					z.grow(key, minR+r.c)
				} else {
					z.forget(key)
					z.neg[key] = true
				}
				z.add(key, seqLen, r.c-o.plus)
				return
			}
			// x += y + c with y >= m known: x grows by at least m + c
			z.close()
			lowY, knownY := 0, !z.neg[rk]
			if w, ok := z.e[[2]string{zeroTerm, rk}]; ok {
				lowY, knownY = -w, true
			}
			if knownY && lowY+r.c >= 0 {
				z.grow(key, lowY+r.c)
				return
			}
			z.forget(key)
			z.neg[key] = true
			return
		}
	}
	z.forget(key)
	z.neg[key] = true
}

// loopCursor finds the cursor of a loop `for … X < E …` / `X+k <= E`: the integer term that the
// condition bounds from above. Returns its term key and display name.
func (a *idxAnalyzer) loopCursor(fs *ast.ForStmt) (string, string) {
	if fs.Cond == nil {
		return "", ""
	}
	var find func(e ast.Expr) (string, string)
	find = func(e ast.Expr) (string, string) {
		be, ok := ast.Unparen(e).(*ast.BinaryExpr)
		if !ok {
			return "", ""
		}
		switch be.Op {
		case token.LAND:
			if k, n := find(be.X); k != "" {
				return k, n
			}
			return find(be.Y)
		case token.LSS, token.LEQ:
			l, ok := a.lin(be.X)
			if !ok {
				return "", ""
			}
			// the first plain variable / field on the left side
			for k, v := range l.t {
				if v == 1 && !strings.HasPrefix(k, "len(") {
					name := k
					if i := strings.Index(name, "@"); i >= 0 {
						name = name[:i] + name[strings.IndexAny(name[i:]+".", ".")+i:]
					}
					return k, strings.TrimSuffix(name, ".")
				}
			}
		case token.GTR, token.GEQ:
			l, ok := a.lin(be.Y)
			if !ok {
				return "", ""
			}
			for k, v := range l.t {
				if v == 1 && !strings.HasPrefix(k, "len(") {
					return k, k
				}
			}
		}
		return "", ""
	}
	return find(fs.Cond)
}
