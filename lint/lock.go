package main

import (
	"fmt"
	"go/ast"
	"go/token"
	"go/types"
	"sort"
	"strings"

	"golang.org/x/tools/go/packages"
)

// E-LOCK: guarded-by analysis for one struct type with an embedded mutex field.

type lockState struct {
	lvl   int                 // 0 none, 1 read, 2 write
	cur   map[*types.Var]bool // guarded fields read in the current critical section
	stale map[*types.Var]bool // guarded fields read in an earlier, already released, critical section
}

func (s *lockState) clone() *lockState {
	n := &lockState{lvl: s.lvl, cur: map[*types.Var]bool{}, stale: map[*types.Var]bool{}}
	for k := range s.cur {
		n.cur[k] = true
	}
	for k := range s.stale {
		n.stale[k] = true
	}
	return n
}

type lockAccess struct {
	fn    *ast.FuncDecl
	field *types.Var
	write bool
	pos   token.Pos
	lvl   int
	stale bool // write to a field whose check happened in a released section
}

type lockCallSite struct {
	fn     *ast.FuncDecl
	callee *types.Func
	pos    token.Pos
	lvl    int // weakest level over the paths reaching the call
	maxLvl int // strongest level over the paths reaching the call
}

type lockAnalysis struct {
	litEntry map[*ast.FuncLit]int // entry level of literals handed to locking helpers (shared with nested literals)
	r        *Run
	pkg      *packages.Package
	owner    *types.Named
	mutexes  map[*types.Var]bool
	guarded  map[*types.Var]bool
	// results per function (entry level 0)
	accesses map[*ast.FuncDecl][]lockAccess
	calls    map[*ast.FuncDecl][]lockCallSite
	locks    map[*ast.FuncDecl]bool              // function acquires the mutex itself
	ownReads map[*types.Func]map[*types.Var]bool // fields read under the function's own lock
	declOf   map[*types.Func]*ast.FuncDecl
	unpaired []lockAccess                  // unlock without lock etc. (reported)
	onlyRecv string                        // if set, only methods of this receiver type are analysed
	exitHeld map[*ast.FuncDecl][]token.Pos // returns with lock held and no deferred unlock
	// callbackLvl: weakest lock level at which a function calls its i-th (function-typed) parameter
	callbackLvl map[*types.Func]map[int]int
	// paramGuard: helpers that take the mutex and a table as parameters (lookup(&vm.mu, vm.tbl, k))
	paramGuard map[*types.Func]*paramGuardSummary
	// helperAcc: accesses made by lock-less unexported helpers (from the previous pass); a call to such
	// a helper is an access of those fields in the caller's critical section
	helperAcc map[*types.Func][]lockAccess
}

type paramGuardSummary struct {
	muIdx  int
	tables map[int]*paramTableUse
}

type paramTableUse struct {
	reads, writes     bool
	readLvl, writeLvl int
}

func newLockAnalysis(r *Run, pkg *packages.Package, owner *types.Named) *lockAnalysis {
	la := &lockAnalysis{r: r, pkg: pkg, owner: owner, mutexes: map[*types.Var]bool{}, guarded: map[*types.Var]bool{},
		accesses: map[*ast.FuncDecl][]lockAccess{}, calls: map[*ast.FuncDecl][]lockCallSite{}, locks: map[*ast.FuncDecl]bool{},
		ownReads: map[*types.Func]map[*types.Var]bool{}, declOf: map[*types.Func]*ast.FuncDecl{}, exitHeld: map[*ast.FuncDecl][]token.Pos{},
		callbackLvl: map[*types.Func]map[int]int{}, paramGuard: map[*types.Func]*paramGuardSummary{}, helperAcc: map[*types.Func][]lockAccess{},
		litEntry: map[*ast.FuncLit]int{}}
	st := owner.Underlying().(*types.Struct)
	for i := 0; i < st.NumFields(); i++ {
		f := st.Field(i)
		if isNamed(f.Type(), "sync", "RWMutex") || isNamed(f.Type(), "sync", "Mutex") {
			la.mutexes[f] = true
		}
	}
	return la
}

// mutexOp recognises recv.mu.Lock() etc. Returns op name or "".
func (la *lockAnalysis) mutexOp(call *ast.CallExpr) string {
	sel, ok := ast.Unparen(call.Fun).(*ast.SelectorExpr)
	if !ok {
		return ""
	}
	inner, ok := ast.Unparen(sel.X).(*ast.SelectorExpr)
	if !ok {
		return ""
	}
	s, ok := la.pkg.TypesInfo.Selections[inner]
	if !ok {
		return ""
	}
	if v, ok := s.Obj().(*types.Var); ok && la.mutexes[v] {
		switch sel.Sel.Name {
		case "Lock", "RLock", "Unlock", "RUnlock", "TryLock", "TryRLock":
			return sel.Sel.Name
		}
	}
	return ""
}

func (la *lockAnalysis) guardedField(e ast.Expr) *types.Var {
	sel, ok := ast.Unparen(e).(*ast.SelectorExpr)
	if !ok {
		return nil
	}
	s, ok := la.pkg.TypesInfo.Selections[sel]
	if !ok {
		return nil
	}
	if v, ok := s.Obj().(*types.Var); ok && la.guarded[v] {
		return v
	}
	return nil
}

func (la *lockAnalysis) analyseFunc(fd *ast.FuncDecl, entryLvl int) {
	info := la.pkg.TypesInfo
	la.accesses[fd] = nil
	la.calls[fd] = nil
	la.exitHeld[fd] = nil
	deferredUnlock := false
	seen := map[string]bool{}
	record := func(a lockAccess) {
		k := fmt.Sprintf("%d/%v/%v", a.pos, a.write, a.stale)
		if seen[k] {
			// keep the weakest level seen at this site
			for i := range la.accesses[fd] {
				x := &la.accesses[fd][i]
				if x.pos == a.pos && x.write == a.write && x.stale == a.stale && a.lvl < x.lvl {
					x.lvl = a.lvl
				}
			}
			return
		}
		seen[k] = true
		la.accesses[fd] = append(la.accesses[fd], a)
	}
	callSeen := map[token.Pos]int{}
	callMax := map[token.Pos]int{}
	// selector nodes that are the container of an assignment target (m[k] = v): the write covers them
	lhsBase := map[ast.Expr]bool{}
	ast.Inspect(fd.Body, func(n ast.Node) bool {
		switch x := n.(type) {
		case *ast.AssignStmt:
			for _, l := range x.Lhs {
				if ix, ok := ast.Unparen(l).(*ast.IndexExpr); ok {
					lhsBase[ast.Unparen(ix.X)] = true
				}
				// vm.table = merged: the target itself is written, not read (a value derived from an
				// earlier, released read of the table is then a lost update — the stale rule)
				if se, ok := ast.Unparen(l).(*ast.SelectorExpr); ok {
					lhsBase[se] = true
				}
			}
		case *ast.IncDecStmt:
			if ix, ok := ast.Unparen(x.X).(*ast.IndexExpr); ok {
				lhsBase[ast.Unparen(ix.X)] = true
			}
		}
		return true
	})
	// function literals handed to a package function that calls them only under the lock, and guarded
	// tables handed (with the mutex) to a helper that takes the lock itself
	litEntry := map[*ast.FuncLit]int{}
	tableArg := map[ast.Expr]*paramTableUse{}
	ast.Inspect(fd.Body, func(n ast.Node) bool {
		c, ok := n.(*ast.CallExpr)
		if !ok {
			return true
		}
		callee, _ := calleeOf(info, c).(*types.Func)
		if callee == nil {
			return true
		}
		callee = callee.Origin()
		for i, a := range c.Args {
			if lit, ok := ast.Unparen(a).(*ast.FuncLit); ok {
				if lv, ok := la.callbackLevels(callee)[i]; ok {
					if lv >= 100 {
						// the helper locks the locker it is handed: &x.mu is the write lock, x.mu.RLocker() the read lock
						lv = la.lockerArgLevel(c, lv-100)
					}
					litEntry[lit] = lv
					la.litEntry[lit] = lv
				}
			}
		}
		if pg := la.paramGuardOf(callee); pg != nil && pg.muIdx < 0 {
			// the helper locks the owner's mutex through an owner-typed parameter
			for ti, use := range pg.tables {
				if ti < len(c.Args) {
					tableArg[ast.Unparen(c.Args[ti])] = use
				}
			}
		} else if pg != nil && pg.muIdx < len(c.Args) {
			// the mutex argument must be the owner's own mutex: &recv.mu
			if u, ok := ast.Unparen(c.Args[pg.muIdx]).(*ast.UnaryExpr); ok && u.Op == token.AND {
				if se, ok := ast.Unparen(u.X).(*ast.SelectorExpr); ok {
					if sel, ok := info.Selections[se]; ok {
						if v, ok := sel.Obj().(*types.Var); ok && la.mutexes[v] {
							for ti, use := range pg.tables {
								if ti < len(c.Args) {
									tableArg[ast.Unparen(c.Args[ti])] = use
								}
							}
						}
					}
				}
			}
		}
		return true
	})
	h := &Hooks{Info: info}
	h.Copy = func(s State) State { return s.(*lockState).clone() }
	h.Join = func(a, b State) State {
		x, y := a.(*lockState), b.(*lockState)
		n := x.clone()
		if y.lvl < n.lvl {
			n.lvl = y.lvl
		}
		for k := range y.cur {
			n.cur[k] = true
		}
		for k := range y.stale {
			n.stale[k] = true
		}
		return n
	}
	h.Equal = func(a, b State) bool {
		x, y := a.(*lockState), b.(*lockState)
		if x.lvl != y.lvl || len(x.cur) != len(y.cur) || len(x.stale) != len(y.stale) {
			return false
		}
		for k := range x.cur {
			if !y.cur[k] {
				return false
			}
		}
		for k := range x.stale {
			if !y.stale[k] {
				return false
			}
		}
		return true
	}
	release := func(s *lockState) {
		s.lvl = 0
		for k := range s.cur {
			s.stale[k] = true
		}
		s.cur = map[*types.Var]bool{}
	}
	// a local that holds a guarded map itself (m := vm.table — the same map, not a copy): reading it is
	// reading the table
	aliasOf := map[types.Object]*types.Var{}
	ast.Inspect(fd.Body, func(n ast.Node) bool {
		as, ok := n.(*ast.AssignStmt)
		if !ok || len(as.Lhs) != len(as.Rhs) {
			return true
		}
		for i, rh := range as.Rhs {
			f := la.guardedField(rh)
			if f == nil {
				continue
			}
			if _, isMap := f.Type().Underlying().(*types.Map); !isMap {
				continue
			}
			if id, ok := as.Lhs[i].(*ast.Ident); ok && id.Name != "_" {
				o := info.Defs[id]
				if o == nil {
					o = info.Uses[id]
				}
				if o != nil {
					aliasOf[o] = f
				}
			}
		}
		return true
	})
	h.Visit = func(e ast.Expr, st State) State {
		s := st.(*lockState)
		switch x := e.(type) {
		case *ast.IndexExpr:
			if id, ok := ast.Unparen(x.X).(*ast.Ident); ok {
				if f := aliasOf[info.Uses[id]]; f != nil {
					record(lockAccess{fn: fd, field: f, pos: x.Pos(), lvl: s.lvl})
				}
			}
		case *ast.SelectorExpr:
			if use := tableArg[x]; use != nil {
				if f := la.guardedField(x); f != nil {
					// the helper locks the mutex it is given around every use of the table
					if use.reads {
						record(lockAccess{fn: fd, field: f, pos: x.Pos(), lvl: maxInt(s.lvl, use.readLvl)})
					}
					if use.writes {
						record(lockAccess{fn: fd, field: f, write: true, pos: x.Pos(), lvl: maxInt(s.lvl, use.writeLvl)})
					}
					return s
				}
			}
			if f := la.guardedField(x); f != nil && !lhsBase[x] {
				record(lockAccess{fn: fd, field: f, pos: x.Pos(), lvl: s.lvl})
				if s.lvl > 0 {
					s.cur[f] = true
					delete(s.stale, f) // a fresh check in this critical section supersedes an older one
				} else {
					s.stale[f] = true
				}
			}
		case *ast.CallExpr:
			switch la.mutexOp(x) {
			case "Lock":
				s.lvl = 2
				la.locks[fd] = true
			case "RLock":
				s.lvl = 1
				la.locks[fd] = true
			case "Unlock", "RUnlock":
				release(s)
			case "":
				if callee, ok := calleeOf(info, x).(*types.Func); ok {
					if prev, ok := callSeen[x.Pos()]; !ok || s.lvl < prev {
						callSeen[x.Pos()] = s.lvl
					}
					if s.lvl > callMax[x.Pos()] {
						callMax[x.Pos()] = s.lvl
					}
					// a lock-less helper's accesses happen in this critical section
					if accs := la.helperAcc[callee.Origin()]; len(accs) > 0 {
						seenF := map[string]bool{}
						for _, a := range accs {
							k := fmt.Sprintf("%p/%v", a.field, a.write)
							if seenF[k] || a.stale {
								continue
							}
							seenF[k] = true
							if !a.write {
								record(lockAccess{fn: fd, field: a.field, pos: x.Pos(), lvl: s.lvl})
								if s.lvl > 0 {
									s.cur[a.field] = true
									delete(s.stale, a.field)
								} else {
									s.stale[a.field] = true
								}
							}
						}
						for _, a := range accs {
							k := fmt.Sprintf("w%p", a.field)
							if !a.write || a.stale || seenF[k] {
								continue
							}
							seenF[k] = true
							record(lockAccess{fn: fd, field: a.field, write: true, pos: x.Pos(), lvl: s.lvl})
							if s.stale[a.field] {
								record(lockAccess{fn: fd, field: a.field, write: true, stale: true, pos: x.Pos(), lvl: s.lvl})
							}
						}
					}
					// own-lock readers make their fields stale for the caller
					if rs, ok := la.ownReads[callee]; ok && s.lvl == 0 {
						for f := range rs {
							s.stale[f] = true
						}
					}
					// builtin delete handled in Stmt
				}
			}
		case *ast.FuncLit:
			// closures: analysed with no lock held (conservative for go/defer/callbacks), unless they are
			// handed to a package function that calls its parameter only while it holds the lock
			la.analyseLit(fd, x, record, litEntry[x])
		}
		return s
	}
	h.Stmt = func(stm ast.Stmt, st State) State {
		s := st.(*lockState)
		switch x := stm.(type) {
		case *ast.AssignStmt:
			for _, l := range x.Lhs {
				var f *types.Var
				switch t := ast.Unparen(l).(type) {
				case *ast.IndexExpr:
					f = la.guardedField(t.X)
				case *ast.SelectorExpr:
					f = la.guardedField(t)
				}
				if f != nil {
					record(lockAccess{fn: fd, field: f, write: true, pos: l.Pos(), lvl: s.lvl})
					if s.stale[f] {
						record(lockAccess{fn: fd, field: f, write: true, stale: true, pos: l.Pos(), lvl: s.lvl})
					}
				}
			}
		case *ast.ExprStmt:
			if call, ok := ast.Unparen(x.X).(*ast.CallExpr); ok {
				if id, ok := ast.Unparen(call.Fun).(*ast.Ident); ok && len(call.Args) > 0 {
					if b, ok := info.Uses[id].(*types.Builtin); ok && (b.Name() == "delete" || b.Name() == "clear") {
						if f := la.guardedField(call.Args[0]); f != nil {
							record(lockAccess{fn: fd, field: f, write: true, pos: call.Pos(), lvl: s.lvl})
						}
					}
				}
			}
		case *ast.DeferStmt:
			op := la.mutexOp(x.Call)
			if op == "Unlock" || op == "RUnlock" {
				deferredUnlock = true
			}
			if lit, ok := ast.Unparen(x.Call.Fun).(*ast.FuncLit); ok {
				ast.Inspect(lit.Body, func(n ast.Node) bool {
					if c, ok := n.(*ast.CallExpr); ok {
						if o := la.mutexOp(c); o == "Unlock" || o == "RUnlock" {
							deferredUnlock = true
						}
					}
					return true
				})
			}
		case *ast.IncDecStmt:
			var f *types.Var
			switch t := ast.Unparen(x.X).(type) {
			case *ast.IndexExpr:
				f = la.guardedField(t.X)
			case *ast.SelectorExpr:
				f = la.guardedField(t)
			}
			if f != nil {
				record(lockAccess{fn: fd, field: f, write: true, pos: x.Pos(), lvl: s.lvl})
			}
		}
		return s
	}
	h.RangeBody = func(rs *ast.RangeStmt, st State) State { return st }
	exitCheck := func(p token.Pos, st State) {
		s := st.(*lockState)
		if s.lvl > entryLvl && !deferredUnlock {
			la.exitHeld[fd] = append(la.exitHeld[fd], p)
		}
	}
	h.Return = func(rs *ast.ReturnStmt, st State) { exitCheck(rs.Pos(), st) }
	h.End = func(st State) { exitCheck(fd.Body.Rbrace, st) }
	WalkFunc(h, fd.Body, &lockState{lvl: entryLvl, cur: map[*types.Var]bool{}, stale: map[*types.Var]bool{}})
	// call sites with their weakest level
	ast.Inspect(fd.Body, func(n ast.Node) bool {
		if c, ok := n.(*ast.CallExpr); ok {
			if lvl, ok := callSeen[c.Pos()]; ok {
				if callee, ok := calleeOf(info, c).(*types.Func); ok {
					la.calls[fd] = append(la.calls[fd], lockCallSite{fn: fd, callee: callee, pos: c.Pos(), lvl: lvl, maxLvl: callMax[c.Pos()]})
				}
			}
		}
		return true
	})
}

// analyseLit records accesses inside a function literal with its own lock tracking starting unlocked.
func (la *lockAnalysis) analyseLit(fd *ast.FuncDecl, lit *ast.FuncLit, record func(lockAccess), entryLvl int) {
	info := la.pkg.TypesInfo
	h := &Hooks{Info: info}
	h.Copy = func(s State) State { return s.(*lockState).clone() }
	h.Join = func(a, b State) State {
		x, y := a.(*lockState), b.(*lockState)
		n := x.clone()
		if y.lvl < n.lvl {
			n.lvl = y.lvl
		}
		return n
	}
	h.Equal = func(a, b State) bool { return a.(*lockState).lvl == b.(*lockState).lvl }
	h.Visit = func(e ast.Expr, st State) State {
		s := st.(*lockState)
		switch x := e.(type) {
		case *ast.SelectorExpr:
			if f := la.guardedField(x); f != nil {
				record(lockAccess{fn: fd, field: f, pos: x.Pos(), lvl: s.lvl})
			}
		case *ast.CallExpr:
			switch la.mutexOp(x) {
			case "Lock":
				s.lvl = 2
			case "RLock":
				s.lvl = 1
			case "Unlock", "RUnlock":
				s.lvl = 0
			}
		case *ast.FuncLit:
			// a literal nested in this one may itself be handed to a locking helper (once.Do(func() { locked(l, func() {…}) }))
			la.analyseLit(fd, x, record, la.litEntry[x])
		}
		return s
	}
	h.Stmt = func(stm ast.Stmt, st State) State {
		s := st.(*lockState)
		if x, ok := stm.(*ast.AssignStmt); ok {
			for _, l := range x.Lhs {
				var f *types.Var
				switch t := ast.Unparen(l).(type) {
				case *ast.IndexExpr:
					f = la.guardedField(t.X)
				case *ast.SelectorExpr:
					f = la.guardedField(t)
				}
				if f != nil {
					record(lockAccess{fn: fd, field: f, write: true, pos: l.Pos(), lvl: s.lvl})
				}
			}
		}
		return s
	}
	WalkFunc(h, lit.Body, &lockState{lvl: entryLvl, cur: map[*types.Var]bool{}, stale: map[*types.Var]bool{}})
}

func lvlName(l int) string { return [...]string{"no lock", "read lock", "write lock"}[l] }

// run performs the whole guarded-by decision and emits obligations under rule names
// <prefix>-LOCK (accesses) and <prefix>-ATOMIC (check-then-insert).
func (la *lockAnalysis) run(ruleLock, ruleAtomic string, constructorNames map[string]bool) {
	la.runMode(ruleLock, ruleAtomic, constructorNames, false)
}

// runPerField reports one obligation per guarded field: discharged iff every access is synchronised.
func (la *lockAnalysis) runPerField(rule string, constructorNames map[string]bool) {
	r := la.r
	mark := len(r.obligs)
	la.runMode(rule, rule+"-ATOMIC", constructorNames, true)
	// fold the per-access obligations into per-field ones
	per := r.obligs[mark:]
	r.obligs = r.obligs[:mark]
	type agg struct {
		n, bad int
		first  Oblig
		fns    map[string]bool
	}
	fields := map[string]*agg{}
	order := []string{}
	for _, o := range per {
		if o.Rule != rule || (o.Status != "discharged" && o.Status != "violation") {
			continue
		}
		i := strings.LastIndex(o.Key, ":")
		if i < 0 {
			continue
		}
		f := o.Key[i+1:]
		if j := strings.Index(f, "#"); j >= 0 {
			f = f[:j]
		}
		a := fields[f]
		if a == nil {
			a = &agg{fns: map[string]bool{}}
			fields[f] = a
			order = append(order, f)
		}
		a.n++
		if o.Status == "violation" {
			if a.bad == 0 {
				a.first = o
			}
			a.bad++
			a.fns[strings.SplitN(o.Key, "#", 2)[0]] = true
		}
	}
	sort.Strings(order)
	r.curRule = rule
	for _, f := range order {
		a := fields[f]
		key := la.owner.Obj().Name() + "." + f
		if a.bad == 0 {
			r.obligs = append(r.obligs, Oblig{Rule: rule, Key: key, Pos: "-", Status: "discharged", Msg: fmt.Sprintf("all %d accesses synchronised", a.n)})
		} else {
			fns := []string{}
			for k := range a.fns {
				fns = append(fns, k)
			}
			sort.Strings(fns)
			msg := fmt.Sprintf("%d of %d accesses unsynchronised (in %s); first: %s", a.bad, a.n, strings.Join(fns, ", "), a.first.Msg)
			if why, ok := assumedTable[rule+"|"+key]; ok {
				r.obligs = append(r.obligs, Oblig{Rule: rule, Key: key, Pos: a.first.Pos, Status: "assumed", Msg: "not armed: " + why + " (" + msg + ")"})
			} else {
				r.obligs = append(r.obligs, Oblig{Rule: rule, Key: key, Pos: a.first.Pos, Status: "violation", Msg: msg})
			}
		}
	}
}

func (la *lockAnalysis) runMode(ruleLock, ruleAtomic string, constructorNames map[string]bool, quietAtomic bool) {
	r := la.r
	info := la.pkg.TypesInfo
	decls := []*ast.FuncDecl{}
	for _, fd := range funcDecls(la.pkg) {
		if la.onlyRecv != "" && recvTypeName(fd) != la.onlyRecv {
			continue
		}
		decls = append(decls, fd)
		if o, ok := info.Defs[fd.Name].(*types.Func); ok {
			la.declOf[o] = fd
		}
	}
	// pass 1: own-lock read summaries need a first run; run twice so ownReads is populated.
	for pass := 0; pass < 2; pass++ {
		for _, fd := range decls {
			la.analyseFunc(fd, 0)
		}
		for _, fd := range decls {
			o, _ := info.Defs[fd.Name].(*types.Func)
			if o == nil || o.Exported() || la.locks[fd] || constructorNames[fd.Name.Name] || fd.Recv == nil {
				continue
			}
			// only helpers that live on another type than the owner (a lock-less registry struct): the
			// owner's own unexported helpers keep being judged at their call sites as before
			if nt := namedOf(info.TypeOf(fd.Recv.List[0].Type)); nt == nil || nt == la.owner {
				continue
			}
			var accs []lockAccess
			for _, a := range la.accesses[fd] {
				if a.lvl == 0 && a.fn == fd {
					accs = append(accs, a)
				}
			}
			if len(accs) > 0 {
				la.helperAcc[o] = accs
			}
		}
		for _, fd := range decls {
			o, _ := info.Defs[fd.Name].(*types.Func)
			if o == nil || !la.locks[fd] {
				continue
			}
			rs := map[*types.Var]bool{}
			for _, a := range la.accesses[fd] {
				if !a.write && a.lvl > 0 {
					rs[a.field] = true
				}
			}
			la.ownReads[o] = rs
		}
	}
	// helper summaries: unexported functions that touch guarded fields without holding the lock
	// and never lock themselves: requirement = the level that discharges all their accesses.
	requires := map[*types.Func]int{}
	for _, fd := range decls {
		o, _ := info.Defs[fd.Name].(*types.Func)
		if o == nil || o.Exported() || la.locks[fd] || constructorNames[fd.Name.Name] {
			continue
		}
		need := 0
		for _, a := range la.accesses[fd] {
			if a.lvl == 0 {
				n := 1
				if a.write {
					n = 2
				}
				if n > need {
					need = n
				}
			}
		}
		if need > 0 {
			requires[o] = need
		}
	}
	// method values of helpers escape the call-site check
	escaped := map[*types.Func]token.Pos{}
	for _, f := range la.pkg.Syntax {
		ast.Inspect(f, func(n ast.Node) bool {
			if c, ok := n.(*ast.CallExpr); ok {
				// mark Fun position as call use
				_ = c
			}
			return true
		})
		callFuns := map[ast.Expr]bool{}
		ast.Inspect(f, func(n ast.Node) bool {
			if c, ok := n.(*ast.CallExpr); ok {
				callFuns[ast.Unparen(c.Fun)] = true
			}
			return true
		})
		ast.Inspect(f, func(n ast.Node) bool {
			if se, ok := n.(*ast.SelectorExpr); ok && !callFuns[se] {
				if o, ok := info.Uses[se.Sel].(*types.Func); ok {
					if _, isReq := requires[o]; isReq {
						escaped[o] = se.Pos()
					}
				}
			}
			return true
		})
	}
	// propagate: a helper calling a helper inherits the requirement (fixpoint)
	for changed := true; changed; {
		changed = false
		for _, fd := range decls {
			o, _ := info.Defs[fd.Name].(*types.Func)
			if o == nil || o.Exported() || la.locks[fd] || constructorNames[fd.Name.Name] {
				continue
			}
			for _, cs := range la.calls[fd] {
				if need, ok := requires[cs.callee]; ok && cs.lvl < need && requires[o] < need {
					requires[o] = need
					changed = true
				}
			}
		}
	}
	callers := map[*types.Func][]lockCallSite{}
	for _, fd := range decls {
		for _, cs := range la.calls[fd] {
			if _, ok := requires[cs.callee]; ok {
				callers[cs.callee] = append(callers[cs.callee], cs)
			}
		}
	}

	r.curRule = ruleLock
	for _, fd := range decls {
		o, _ := info.Defs[fd.Name].(*types.Func)
		fk := funcKey(la.pkg, fd)
		if constructorNames[fd.Name.Name] {
			for _, a := range la.accesses[fd] {
				if !a.stale {
					r.assume(fmt.Sprintf("%s#%s", fk, a.field.Name()), a.pos, "constructor: the object is not yet shared")
				}
			}
			continue
		}
		need, isHelper := requires[o]
		accs := la.accesses[fd]
		sort.SliceStable(accs, func(i, j int) bool { return accs[i].pos < accs[j].pos })
		for _, a := range accs {
			if a.stale {
				continue
			}
			kind := "read"
			want := 1
			if a.write {
				kind = "write"
				want = 2
			}
			key := fmt.Sprintf("%s#%s:%s", fk, kind, a.field.Name())
			if a.lvl >= want {
				r.ok(key, a.pos, fmt.Sprintf("%s of %s under %s", kind, a.field.Name(), lvlName(a.lvl)))
				continue
			}
			if isHelper {
				r.ok(key, a.pos, fmt.Sprintf("%s of %s: unexported helper, lock (%s) required from every caller — checked at its call sites", kind, a.field.Name(), lvlName(need)))
				continue
			}
			r.bad(key, a.pos, fmt.Sprintf("%s of guarded field %s with %s held (needs %s)", kind, a.field.Name(), lvlName(a.lvl), lvlName(want)))
		}
		for _, p := range la.exitHeld[fd] {
			r.bad(fmt.Sprintf("%s#exit-with-lock", fk), p, "function exit reached with the mutex still held and no deferred unlock")
		}
	}
	// helper call sites
	hs := []*types.Func{}
	for o := range requires {
		hs = append(hs, o)
	}
	sort.Slice(hs, func(i, j int) bool { return hs[i].Name() < hs[j].Name() })
	for _, o := range hs {
		need := requires[o]
		if p, ok := escaped[o]; ok {
			r.bad(fmt.Sprintf("%s#escapes", objKey(o)), p, "lock-requiring helper used as a method value: its callers cannot be enumerated")
		}
		cs := callers[o]
		if len(cs) == 0 {
			r.info(fmt.Sprintf("%s#nocallers", objKey(o)), o.Pos(), "lock-requiring helper has no static caller in the package")
		}
		for _, c := range cs {
			callerObj, _ := info.Defs[c.fn.Name].(*types.Func)
			key := fmt.Sprintf("%s#call:%s", funcKey(la.pkg, c.fn), o.Name())
			if c.lvl >= need {
				r.ok(key, c.pos, fmt.Sprintf("calls %s holding %s", o.Name(), lvlName(c.lvl)))
			} else if constructorNames[c.fn.Name.Name] {
				r.ok(key, c.pos, fmt.Sprintf("calls %s while constructing the object (not shared yet)", o.Name()))
			} else if _, callerIsHelper := requires[callerObj]; callerIsHelper && requires[callerObj] >= need {
				r.ok(key, c.pos, fmt.Sprintf("calls %s from a helper that itself requires %s", o.Name(), lvlName(requires[callerObj])))
			} else {
				r.bad(key, c.pos, fmt.Sprintf("calls %s (touches guarded tables, needs %s) holding %s", o.Name(), lvlName(need), lvlName(c.lvl)))
			}
		}
	}

	// re-entrant acquisition: a call made while the mutex is held to a function that (transitively,
	// within the package) acquires the same mutex. sync.RWMutex is not re-entrant: a second RLock
	// blocks behind a waiting writer, a second Lock always blocks.
	if !quietAtomic {
		acquirers := map[*types.Func]bool{}
		for _, fd := range decls {
			if la.locks[fd] {
				if o, ok := info.Defs[fd.Name].(*types.Func); ok {
					acquirers[o] = true
				}
			}
		}
		for changed := true; changed; {
			changed = false
			for _, fd := range decls {
				o, _ := info.Defs[fd.Name].(*types.Func)
				if o == nil || acquirers[o] {
					continue
				}
				for _, cs := range la.calls[fd] {
					if acquirers[cs.callee] && cs.maxLvl == 0 {
						// only calls made without the lock propagate "acquires"
						acquirers[o] = true
						changed = true
						break
					}
				}
			}
		}
		r.curRule = ruleLock
		for _, fd := range decls {
			for _, cs := range la.calls[fd] {
				if cs.maxLvl > 0 && acquirers[cs.callee] {
					r.bad(fmt.Sprintf("%s#reentrant:%s", funcKey(la.pkg, fd), cs.callee.Name()), cs.pos, fmt.Sprintf("calls %s, which acquires the mutex again, while holding the %s: sync.RWMutex is not re-entrant and this deadlocks as soon as a writer is waiting", cs.callee.Name(), lvlName(cs.maxLvl)))
				}
			}
		}
	}
	if quietAtomic {
		return
	}
	r.curRule = ruleAtomic
	for _, fd := range decls {
		if constructorNames[fd.Name.Name] {
			continue
		}
		if o, ok := info.Defs[fd.Name].(*types.Func); ok {
			if _, isHelper := requires[o]; isHelper {
				continue // runs inside its callers' critical section
			}
		}
		fk := funcKey(la.pkg, fd)
		// a function that reads and writes the same guarded map performs a check-then-act
		reads := map[*types.Var]bool{}
		for _, a := range la.accesses[fd] {
			if !a.write {
				reads[a.field] = true
			}
		}
		done := map[*types.Var]bool{}
		for _, a := range la.accesses[fd] {
			if !a.write || a.stale || done[a.field] {
				continue
			}
			// is there a stale record for this write?
			isStale := false
			for _, b := range la.accesses[fd] {
				if b.stale && b.field == a.field {
					isStale = true
				}
			}
			if !reads[a.field] && !isStale {
				continue
			}
			done[a.field] = true
			key := fmt.Sprintf("%s#check-then-store:%s", fk, a.field.Name())
			if isStale {
				r.bad(key, a.pos, fmt.Sprintf("store to %s after its existence check was made in an earlier, released critical section (two registrants can both pass the check)", a.field.Name()))
			} else {
				r.ok(key, a.pos, fmt.Sprintf("lookup and store of %s lie in one critical section", a.field.Name()))
			}
		}
	}
}

func fieldNames(m map[*types.Var]bool) string {
	n := []string{}
	for f := range m {
		n = append(n, f.Name())
	}
	sort.Strings(n)
	return strings.Join(n, ",")
}

func maxInt(a, b int) int {
	if a > b {
		return a
	}
	return b
}

// callbackLevels: for a function of the package, the weakest lock level (of the owner's mutex) at which
// each function-typed parameter is called; a parameter that is used in any other way is not listed.
func (la *lockAnalysis) callbackLevels(f *types.Func) map[int]int {
	if m, ok := la.callbackLvl[f]; ok {
		return m
	}
	out := map[int]int{}
	la.callbackLvl[f] = out
	if f.Pkg() != la.pkg.Types {
		return out
	}
	fd := declOf(la.pkg, f)
	if fd == nil || fd.Body == nil {
		return out
	}
	info := la.pkg.TypesInfo
	params := map[types.Object]int{}
	i := 0
	for _, fl := range fd.Type.Params.List {
		for _, nm := range fl.Names {
			if _, isSig := info.TypeOf(fl.Type).Underlying().(*types.Signature); isSig {
				params[info.Defs[nm]] = i
			}
			i++
		}
		if len(fl.Names) == 0 {
			i++
		}
	}
	if len(params) == 0 {
		return out
	}
	// a locker handed in as a parameter (l sync.Locker, mu *sync.RWMutex): the level under which the callback
	// runs is the level of whatever the caller passes — encoded as 100 + index of that parameter
	lockerParams := map[types.Object]int{}
	{
		k := 0
		for _, fl := range fd.Type.Params.List {
			t := info.TypeOf(fl.Type)
			isLocker := isNamed(t, "sync", "Locker") || isNamed(t, "sync", "RWMutex") || isNamed(t, "sync", "Mutex")
			for _, nm := range fl.Names {
				if isLocker {
					lockerParams[info.Defs[nm]] = k
				}
				k++
			}
			if len(fl.Names) == 0 {
				k++
			}
		}
	}
	lvls := map[int]int{}
	called := map[*ast.Ident]bool{}
	h := &Hooks{Info: info}
	h.Copy = func(s State) State { c := *s.(*int); return &c }
	h.Join = func(a, b State) State {
		x, y := *a.(*int), *b.(*int)
		if y < x {
			x = y
		}
		return &x
	}
	h.Equal = func(a, b State) bool { return *a.(*int) == *b.(*int) }
	h.Visit = func(e ast.Expr, st State) State {
		s := st.(*int)
		if c, ok := e.(*ast.CallExpr); ok {
			switch la.mutexOp(c) {
			case "Lock":
				*s = 2
			case "RLock":
				*s = 1
			case "Unlock", "RUnlock":
				*s = 0
			}
			if se, ok := ast.Unparen(c.Fun).(*ast.SelectorExpr); ok {
				if id, ok := ast.Unparen(se.X).(*ast.Ident); ok {
					if li, ok := lockerParams[info.Uses[id]]; ok {
						switch se.Sel.Name {
						case "Lock", "RLock":
							*s = 100 + li
						case "Unlock", "RUnlock":
							*s = 0
						}
					}
				}
			}
			if id, ok := ast.Unparen(c.Fun).(*ast.Ident); ok {
				if pi, ok := params[info.Uses[id]]; ok {
					called[id] = true
					if prev, seen := lvls[pi]; !seen || *s < prev {
						lvls[pi] = *s
					}
				}
			}
		}
		return s
	}
	zero := 0
	WalkFunc(h, fd.Body, &zero)
	// any other use of the parameter (stored, passed on, deferred, go) voids the summary
	escaped := map[int]bool{}
	ast.Inspect(fd.Body, func(n ast.Node) bool {
		switch x := n.(type) {
		case *ast.Ident:
			if pi, ok := params[info.Uses[x]]; ok && !called[x] {
				escaped[pi] = true
			}
		case *ast.GoStmt:
			if id, ok := ast.Unparen(x.Call.Fun).(*ast.Ident); ok {
				if pi, ok := params[info.Uses[id]]; ok {
					escaped[pi] = true
				}
			}
		case *ast.DeferStmt:
			if id, ok := ast.Unparen(x.Call.Fun).(*ast.Ident); ok {
				if pi, ok := params[info.Uses[id]]; ok {
					escaped[pi] = true
				}
			}
		}
		return true
	})
	for pi, lv := range lvls {
		if !escaped[pi] {
			out[pi] = lv
		}
	}
	return out
}

// paramGuardOf: a helper that receives a mutex and one or more tables as parameters and touches the
// tables only between Lock/RLock and Unlock of that mutex parameter.
func (la *lockAnalysis) paramGuardOf(f *types.Func) *paramGuardSummary {
	if pg, ok := la.paramGuard[f]; ok {
		return pg
	}
	la.paramGuard[f] = nil
	if f.Pkg() != la.pkg.Types {
		return nil
	}
	fd := declOf(la.pkg, f)
	if fd == nil || fd.Body == nil || fd.Recv != nil {
		return nil
	}
	info := la.pkg.TypesInfo
	var muObj types.Object
	muIdx := -1
	tables := map[types.Object]int{}
	i := 0
	for _, fl := range fd.Type.Params.List {
		t := info.TypeOf(fl.Type)
		for _, nm := range fl.Names {
			if pt, ok := t.(*types.Pointer); ok && (isNamed(pt.Elem(), "sync", "RWMutex") || isNamed(pt.Elem(), "sync", "Mutex")) {
				muObj, muIdx = info.Defs[nm], i
			}
			if _, isMap := t.Underlying().(*types.Map); isMap {
				tables[info.Defs[nm]] = i
			}
			i++
		}
		if len(fl.Names) == 0 {
			i++
		}
	}
	// the mutex may also be reached through a parameter that is the owner itself (vm *VM → vm.mu)
	ownerLocks := false
	if muObj == nil {
		ast.Inspect(fd.Body, func(n ast.Node) bool {
			if c, ok := n.(*ast.CallExpr); ok && la.mutexOp(c) != "" {
				ownerLocks = true
			}
			return true
		})
	}
	if (muObj == nil && !ownerLocks) || len(tables) == 0 {
		return nil
	}
	pg := &paramGuardSummary{muIdx: muIdx, tables: map[int]*paramTableUse{}}
	for _, ti := range tables {
		pg.tables[ti] = &paramTableUse{readLvl: 2, writeLvl: 2}
	}
	okUse := map[*ast.Ident]bool{}
	lhsIndex := map[*ast.IndexExpr]bool{}
	ast.Inspect(fd.Body, func(n ast.Node) bool {
		if as, ok := n.(*ast.AssignStmt); ok {
			for _, l := range as.Lhs {
				if ix, ok := ast.Unparen(l).(*ast.IndexExpr); ok {
					lhsIndex[ix] = true
				}
			}
		}
		return true
	})
	h := &Hooks{Info: info}
	h.Copy = func(s State) State { c := *s.(*int); return &c }
	h.Join = func(a, b State) State {
		x, y := *a.(*int), *b.(*int)
		if y < x {
			x = y
		}
		return &x
	}
	h.Equal = func(a, b State) bool { return *a.(*int) == *b.(*int) }
	note := func(id *ast.Ident, write bool, lvl int) {
		ti, ok := tables[info.Uses[id]]
		if !ok {
			return
		}
		okUse[id] = true
		u := pg.tables[ti]
		if write {
			u.writes = true
			if lvl < u.writeLvl {
				u.writeLvl = lvl
			}
		} else {
			u.reads = true
			if lvl < u.readLvl {
				u.readLvl = lvl
			}
		}
	}
	h.Visit = func(e ast.Expr, st State) State {
		s := st.(*int)
		switch x := e.(type) {
		case *ast.CallExpr:
			if se, ok := ast.Unparen(x.Fun).(*ast.SelectorExpr); ok {
				if id, ok := ast.Unparen(se.X).(*ast.Ident); ok && muObj != nil && info.Uses[id] == muObj {
					switch se.Sel.Name {
					case "Lock":
						*s = 2
					case "RLock":
						*s = 1
					case "Unlock", "RUnlock":
						*s = 0
					}
				}
			}
			switch la.mutexOp(x) {
			case "Lock":
				*s = 2
			case "RLock":
				*s = 1
			case "Unlock", "RUnlock":
				*s = 0
			}
			// read-only library views of the table, consumed under the lock: maps.Keys / maps.Values
			if cal, ok := calleeOf(info, x).(*types.Func); ok && cal.Pkg() != nil && cal.Pkg().Path() == "maps" && len(x.Args) == 1 {
				switch cal.Name() {
				case "Keys", "Values", "All":
					if aid, ok := ast.Unparen(x.Args[0]).(*ast.Ident); ok {
						note(aid, false, *s)
					}
				}
			}
			if id, ok := ast.Unparen(x.Fun).(*ast.Ident); ok && len(x.Args) >= 1 {
				if b, ok := info.Uses[id].(*types.Builtin); ok {
					if aid, ok := ast.Unparen(x.Args[0]).(*ast.Ident); ok {
						switch b.Name() {
						case "len":
							note(aid, false, *s)
						case "delete", "clear":
							note(aid, true, *s)
						}
					}
				}
			}
		case *ast.IndexExpr:
			if id, ok := ast.Unparen(x.X).(*ast.Ident); ok {
				note(id, lhsIndex[x], *s)
			}
		}
		return s
	}
	h.RangeBody = func(rs *ast.RangeStmt, st State) State {
		if id, ok := ast.Unparen(rs.X).(*ast.Ident); ok {
			note(id, false, *st.(*int))
		}
		return st
	}
	h.Stmt = func(stm ast.Stmt, st State) State {
		// m[k] = v: the index expression on the left is not visited as a read
		if as, ok := stm.(*ast.AssignStmt); ok {
			for _, l := range as.Lhs {
				if ix, ok := ast.Unparen(l).(*ast.IndexExpr); ok {
					if id, ok := ast.Unparen(ix.X).(*ast.Ident); ok {
						note(id, true, *st.(*int))
					}
				}
			}
		}
		return st
	}
	zero := 0
	WalkFunc(h, fd.Body, &zero)
	// a table that is used in any other way (returned, stored, passed on) has no summary
	bad := false
	ast.Inspect(fd.Body, func(n ast.Node) bool {
		if id, ok := n.(*ast.Ident); ok {
			if _, isTable := tables[info.Uses[id]]; isTable && !okUse[id] {
				bad = true
			}
		}
		return true
	})
	if bad {
		return nil
	}
	la.paramGuard[f] = pg
	return pg
}

// lockerArgLevel: the level of the locker passed as argument idx of call — &owner.mu (or owner.mu for a
// pointer field) is the write lock, owner.mu.RLocker() the read lock, anything else no lock of this owner.
func (la *lockAnalysis) lockerArgLevel(call *ast.CallExpr, idx int) int {
	if idx >= len(call.Args) {
		return 0
	}
	info := la.pkg.TypesInfo
	a := ast.Unparen(call.Args[idx])
	isMutexField := func(e ast.Expr) bool {
		se, ok := ast.Unparen(e).(*ast.SelectorExpr)
		if !ok {
			return false
		}
		sel, ok := info.Selections[se]
		if !ok {
			return false
		}
		v, ok := sel.Obj().(*types.Var)
		return ok && la.mutexes[v]
	}
	if ue, ok := a.(*ast.UnaryExpr); ok && ue.Op == token.AND && isMutexField(ue.X) {
		return 2
	}
	if isMutexField(a) {
		return 2
	}
	if c, ok := a.(*ast.CallExpr); ok && len(c.Args) == 0 {
		if se, ok := ast.Unparen(c.Fun).(*ast.SelectorExpr); ok && se.Sel.Name == "RLocker" && isMutexField(se.X) {
			return 1
		}
	}
	return 0
}
