package main

import (
	"fmt"
	"go/ast"
	"go/token"
	"go/types"
	"sort"
	"strings"

	"golang.org/x/tools/go/packages"
)

// C01-PANIC: no explicit panic() in lexer, parser and token is reachable with a possible value.
func c01Panic(r *Run) {
	n := 0
	for _, rel := range []string{"lexer", "parser", "token"} {
		pkg := r.pkg(rel)
		if pkg == nil {
			continue
		}
		info := pkg.TypesInfo
		for _, fd := range funcDecls(pkg) {
			fk := funcKey(pkg, fd)
			// type switches, to judge default arms
			type tsInfo struct {
				sw      *ast.TypeSwitchStmt
				iface   types.Type
				covered []types.Type
			}
			var switches []tsInfo
			ast.Inspect(fd.Body, func(nd ast.Node) bool {
				ts, ok := nd.(*ast.TypeSwitchStmt)
				if !ok {
					return true
				}
				var x ast.Expr
				switch a := ts.Assign.(type) {
				case *ast.ExprStmt:
					if ta, ok := ast.Unparen(a.X).(*ast.TypeAssertExpr); ok {
						x = ta.X
					}
				case *ast.AssignStmt:
					if len(a.Rhs) == 1 {
						if ta, ok := ast.Unparen(a.Rhs[0]).(*ast.TypeAssertExpr); ok {
							x = ta.X
						}
					}
				}
				if x == nil {
					return true
				}
				ti := tsInfo{sw: ts, iface: info.TypeOf(x)}
				for _, c := range ts.Body.List {
					for _, t := range c.(*ast.CaseClause).List {
						if tv, ok := info.Types[t]; ok && tv.IsType() {
							ti.covered = append(ti.covered, tv.Type)
						}
					}
				}
				switches = append(switches, ti)
				return true
			})
			ast.Inspect(fd.Body, func(nd ast.Node) bool {
				call, ok := nd.(*ast.CallExpr)
				if !ok {
					return true
				}
				id, ok := ast.Unparen(call.Fun).(*ast.Ident)
				if !ok {
					return true
				}
				if b, ok := info.Uses[id].(*types.Builtin); !ok || b.Name() != "panic" {
					return true
				}
				n++
				key := fk + "#panic"
				// inside the default arm of a type switch whose cases cover every implementation?
				for _, ti := range switches {
					for _, c := range ti.sw.Body.List {
						cc := c.(*ast.CaseClause)
						if cc.List != nil || call.Pos() < cc.Pos() || call.Pos() >= cc.End() {
							continue
						}
						iface, ok := ti.iface.Underlying().(*types.Interface)
						if !ok {
							continue
						}
						missing := uncoveredImplementations(r, iface, ti.covered)
						if len(missing) == 0 {
							r.ok(key, call.Pos(), fmt.Sprintf("default arm of a type switch over %s whose cases name every implementation in the module: dead code", types.TypeString(ti.iface, nil)))
						} else {
							r.bad(key, call.Pos(), fmt.Sprintf("panic in the default arm of a type switch over %s that does not cover %s", types.TypeString(ti.iface, nil), strings.Join(missing, ", ")))
						}
						return true
					}
				}
				r.bad(key, call.Pos(), "explicit panic() in code that lexes or parses source text: a crafted source crashes the host process instead of producing a diagnostic")
				return true
			})
		}
	}
	r.stat("explicit_panics_in_lexer_parser_token", n)
	r.ok("summary#explicit-panics", 0, fmt.Sprintf("%d explicit panic call(s) in lexer/parser/token examined", n))
}

// uncoveredImplementations lists module types implementing iface that are not among covered.
func uncoveredImplementations(r *Run, iface *types.Interface, covered []types.Type) []string {
	var missing []string
	for path, p := range r.ByPath {
		if !strings.HasPrefix(path, modPath) {
			continue
		}
		sc := p.Types.Scope()
		for _, name := range sc.Names() {
			tn, ok := sc.Lookup(name).(*types.TypeName)
			if !ok || tn.IsAlias() {
				continue
			}
			nt, ok := tn.Type().(*types.Named)
			if !ok || nt.TypeParams().Len() > 0 {
				continue
			}
			if _, isIface := nt.Underlying().(*types.Interface); isIface {
				continue
			}
			for _, cand := range []types.Type{nt, types.NewPointer(nt)} {
				if !types.Implements(cand, iface) {
					continue
				}
				found := false
				for _, c := range covered {
					if types.Identical(c, cand) {
						found = true
					}
					// a covered interface type covers its implementations
					if ci, ok := c.Underlying().(*types.Interface); ok && types.Implements(cand, ci) {
						found = true
					}
				}
				if !found {
					// value type implements and pointer case covers? a *T case does not match a T value; keep strict
					missing = append(missing, types.TypeString(cand, nil))
				}
				break
			}
		}
	}
	sort.Strings(missing)
	return missing
}

// c01DiscardedOk: in the parser, `x, _ := e.(T)` gives nil when the assertion fails. Such an x must not
// become part of the tree (returned as a parsed child, handed to a node constructor, stored in a node)
// unless the function tests it for nil: a child that is nil is dereferenced when the node is evaluated.
func c01DiscardedOk(r *Run) {
	pp := r.pkg("parser")
	if pp == nil {
		return
	}
	info := pp.TypesInfo
	for _, fd := range funcDecls(pp) {
		if fd.Body == nil {
			continue
		}
		type cand struct {
			o   types.Object
			pos token.Pos
		}
		var cands []cand
		ast.Inspect(fd.Body, func(n ast.Node) bool {
			as, ok := n.(*ast.AssignStmt)
			if !ok || len(as.Lhs) != 2 || len(as.Rhs) != 1 {
				return true
			}
			ta, ok := ast.Unparen(as.Rhs[0]).(*ast.TypeAssertExpr)
			if !ok || ta.Type == nil {
				return true
			}
			okID, isID := as.Lhs[1].(*ast.Ident)
			if !isID || okID.Name != "_" {
				return true
			}
			t := info.TypeOf(ta.Type)
			if t == nil {
				return true
			}
			switch t.Underlying().(type) {
			case *types.Interface, *types.Pointer:
			default:
				return true // a failed assertion to a value type gives a usable zero value
			}
			if id, ok := as.Lhs[0].(*ast.Ident); ok && id.Name != "_" {
				o := info.Defs[id]
				if o == nil {
					o = info.Uses[id]
				}
				if o != nil {
					cands = append(cands, cand{o, as.Pos()})
				}
			}
			return true
		})
		for _, c := range cands {
			tested, escapes := false, token.NoPos
			ast.Inspect(fd.Body, func(n ast.Node) bool {
				switch x := n.(type) {
				case *ast.BinaryExpr:
					if (x.Op == token.EQL || x.Op == token.NEQ) && exprStr(x.Y) == "nil" {
						if id, ok := ast.Unparen(x.X).(*ast.Ident); ok && info.Uses[id] == c.o {
							tested = true
						}
					}
				case *ast.ReturnStmt:
					for _, res := range x.Results {
						if id, ok := ast.Unparen(res).(*ast.Ident); ok && info.Uses[id] == c.o && escapes == token.NoPos {
							escapes = x.Pos()
						}
					}
				case *ast.CallExpr:
					if cal := calleeFunc(info, x); cal != nil && cal.Pkg() != nil && cal.Pkg().Path() == modPath+"/node" {
						for _, a := range x.Args {
							if id, ok := ast.Unparen(a).(*ast.Ident); ok && info.Uses[id] == c.o && escapes == token.NoPos {
								escapes = x.Pos()
							}
						}
					}
				case *ast.KeyValueExpr:
					if id, ok := ast.Unparen(x.Value).(*ast.Ident); ok && info.Uses[id] == c.o && escapes == token.NoPos {
						escapes = x.Pos()
					}
				}
				return true
			})
			if escapes == token.NoPos {
				continue
			}
			key := funcKey(pp, fd) + "#asserted-child:" + c.o.Name()
			if tested {
				r.ok(key, c.pos, "the asserted value is tested for nil before it becomes part of the tree")
			} else {
				r.bad(key, c.pos, "the ok result of this type assertion is discarded and "+c.o.Name()+" (nil when the assertion fails) becomes part of the parsed tree at "+r.pos(escapes)+" without a nil test: an accepted source builds a node with a nil child, which is dereferenced at run time instead of reported as a syntax error")
			}
		}
	}
}

// C01-NIL: operator constructors never store a nil operand.
func c01Nil(r *Run) {
	c01DiscardedOk(r)
	npkg := r.pkg("node")
	if npkg == nil {
		return
	}
	info := npkg.TypesInfo
	declOf := map[*types.Func]*ast.FuncDecl{}
	for _, fd := range funcDecls(npkg) {
		if o, ok := info.Defs[fd.Name].(*types.Func); ok {
			declOf[o] = fd
		}
	}
	// functions that never return nil for a data.GetValue result: every return is &T{…}, a
	// non-nil-guarded parameter, or a call to such a function
	nonNilRet := map[*types.Func]bool{}
	for changed := true; changed; {
		changed = false
		for fn, fd := range declOf {
			if nonNilRet[fn] {
				continue
			}
			sig := fn.Type().(*types.Signature)
			if sig.Results().Len() != 1 || !isNamed(sig.Results().At(0).Type(), modPath+"/data", "GetValue") {
				continue
			}
			if c01ReturnsNonNil(npkg, fd, nonNilRet) {
				nonNilRet[fn] = true
				changed = true
			}
		}
	}
	roots := []string{"NewBinaryExpression", "NewUnaryExpression", "NewTernaryExpression", "NewNullCoalesceExpression", "NewUnaryIncr", "NewUnaryDecr", "NewInstanceOfExpression"}
	for _, name := range roots {
		fn, _ := npkg.Types.Scope().Lookup(name).(*types.Func)
		if fn == nil {
			r.fail("anchor not found: node.%s", name)
			continue
		}
		fd := declOf[fn]
		for _, p := range paramList(fd.Type.Params) {
			if p == nil || !isNamed(info.TypeOf(p), modPath+"/data", "GetValue") {
				continue
			}
			pobj := info.Defs[p]
			key := fmt.Sprintf("node.%s#operand:%s", name, p.Name)
			// every use of the parameter, other than as the argument of a non-nil-returning
			// function or in a nil comparison, must come after it was reassigned from such a call
			normalised := false
			rawUse := ast.Node(nil)
			ast.Inspect(fd.Body, func(n ast.Node) bool {
				switch x := n.(type) {
				case *ast.AssignStmt:
					// p = f(…, p)
					if len(x.Lhs) == 1 && len(x.Rhs) == 1 {
						if id, ok := x.Lhs[0].(*ast.Ident); ok && info.Uses[id] == pobj {
							if c, ok := ast.Unparen(x.Rhs[0]).(*ast.CallExpr); ok {
								if cal, ok := calleeOf(info, c).(*types.Func); ok && nonNilRet[cal] {
									normalised = true
									return false
								}
							}
						}
					}
				case *ast.CallExpr:
					if cal, ok := calleeOf(info, x).(*types.Func); ok && nonNilRet[cal] {
						return false // arguments of the normaliser are fine
					}
				case *ast.BinaryExpr:
					if exprStr(x.Y) == "nil" {
						return false
					}
				case *ast.Ident:
					if info.Uses[x] == pobj && !normalised && rawUse == nil {
						rawUse = x
					}
				}
				return true
			})
			if rawUse == nil {
				r.ok(key, fd.Pos(), "a nil operand is replaced before it is stored (missing operand becomes a catchable error)")
			} else {
				r.bad(key, rawUse.Pos(), fmt.Sprintf("%s stores its %s operand as received: the parser passes nil for a missing operand (e.g. `1 + ;`) and evaluation dereferences it", name, p.Name))
			}
		}
	}
	// operator constructors that do not normalise themselves (NewBinaryAdd, NewBinaryPow, …) rely on
	// NewBinaryExpression: the parser must not call them directly with parse results
	normalising := map[*types.Func]bool{}
	for _, name := range roots {
		if fn, _ := npkg.Types.Scope().Lookup(name).(*types.Func); fn != nil {
			normalising[fn] = true
		}
	}
	raw := map[*types.Func]bool{}
	if be, _ := npkg.Types.Scope().Lookup("NewBinaryExpression").(*types.Func); be != nil {
		ast.Inspect(declOf[be].Body, func(n ast.Node) bool {
			if c, ok := n.(*ast.CallExpr); ok {
				if cal, ok := calleeOf(info, c).(*types.Func); ok && cal.Pkg() == npkg.Types && strings.HasPrefix(cal.Name(), "New") && !normalising[cal] && !nonNilRet[cal] {
					raw[cal] = true
				}
			}
			return true
		})
	}
	r.stat("operator_constructors_relying_on_NewBinaryExpression", len(raw))
	if ppkg := r.pkg("parser"); ppkg != nil {
		nDirect := 0
		for _, fd := range funcDecls(ppkg) {
			ast.Inspect(fd.Body, func(n ast.Node) bool {
				c, ok := n.(*ast.CallExpr)
				if !ok {
					return true
				}
				cal, ok := calleeOf(ppkg.TypesInfo, c).(*types.Func)
				if !ok {
					return true
				}
				// same object across packages: compare by package path and name
				for rc := range raw {
					if cal.Pkg() != nil && cal.Pkg().Path() == rc.Pkg().Path() && cal.Name() == rc.Name() {
						// an argument is risky when it is a variable that received the node result of a
						// parse call in this function and is never compared with nil
						risky := false
						for _, a := range c.Args {
							id, ok := ast.Unparen(a).(*ast.Ident)
							if !ok || !isNamed(ppkg.TypesInfo.TypeOf(a), modPath+"/data", "GetValue") {
								continue
							}
							obj := ppkg.TypesInfo.Uses[id]
							fromParse, nilTested := false, false
							ast.Inspect(fd.Body, func(m ast.Node) bool {
								switch y := m.(type) {
								case *ast.AssignStmt:
									if len(y.Rhs) == 1 && len(y.Lhs) == 2 {
										if pc, ok := ast.Unparen(y.Rhs[0]).(*ast.CallExpr); ok {
											if pcal, ok := calleeOf(ppkg.TypesInfo, pc).(*types.Func); ok {
												if sig, ok := pcal.Type().(*types.Signature); ok && sig.Results().Len() == 2 && isNamed(sig.Results().At(1).Type(), modPath+"/data", "Control") {
													if lid, ok := y.Lhs[0].(*ast.Ident); ok && (ppkg.TypesInfo.Defs[lid] == obj || ppkg.TypesInfo.Uses[lid] == obj) {
														fromParse = true
													}
												}
											}
										}
									}
								case *ast.BinaryExpr:
									if exprStr(y.Y) == "nil" {
										if xid, ok := ast.Unparen(y.X).(*ast.Ident); ok && ppkg.TypesInfo.Uses[xid] == obj {
											nilTested = true
										}
									}
								}
								return true
							})
							if fromParse && !nilTested {
								risky = true
							}
						}
						// a function nobody calls cannot feed a nil operand to anything
						if risky {
							hasCaller := fd.Name.IsExported()
							if fobj, ok := ppkg.TypesInfo.Defs[fd.Name].(*types.Func); ok {
								for _, ofd := range funcDecls(ppkg) {
									ast.Inspect(ofd.Body, func(m ast.Node) bool {
										switch y := m.(type) {
										case *ast.CallExpr:
											if calleeOf(ppkg.TypesInfo, y) == fobj {
												hasCaller = true
											}
										case *ast.SelectorExpr:
											if ppkg.TypesInfo.Uses[y.Sel] == fobj {
												hasCaller = true
											}
										}
										return true
									})
								}
							}
							if !hasCaller {
								risky = false
							}
						}
						if risky {
							nDirect++
							r.bad(fmt.Sprintf("%s#direct:%s", funcKey(ppkg, fd), cal.Name()), c.Pos(), fmt.Sprintf("the parser builds %s directly from parse results, bypassing the nil-operand replacement in NewBinaryExpression", cal.Name()))
						}
					}
				}
				return true
			})
		}
		if nDirect == 0 {
			r.ok("parser#no-direct-operator-constructors", 0, fmt.Sprintf("no parser call site builds one of the %d non-normalising operator nodes directly from a parse result", len(raw)))
		}
	}
	// statement-level nodes whose condition/operand the parser can leave nil (witnessed inputs)
	stmts := []struct{ ctor, param, witness string }{
		{"NewIfStatement", "condition", "if () { echo 1; }"},
		{"NewSwitchStatement", "condition", "switch () {}"},
		{"NewMatchStatement", "condition", "match () {};"},
		{"NewIndexExpression", "index", "echo $a[;"},
	}
	for _, s := range stmts {
		fn, _ := npkg.Types.Scope().Lookup(s.ctor).(*types.Func)
		if fn == nil {
			r.fail("anchor not found: node.%s", s.ctor)
			continue
		}
		fd := declOf[fn]
		key := fmt.Sprintf("node.%s#operand:%s", s.ctor, s.param)
		guarded := false
		ast.Inspect(fd.Body, func(n ast.Node) bool {
			if c, ok := n.(*ast.CallExpr); ok {
				if cal, ok := calleeOf(info, c).(*types.Func); ok && nonNilRet[cal] {
					for _, a := range c.Args {
						if id, ok := ast.Unparen(a).(*ast.Ident); ok && id.Name == s.param {
							guarded = true
						}
					}
				}
			}
			return true
		})
		if guarded {
			r.ok(key, fd.Pos(), "nil operand replaced before it is stored")
		} else {
			r.bad(key, fd.Pos(), fmt.Sprintf("%s stores a nil %s when the source omits it (`%s`) and evaluation dereferences it", s.ctor, s.param, s.witness))
		}
	}
}

func c01ReturnsNonNil(pkg *packages.Package, fd *ast.FuncDecl, known map[*types.Func]bool) bool {
	info := pkg.TypesInfo
	okAll, n := true, 0
	type st struct{ nonNil map[types.Object]bool }
	h := &Hooks{Info: info}
	h.Copy = func(s State) State {
		c := &st{nonNil: map[types.Object]bool{}}
		for k := range s.(*st).nonNil {
			c.nonNil[k] = true
		}
		return c
	}
	h.Join = func(a, b State) State {
		c := &st{nonNil: map[types.Object]bool{}}
		for k := range a.(*st).nonNil {
			if b.(*st).nonNil[k] {
				c.nonNil[k] = true
			}
		}
		return c
	}
	h.Equal = func(a, b State) bool { return len(a.(*st).nonNil) == len(b.(*st).nonNil) }
	h.Cond = func(e ast.Expr, truth bool, s State) State {
		if be, ok := ast.Unparen(e).(*ast.BinaryExpr); ok && exprStr(be.Y) == "nil" {
			if id, ok := ast.Unparen(be.X).(*ast.Ident); ok {
				isNil := (be.Op.String() == "==") == truth
				if !isNil {
					s.(*st).nonNil[info.Uses[id]] = true
				}
			}
		}
		return s
	}
	h.Return = func(rs *ast.ReturnStmt, s State) {
		n++
		if len(rs.Results) != 1 {
			okAll = false
			return
		}
		switch x := ast.Unparen(rs.Results[0]).(type) {
		case *ast.UnaryExpr:
			if _, ok := x.X.(*ast.CompositeLit); ok {
				return
			}
		case *ast.Ident:
			if s.(*st).nonNil[info.Uses[x]] {
				return
			}
		case *ast.CallExpr:
			if cal, ok := calleeOf(info, x).(*types.Func); ok && known[cal] {
				return
			}
		}
		okAll = false
	}
	WalkFunc(h, fd.Body, &st{nonNil: map[types.Object]bool{}})
	return okAll && n > 0
}

// C01-REC: recursion among the parser's functions is depth-guarded.
func c01Rec(r *Run) {
	ppkg := r.pkg("parser")
	if ppkg == nil {
		return
	}
	info := ppkg.TypesInfo
	declOf := map[*types.Func]*ast.FuncDecl{}
	var fns []*types.Func
	for _, fd := range funcDecls(ppkg) {
		if o, ok := info.Defs[fd.Name].(*types.Func); ok {
			declOf[o] = fd
			fns = append(fns, o)
		}
	}
	// call edges: static calls + interface calls to StatementParser.Parse resolved to every implementation
	var stmtParserImpls []*types.Func
	if sp, ok := ppkg.Types.Scope().Lookup("StatementParser").(*types.TypeName); ok {
		if iface, ok := sp.Type().Underlying().(*types.Interface); ok {
			for _, fn := range fns {
				sig := fn.Type().(*types.Signature)
				if sig.Recv() != nil && fn.Name() == "Parse" && types.Implements(sig.Recv().Type(), iface) {
					stmtParserImpls = append(stmtParserImpls, fn)
				}
			}
		}
	}
	// constructor → Parse method of the concrete type it returns (&T{…} in every return)
	ctorParse := map[*types.Func]*types.Func{}
	for fn, fd := range declOf {
		if fd.Recv != nil || fd.Type.Results == nil || len(fd.Type.Results.List) != 1 {
			continue
		}
		var nt *types.Named
		okAll := true
		ast.Inspect(fd.Body, func(n ast.Node) bool {
			rs, ok := n.(*ast.ReturnStmt)
			if !ok || len(rs.Results) != 1 {
				return true
			}
			ue, ok := ast.Unparen(rs.Results[0]).(*ast.UnaryExpr)
			if !ok {
				okAll = false
				return true
			}
			cl, ok := ue.X.(*ast.CompositeLit)
			if !ok {
				okAll = false
				return true
			}
			t := namedOf(info.TypeOf(cl))
			if t == nil || (nt != nil && nt != t) {
				okAll = false
				return true
			}
			nt = t
			return true
		})
		if !okAll || nt == nil {
			continue
		}
		for _, impl := range fns {
			if impl.Name() == "Parse" {
				if sig := impl.Type().(*types.Signature); sig.Recv() != nil && namedOf(sig.Recv().Type()) == nt {
					ctorParse[fn] = impl
				}
			}
		}
	}
	concreteParsers := func(recv ast.Expr, in *ast.FuncDecl) ([]*types.Func, bool) {
		fromCall := func(e ast.Expr) (*types.Func, bool) {
			c, ok := ast.Unparen(e).(*ast.CallExpr)
			if !ok {
				return nil, false
			}
			f, _ := calleeOf(info, c).(*types.Func)
			if f == nil {
				return nil, false
			}
			impl, ok := ctorParse[f]
			return impl, ok
		}
		if impl, ok := fromCall(recv); ok {
			return []*types.Func{impl}, true
		}
		id, ok := ast.Unparen(recv).(*ast.Ident)
		if !ok {
			return nil, false
		}
		obj := info.Uses[id]
		var out []*types.Func
		all, n := true, 0
		ast.Inspect(in.Body, func(m ast.Node) bool {
			as, ok := m.(*ast.AssignStmt)
			if !ok || len(as.Lhs) != len(as.Rhs) {
				return true
			}
			for i, l := range as.Lhs {
				lid, ok := l.(*ast.Ident)
				if !ok || (info.Defs[lid] != obj && info.Uses[lid] != obj) {
					continue
				}
				n++
				if impl, ok := fromCall(as.Rhs[i]); ok {
					out = append(out, impl)
				} else {
					all = false
				}
			}
			return true
		})
		return out, all && n > 0
	}
	edges := map[*types.Func][]*types.Func{}
	for fn, fd := range declOf {
		seen := map[*types.Func]bool{}
		ast.Inspect(fd.Body, func(n ast.Node) bool {
			c, ok := n.(*ast.CallExpr)
			if !ok {
				return true
			}
			cal, _ := calleeOf(info, c).(*types.Func)
			if cal == nil {
				return true
			}
			if cal == fn && c01BoundedLevelCall(info, fd, c) {
				// a level-indexed function calling itself for the next level (f(level+1, …)) with a base
				// case on the level: the depth of this recursion is the number of levels, not of the input
				return true
			}
			if declOf[cal] != nil && !seen[cal] {
				seen[cal] = true
				edges[fn] = append(edges[fn], cal)
			}
			if sig, ok := cal.Type().(*types.Signature); ok && sig.Recv() != nil {
				if _, isIface := sig.Recv().Type().Underlying().(*types.Interface); isIface && cal.Name() == "Parse" {
					// the receiver is a value built by constructors of this package: use their concrete types
					if se, ok := ast.Unparen(c.Fun).(*ast.SelectorExpr); ok {
						if impls, ok := concreteParsers(se.X, fd); ok {
							for _, impl := range impls {
								if !seen[impl] {
									seen[impl] = true
									edges[fn] = append(edges[fn], impl)
								}
							}
							return true
						}
					}
					for _, impl := range stmtParserImpls {
						if !seen[impl] {
							seen[impl] = true
							edges[fn] = append(edges[fn], impl)
						}
					}
				}
			}
			return true
		})
	}
	// Tarjan SCC
	index, low := map[*types.Func]int{}, map[*types.Func]int{}
	onStack := map[*types.Func]bool{}
	var stack []*types.Func
	var sccs [][]*types.Func
	idx := 0
	var strong func(v *types.Func)
	strong = func(v *types.Func) {
		index[v], low[v] = idx, idx
		idx++
		stack = append(stack, v)
		onStack[v] = true
		for _, w := range edges[v] {
			if _, ok := index[w]; !ok {
				strong(w)
				if low[w] < low[v] {
					low[v] = low[w]
				}
			} else if onStack[w] && index[w] < low[v] {
				low[v] = index[w]
			}
		}
		if low[v] == index[v] {
			var comp []*types.Func
			for {
				w := stack[len(stack)-1]
				stack = stack[:len(stack)-1]
				onStack[w] = false
				comp = append(comp, w)
				if w == v {
					break
				}
			}
			selfLoop := false
			for _, w := range edges[v] {
				if w == v {
					selfLoop = true
				}
			}
			if len(comp) > 1 || selfLoop {
				sccs = append(sccs, comp)
			}
		}
	}
	sort.Slice(fns, func(i, j int) bool { return fns[i].Pos() < fns[j].Pos() })
	for _, f := range fns {
		if _, ok := index[f]; !ok {
			strong(f)
		}
	}
	// a depth guard: a function that increments an integer field, compares it with a limit and
	// returns an error control when exceeded; a function is guarded if it is such a guard or calls
	// one and leaves when the guard answers non-nil
	// a depth-guard function: it increments an integer field of its receiver, compares that same
	// field with a limit (>, >=) and has a branch that hands back a non-nil control/error
	// a depth guard: a function that steps an integer counter reachable from its receiver (up or
	// down), compares that counter with a bound and has a rejecting result (non-nil control/error, or false)
	isGuardFn := func(fd *ast.FuncDecl) bool {
		if fd == nil || fd.Body == nil || fd.Type.Results == nil {
			return false
		}
		stepped := map[string]bool{}
		ast.Inspect(fd.Body, func(n ast.Node) bool {
			switch x := n.(type) {
			case *ast.IncDecStmt:
				if se, ok := ast.Unparen(x.X).(*ast.SelectorExpr); ok {
					stepped[exprStr(se)] = true
				}
			case *ast.AssignStmt:
				if (x.Tok == token.ADD_ASSIGN || x.Tok == token.SUB_ASSIGN) && len(x.Lhs) == 1 {
					if se, ok := ast.Unparen(x.Lhs[0]).(*ast.SelectorExpr); ok {
						stepped[exprStr(se)] = true
					}
				}
			}
			return true
		})
		if len(stepped) == 0 {
			return false
		}
		rejects := false
		ast.Inspect(fd.Body, func(n ast.Node) bool {
			is, ok := n.(*ast.IfStmt)
			if !ok {
				return true
			}
			cmp := false
			ast.Inspect(is.Cond, func(m ast.Node) bool {
				be, ok := m.(*ast.BinaryExpr)
				if !ok {
					return true
				}
				switch be.Op {
				case token.GTR, token.GEQ, token.LSS, token.LEQ, token.EQL, token.NEQ:
				default:
					return true
				}
				for _, side := range []ast.Expr{be.X, be.Y} {
					e := ast.Unparen(side)
					if b2, ok := e.(*ast.BinaryExpr); ok && (b2.Op == token.ADD || b2.Op == token.SUB) {
						e = ast.Unparen(b2.X)
					}
					if stepped[exprStr(e)] {
						if t := info.TypeOf(e); t != nil {
							if bt, ok := t.Underlying().(*types.Basic); ok && bt.Info()&types.IsInteger != 0 {
								cmp = true
							}
						}
					}
				}
				return true
			})
			if !cmp {
				return true
			}
			for _, st := range is.Body.List {
				if rs, ok := st.(*ast.ReturnStmt); ok && len(rs.Results) > 0 {
					last := exprStr(rs.Results[len(rs.Results)-1])
					if last != "nil" && last != "true" {
						rejects = true
					}
				}
			}
			return true
		})
		return rejects
	}
	isGuardCall := func(e ast.Expr) bool {
		found := false
		ast.Inspect(e, func(n ast.Node) bool {
			if c, ok := n.(*ast.CallExpr); ok {
				if cal, _ := calleeOf(info, c).(*types.Func); cal != nil && isGuardFn(declOf[cal]) {
					found = true
				}
			}
			return !found
		})
		return found
	}
	isGuard := func(fd *ast.FuncDecl) bool {
		if fd == nil || fd.Body == nil {
			return false
		}
		if isGuardFn(fd) {
			return true
		}
		// x := p.enter(...) … if x != nil { return … }, if !p.take() { return … } (also through the init of the if)
		guardResult := map[types.Object]bool{}
		ast.Inspect(fd.Body, func(n ast.Node) bool {
			as, ok := n.(*ast.AssignStmt)
			if !ok || len(as.Rhs) != 1 || !isGuardCall(as.Rhs[0]) {
				return true
			}
			if _, isCall := ast.Unparen(as.Rhs[0]).(*ast.CallExpr); !isCall {
				return true
			}
			for _, l := range as.Lhs {
				if id, ok := l.(*ast.Ident); ok && id.Name != "_" {
					o := info.Defs[id]
					if o == nil {
						o = info.Uses[id]
					}
					if o != nil {
						guardResult[o] = true
					}
				}
			}
			return true
		})
		found := false
		ast.Inspect(fd.Body, func(n ast.Node) bool {
			is, ok := n.(*ast.IfStmt)
			if !ok {
				return true
			}
			tests := isGuardCall(is.Cond)
			ast.Inspect(is.Cond, func(m ast.Node) bool {
				if id, ok := m.(*ast.Ident); ok && guardResult[info.Uses[id]] {
					tests = true
				}
				return true
			})
			if !tests {
				return true
			}
			for _, st := range is.Body.List {
				if _, ok := st.(*ast.ReturnStmt); ok {
					found = true
				}
			}
			return true
		})
		return found
	}
	r.stat("parser_recursive_components", len(sccs))
	for _, comp := range sccs {
		sort.Slice(comp, func(i, j int) bool { return comp[i].Pos() < comp[j].Pos() })
		guarded := false
		names := []string{}
		for _, f := range comp {
			if len(names) < 4 {
				names = append(names, f.Name())
			}
			if isGuard(declOf[f]) {
				guarded = true
			}
		}
		canon := objKey(comp[0])
		grammar := false
		for _, f := range comp {
			if k := objKey(f); k < canon {
				canon = k
			}
			if sig := f.Type().(*types.Signature); sig.Recv() != nil {
				if nt := namedOf(sig.Recv().Type()); nt != nil && nt.Obj().Name() == "ExpressionParser" {
					grammar = true
				}
			}
		}
		key := fmt.Sprintf("parser#recursive-component:%s", canon)
		if !grammar {
			r.info(key, comp[0].Pos(), fmt.Sprintf("recursive helper component of %d function(s) outside the expression grammar (not judged)", len(comp)))
			continue
		}
		// every cycle must pass a guarded function: the component minus its guarded functions is acyclic
		inComp := map[*types.Func]bool{}
		for _, f := range comp {
			inComp[f] = true
		}
		isG := map[*types.Func]bool{}
		nG := 0
		for _, f := range comp {
			if isGuard(declOf[f]) {
				isG[f] = true
				nG++
			}
		}
		var cyc []string
		color := map[*types.Func]int{}
		var dfs func(f *types.Func, path []*types.Func) bool
		dfs = func(f *types.Func, path []*types.Func) bool {
			color[f] = 1
			path = append(path, f)
			for _, w := range edges[f] {
				if !inComp[w] || isG[w] {
					continue
				}
				if color[w] == 1 {
					start := 0
					for i, pf := range path {
						if pf == w {
							start = i
						}
					}
					for _, pf := range path[start:] {
						cyc = append(cyc, strings.TrimPrefix(objKey(pf), "parser."))
					}
					return true
				}
				if color[w] == 0 && dfs(w, path) {
					return true
				}
			}
			color[f] = 2
			return false
		}
		for _, f := range comp {
			if !isG[f] && color[f] == 0 && dfs(f, nil) {
				break
			}
		}
		_ = guarded
		if len(cyc) == 0 && nG > 0 {
			r.ok(key, comp[0].Pos(), fmt.Sprintf("every cycle of the recursive component (%d functions) passes one of its %d depth-guarded functions", len(comp), nG))
		} else if nG == 0 {
			r.bad(key, comp[0].Pos(), fmt.Sprintf("recursive component of %d functions (%s, …) has no depth guard: deeply nested input overflows the Go stack, which cannot be recovered", len(comp), strings.Join(names, ", ")))
		} else {
			if len(cyc) > 6 {
				cyc = append(cyc[:6], "…")
			}
			r.bad(key, comp[0].Pos(), fmt.Sprintf("a cycle of the recursive component avoids every depth guard: %s → (back): input nested along it overflows the Go stack", strings.Join(cyc, " → ")))
		}
	}
}

// c01BoundedLevelCall: call is a self-call of fd that passes param+K (K a positive constant) for an integer
// parameter, and fd's body starts (among its top-level statements) with an if that compares that parameter
// with a constant (== or >=) and returns — the recursion is bounded by a constant.
func c01BoundedLevelCall(info *types.Info, fd *ast.FuncDecl, call *ast.CallExpr) bool {
	if fd.Type.Params == nil {
		return false
	}
	k := 0
	for _, f := range fd.Type.Params.List {
		for _, nm := range f.Names {
			po := info.Defs[nm]
			idx := k
			k++
			if po == nil || !isIntType(po.Type()) || idx >= len(call.Args) {
				continue
			}
			be, ok := ast.Unparen(call.Args[idx]).(*ast.BinaryExpr)
			if !ok || be.Op != token.ADD {
				continue
			}
			id, ok := ast.Unparen(be.X).(*ast.Ident)
			if !ok || info.Uses[id] != po {
				continue
			}
			tv, ok := info.Types[be.Y]
			if !ok || tv.Value == nil || tv.Value.String() == "0" || strings.HasPrefix(tv.Value.String(), "-") {
				continue
			}
			// base case on the parameter
			for _, st := range fd.Body.List {
				is, ok := st.(*ast.IfStmt)
				if !ok || is.Init != nil {
					continue
				}
				cmp, ok := ast.Unparen(is.Cond).(*ast.BinaryExpr)
				if !ok || (cmp.Op != token.EQL && cmp.Op != token.GEQ && cmp.Op != token.GTR) {
					continue
				}
				cid, ok := ast.Unparen(cmp.X).(*ast.Ident)
				if !ok || info.Uses[cid] != po {
					continue
				}
				if ctv, ok := info.Types[cmp.Y]; !ok || ctv.Value == nil {
					continue
				}
				// every path of the arm leaves without calling fd again
				leaves, recurses := containsReturn(is.Body), false
				ast.Inspect(is.Body, func(n ast.Node) bool {
					if c, ok := n.(*ast.CallExpr); ok && calleeOf(info, c) == info.Defs[fd.Name] {
						recurses = true
					}
					return true
				})
				if leaves && !recurses {
					return true
				}
			}
		}
		if len(f.Names) == 0 {
			k++
		}
	}
	return false
}
