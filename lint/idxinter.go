package main

import (
	"fmt"
	"go/ast"
	"go/constant"
	"go/token"
	"go/types"
	"os"
	"sort"
	"strings"
)

// Interprocedural layer of E-IDX: preconditions proven at call sites, return summaries,
// object invariants (cursor <= len(text)) and monotone cursor fields.

type prePair struct {
	ip, sp  int    // int parameter index, sequence parameter index (-1: captured sequence seqKey)
	seqKey  string // captured sequence term (closures)
	seqName string
	strict  bool
	ints    bool   // sp is another int parameter: parameter ip <= parameter sp (the bounds of a window)
	rfield  string // sp == -2: the sequence is this field of the method's receiver (seqKey is its term inside the method)
}

type invPair struct{ f, s string }

type idxCallObl struct {
	fn   *ast.FuncDecl
	pos  token.Pos
	what string
	ok   bool
}

func paramList(fl *ast.FieldList) []*ast.Ident {
	var out []*ast.Ident
	if fl == nil {
		return nil
	}
	for _, f := range fl.List {
		if len(f.Names) == 0 {
			out = append(out, nil)
		}
		for _, n := range f.Names {
			out = append(out, n)
		}
	}
	return out
}

func (a *idxAnalyzer) setUnit(id types.Object, params *ast.FieldList, fd *ast.FuncDecl) {
	a.curID = id
	if params != nil {
		a.curParams = params.List
	} else {
		a.curParams = nil
	}
	a.curRecv, a.curRecvT = "", nil
	if fd != nil && fd.Recv != nil && len(fd.Recv.List) == 1 && len(fd.Recv.List[0].Names) == 1 {
		rn := fd.Recv.List[0].Names[0]
		if k, ok := a.termKey(rn); ok {
			if _, isPtr := a.info.TypeOf(rn).(*types.Pointer); isPtr {
				a.curRecv = k
				a.curRecvT = namedOf(a.info.TypeOf(rn))
			}
		}
	}
}

func (a *idxAnalyzer) entryZone() *zone {
	z := newZone()
	if a.curID != nil {
		var ps []*ast.Ident
		fl := &ast.FieldList{List: a.curParams}
		ps = paramList(fl)
		for _, pp := range a.pre[a.curID] {
			if pp.ip >= len(ps) || ps[pp.ip] == nil {
				continue
			}
			if pp.ints {
				if pp.sp < len(ps) && ps[pp.sp] != nil {
					ik, ok1 := a.termKey(ps[pp.ip])
					jk, ok2 := a.termKey(ps[pp.sp])
					if ok1 && ok2 {
						z.add(ik, jk, 0)
					}
				}
				continue
			}
			ik, ok1 := a.termKey(ps[pp.ip])
			sk, ok2 := pp.seqKey, pp.seqKey != ""
			if pp.sp >= 0 {
				if pp.sp >= len(ps) || ps[pp.sp] == nil {
					continue
				}
				sk, ok2 = a.termKey(ps[pp.sp])
			}
			if ok1 && ok2 {
				w := 0
				if pp.strict {
					w = -1
				}
				z.add(ik, "len("+sk+")", w)
			}
		}
	}
	// entry snapshots of the integer parameters: entry#p == p at entry (p itself may be advanced later)
	if a.curID != nil {
		fl := &ast.FieldList{List: a.curParams}
		for _, pp := range paramList(fl) {
			if pp == nil || !isIntType(a.info.TypeOf(pp)) {
				continue
			}
			if k, ok := a.termKey(pp); ok {
				z.add("entry#"+k, k, 0)
				z.add(k, "entry#"+k, 0)
			}
		}
	}
	a.assumeInv(z)
	return z
}

// summariseDeltas computes, for every cursor field the method only increases, the least
// advance over all exits, unconditionally and under "field < len(text)" at entry.
func (a *idxAnalyzer) summariseDeltas(fn *types.Func, fd *ast.FuncDecl) {
	if a.curRecvT == nil || len(a.writes[fn]) == 0 {
		return
	}
	res := map[string]fieldDelta{}
	fields := []string{}
	st, _ := a.curRecvT.Underlying().(*types.Struct)
	for f := range a.writes[fn] {
		isInt := false
		if st != nil {
			for i := 0; i < st.NumFields(); i++ {
				if st.Field(i).Name() == f && isIntType(st.Field(i).Type()) {
					isInt = true
				}
			}
		}
		if isInt {
			fields = append(fields, f)
		}
	}
	sort.Strings(fields)
	for _, f := range fields {
		fk := a.curRecv + "." + f
		old := "old#" + f
		minAdvance := func(extra func(z *zone), onlyOK bool) (int, bool) {
			save, saveSites, saveCalls, saveProg := a.retStates, a.sites, a.callObls, a.progress
			a.retStates, a.progress = nil, map[ast.Node]*progSite{}
			z := a.entryZone()
			z.add(old, fk, 0)
			z.add(fk, old, 0)
			if extra != nil {
				extra(z)
			}
			var exits []*zone
			a.exitHook = func(e *zone, rs *ast.ReturnStmt) {
				if onlyOK && rs != nil && len(rs.Results) > 0 {
					if id, ok := ast.Unparen(rs.Results[len(rs.Results)-1]).(*ast.Ident); ok && id.Name == "false" {
						return
					}
				}
				exits = append(exits, e.clone())
			}
			a.walkBody(fd.Body, z)
			a.exitHook = nil
			a.retStates, a.sites, a.callObls, a.progress = save, saveSites, saveCalls, saveProg
			if len(exits) == 0 {
				return 0, false
			}
			best := 1 << 20
			for _, e := range exits {
				e.close()
				w, ok := e.e[[2]string{old, fk}]
				if !ok {
					return 0, false
				}
				if -w < best {
					best = -w
				}
			}
			return best, true
		}
		d := fieldDelta{}
		d.uncond, d.hasU = minAdvance(nil, false)
		if sig := fn.Type().(*types.Signature); sig.Results().Len() >= 2 {
			if b, ok := sig.Results().At(sig.Results().Len() - 1).Type().Underlying().(*types.Basic); ok && b.Kind() == types.Bool {
				for _, p := range a.inv[a.curRecvT] {
					if p.f == f && !a.invBad[a.curRecvT.Obj().Name()+"."+p.f+"<="+p.s] {
						if c, ok := minAdvance(func(z *zone) {}, true); ok && c > d.okD {
							d.okD, d.hasOK = c, true
						}
					}
				}
			}
		}
		for _, p := range a.inv[a.curRecvT] {
			if p.f != f || a.invBad[a.curRecvT.Obj().Name()+"."+p.f+"<="+p.s] {
				continue
			}
			c, ok := minAdvance(func(z *zone) { z.add(fk, "len("+a.curRecv+"."+p.s+")", -1) }, false)
			if ok && (!d.hasC || c > d.cond) {
				d.cond, d.hasC, d.condSeq = c, true, p.s
			}
		}
		res[f] = d
	}
	a.delta[fn] = res
}

func (a *idxAnalyzer) assumeInv(z *zone) {
	if a.curRecvT == nil {
		return
	}
	for _, p := range a.inv[a.curRecvT] {
		if a.invBad[a.curRecvT.Obj().Name()+"."+p.f+"<="+p.s] {
			continue
		}
		if idxDebug == "inv" && a.final {
			fmt.Printf("IDXDEBUG inv-assumed %s.%s<=len(%s)\n", a.curRecvT.Obj().Name(), p.f, p.s)
		}
		z.add(a.curRecv+"."+p.f, "len("+a.curRecv+"."+p.s+")", 0)
	}
}

func (a *idxAnalyzer) checkInvAtExit(z *zone) {
	if a.curRecvT == nil {
		return
	}
	for _, p := range a.inv[a.curRecvT] {
		k := a.curRecvT.Obj().Name() + "." + p.f + "<=" + p.s
		if a.invBad[k] {
			continue
		}
		if !z.le(a.curRecv+"."+p.f, "len("+a.curRecv+"."+p.s+")", 0) {
			a.invBad[k] = true
		}
	}
}

// sameRecvCall handles a call to a method on the current receiver: the callee assumes and
// re-establishes the object invariants; monotone cursor fields only grow.
func (a *idxAnalyzer) sameRecvCall(z *zone, call *ast.CallExpr) bool {
	if a.curRecvT == nil {
		return false
	}
	se, ok := ast.Unparen(call.Fun).(*ast.SelectorExpr)
	if !ok {
		return false
	}
	rk, ok := a.termKey(se.X)
	if !ok || rk != a.curRecv {
		return false
	}
	callee, _ := calleeOf(a.info, call).(*types.Func)
	if callee == nil || a.declOf[callee] == nil {
		return false
	}
	sig := callee.Type().(*types.Signature)
	if sig.Recv() == nil || namedOf(sig.Recv().Type()) != a.curRecvT {
		return false
	}
	if _, isPtr := sig.Recv().Type().(*types.Pointer); !isPtr {
		return true // value receiver: cannot change the object
	}
	// invariants must hold when the callee starts
	a.checkInvAtExit(z)
	w, known := a.writes[callee]
	for _, arg := range call.Args {
		if u, ok := ast.Unparen(arg).(*ast.UnaryExpr); ok && u.Op == token.AND {
			if k, ok := a.termKey(u.X); ok {
				z.forget(k)
			}
		}
	}
	if !known {
		if idxDebug != "" {
			fmt.Printf("IDXDEBUG unknown-writes callee %s at %s\n", callee.Name(), a.r.pos(call.Pos()))
		}
		a.forgetFields(z, rk, nil)
	} else {
		fs := []string{}
		for f := range w {
			fs = append(fs, f)
		}
		sort.Strings(fs)
		for _, f := range fs {
			effMono := a.mono[callee][f]
			if d, ok := a.delta[callee][f]; ok && d.hasU && d.uncond >= 0 {
				effMono = true // every exit leaves the field at or beyond its entry value (e.g. backtracking restores it)
			}
			if effMono {
				if d, ok := a.delta[callee][f]; ok && d.hasOK && d.okD > 0 {
					pre := fmt.Sprintf("pre#%d:%s", call.Pos(), f)
					z.forget(pre)
					z.neg[pre] = z.neg[rk+"."+f]
					z.add(pre, rk+"."+f, 0)
					z.add(rk+"."+f, pre, 0)
				}
				by := 0
				if d, ok := a.delta[callee][f]; ok {
					if d.hasU && d.uncond > by {
						by = d.uncond
					}
					if d.hasC && d.cond > by && z.le(rk+"."+f, "len("+rk+"."+d.condSeq+")", -1) {
						by = d.cond
					}
				}
				if idxDebug != "" && strings.Contains(a.r.pos(call.Pos()), idxDebug) {
					fmt.Printf("IDXDEBUG samerecv %s %s.%s by=%d delta=%+v lt=%v\n", a.r.pos(call.Pos()), callee.Name(), f, by, a.delta[callee][f], z.le(rk+"."+f, "len("+rk+".input)", -1))
				}
				z.grow(rk+"."+f, by)
				if idxDebug != "" && strings.Contains(a.r.pos(call.Pos()), idxDebug) && f == "pos" {
					fmt.Printf("   after grow: %s\n", z.dump())
				}
			} else {
				if idxDebug != "" && f == "pos" {
					fmt.Printf("IDXDEBUG non-mono pos: callee %s at %s\n", callee.Name(), a.r.pos(call.Pos()))
				}
				z.forget(rk + "." + f)
			}
		}
	}
	a.assumeInv(z)
	return true
}

// computeInvariants proposes, for every struct type with an integer cursor field and a text
// field, the invariant cursor <= len(text), and the monotone-field summaries.
func (a *idxAnalyzer) computeInvariants() {
	scope := a.pkg.Types.Scope()
	fieldWrittenOutside := map[*types.Var]bool{}
	for fn, fd := range a.declOf {
		var recvT *types.Named
		if sig, ok := fn.Type().(*types.Signature); ok && sig.Recv() != nil {
			recvT = namedOf(sig.Recv().Type())
		}
		mark := func(e ast.Expr) {
			for {
				switch x := ast.Unparen(e).(type) {
				case *ast.IndexExpr:
					e = x.X
					continue
				case *ast.SelectorExpr:
					if s, ok := a.info.Selections[x]; ok && s.Kind() == types.FieldVal {
						if v, ok := s.Obj().(*types.Var); ok {
							owner := namedOf(s.Recv())
							if owner == nil || owner != recvT {
								fieldWrittenOutside[v] = true
							}
						}
					}
				}
				return
			}
		}
		ast.Inspect(fd.Body, func(n ast.Node) bool {
			switch x := n.(type) {
			case *ast.AssignStmt:
				for _, l := range x.Lhs {
					mark(l)
				}
			case *ast.IncDecStmt:
				mark(x.X)
			case *ast.UnaryExpr:
				if x.Op == token.AND {
					mark(x.X)
				}
			}
			return true
		})
	}
	for _, name := range scope.Names() {
		tn, ok := scope.Lookup(name).(*types.TypeName)
		if !ok {
			continue
		}
		nt, ok := tn.Type().(*types.Named)
		if !ok {
			continue
		}
		st, ok := nt.Underlying().(*types.Struct)
		if !ok {
			continue
		}
		var ints, seqs []*types.Var
		for i := 0; i < st.NumFields(); i++ {
			f := st.Field(i)
			if f.Exported() || fieldWrittenOutside[f] {
				continue
			}
			if isIntType(f.Type()) {
				ints = append(ints, f)
			} else if a.track(f.Type()) {
				seqs = append(seqs, f)
			}
		}
		for _, i := range ints {
			for _, s := range seqs {
				a.inv[nt] = append(a.inv[nt], invPair{i.Name(), s.Name()})
			}
		}
	}
	// base case: a value built by a composite literal starts with whatever the literal says — the invariant
	// f <= len(s) holds for it only when the literal leaves f zero (or sets it to the constant 0)
	for _, file := range a.pkg.Syntax {
		ast.Inspect(file, func(n ast.Node) bool {
			cl, ok := n.(*ast.CompositeLit)
			if !ok {
				return true
			}
			nt := namedOf(a.info.TypeOf(cl))
			if nt == nil || len(a.inv[nt]) == 0 {
				return true
			}
			st, ok := nt.Underlying().(*types.Struct)
			if !ok {
				return true
			}
			isZero := func(e ast.Expr) bool {
				tv, ok := a.info.Types[e]
				if !ok || tv.Value == nil || tv.Value.Kind() != constant.Int {
					return false
				}
				v, exact := constant.Int64Val(tv.Value)
				return exact && v == 0
			}
			for i, el := range cl.Elts {
				fname, val := "", el
				if kv, ok := el.(*ast.KeyValueExpr); ok {
					if id, ok := kv.Key.(*ast.Ident); ok {
						fname, val = id.Name, kv.Value
					}
				} else if i < st.NumFields() {
					fname = st.Field(i).Name()
				}
				if fname == "" || isZero(val) {
					continue
				}
				for _, p := range a.inv[nt] {
					if p.f == fname {
						a.invBad[nt.Obj().Name()+"."+p.f+"<="+p.s] = true
					}
				}
			}
			return true
		})
	}
	// monotone: every write of recv.f in the method is ++ or += (no subtraction), transitively
	type wr struct{ nonMono map[string]bool }
	direct := map[*types.Func]*wr{}
	calls := map[*types.Func][]*types.Func{}
	for fn, fd := range a.declOf {
		if fd.Recv == nil || len(fd.Recv.List) == 0 || len(fd.Recv.List[0].Names) == 0 {
			continue
		}
		recvObj := a.info.Defs[fd.Recv.List[0].Names[0]]
		w := &wr{nonMono: map[string]bool{}}
		fieldOfRecv := func(e ast.Expr) string {
			if se, ok := ast.Unparen(e).(*ast.SelectorExpr); ok {
				if id, ok := ast.Unparen(se.X).(*ast.Ident); ok && a.info.Uses[id] == recvObj {
					return se.Sel.Name
				}
			}
			return ""
		}
		ast.Inspect(fd.Body, func(n ast.Node) bool {
			switch x := n.(type) {
			case *ast.AssignStmt:
				for _, l := range x.Lhs {
					if f := fieldOfRecv(l); f != "" {
						okInc := false
						if x.Tok == token.ADD_ASSIGN && len(x.Rhs) == 1 {
							okInc = true
							ast.Inspect(x.Rhs[0], func(m ast.Node) bool {
								switch y := m.(type) {
								case *ast.BinaryExpr:
									if y.Op == token.SUB {
										okInc = false
									}
								case *ast.UnaryExpr:
									if y.Op == token.SUB {
										okInc = false
									}
								}
								return true
							})
						}
						if !okInc {
							w.nonMono[f] = true
						}
					}
				}
			case *ast.IncDecStmt:
				if f := fieldOfRecv(x.X); f != "" && x.Tok == token.DEC {
					w.nonMono[f] = true
				}
			case *ast.UnaryExpr:
				if x.Op == token.AND {
					if f := fieldOfRecv(x.X); f != "" {
						w.nonMono[f] = true
					}
				}
			case *ast.CallExpr:
				if se, ok := ast.Unparen(x.Fun).(*ast.SelectorExpr); ok {
					if id, ok := ast.Unparen(se.X).(*ast.Ident); ok && a.info.Uses[id] == recvObj {
						if cal, ok := calleeOf(a.info, x).(*types.Func); ok {
							calls[fn] = append(calls[fn], cal)
						}
					}
				}
			}
			return true
		})
		direct[fn] = w
	}
	for changed := true; changed; {
		changed = false
		for fn, cs := range calls {
			for _, c := range cs {
				if cw, ok := direct[c]; ok {
					for f := range cw.nonMono {
						if !direct[fn].nonMono[f] {
							direct[fn].nonMono[f] = true
							changed = true
						}
					}
				}
			}
		}
	}
	for fn, w := range direct {
		m := map[string]bool{}
		for f := range a.writes[fn] {
			if !w.nonMono[f] {
				m[f] = true
			}
		}
		a.mono[fn] = m
	}
	// length-preserving string functions:  b := []byte(s); b[i] = …; return string(b)
	for fn, fd := range a.declOf {
		sig := fn.Type().(*types.Signature)
		if sig.Params().Len() != 1 || sig.Results().Len() != 1 {
			continue
		}
		if b, ok := sig.Params().At(0).Type().Underlying().(*types.Basic); !ok || b.Info()&types.IsString == 0 {
			continue
		}
		if b, ok := sig.Results().At(0).Type().Underlying().(*types.Basic); !ok || b.Info()&types.IsString == 0 {
			continue
		}
		var buf types.Object
		okShape := true
		nret := 0
		ast.Inspect(fd.Body, func(n ast.Node) bool {
			switch x := n.(type) {
			case *ast.AssignStmt:
				for i, l := range x.Lhs {
					id, isId := l.(*ast.Ident)
					if !isId {
						if ix, ok := l.(*ast.IndexExpr); ok {
							if bid, ok := ast.Unparen(ix.X).(*ast.Ident); ok && buf != nil && a.info.Uses[bid] == buf {
								continue // element store keeps the length
							}
						}
						continue
					}
					o := a.info.Defs[id]
					if o == nil {
						o = a.info.Uses[id]
					}
					if i < len(x.Rhs) {
						if c, ok := ast.Unparen(x.Rhs[i]).(*ast.CallExpr); ok && len(c.Args) == 1 {
							if tv, ok := a.info.Types[c.Fun]; ok && tv.IsType() {
								if sl, ok := tv.Type.Underlying().(*types.Slice); ok {
									if bb, ok := sl.Elem().Underlying().(*types.Basic); ok && bb.Kind() == types.Byte {
										if pid, ok := ast.Unparen(c.Args[0]).(*ast.Ident); ok && a.info.Uses[pid] == sig.Params().At(0) && buf == nil {
											buf = o
											continue
										}
									}
								}
							}
						}
					}
					if o == buf {
						okShape = false // buffer reassigned (append, reslice)
					}
				}
			case *ast.ReturnStmt:
				nret++
				if len(x.Results) != 1 {
					okShape = false
					return true
				}
				c, ok := ast.Unparen(x.Results[0]).(*ast.CallExpr)
				if !ok || len(c.Args) != 1 {
					// returning the parameter itself also keeps the length
					if id, ok := ast.Unparen(x.Results[0]).(*ast.Ident); ok && a.info.Uses[id] == sig.Params().At(0) {
						return true
					}
					okShape = false
					return true
				}
				tv, ok := a.info.Types[c.Fun]
				id, isId := ast.Unparen(c.Args[0]).(*ast.Ident)
				if !ok || !tv.IsType() || !isId || buf == nil || a.info.Uses[id] != buf {
					okShape = false
				}
			}
			return true
		})
		if okShape && buf != nil && nret > 0 {
			a.lenKeep[fn] = true
		}
	}
}

// checkCallPre proves the callee's assumed preconditions with the actual arguments.
func (a *idxAnalyzer) checkCallPre(z *zone, call *ast.CallExpr) {
	var id types.Object
	switch f := ast.Unparen(call.Fun).(type) {
	case *ast.Ident:
		id = a.info.Uses[f]
	case *ast.SelectorExpr:
		if s, ok := a.info.Selections[f]; ok {
			id = s.Obj()
		} else {
			id = a.info.Uses[f.Sel]
		}
	}
	if id == nil {
		return
	}
	pps := a.pre[id]
	if len(pps) == 0 {
		return
	}
	for _, pp := range pps {
		if pp.ip >= len(call.Args) || pp.sp >= len(call.Args) {
			continue
		}
		if pp.sp == -2 {
			sk, ok0 := a.recvSeqAtCall(call, pp.rfield)
			il, ok1 := a.lin(call.Args[pp.ip])
			w := 0
			rel := "<="
			if pp.strict {
				w, rel = -1, "<"
			}
			ok := ok0 && ok1 && a.proveLE(z, linSub(il, a.lenLin(sk)), w)
			what := fmt.Sprintf("%s(…): argument %s %s len(receiver.%s)", id.Name(), exprStr(call.Args[pp.ip]), rel, pp.rfield)
			dup := false
			for i := range a.callObls {
				if a.callObls[i].pos == call.Pos() && a.callObls[i].what == what {
					dup = true
					if !ok {
						a.callObls[i].ok = false
					}
				}
			}
			if !dup {
				a.callObls = append(a.callObls, idxCallObl{fn: a.curFn, pos: call.Pos(), what: what, ok: ok})
			}
			continue
		}
		if pp.ints {
			il, ok1 := a.lin(call.Args[pp.ip])
			jl, ok2 := a.lin(call.Args[pp.sp])
			ok := ok1 && ok2 && a.proveLE(z, linSub(il, jl), 0)
			what := fmt.Sprintf("%s(…): argument %s <= argument %s", id.Name(), exprStr(call.Args[pp.ip]), exprStr(call.Args[pp.sp]))
			dup := false
			for i := range a.callObls {
				if a.callObls[i].pos == call.Pos() && a.callObls[i].what == what {
					dup = true
					if !ok {
						a.callObls[i].ok = false
					}
				}
			}
			if !dup {
				a.callObls = append(a.callObls, idxCallObl{fn: a.curFn, pos: call.Pos(), what: what, ok: ok})
			}
			if idxDebug != "" && !ok && strings.Contains(a.r.pos(call.Pos()), idxDebug) {
				fmt.Printf("IDXDEBUG call %s %s\n   %s\n", a.r.pos(call.Pos()), what, z.dump())
			}
			continue
		}
		il, ok1 := a.lin(call.Args[pp.ip])
		var sl *linExpr
		seqName := pp.seqName
		if pp.sp >= 0 {
			sl = a.seqLenOf(z, call.Args[pp.sp])
			seqName = exprStr(call.Args[pp.sp])
		} else {
			sl = a.lenLin(pp.seqKey)
		}
		w := 0
		rel := "<="
		if pp.strict {
			w = -1
			rel = "<"
		}
		ok := ok1 && sl != nil && a.proveLE(z, linSub(il, sl), w)
		what := fmt.Sprintf("%s(…): argument %s %s len(%s)", id.Name(), exprStr(call.Args[pp.ip]), rel, seqName)
		dup := false
		for i := range a.callObls {
			if a.callObls[i].pos == call.Pos() && a.callObls[i].what == what {
				dup = true
				if !ok {
					a.callObls[i].ok = false
				}
			}
		}
		if !dup {
			a.callObls = append(a.callObls, idxCallObl{fn: a.curFn, pos: call.Pos(), what: what, ok: ok})
		}
		if idxDebug != "" && !ok && strings.Contains(a.r.pos(call.Pos()), idxDebug) {
			fmt.Printf("IDXDEBUG call %s %s\n   %s\n", a.r.pos(call.Pos()), what, z.dump())
		}
	}
}

// capturedSeqs lists the tracked sequence variables a closure uses but does not declare.
func (a *idxAnalyzer) capturedSeqs(lit *ast.FuncLit) map[string]string {
	out := map[string]string{}
	ast.Inspect(lit.Body, func(n ast.Node) bool {
		id, ok := n.(*ast.Ident)
		if !ok {
			return true
		}
		v, ok := a.info.Uses[id].(*types.Var)
		if !ok || !a.track(v.Type()) || v.IsField() {
			return true
		}
		if v.Pos() >= lit.Pos() && v.Pos() <= lit.End() {
			return true
		}
		if k, ok := a.termKey(id); ok {
			out[k] = id.Name
		}
		return true
	})
	return out
}

// summariseUnit derives return facts  result_i <= len(param_j | captured text)  from the states
// at the returns; a return that forwards a call (return f(x, y)) inherits the callee's facts.
func (a *idxAnalyzer) summariseUnit(id types.Object, sig *types.Signature, ft *ast.FuncType, body *ast.BlockStmt) {
	if sig.Results().Len() == 0 || len(a.retStates) == 0 {
		delete(a.retLE, id)
		return
	}
	ps := paramList(ft.Params)
	a.summarisePredicate(id, sig, ps, body)
	var named []*ast.Ident
	if ft.Results != nil {
		named = paramList(ft.Results)
	}
	type cand struct {
		param  int
		seqKey string
	}
	var cands []cand
	for pj, p := range ps {
		if p == nil || !a.track(a.info.TypeOf(p)) {
			continue
		}
		if sk, ok := a.termKey(p); ok {
			cands = append(cands, cand{pj, sk})
		}
	}
	if lit := a.litOf[id]; lit != nil {
		cs := a.capturedSeqs(lit)
		ks := []string{}
		for k := range cs {
			ks = append(ks, k)
		}
		sort.Strings(ks)
		for _, k := range ks {
			cands = append(cands, cand{-1, k})
		}
	}
	rfieldOf := map[string]string{}
	if f, ok := id.(*types.Func); ok {
		for _, rf := range a.recvSeqFields(a.declOf[f]) {
			cands = append(cands, cand{-2, rf[0]})
			rfieldOf[rf[0]] = rf[1]
		}
	}
	var facts []retFact
	okIdx := -1
	if n := sig.Results().Len(); n >= 2 {
		if b, ok := sig.Results().At(n - 1).Type().Underlying().(*types.Basic); ok && b.Kind() == types.Bool {
			okIdx = n - 1
		}
	}
	for ri := 0; ri < sig.Results().Len(); ri++ {
		if !isIntType(sig.Results().At(ri).Type()) {
			continue
		}
		for _, cd := range cands {
			conds := []int{-1}
			if okIdx >= 0 {
				conds = append(conds, okIdx)
			}
			for _, cond := range conds {
				already := false
				for _, f := range facts {
					if f.res == ri && f.param == cd.param && f.seqKey == cd.seqKey && f.whenOK == -1 {
						already = true
					}
				}
				if already {
					continue
				}
				all := true
				for _, rc := range a.retStates {
					if cond >= 0 && len(rc.rs.Results) == sig.Results().Len() {
						if id, ok := ast.Unparen(rc.rs.Results[cond]).(*ast.Ident); ok && id.Name == "false" {
							continue // the fact is only claimed when the ok result is true
						}
					}
					var e ast.Expr
					switch {
					case len(rc.rs.Results) == sig.Results().Len():
						e = rc.rs.Results[ri]
					case len(rc.rs.Results) == 0 && ri < len(named) && named[ri] != nil:
						e = named[ri]
					case len(rc.rs.Results) == 1 && sig.Results().Len() > 1:
						// return f(args): forwarded call
						call, ok := ast.Unparen(rc.rs.Results[0]).(*ast.CallExpr)
						if !ok {
							all = false
							break
						}
						if !a.forwardedFact(rc.z, call, ri, cd.seqKey, cond) {
							all = false
						}
						continue
					default:
						all = false
					}
					if !all {
						break
					}
					if e == nil {
						all = false
						break
					}
					l, ok := a.lin(e)
					if !ok || !a.proveLE(rc.z, linSub(l, a.lenLin(cd.seqKey)), 0) {
						if idxDebug != "" && strings.Contains(id.Name(), idxDebug) {
							fmt.Printf("IDXDEBUG summary-fail %s ret@%s res=%s seq=%s\n   %s\n", id.Name(), a.r.pos(rc.rs.Pos()), exprStr(e), cd.seqKey, rc.z.dump())
						}
						all = false
						break
					}
				}
				if all {
					facts = append(facts, retFact{res: ri, param: cd.param, seqKey: cd.seqKey, w: 0, lenOf: true, whenOK: cond, rfield: rfieldOf[cd.seqKey]})
				}
			}
		}
	}
	// res >= param for integer parameters the function never assigns (forward-only scanners)
	assigned := map[string]bool{}
	ast.Inspect(body, func(n ast.Node) bool {
		switch x := n.(type) {
		case *ast.AssignStmt:
			for _, l := range x.Lhs {
				if id, ok := l.(*ast.Ident); ok {
					assigned[id.Name] = true
				}
			}
		case *ast.IncDecStmt:
			if id, ok := x.X.(*ast.Ident); ok {
				assigned[id.Name] = true
			}
		case *ast.UnaryExpr:
			if x.Op == token.AND {
				if id, ok := x.X.(*ast.Ident); ok {
					assigned[id.Name] = true
				}
			}
		}
		return true
	})
	for ri := 0; ri < sig.Results().Len(); ri++ {
		if !isIntType(sig.Results().At(ri).Type()) {
			continue
		}
		for pj, p := range ps {
			if p == nil || !isIntType(a.info.TypeOf(p)) {
				continue
			}
			pk, okk := a.termKey(p)
			if !okk {
				continue
			}
			_ = assigned
			// unconditionally, or only when a boolean result answers true (returns whose ok result is the
			// literal false are then not claimed); a return that forwards a call inherits the callee's fact
			// when the argument in the callee's slot is itself at or above the parameter's entry value
			conds := []int{-1}
			for ci := 0; ci < sig.Results().Len(); ci++ {
				if b, ok := sig.Results().At(ci).Type().Underlying().(*types.Basic); ok && b.Kind() == types.Bool {
					conds = append(conds, ci)
				}
			}
			for _, cond := range conds {
				all := len(a.retStates) > 0
				claimed := 0
				for _, rc := range a.retStates {
					lp := &linExpr{t: map[string]int{"entry#" + pk: 1}}
					if len(rc.rs.Results) == 1 && sig.Results().Len() > 1 {
						call, ok := ast.Unparen(rc.rs.Results[0]).(*ast.CallExpr)
						if !ok || !a.forwardedGE(rc.z, call, ri, lp, cond) {
							all = false
							break
						}
						claimed++
						continue
					}
					if len(rc.rs.Results) != sig.Results().Len() {
						all = false
						break
					}
					if cond >= 0 {
						if id, ok := ast.Unparen(rc.rs.Results[cond]).(*ast.Ident); ok && id.Name == "false" {
							continue
						}
					}
					lr, ok1 := a.lin(rc.rs.Results[ri])
					if !ok1 || !a.proveLE(rc.z, linSub(lp, lr), 0) {
						if idxDebug != "" && strings.Contains(id.Name(), idxDebug) {
							fmt.Printf("IDXDEBUG ge-fail %s cond=%d ret@%s res=%s lin=%v\n   %s\n", id.Name(), cond, a.r.pos(rc.rs.Pos()), exprStr(rc.rs.Results[ri]), ok1, rc.z.dump())
						}
						all = false
						break
					}
					claimed++
				}
				if all && claimed > 0 {
					facts = append(facts, retFact{res: ri, param: pj, geParam: true, whenOK: cond})
					break
				}
			}
		}
	}
	if idxDebug != "" && strings.Contains(id.Name(), idxDebug) {
		fmt.Printf("IDXDEBUG unit-summary %s final=%v facts=%+v\n", id.Name(), a.final, facts)
	}
	if len(facts) > 0 {
		a.retLE[id] = facts
	} else {
		delete(a.retLE, id)
	}
}

// forwardedFact: does result ri of the call satisfy  res <= len(seqKey)  by the callee's summary?
func (a *idxAnalyzer) forwardedFact(z *zone, call *ast.CallExpr, ri int, seqKey string, cond int) bool {
	var id types.Object
	switch f := ast.Unparen(call.Fun).(type) {
	case *ast.Ident:
		id = a.info.Uses[f]
	case *ast.SelectorExpr:
		if sel, ok := a.info.Selections[f]; ok {
			id = sel.Obj()
		} else {
			id = a.info.Uses[f.Sel]
		}
	}
	for _, f := range a.retLE[id] {
		if f.res != ri || !f.lenOf || (f.whenOK >= 0 && f.whenOK != cond) {
			continue
		}
		if f.param == -2 {
			if sk, ok := a.recvSeqAtCall(call, f.rfield); ok && a.proveLE(z, linSub(a.lenLin(sk), a.lenLin(seqKey)), 0) {
				return true
			}
			continue
		}
		if f.param < 0 {
			if f.seqKey == seqKey {
				return true
			}
			continue
		}
		if f.param < len(call.Args) {
			if sl := a.seqLenOf(z, call.Args[f.param]); sl != nil {
				if a.proveLE(z, linSub(sl, a.lenLin(seqKey)), 0) {
					return true
				}
			}
		}
	}
	return false
}

// summarisePredicate: for a function with one boolean result, the length lower bounds of sequences named
// from a parameter (the parameter itself, a field, a pure getter read) that hold at every return which can
// answer true, after assuming the returned expression.
func (a *idxAnalyzer) summarisePredicate(id types.Object, sig *types.Signature, ps []*ast.Ident, body *ast.BlockStmt) {
	if a.predTrue == nil {
		a.predTrue = map[types.Object][]predFact{}
	}
	delete(a.predTrue, id)
	if sig.Results().Len() != 1 {
		return
	}
	if b, ok := sig.Results().At(0).Type().Underlying().(*types.Basic); !ok || b.Kind() != types.Bool {
		return
	}
	type cand struct {
		param  int
		suffix string
	}
	// a parameter the body assigns or takes the address of no longer names the caller's argument
	reassigned := map[types.Object]bool{}
	ast.Inspect(body, func(n ast.Node) bool {
		mark := func(e ast.Expr) {
			if id, ok := ast.Unparen(e).(*ast.Ident); ok {
				reassigned[a.info.ObjectOf(id)] = true
			}
		}
		switch x := n.(type) {
		case *ast.AssignStmt:
			for _, l := range x.Lhs {
				mark(l)
			}
		case *ast.IncDecStmt:
			mark(x.X)
		case *ast.UnaryExpr:
			if x.Op == token.AND {
				mark(x.X)
			}
		case *ast.RangeStmt:
			if x.Key != nil {
				mark(x.Key)
			}
			if x.Value != nil {
				mark(x.Value)
			}
		}
		return true
	})
	var best map[cand]int
	for _, rc := range a.retStates {
		if len(rc.rs.Results) != 1 {
			return // named result: not summarised
		}
		if tv, ok := a.info.Types[rc.rs.Results[0]]; ok && tv.Value != nil {
			if tv.Value.Kind() == constant.Bool && !constant.BoolVal(tv.Value) {
				continue
			}
		}
		z := rc.z.clone()
		a.refineBool(z, rc.rs.Results[0], true)
		if z.inconsistent() {
			continue
		}
		if idxDebug != "" && strings.Contains(id.Name(), idxDebug) {
			fmt.Printf("IDXDEBUG predicate-return %s %s\n   %s\n", id.Name(), exprStr(rc.rs.Results[0]), z.dump())
		}
		here := map[cand]int{}
		for pj, p := range ps {
			if p == nil {
				continue
			}
			pk, ok := a.termKey(p)
			if !ok {
				continue
			}
			if reassigned[a.info.Defs[p]] {
				continue
			}
			for _, t := range z.terms() {
				if !strings.HasPrefix(t, "len("+pk) || !strings.HasSuffix(t, ")") || strings.Contains(t, "+") {
					continue
				}
				suffix := t[len("len(")+len(pk) : len(t)-1]
				if suffix != "" && suffix[0] != '.' {
					continue
				}
				n := 0
				for c := 1; c <= 8 && z.le(zeroTerm, t, -c); c++ {
					n = c
				}
				if n > 0 {
					here[cand{pj, suffix}] = n
				}
			}
		}
		if best == nil {
			best = here
			continue
		}
		for k, v := range best {
			if w, ok := here[k]; !ok {
				delete(best, k)
			} else if w < v {
				best[k] = w
			}
		}
	}
	var out []predFact
	for k, v := range best {
		out = append(out, predFact{param: k.param, suffix: k.suffix, min: v})
	}
	sort.Slice(out, func(i, j int) bool {
		if out[i].param != out[j].param {
			return out[i].param < out[j].param
		}
		return out[i].suffix < out[j].suffix
	})
	if idxDebug != "" && strings.Contains(id.Name(), idxDebug) {
		fmt.Printf("IDXDEBUG predicate-summary %s facts=%+v\n", id.Name(), out)
	}
	if len(out) > 0 {
		a.predTrue[id] = out
	}
}

// refineBool assumes a boolean expression outside a branch condition (the flow engine splits those itself):
// conjunctions when true, disjunctions when false, negation.
func (a *idxAnalyzer) refineBool(z *zone, e ast.Expr, truth bool) {
	switch x := ast.Unparen(e).(type) {
	case *ast.UnaryExpr:
		if x.Op == token.NOT {
			a.refineBool(z, x.X, !truth)
			return
		}
	case *ast.BinaryExpr:
		if (x.Op == token.LAND && truth) || (x.Op == token.LOR && !truth) {
			a.refineBool(z, x.X, truth)
			a.refineBool(z, x.Y, truth)
			return
		}
		if x.Op == token.LAND || x.Op == token.LOR {
			return
		}
	}
	a.refine(z, e, truth)
}

func (a *idxAnalyzer) retSig() string {
	var ks []string
	for id, fs := range a.predTrue {
		ks = append(ks, fmt.Sprintf("pred:%s@%d:%v", id.Name(), id.Pos(), fs))
	}
	for id, fs := range a.retLE {
		ks = append(ks, fmt.Sprintf("%s@%d:%v", id.Name(), id.Pos(), fs))
	}
	sort.Strings(ks)
	return strings.Join(ks, ";")
}

// runAll analyses every function to a fixpoint of preconditions, return summaries and invariants.
func (a *idxAnalyzer) runAll(fds []*ast.FuncDecl) {
	a.computeInvariants()
	tabs := a.collectFuncTables()
	// mutually recursive decoders (a value reader that calls the group reader that calls the value reader)
	// have return facts that hold only together: start from the candidate "int result <= len(sequence
	// parameter)" facts of every function that takes part in a call cycle and let the rounds strike out
	// what cannot be shown under the others (greatest fixpoint; sound for every call that returns)
	for _, fd := range a.recursiveFuncs(fds) {
		id, ok := a.info.Defs[fd.Name].(*types.Func)
		if !ok || len(a.retLE[id]) > 0 {
			continue
		}
		sig := id.Type().(*types.Signature)
		ps := paramList(fd.Type.Params)
		var seed []retFact
		for ri := 0; ri < sig.Results().Len(); ri++ {
			if !isIntType(sig.Results().At(ri).Type()) {
				continue
			}
			for pj, p := range ps {
				if p == nil || !a.track(a.info.TypeOf(p)) {
					continue
				}
				if sk, ok := a.termKey(p); ok {
					seed = append(seed, retFact{res: ri, param: pj, seqKey: sk, lenOf: true, whenOK: -1})
				}
			}
		}
		if len(seed) > 0 {
			a.retLE[id] = seed
		}
	}
	a.deriveIfaceFacts()
	for round := 0; round < 8; round++ {
		a.sites = nil
		a.callObls = nil
		a.final = false
		prevBad := len(a.invBad)
		prevRet := a.retSig() + fmt.Sprint(a.delta)
		a.analyseFuncTables(tabs)
		a.paramFuncFacts(fds)
		for _, fd := range fds {
			a.analyseFunc(fd)
		}
		a.deriveIfaceFacts()
		changed := len(a.invBad) != prevBad || a.retSig()+fmt.Sprint(a.delta) != prevRet
		// escalate preconditions of functions / closures with failing sites
		failing := map[*ast.FuncDecl]bool{}
		for _, s := range a.sites {
			if !s.ok {
				failing[s.fn] = true
			}
		}
		// a callee's precondition that this function cannot establish from its own guards becomes this
		// function's precondition (it forwards its parameters): judged at *its* callers
		for _, c := range a.callObls {
			if !c.ok && c.fn != nil {
				failing[c.fn] = true
			}
		}
		for _, fd := range fds {
			if !failing[fd] {
				continue
			}
			ids := []types.Object{}
			if o, ok := a.info.Defs[fd.Name].(*types.Func); ok {
				ids = append(ids, o)
			}
			for o, lit := range a.litOf {
				if lit.Pos() >= fd.Pos() && lit.End() <= fd.End() {
					ids = append(ids, o)
				}
			}
			for _, id := range ids {
				lvl := a.preLevel[id]
				if lvl >= 2 {
					continue
				}
				var fl *ast.FieldList
				if f, ok := id.(*types.Func); ok {
					fl = a.declOf[f].Type.Params
				} else if lit := a.litOf[id]; lit != nil {
					fl = lit.Type.Params
				}
				ps := paramList(fl)
				var pairs []prePair
				captured := map[string]string{}
				if lit := a.litOf[id]; lit != nil {
					captured = a.capturedSeqs(lit)
				}
				// window bounds: two int parameters used as the low and the high bound of one slice
				// expression of the body (s[lo:hi]) — lo <= hi is the caller's to establish
				if f, ok := id.(*types.Func); ok && a.litOf[id] == nil {
					for _, w := range a.windowParams(a.declOf[f], ps) {
						pairs = append(pairs, prePair{ip: w[0], sp: w[1], ints: true})
					}
				}
				for i, ip := range ps {
					if ip == nil || !isIntType(a.info.TypeOf(ip)) {
						continue
					}
					for j, sp := range ps {
						if sp == nil || !a.track(a.info.TypeOf(sp)) {
							continue
						}
						pairs = append(pairs, prePair{ip: i, sp: j, strict: lvl+1 == 2})
					}
					cks := []string{}
					for k := range captured {
						cks = append(cks, k)
					}
					sort.Strings(cks)
					for _, k := range cks {
						pairs = append(pairs, prePair{ip: i, sp: -1, seqKey: k, seqName: captured[k], strict: lvl+1 == 2})
					}
					if f, ok := id.(*types.Func); ok {
						for _, rf := range a.recvSeqFields(a.declOf[f]) {
							pairs = append(pairs, prePair{ip: i, sp: -2, seqKey: rf[0], seqName: "receiver." + rf[1], rfield: rf[1], strict: lvl+1 == 2})
						}
					}
				}
				if len(pairs) == 0 {
					a.preLevel[id] = 2
					continue
				}
				a.preLevel[id] = lvl + 1
				a.pre[id] = pairs
				changed = true
			}
		}
		if !changed {
			break
		}
	}
	// minimise: drop every assumed pair whose removal does not add a failing site
	countFail := func(fd *ast.FuncDecl) int {
		save, saveCalls := a.sites, a.callObls
		a.sites, a.callObls = nil, nil
		a.analyseFunc(fd)
		n := 0
		for _, s := range a.sites {
			if !s.ok {
				n++
			}
		}
		// a pair that only serves to establish a callee's precondition is needed too
		for _, c := range a.callObls {
			if !c.ok {
				n++
			}
		}
		a.sites, a.callObls = save, saveCalls
		return n
	}
	// (repeated: a pair a caller keeps only for a callee's precondition becomes droppable once the callee's own
	// unneeded pairs are gone)
	for minPass := 0; minPass < 3; minPass++ {
		for _, fd := range fds {
			ids := []types.Object{}
			if o, ok := a.info.Defs[fd.Name].(*types.Func); ok {
				ids = append(ids, o)
			}
			for o, lit := range a.litOf {
				if lit.Pos() >= fd.Pos() && lit.End() <= fd.End() {
					ids = append(ids, o)
				}
			}
			sort.Slice(ids, func(i, j int) bool { return ids[i].Pos() < ids[j].Pos() })
			for _, id := range ids {
				if len(a.pre[id]) == 0 {
					continue
				}
				base := countFail(fd)
				for i := 0; i < len(a.pre[id]); {
					full := a.pre[id]
					trial := append(append([]prePair{}, full[:i]...), full[i+1:]...)
					a.pre[id] = trial
					if countFail(fd) <= base {
						continue // not needed: stays removed
					}
					a.pre[id] = full
					i++
				}
				// weaken strict pairs to non-strict where that is enough
				for i := range a.pre[id] {
					if a.pre[id][i].strict {
						a.pre[id][i].strict = false
						if countFail(fd) > base {
							a.pre[id][i].strict = true
						}
					}
				}
			}
		}
	}
	// conditional summaries: for a function with an integer parameter p and a sequence parameter s,
	// facts res <= len(s) that hold when p <= len(s) at entry (forward-only scanners)
	a.retCond = map[types.Object][]retFact{}
	for _, fd := range fds {
		id, ok := a.info.Defs[fd.Name].(*types.Func)
		if !ok || fd.Type.Results == nil {
			continue
		}
		ps := paramList(fd.Type.Params)
		hasIntRes := false
		sig := id.Type().(*types.Signature)
		for i := 0; i < sig.Results().Len(); i++ {
			if isIntType(sig.Results().At(i).Type()) {
				hasIntRes = true
			}
		}
		if !hasIntRes {
			continue
		}
		var cond []retFact
		for pi, p := range ps {
			if p == nil || !isIntType(a.info.TypeOf(p)) {
				continue
			}
			for _, rf := range a.recvSeqFields(fd) {
				have := map[int]bool{}
				for _, f := range a.retLE[id] {
					if f.lenOf && f.param == -2 && f.rfield == rf[1] && f.whenOK < 0 {
						have[f.res] = true
					}
				}
				save := a.pre[id]
				a.pre[id] = append(append([]prePair{}, save...), prePair{ip: pi, sp: -2, seqKey: rf[0], rfield: rf[1]})
				a.analyseFunc(fd)
				for _, f := range a.retLE[id] {
					if f.lenOf && f.param == -2 && f.rfield == rf[1] && f.whenOK < 0 && !have[f.res] {
						f.cond, f.needIP, f.needSP = true, pi, -2
						cond = append(cond, f)
					}
				}
				a.pre[id] = save
				a.analyseFunc(fd)
			}
			for sj, sp := range ps {
				if sp == nil || !a.track(a.info.TypeOf(sp)) {
					continue
				}
				have := map[int]bool{}
				for _, f := range a.retLE[id] {
					if f.lenOf && f.param == sj && f.whenOK < 0 {
						have[f.res] = true
					}
				}
				save := a.pre[id]
				a.pre[id] = append(append([]prePair{}, save...), prePair{ip: pi, sp: sj})
				a.analyseFunc(fd)
				if idxDebug != "" && strings.Contains(id.Name(), idxDebug) {
					fmt.Printf("IDXDEBUG assumed-run %s pi=%d sj=%d pre=%+v facts=%+v\n", id.Name(), pi, sj, a.pre[id], a.retLE[id])
				}
				for _, f := range a.retLE[id] {
					if f.lenOf && f.param == sj && f.whenOK < 0 && !have[f.res] {
						f.cond, f.needIP, f.needSP = true, pi, sj
						cond = append(cond, f)
					}
				}
				a.pre[id] = save
				a.analyseFunc(fd)
			}
		}
		if len(cond) > 0 {
			a.retCond[id] = cond
		}
		if idxDebug != "" {
			fmt.Printf("IDXDEBUG summaries %s uncond=%+v cond=%+v\n", id.Name(), a.retLE[id], cond)
		}
	}
	a.sites = nil
	a.callObls = nil
	a.final = true
	a.progress = map[ast.Node]*progSite{}
	for _, fd := range fds {
		a.analyseFunc(fd)
	}
}

// ---- function tables ----
// A struct field of function type that is only ever set to function literals inside package-level
// composite literals (a dispatch table) gets, as its return summary, the facts shared by all of those
// literals: a call through the field then knows what a call of any entry guarantees.

type funcTable struct {
	lits  []*ast.FuncLit
	dirty bool // also assigned something that is not a literal of a package-level table
}

func (a *idxAnalyzer) collectFuncTables() map[types.Object]*funcTable {
	tabs := map[types.Object]*funcTable{}
	get := func(o types.Object) *funcTable {
		if tabs[o] == nil {
			tabs[o] = &funcTable{}
		}
		return tabs[o]
	}
	isFuncField := func(o types.Object) bool {
		v, ok := o.(*types.Var)
		if !ok || !v.IsField() {
			return false
		}
		_, isSig := v.Type().Underlying().(*types.Signature)
		return isSig
	}
	for _, f := range a.pkg.Syntax {
		topLevel := map[*ast.FuncLit]bool{}
		for _, d := range f.Decls {
			gd, ok := d.(*ast.GenDecl)
			if !ok || gd.Tok != token.VAR {
				continue
			}
			ast.Inspect(gd, func(n ast.Node) bool {
				if kv, ok := n.(*ast.KeyValueExpr); ok {
					if id, ok := kv.Key.(*ast.Ident); ok && isFuncField(a.info.Uses[id]) {
						if lit, ok := ast.Unparen(kv.Value).(*ast.FuncLit); ok {
							topLevel[lit] = true
							t := get(a.info.Uses[id])
							t.lits = append(t.lits, lit)
						}
					}
				}
				return true
			})
		}
		// every other way of setting such a field makes the table open-ended
		ast.Inspect(f, func(n ast.Node) bool {
			switch x := n.(type) {
			case *ast.KeyValueExpr:
				if id, ok := x.Key.(*ast.Ident); ok && isFuncField(a.info.Uses[id]) {
					if lit, ok := ast.Unparen(x.Value).(*ast.FuncLit); !ok || !topLevel[lit] {
						get(a.info.Uses[id]).dirty = true
					}
				}
			case *ast.AssignStmt:
				for _, l := range x.Lhs {
					if se, ok := ast.Unparen(l).(*ast.SelectorExpr); ok {
						if sel, ok := a.info.Selections[se]; ok && isFuncField(sel.Obj()) {
							get(sel.Obj()).dirty = true
						}
					}
				}
			case *ast.CompositeLit:
				// positional struct literals
				if st, ok := a.info.TypeOf(x).Underlying().(*types.Struct); ok && len(x.Elts) > 0 {
					if _, keyed := x.Elts[0].(*ast.KeyValueExpr); !keyed {
						for i := 0; i < st.NumFields() && i < len(x.Elts); i++ {
							if isFuncField(st.Field(i)) {
								get(st.Field(i)).dirty = true
							}
						}
					}
				}
			}
			return true
		})
	}
	return tabs
}

func (a *idxAnalyzer) analyseFuncTables(tabs map[types.Object]*funcTable) {
	fields := []types.Object{}
	for o := range tabs {
		fields = append(fields, o)
	}
	sort.Slice(fields, func(i, j int) bool { return fields[i].Pos() < fields[j].Pos() })
	for _, field := range fields {
		t := tabs[field]
		if t.dirty || len(t.lits) == 0 {
			delete(a.retLE, field)
			continue
		}
		var shared []retFact
		for i, lit := range t.lits {
			sig, ok := a.info.TypeOf(lit).(*types.Signature)
			if !ok {
				shared = nil
				break
			}
			id := types.NewVar(lit.Pos(), a.pkg.Types, fmt.Sprintf("tablelit@%d", lit.Pos()), sig)
			saveFn, saveMuted := a.curFn, a.muted
			a.curFn, a.muted = nil, true
			a.setUnit(id, lit.Type.Params, nil)
			a.retStates = nil
			a.walkBody(lit.Body, a.entryZone())
			a.summariseUnit(id, sig, lit.Type, lit.Body)
			a.curFn, a.muted = saveFn, saveMuted
			facts := append([]retFact{}, a.retLE[id]...)
			for k := range facts {
				if facts[k].param >= 0 {
					facts[k].seqKey = "" // the name of the parameter does not matter to callers
				}
			}
			if idxDebug != "" {
				fmt.Fprintf(os.Stderr, "  tablelit %s#%d retStates=%d facts=%+v\n", field.Name(), i, len(a.retStates), facts)
			}
			delete(a.retLE, id)
			if i == 0 {
				shared = append([]retFact{}, facts...)
				continue
			}
			var keep []retFact
			for _, f := range shared {
				for _, g := range facts {
					if f == g {
						keep = append(keep, f)
						break
					}
				}
			}
			shared = keep
		}
		if idxDebug != "" {
			fmt.Fprintf(os.Stderr, "functable %s lits=%d shared=%+v\n", field.Name(), len(t.lits), shared)
		}
		if len(shared) > 0 {
			a.retLE[field] = shared
		} else {
			delete(a.retLE, field)
		}
	}
}

// ---- function-valued parameters ----
// A function that calls one of its own parameters (consume func([]byte) (T, int)) may rely on what
// every function handed in for that parameter guarantees: the facts shared by all actual arguments
// at all call sites in the package (library contracts included) become the return facts of the parameter.

func (a *idxAnalyzer) libFuncFacts(f *types.Func) ([]retFact, bool) {
	if f.Pkg() == nil {
		return nil, false
	}
	sig, _ := f.Type().(*types.Signature)
	if sig == nil {
		return nil, false
	}
	if f.Pkg().Path() == "google.golang.org/protobuf/encoding/protowire" && strings.HasPrefix(f.Name(), "Consume") && sig.Results().Len() >= 2 {
		return []retFact{{res: sig.Results().Len() - 1, param: 0, lenOf: true, w: 0, whenOK: -1}}, true
	}
	return nil, false
}

func (a *idxAnalyzer) paramFuncFacts(fds []*ast.FuncDecl) {
	type key struct {
		fn  types.Object
		idx int
	}
	params := map[key]types.Object{}
	for _, fd := range fds {
		fo := a.info.Defs[fd.Name]
		k := 0
		for _, f := range fd.Type.Params.List {
			for _, nm := range f.Names {
				if _, isSig := a.info.TypeOf(f.Type).Underlying().(*types.Signature); isSig {
					params[key{fo, k}] = a.info.Defs[nm]
				}
				k++
			}
			if len(f.Names) == 0 {
				k++
			}
		}
	}
	if len(params) == 0 {
		return
	}
	isParam := map[types.Object]bool{}
	for _, po := range params {
		isParam[po] = true
	}
	known := map[types.Object][]retFact{} // parameters whose facts are settled
	var shared map[types.Object][]retFact
	var seen, dead map[types.Object]bool
	for iter := 0; iter < 4; iter++ {
		shared = map[types.Object][]retFact{}
		seen = map[types.Object]bool{}
		dead = map[types.Object]bool{}
		for _, f := range a.pkg.Syntax {
			ast.Inspect(f, func(n ast.Node) bool {
				c, ok := n.(*ast.CallExpr)
				if !ok {
					return true
				}
				callee, _ := calleeOf(a.info, c).(*types.Func)
				if callee == nil {
					return true
				}
				callee = callee.Origin()
				for i, arg := range c.Args {
					po := params[key{callee, i}]
					if po == nil {
						continue
					}
					var facts []retFact
					okArg := false
					var fobj *types.Func
					switch x := ast.Unparen(arg).(type) {
					case *ast.Ident:
						fobj, _ = a.info.Uses[x].(*types.Func)
						// the caller's own function-valued parameter, handed on
						if v, isVar := a.info.Uses[x].(*types.Var); isVar && isParam[v] {
							if kf, ok := known[v]; ok {
								facts, okArg = kf, true
							}
						}
					case *ast.SelectorExpr:
						fobj, _ = a.info.Uses[x.Sel].(*types.Func)
					}
					if fobj != nil {
						if lf, ok := a.libFuncFacts(fobj); ok {
							facts, okArg = lf, true
						} else if rf, ok := a.retLE[fobj.Origin()]; ok {
							facts, okArg = rf, true
						}
					}
					if !okArg {
						dead[po] = true
						continue
					}
					var norm []retFact
					for _, f := range facts {
						if f.param >= 0 {
							f.seqKey = ""
						}
						norm = append(norm, f)
					}
					if !seen[po] {
						seen[po] = true
						shared[po] = norm
						continue
					}
					var keep []retFact
					for _, f := range shared[po] {
						for _, g := range norm {
							if f == g {
								keep = append(keep, f)
								break
							}
						}
					}
					shared[po] = keep
				}
				return true
			})
		}
		changed := false
		for _, po := range params {
			if !dead[po] && seen[po] && len(shared[po]) > 0 {
				if _, ok := known[po]; !ok {
					known[po] = shared[po]
					changed = true
				}
			}
		}
		if !changed {
			break
		}
	}
	for _, po := range params {
		if dead[po] || !seen[po] || len(shared[po]) == 0 {
			delete(a.retLE, po)
			continue
		}
		a.retLE[po] = shared[po]
	}
}

// windowParams lists the pairs (lo, hi) of int parameters that appear as the two bounds of one
// slice expression in the body.
func (a *idxAnalyzer) windowParams(fd *ast.FuncDecl, ps []*ast.Ident) [][2]int {
	if fd == nil || fd.Body == nil {
		return nil
	}
	idx := map[types.Object]int{}
	for i, p := range ps {
		if p != nil && isIntType(a.info.TypeOf(p)) {
			idx[a.info.Defs[p]] = i
		}
	}
	seen := map[[2]int]bool{}
	var out [][2]int
	ast.Inspect(fd.Body, func(n ast.Node) bool {
		se, ok := n.(*ast.SliceExpr)
		if !ok || se.Low == nil || se.High == nil {
			return true
		}
		lo, ok1 := ast.Unparen(se.Low).(*ast.Ident)
		hi, ok2 := ast.Unparen(se.High).(*ast.Ident)
		if !ok1 || !ok2 {
			return true
		}
		i, okI := idx[a.info.Uses[lo]]
		j, okJ := idx[a.info.Uses[hi]]
		if okI && okJ && i != j && !seen[[2]int{i, j}] {
			seen[[2]int{i, j}] = true
			out = append(out, [2]int{i, j})
		}
		return true
	})
	return out
}

// forwardedGE: does result ri of the forwarded call stay at or above lp (a parameter's entry value) by
// the callee's own "result >= parameter" summary?
func (a *idxAnalyzer) forwardedGE(z *zone, call *ast.CallExpr, ri int, lp *linExpr, cond int) bool {
	var id types.Object
	switch f := ast.Unparen(call.Fun).(type) {
	case *ast.Ident:
		id = a.info.Uses[f]
	case *ast.SelectorExpr:
		if sel, ok := a.info.Selections[f]; ok {
			id = sel.Obj()
		} else {
			id = a.info.Uses[f.Sel]
		}
	}
	for _, f := range a.retLE[id] {
		if !f.geParam || f.res != ri || (f.whenOK >= 0 && f.whenOK != cond) || f.param >= len(call.Args) {
			continue
		}
		if la, ok := a.lin(call.Args[f.param]); ok && a.proveLE(z, linSub(lp, la), 0) {
			return true
		}
	}
	return false
}

// deriveIfaceFacts gives a method of an interface declared in this package the return facts shared by all
// its implementations in the package (a call through the interface can reach any of them). Only facts
// about parameters travel (same signature, same indices). An implementation all of whose returns give
// the constant 0 for a result satisfies every "result <= len(parameter)" fact about that result.
func (a *idxAnalyzer) deriveIfaceFacts() {
	scope := a.pkg.Types.Scope()
	var named []*types.Named
	for _, n := range scope.Names() {
		if tn, ok := scope.Lookup(n).(*types.TypeName); ok && !tn.IsAlias() {
			if nt, ok := tn.Type().(*types.Named); ok {
				named = append(named, nt)
			}
		}
	}
	sameFact := func(x, y retFact) bool {
		return x.res == y.res && x.param == y.param && x.w == y.w && x.lenOf == y.lenOf && x.geParam == y.geParam && x.whenOK == y.whenOK && x.cond == y.cond && x.needIP == y.needIP && x.needSP == y.needSP
	}
	for _, it := range named {
		iface, ok := it.Underlying().(*types.Interface)
		if !ok || iface.NumMethods() == 0 {
			continue
		}
		for i := 0; i < iface.NumMethods(); i++ {
			m := iface.Method(i)
			var impls []*types.Func
			for _, ct := range named {
				if _, isIface := ct.Underlying().(*types.Interface); isIface {
					continue
				}
				if !types.Implements(ct, iface) && !types.Implements(types.NewPointer(ct), iface) {
					continue
				}
				obj, _, _ := types.LookupFieldOrMethod(types.NewPointer(ct), true, a.pkg.Types, m.Name())
				if f, ok := obj.(*types.Func); ok {
					impls = append(impls, f)
				}
			}
			if len(impls) == 0 {
				delete(a.retLE, m)
				continue
			}
			// candidate facts: those of the first implementation that has any
			var cands []retFact
			for _, f := range impls {
				for _, ft := range a.retLE[f] {
					if ft.param < 0 {
						continue
					}
					dup := false
					for _, c := range cands {
						if sameFact(c, ft) {
							dup = true
						}
					}
					if !dup {
						cands = append(cands, ft)
					}
				}
			}
			var out []retFact
			for _, c := range cands {
				all := true
				for _, f := range impls {
					has := false
					for _, ft := range a.retLE[f] {
						if sameFact(c, ft) {
							has = true
						}
					}
					if !has && c.lenOf && !c.geParam && c.w >= 0 && a.alwaysReturnsZero(f, c.res) {
						has = true
					}
					if !has {
						all = false
						break
					}
				}
				if all {
					c.seqKey = ""
					out = append(out, c)
				}
			}
			if len(out) > 0 {
				a.retLE[m] = out
			} else {
				delete(a.retLE, m)
			}
		}
	}
}

// alwaysReturnsZero: every return statement of f gives the constant 0 for result ri.
func (a *idxAnalyzer) alwaysReturnsZero(f *types.Func, ri int) bool {
	fd := a.declOf[f]
	if fd == nil || fd.Body == nil {
		return false
	}
	n, all := 0, true
	ast.Inspect(fd.Body, func(nd ast.Node) bool {
		if _, isLit := nd.(*ast.FuncLit); isLit {
			return false
		}
		if rs, ok := nd.(*ast.ReturnStmt); ok {
			n++
			if ri >= len(rs.Results) {
				all = false
				return true
			}
			if tv, ok := a.info.Types[rs.Results[ri]]; !ok || tv.Value == nil || tv.Value.String() != "0" {
				all = false
			}
		}
		return true
	})
	return all && n > 0
}

// recursiveFuncs: the functions of fds that lie on a call cycle of the package (static calls, and calls
// through interfaces of the package resolved to every implementation).
func (a *idxAnalyzer) recursiveFuncs(fds []*ast.FuncDecl) []*ast.FuncDecl {
	declOf := map[*types.Func]*ast.FuncDecl{}
	for _, fd := range fds {
		if f, ok := a.info.Defs[fd.Name].(*types.Func); ok {
			declOf[f] = fd
		}
	}
	impls := func(m *types.Func) []*types.Func {
		sig, _ := m.Type().(*types.Signature)
		if sig == nil || sig.Recv() == nil {
			return nil
		}
		iface, ok := sig.Recv().Type().Underlying().(*types.Interface)
		if !ok {
			return nil
		}
		var out []*types.Func
		scope := a.pkg.Types.Scope()
		for _, n := range scope.Names() {
			tn, ok := scope.Lookup(n).(*types.TypeName)
			if !ok {
				continue
			}
			if _, isI := tn.Type().Underlying().(*types.Interface); isI {
				continue
			}
			if types.Implements(tn.Type(), iface) || types.Implements(types.NewPointer(tn.Type()), iface) {
				if obj, _, _ := types.LookupFieldOrMethod(types.NewPointer(tn.Type()), true, a.pkg.Types, m.Name()); obj != nil {
					if f, ok := obj.(*types.Func); ok {
						out = append(out, f)
					}
				}
			}
		}
		return out
	}
	edges := map[*types.Func][]*types.Func{}
	for f, fd := range declOf {
		ast.Inspect(fd.Body, func(n ast.Node) bool {
			c, ok := n.(*ast.CallExpr)
			if !ok {
				return true
			}
			cal := calleeFunc(a.info, c)
			if cal == nil {
				return true
			}
			if declOf[cal] != nil {
				edges[f] = append(edges[f], cal)
			} else if cal.Pkg() == a.pkg.Types {
				for _, im := range impls(cal) {
					if declOf[im] != nil {
						edges[f] = append(edges[f], im)
					}
				}
			}
			return true
		})
	}
	var out []*ast.FuncDecl
	for f, fd := range declOf {
		seen := map[*types.Func]bool{}
		stack := append([]*types.Func{}, edges[f]...)
		onCycle := false
		for len(stack) > 0 && !onCycle {
			g := stack[len(stack)-1]
			stack = stack[:len(stack)-1]
			if g == f {
				onCycle = true
				break
			}
			if seen[g] {
				continue
			}
			seen[g] = true
			stack = append(stack, edges[g]...)
		}
		if onCycle {
			out = append(out, fd)
		}
	}
	sort.Slice(out, func(i, j int) bool { return out[i].Pos() < out[j].Pos() })
	return out
}
