package main

import (
	"go/ast"
	"go/token"
	"go/types"
)

func init() {
	assumeSite("C10-FIELDS", "VM.acl", "SetThrowControl is host configuration: it has no caller in the module besides embedding hosts (LSP uses its own VM type); it is installed before any script or request runs")
	register(&PropDef{
		ID:       "C10",
		Patterns: []string{"./runtime", "./parser"},
		Explanation: "Static guarded-by decision for runtime.VM: every map-typed field of the VM struct is a registry guarded by the struct's RWMutex. " +
			"A structured abstract interpreter tracks the lock level (none/read/write) along every path of every function of package runtime; " +
			"reads need at least the read lock, writes the write lock, unexported helpers that touch a table without locking are discharged only through all of their call sites, " +
			"and a duplicate check followed by the store must lie in one critical section. This decides the synchronisation structure that is necessary for 'no data race, duplicates rejected for all but one'; it does not decide linearizability of histories.",
		Assumptions: []string{
			"sync.RWMutex provides mutual exclusion (Go runtime)",
			"guard table = all map-typed fields of runtime.VM, derived from the struct on every run",
			"closures are analysed as if entered with no lock held",
			"methods of *VM are the only code touching its unexported fields (Go visibility, package runtime analysed whole)",
		},
		Rules: []RuleDef{
			{Name: "C10-LOCK", Floor: 12, Doc: "every read of a VM registry map happens under vm.mu (R or W), every write under the write lock; helpers are checked at each call site; no exit with the lock held", Run: c10Lock},
			{Name: "C10-ATOMIC", Floor: 2, Doc: "a store to a registry that is preceded by a lookup of the same registry (duplicate rejection) lies in the same critical section as that lookup", Run: func(r *Run) {}},
			{Name: "C10-FIELDS", Floor: 1, Doc: "every other VM field that is written after construction is accessed under vm.mu or is an atomic/sync type", Run: func(r *Run) {}},
		},
	})
}

func c10Lock(r *Run) {
	pkg := r.pkg("runtime")
	vm := r.lookupType(pkg, "VM")
	if vm == nil {
		return
	}
	ctor := map[string]bool{}
	// constructors: functions that build a VM composite literal
	for _, fd := range funcDecls(pkg) {
		ast.Inspect(fd.Body, func(n ast.Node) bool {
			if cl, ok := n.(*ast.CompositeLit); ok {
				if nt := namedOf(pkg.TypesInfo.TypeOf(cl)); nt != nil && nt.Obj() == vm.Obj() {
					ctor[fd.Name.Name] = true
				}
			}
			return true
		})
	}
	st := vm.Underlying().(*types.Struct)

	// registries: map-typed fields
	la := newLockAnalysis(r, pkg, vm)
	if len(la.mutexes) == 0 {
		r.curRule = "C10-LOCK"
		r.bad("runtime.VM#mutex", vm.Obj().Pos(), "runtime.VM has no mutex field: its registries cannot be guarded")
		return
	}
	nmaps := 0
	for i := 0; i < st.NumFields(); i++ {
		f := st.Field(i)
		if _, ok := f.Type().Underlying().(*types.Map); ok {
			la.guarded[f] = true
			nmaps++
		}
	}
	// registries grouped into a lock-less helper struct held by the VM (vm.defs.classes …): the maps of
	// that struct are guarded by the VM's mutex just the same
	for i := 0; i < st.NumFields(); i++ {
		t := st.Field(i).Type()
		if pt, ok := t.(*types.Pointer); ok {
			t = pt.Elem()
		}
		nt := namedOf(t)
		if nt == nil || nt.Obj().Pkg() != pkg.Types || nt == vm {
			continue
		}
		inner, ok := nt.Underlying().(*types.Struct)
		if !ok {
			continue
		}
		ownMutex := false
		var maps []*types.Var
		for j := 0; j < inner.NumFields(); j++ {
			f := inner.Field(j)
			if isNamed(f.Type(), "sync", "RWMutex") || isNamed(f.Type(), "sync", "Mutex") {
				ownMutex = true
			}
			if _, ok := f.Type().Underlying().(*types.Map); ok {
				maps = append(maps, f)
			}
		}
		if ownMutex || len(maps) < 2 {
			continue
		}
		for _, f := range maps {
			la.guarded[f] = true
			nmaps++
		}
	}
	r.stat("vm_registry_maps", nmaps)
	if nmaps < 5 {
		r.fail("runtime.VM has only %d map fields; the registries moved", nmaps)
	}
	la.run("C10-LOCK", "C10-ATOMIC", ctor)

	// read-modify-write of an atomic field (a copy-on-write snapshot: Load, derive, Store): two
	// concurrent writers both start from the same snapshot and one update is lost unless the sequence
	// runs under the write lock or retries with CompareAndSwap
	{
		r.curRule = "C10-ATOMIC"
		info := pkg.TypesInfo
		atomicField := func(e ast.Expr) *types.Var {
			se, ok := ast.Unparen(e).(*ast.SelectorExpr)
			if !ok {
				return nil
			}
			sel, ok := info.Selections[se]
			if !ok {
				return nil
			}
			v, ok := sel.Obj().(*types.Var)
			if !ok || !v.IsField() {
				return nil
			}
			if nt := namedOf(v.Type()); nt != nil && nt.Obj().Pkg() != nil && nt.Obj().Pkg().Path() == "sync/atomic" {
				for i := 0; i < st.NumFields(); i++ {
					if st.Field(i) == v {
						return v
					}
				}
			}
			return nil
		}
		for _, fd := range funcDecls(pkg) {
			if ctor[fd.Name.Name] {
				continue
			}
			loads := map[*types.Var]bool{}
			cas := map[*types.Var]bool{}
			stores := map[*types.Var]token.Pos{}
			ast.Inspect(fd.Body, func(n ast.Node) bool {
				c, ok := n.(*ast.CallExpr)
				if !ok {
					return true
				}
				se, ok := ast.Unparen(c.Fun).(*ast.SelectorExpr)
				if !ok {
					return true
				}
				f := atomicField(se.X)
				if f == nil {
					return true
				}
				switch se.Sel.Name {
				case "Load":
					loads[f] = true
				case "Store", "Swap":
					stores[f] = c.Pos()
				case "CompareAndSwap":
					cas[f] = true
				}
				return true
			})
			for f, pos := range stores {
				if !loads[f] {
					continue
				}
				lvl := 0
				for _, cs := range la.calls[fd] {
					if cs.pos == pos {
						lvl = cs.lvl
					}
				}
				key := funcKey(pkg, fd) + "#load-then-store:" + f.Name()
				switch {
				case cas[f]:
					r.ok(key, pos, "the snapshot in "+f.Name()+" is replaced with CompareAndSwap")
				case lvl >= 2:
					r.ok(key, pos, "the snapshot in "+f.Name()+" is read and replaced under the write lock")
				default:
					r.bad(key, pos, "reads the snapshot in "+f.Name()+", derives a new one and stores it with no write lock and no CompareAndSwap: two concurrent registrations both start from the same snapshot and one of them is lost (and both pass the duplicate check)")
				}
			}
		}
	}

	// the class-path manager guards its namespace graph with its own mutex
	c10OwnedGraph(r)

	// other mutable fields
	lb := newLockAnalysis(r, pkg, vm)
	written := map[*types.Var]bool{}
	info := pkg.TypesInfo
	for _, fd := range funcDecls(pkg) {
		if ctor[fd.Name.Name] {
			continue
		}
		markW := func(e ast.Expr) {
			for {
				switch x := ast.Unparen(e).(type) {
				case *ast.IndexExpr:
					e = x.X
					continue
				case *ast.SelectorExpr:
					if s, ok := info.Selections[x]; ok {
						if v, ok := s.Obj().(*types.Var); ok && v.IsField() {
							for i := 0; i < st.NumFields(); i++ {
								if st.Field(i) == v {
									written[v] = true
								}
							}
						}
					}
				}
				return
			}
		}
		ast.Inspect(fd.Body, func(n ast.Node) bool {
			switch x := n.(type) {
			case *ast.AssignStmt:
				for _, l := range x.Lhs {
					markW(l)
				}
			case *ast.IncDecStmt:
				markW(x.X)
			}
			return true
		})
	}
	nf := 0
	for i := 0; i < st.NumFields(); i++ {
		f := st.Field(i)
		if la.guarded[f] || la.mutexes[f] || !written[f] {
			continue
		}
		if nt := namedOf(f.Type()); nt != nil && nt.Obj().Pkg() != nil && (nt.Obj().Pkg().Path() == "sync" || nt.Obj().Pkg().Path() == "sync/atomic") {
			continue
		}
		lb.guarded[f] = true
		nf++
	}
	r.stat("vm_other_mutable_fields", nf)
	lb.runPerField("C10-FIELDS", ctor)
}

// c10OwnedGraph: a struct with a mutex that owns a pointer graph of another struct type of the
// same package guards that type's map and slice fields (parser.DefaultClassPathManager → NamespaceNode).
func c10OwnedGraph(r *Run) {
	pkg := r.pkg("parser")
	if pkg == nil {
		return
	}
	mgr := r.lookupType(pkg, "DefaultClassPathManager")
	if mgr == nil {
		return
	}
	la := newLockAnalysis(r, pkg, mgr)
	if len(la.mutexes) == 0 {
		r.curRule = "C10-LOCK"
		r.bad("parser.DefaultClassPathManager#mutex", mgr.Obj().Pos(), "the class-path manager has no mutex: concurrent autoloading mutates its namespace graph unguarded")
		return
	}
	st := mgr.Underlying().(*types.Struct)
	n := 0
	for i := 0; i < st.NumFields(); i++ {
		f := st.Field(i)
		if la.mutexes[f] {
			continue
		}
		switch f.Type().Underlying().(type) {
		case *types.Map, *types.Slice:
			la.guarded[f] = true
			n++
		}
		if owned := namedOf(f.Type()); owned != nil && owned.Obj().Pkg() == pkg.Types {
			if os, ok := owned.Underlying().(*types.Struct); ok {
				for j := 0; j < os.NumFields(); j++ {
					of := os.Field(j)
					switch of.Type().Underlying().(type) {
					case *types.Map, *types.Slice:
						la.guarded[of] = true
						n++
					}
				}
			}
		}
	}
	r.stat("classpath_guarded_fields", n)
	if n == 0 {
		r.fail("DefaultClassPathManager owns no map/slice state any more; the guard table is empty")
		return
	}
	ctor := map[string]bool{}
	for _, fd := range funcDecls(pkg) {
		ast.Inspect(fd.Body, func(nd ast.Node) bool {
			if cl, ok := nd.(*ast.CompositeLit); ok {
				if nt := namedOf(pkg.TypesInfo.TypeOf(cl)); nt != nil && nt.Obj() == mgr.Obj() {
					ctor[fd.Name.Name] = true
				}
			}
			return true
		})
	}
	// only the manager's own methods and the functions they call are judged
	la.onlyRecv = "DefaultClassPathManager"
	la.run("C10-LOCK", "C10-ATOMIC", ctor)
}
