package main

import (
	"fmt"
	"go/ast"
	"go/constant"
	"go/token"
	"go/types"
	"sort"
	"strings"
)

func init() {
	register(&PropDef{
		ID:          "C09",
		Patterns:    []string{"./std/channel", "./std"},
		Explanation: "Exactly-once delivery and per-sender FIFO order are inherited from the single underlying Go channel as long as the wrapper performs exactly one channel operation per successful call and nobody else touches the channel; the 'no crash under concurrent close' clause depends on the closed-flag protocol. Decided structurally: (ONCE) each path of Send that reports success performs exactly one send and failing paths none, Receive performs exactly one receive, and the chan field is used only inside Channel's methods; (CHECK) Send and Close test the closed flag before operating and Send reports failure on the closed arm, Receive uses the two-result form; (SYNC) every access of the closed flag is synchronised; (SAFE) a send or close cannot panic against a concurrent close. Delivery under all interleavings is the Go runtime's guarantee and is not re-proved; absence of deadlock is not decided.",
		Assumptions: []string{
			"Go channel semantics: FIFO, each value received once, send on / close of a closed channel panics",
		},
		Rules: []RuleDef{
			{Name: "C09-ONCE", Floor: 3, Doc: "one channel operation per successful call; the chan field is touched only by Channel's own methods", Run: c09Run},
			{Name: "C09-CHECK", Floor: 2, Doc: "closed is tested before send and before close; a closed channel makes Send report failure; Receive uses the comma-ok receive", Run: nop},
			{Name: "C09-SYNC", Floor: 1, Doc: "every read and write of the closed flag is under a lock or atomic", Run: nop},
			{Name: "C09-SAFE", Floor: 1, Doc: "each send and each close is panic-safe against a concurrent close (mutual exclusion across check and operation, recover, or sync.Once)", Run: nop},
		},
	})
}

type c09State struct {
	sendsMin int  // fewest channel operations over the joined paths
	sends    int  // most channel operations performed on a path (0,1,2+)
	closedOK bool // the closed flag was observed false on this path
	locked   bool // the mutex is held on every path reaching here
	mayHold  bool // the mutex may be held (some path took it and has not released it)
	nilArm   bool // on this path the channel is known closed or uninitialised (flag true / alias nil)
	uninit   bool // on this path the channel is known never to have been built (nil chan / zero state)
	mayNil   bool // some path joined here observed the channel closed or never built
}

func c09Run(r *Run) {
	pkg := r.pkg("std/channel")
	if pkg == nil {
		return
	}
	info := pkg.TypesInfo
	ch := r.lookupType(pkg, "Channel")
	if ch == nil {
		return
	}
	st, ok := ch.Underlying().(*types.Struct)
	if !ok {
		r.fail("channel.Channel is not a struct")
		return
	}
	var fChan, fClosed *types.Var
	var fPhase *types.Var // an enum-typed state field (open / closed / not built) instead of a bool flag
	signalChans := map[*types.Var]bool{}
	hasMutex, hasOnce := false, false
	var scanFields func(st *types.Struct, depth int)
	scanFields = func(st *types.Struct, depth int) {
		for i := 0; i < st.NumFields(); i++ {
			f := st.Field(i)
			if ct, ok := f.Type().Underlying().(*types.Chan); ok {
				if isNamed(ct.Elem(), modPath+"/data", "Value") {
					if fChan == nil {
						fChan = f
					}
				} else {
					signalChans[f] = true // e.g. a done channel closed by Close
				}
			}
			if b, ok := f.Type().Underlying().(*types.Basic); ok {
				if b.Kind() == types.Bool {
					fClosed = f
				} else if b.Info()&types.IsInteger != 0 && namedOf(f.Type()) != nil && namedOf(f.Type()).Obj().Pkg() == pkg.Types {
					fPhase = f
				}
			}
			if isNamed(f.Type(), "sync/atomic", "Bool") {
				fClosed = f
			}
			if isNamed(f.Type(), "sync", "Mutex") || isNamed(f.Type(), "sync", "RWMutex") {
				hasMutex = true
			}
			if isNamed(f.Type(), "sync", "Once") {
				hasOnce = true
			}
			// the channels may be grouped in a small struct of this package (c.pipe.values)
			if depth == 0 {
				if nt := namedOf(f.Type()); nt != nil && nt.Obj().Pkg() == pkg.Types {
					if inner, ok := nt.Underlying().(*types.Struct); ok {
						scanFields(inner, depth+1)
					}
				}
			}
		}
	}
	scanFields(st, 0)
	if fChan == nil {
		r.fail("channel.Channel holds no chan of data.Value (directly or in a struct field)")
		return
	}
	if fClosed != nil {
		fPhase = nil // a boolean flag is the state; an integer field next to it is something else
	}
	// the value of the enum that means "open": the constant stored where the data channel is made
	var openConst types.Object
	isZeroConst := func(o types.Object) bool {
		c, ok := o.(*types.Const)
		return ok && c.Val().String() == "0"
	}
	if fPhase != nil {
		for _, fd := range funcDecls(pkg) {
			makes := false
			ast.Inspect(fd.Body, func(n ast.Node) bool {
				if c, ok := n.(*ast.CallExpr); ok {
					if id, ok := ast.Unparen(c.Fun).(*ast.Ident); ok && id.Name == "make" && len(c.Args) >= 1 {
						if ct, ok := info.TypeOf(c.Args[0]).Underlying().(*types.Chan); ok && isNamed(ct.Elem(), modPath+"/data", "Value") {
							makes = true
						}
					}
				}
				return true
			})
			if !makes {
				continue
			}
			ast.Inspect(fd.Body, func(n ast.Node) bool {
				if as, ok := n.(*ast.AssignStmt); ok && len(as.Lhs) == len(as.Rhs) {
					for i, l := range as.Lhs {
						if se, ok := ast.Unparen(l).(*ast.SelectorExpr); ok {
							if sel, ok := info.Selections[se]; ok && sel.Obj() == fPhase {
								if id, ok := ast.Unparen(as.Rhs[i]).(*ast.Ident); ok {
									if c, ok := info.Uses[id].(*types.Const); ok {
										openConst = c
									}
								}
							}
						}
					}
				}
				return true
			})
		}
		if openConst == nil {
			r.fail("channel.Channel: the state field %s is never set where the data channel is made: the value that means 'open' cannot be identified", fPhase.Name())
			return
		}
	}
	fieldOf := func(e ast.Expr) *types.Var {
		if se, ok := ast.Unparen(e).(*ast.SelectorExpr); ok {
			if s, ok := info.Selections[se]; ok {
				if v, ok := s.Obj().(*types.Var); ok {
					return v
				}
			}
		}
		return nil
	}
	// helpers of Channel that hand out the underlying chan: every return is nil or the chan field;
	// nilWhenClosed if a branch on the closed flag returns nil
	chanHelper := map[*types.Func]int{} // helper → index of the result that is the data chan
	nilWhenClosed := map[*types.Func]bool{}
	for _, fd := range funcDecls(pkg) {
		if recvTypeName(fd) != "Channel" || fd.Type.Results == nil {
			continue
		}
		f, _ := info.Defs[fd.Name].(*types.Func)
		if f == nil {
			continue
		}
		sig := f.Type().(*types.Signature)
		idx := -1
		for i := 0; i < sig.Results().Len(); i++ {
			if ct, ok := sig.Results().At(i).Type().Underlying().(*types.Chan); ok && isNamed(ct.Elem(), modPath+"/data", "Value") {
				idx = i
			}
		}
		if idx < 0 {
			continue
		}
		all := true
		// locals of the helper that hold the field (queue := c.channel / q, d := c.channel, c.done)
		local := map[types.Object]bool{}
		ast.Inspect(fd.Body, func(n ast.Node) bool {
			if as, ok := n.(*ast.AssignStmt); ok && len(as.Lhs) == len(as.Rhs) {
				for i := range as.Lhs {
					if fieldOf(as.Rhs[i]) == fChan {
						if id, ok := as.Lhs[i].(*ast.Ident); ok {
							if o := info.Defs[id]; o != nil {
								local[o] = true
							} else if o := info.Uses[id]; o != nil {
								local[o] = true
							}
						}
					}
				}
			}
			return true
		})
		isField := func(e ast.Expr) bool {
			if fieldOf(e) == fChan {
				return true
			}
			if id, ok := ast.Unparen(e).(*ast.Ident); ok {
				return local[info.Uses[id]]
			}
			return false
		}
		ast.Inspect(fd.Body, func(n ast.Node) bool {
			if rs, ok := n.(*ast.ReturnStmt); ok && len(rs.Results) == sig.Results().Len() {
				if exprStr(rs.Results[idx]) != "nil" && !isField(rs.Results[idx]) {
					all = false
				}
			}
			if is, ok := n.(*ast.IfStmt); ok && fClosed != nil {
				mentions := false
				ast.Inspect(is.Cond, func(m ast.Node) bool {
					if e, ok := m.(ast.Expr); ok && fieldOf(e) == fClosed {
						mentions = true
					}
					return true
				})
				if mentions {
					for _, st := range is.Body.List {
						if rs, ok := st.(*ast.ReturnStmt); ok && len(rs.Results) == sig.Results().Len() && exprStr(rs.Results[idx]) == "nil" {
							nilWhenClosed[f] = true
						}
					}
				}
			}
			return true
		})
		if all {
			chanHelper[f] = idx
		}
		// (b) the helper hands out the field only under `!closed`: every field→local assignment is inside
		// an if whose condition negates the closed flag (the result is nil otherwise)
		if all && !nilWhenClosed[f] && fClosed != nil && len(local) > 0 {
			guardedAll, n := true, 0
			var walk func(n0 ast.Node, guarded bool)
			walk = func(n0 ast.Node, guarded bool) {
				ast.Inspect(n0, func(m ast.Node) bool {
					if m == n0 {
						return true
					}
					switch x := m.(type) {
					case *ast.IfStmt:
						neg := false
						ast.Inspect(x.Cond, func(c ast.Node) bool {
							if u, ok := c.(*ast.UnaryExpr); ok && u.Op == token.NOT && fieldOf(u.X) == fClosed {
								neg = true
							}
							return true
						})
						walk(x.Body, guarded || neg)
						if x.Else != nil {
							walk(x.Else, guarded)
						}
						return false
					case *ast.AssignStmt:
						if len(x.Lhs) == len(x.Rhs) {
							for i := range x.Lhs {
								if fieldOf(x.Rhs[i]) == fChan {
									n++
									if !guarded {
										guardedAll = false
									}
								}
							}
						}
					case *ast.ReturnStmt:
						if len(x.Results) == sig.Results().Len() && fieldOf(x.Results[idx]) == fChan && !guarded {
							guardedAll = false
						}
					}
					return true
				})
			}
			walk(fd.Body, false)
			if n > 0 && guardedAll {
				nilWhenClosed[f] = true
			}
		}
	}
	// local aliases of the chan, per function: ch := c.channel / ch := c.open()
	chanAlias := map[types.Object]bool{}
	closedNilAlias := map[types.Object]bool{} // alias that is nil when the channel is closed
	closedCopy := map[types.Object]bool{}     // local copy of the closed flag
	signalAlias := map[types.Object]bool{}    // local copy of a signal (done) channel
	for _, fd := range funcDecls(pkg) {
		if recvTypeName(fd) != "Channel" {
			continue
		}
		ast.Inspect(fd.Body, func(n ast.Node) bool {
			as, ok := n.(*ast.AssignStmt)
			if !ok {
				return true
			}
			if len(as.Rhs) == 1 && len(as.Lhs) > 1 {
				// ch, done := c.open()
				if c, ok := ast.Unparen(as.Rhs[0]).(*ast.CallExpr); ok {
					if f, ok := calleeOf(info, c).(*types.Func); ok {
						if idx, ok := chanHelper[f]; ok && idx < len(as.Lhs) {
							if id, ok := as.Lhs[idx].(*ast.Ident); ok {
								o := info.Defs[id]
								if o == nil {
									o = info.Uses[id]
								}
								if o != nil {
									chanAlias[o] = true
									if nilWhenClosed[f] {
										closedNilAlias[o] = true
									}
								}
							}
						}
					}
				}
				return true
			}
			if len(as.Lhs) != len(as.Rhs) {
				return true
			}
			for i := range as.Lhs {
				id, ok := as.Lhs[i].(*ast.Ident)
				if !ok {
					continue
				}
				o := info.Defs[id]
				if o == nil {
					o = info.Uses[id]
				}
				if o == nil {
					continue
				}
				if fieldOf(as.Rhs[i]) == fChan {
					chanAlias[o] = true
				}
				if f := fieldOf(as.Rhs[i]); f != nil && signalChans[f] {
					signalAlias[o] = true
				}
				if fClosed != nil && fieldOf(as.Rhs[i]) == fClosed {
					closedCopy[o] = true
				}
				if fPhase != nil && fieldOf(as.Rhs[i]) == fPhase {
					closedCopy[o] = true
				}
				if c, ok := ast.Unparen(as.Rhs[i]).(*ast.CallExpr); ok {
					if _, isH := chanHelper[f0(info, c)]; isH {
						f := f0(info, c)
						chanAlias[o] = true
						if nilWhenClosed[f] {
							closedNilAlias[o] = true
						}
					}
				}
			}
			return true
		})
	}
	isChanExpr := func(e ast.Expr) bool {
		if fieldOf(e) == fChan {
			return true
		}
		if id, ok := ast.Unparen(e).(*ast.Ident); ok && chanAlias[info.Uses[id]] {
			return true
		}
		// any expression of type chan data.Value in this package denotes the one data channel
		// (a local copy, a field of a snapshot struct, a parameter)
		if t := info.TypeOf(e); t != nil {
			if ct, ok := t.Underlying().(*types.Chan); ok && isNamed(ct.Elem(), modPath+"/data", "Value") {
				return true
			}
		}
		return false
	}
	isSignalExpr := func(e ast.Expr) bool {
		if f := fieldOf(e); f != nil && signalChans[f] {
			return true
		}
		if t := info.TypeOf(e); t != nil {
			if ct, ok := t.Underlying().(*types.Chan); ok && !isNamed(ct.Elem(), modPath+"/data", "Value") {
				return true
			}
		}
		if id, ok := ast.Unparen(e).(*ast.Ident); ok {
			o := info.Uses[id]
			if signalAlias[o] {
				return true
			}
			// a non-data chan result of a chan helper
			if v, ok := o.(*types.Var); ok {
				if ct, ok := v.Type().Underlying().(*types.Chan); ok && !isNamed(ct.Elem(), modPath+"/data", "Value") {
					return true
				}
			}
		}
		return false
	}
	isClosedNilTest := func(e ast.Expr, truth bool) bool {
		be, ok := ast.Unparen(e).(*ast.BinaryExpr)
		if !ok || exprStr(be.Y) != "nil" {
			return false
		}
		id, ok := ast.Unparen(be.X).(*ast.Ident)
		if !ok || !closedNilAlias[info.Uses[id]] {
			return false
		}
		return (be.Op == token.NEQ && truth) || (be.Op == token.EQL && !truth)
	}

	// isState: the state field itself or a local copy of it
	isState := func(e ast.Expr) bool {
		if f := fieldOf(e); f != nil && (f == fClosed || (fPhase != nil && f == fPhase)) {
			return true
		}
		if id, ok := ast.Unparen(e).(*ast.Ident); ok && closedCopy[info.Uses[id]] {
			return true
		}
		return false
	}
	constOf := func(e ast.Expr) types.Object {
		switch x := ast.Unparen(e).(type) {
		case *ast.Ident:
			if c, ok := info.Uses[x].(*types.Const); ok {
				return c
			}
		case *ast.SelectorExpr:
			if c, ok := info.Uses[x.Sel].(*types.Const); ok {
				return c
			}
		}
		return nil
	}
	// stateTest: what the outcome `truth` of condition e says about the channel: +1 it is open,
	// -1 it is not open (closed or never built), 0 nothing
	stateTest := func(e ast.Expr, truth bool) int {
		e = ast.Unparen(e)
		if fPhase == nil {
			if isState(e) {
				if truth {
					return -1
				}
				return +1
			}
			// atomic: c.closed.Load()
			if c, ok := e.(*ast.CallExpr); ok {
				if se, ok := ast.Unparen(c.Fun).(*ast.SelectorExpr); ok && fClosed != nil && fieldOf(se.X) == fClosed && se.Sel.Name == "Load" {
					if truth {
						return -1
					}
					return +1
				}
			}
			return 0
		}
		be, ok := e.(*ast.BinaryExpr)
		if !ok || (be.Op != token.EQL && be.Op != token.NEQ) {
			return 0
		}
		var k types.Object
		switch {
		case isState(be.X):
			k = constOf(be.Y)
		case isState(be.Y):
			k = constOf(be.X)
		}
		if k == nil {
			return 0
		}
		holds := (be.Op == token.EQL) == truth // state == k on this branch
		switch {
		case k == openConst && holds:
			return +1
		case k == openConst:
			return -1
		case holds:
			return -1
		}
		return 0
	}
	// uninitTest: the condition (when true) says that the channel was never built
	uninitTest := func(e ast.Expr) bool {
		be, ok := ast.Unparen(e).(*ast.BinaryExpr)
		if !ok || be.Op != token.EQL {
			return false
		}
		if exprStr(be.Y) == "nil" && isChanExpr(be.X) {
			return true
		}
		if fPhase != nil {
			var k types.Object
			switch {
			case isState(be.X):
				k = constOf(be.Y)
			case isState(be.Y):
				k = constOf(be.X)
			}
			return k != nil && k != openConst && isZeroConst(k)
		}
		return false
	}

	// who may touch the chan field
	r.curRule = "C09-ONCE"
	for _, p := range r.Roots {
		for _, fd := range funcDecls(p) {
			own := p == pkg && recvTypeName(fd) == "Channel"
			ast.Inspect(fd.Body, func(n ast.Node) bool {
				se, ok := n.(*ast.SelectorExpr)
				if !ok {
					return true
				}
				if s, ok := p.TypesInfo.Selections[se]; ok && s.Obj() == fChan && !own {
					r.bad(funcKey(p, fd)+"#chan-field", se.Pos(), "the underlying Go channel is used outside Channel's own methods: sends/receives there bypass the closed protocol and the one-operation-per-call discipline")
				}
				return true
			})
		}
	}

	methods := map[string]*ast.FuncDecl{}
	for _, fd := range funcDecls(pkg) {
		if recvTypeName(fd) == "Channel" {
			methods[fd.Name.Name] = fd
		}
	}
	hasRecover := func(fd *ast.FuncDecl) bool {
		found := false
		ast.Inspect(fd.Body, func(n ast.Node) bool {
			if d, ok := n.(*ast.DeferStmt); ok {
				ast.Inspect(d, func(m ast.Node) bool {
					if c, ok := m.(*ast.CallExpr); ok {
						if id, ok := ast.Unparen(c.Fun).(*ast.Ident); ok && id.Name == "recover" {
							found = true
						}
					}
					return true
				})
			}
			return true
		})
		return found
	}
	// walk a method counting channel operations and tracking the closed test
	type exitRec struct {
		pos     token.Pos
		result  string // literal of the boolean result if any
		min     int
		sends   int
		checked bool
		nilArm  bool
		mayNil  bool
	}
	type opRec struct {
		pos     token.Pos
		kind    string
		checked bool
		locked  bool
	}
	dataChanClosed := false // some method closes the data channel itself (then a racing send can panic)
	for _, fd := range funcDecls(pkg) {
		if recvTypeName(fd) != "Channel" {
			continue
		}
		ast.Inspect(fd.Body, func(n ast.Node) bool {
			if c, ok := n.(*ast.CallExpr); ok {
				if id, ok := ast.Unparen(c.Fun).(*ast.Ident); ok && id.Name == "close" && len(c.Args) == 1 && isChanExpr(c.Args[0]) {
					dataChanClosed = true
				}
			}
			return true
		})
	}
	okUninit := map[types.Object]bool{} // ok results of helpers whose every failing exit means "never built"
	var leaks []token.Pos               // exits reached with the mutex possibly held and no deferred unlock
	deferredUnlock := func(fd *ast.FuncDecl) bool {
		found := false
		ast.Inspect(fd.Body, func(n ast.Node) bool {
			if d, ok := n.(*ast.DeferStmt); ok {
				if se, ok := ast.Unparen(d.Call.Fun).(*ast.SelectorExpr); ok && (se.Sel.Name == "Unlock" || se.Sel.Name == "RUnlock") {
					found = true
				}
				// defer func() { c.mu.Unlock() }()
				if lit, ok := ast.Unparen(d.Call.Fun).(*ast.FuncLit); ok {
					ast.Inspect(lit.Body, func(m ast.Node) bool {
						if c, ok := m.(*ast.CallExpr); ok {
							if se, ok := ast.Unparen(c.Fun).(*ast.SelectorExpr); ok && (se.Sel.Name == "Unlock" || se.Sel.Name == "RUnlock") {
								if isNamed(info.TypeOf(se.X), "sync", "Mutex") || isNamed(info.TypeOf(se.X), "sync", "RWMutex") {
									found = true
								}
							}
						}
						return true
					})
				}
			}
			return true
		})
		return found
	}
	// package functions and methods by object, for call expansion
	localDecl := map[types.Object]*ast.FuncDecl{}
	for _, fd := range funcDecls(pkg) {
		localDecl[info.Defs[fd.Name]] = fd
	}
	litOf := map[types.Object]*ast.FuncLit{} // function-typed parameter → the literal bound at the call being expanded
	type calleeExit struct {
		result string
		st     c09State
	}
	analyse := func(fd *ast.FuncDecl) ([]exitRec, []opRec, []token.Pos) {
		calleeExits := map[*ast.CallExpr][]calleeExit{}
		okCall := map[types.Object]*ast.CallExpr{} // ok of `x, ok := helper(…)` → the expanded call
		boolConst := map[types.Object]bool{}       // bool parameters bound to a literal at the call being expanded
		depthNow := 0
		// refine: the state after a helper call, restricted to the helper's exits that answered `truth`
		refine := func(s *c09State, call *ast.CallExpr, truth bool, counts bool) {
			outs, ok := calleeExits[call]
			if !ok {
				return
			}
			want := "false"
			if truth {
				want = "true"
			}
			first := true
			var j c09State
			for _, o := range outs {
				if o.result != want {
					if o.result != "true" && o.result != "false" {
						return // the helper's answer is not a literal on some exit: no refinement
					}
					continue
				}
				if first {
					j, first = o.st, false
				} else {
					y := o.st
					if y.sends > j.sends {
						j.sends = y.sends
					}
					if y.sendsMin < j.sendsMin {
						j.sendsMin = y.sendsMin
					}
					j.closedOK = j.closedOK && y.closedOK
					j.locked = j.locked && y.locked
					j.mayHold = j.mayHold || y.mayHold
					j.nilArm = j.nilArm && y.nilArm
					j.uninit = j.uninit && y.uninit
					j.mayNil = j.mayNil || y.mayNil
				}
			}
			if first {
				return
			}
			s.closedOK, s.nilArm, s.uninit, s.mayNil = j.closedOK, j.nilArm, j.uninit, j.mayNil
			if counts {
				s.sends, s.sendsMin = j.sends, j.sendsMin
			}
		}
		var exits []exitRec
		var ops []opRec
		var flagAccess []token.Pos // unsynchronised accesses of the closed flag
		h := &Hooks{Info: info}
		h.Copy = func(s State) State { c := *s.(*c09State); return &c }
		h.Join = func(a, b State) State {
			x, y := a.(*c09State), b.(*c09State)
			n := *x
			if y.sends > n.sends {
				n.sends = y.sends
			}
			if y.sendsMin < n.sendsMin {
				n.sendsMin = y.sendsMin
			}
			n.closedOK = x.closedOK && y.closedOK
			n.locked = x.locked && y.locked
			n.mayHold = x.mayHold || y.mayHold
			n.nilArm = x.nilArm && y.nilArm
			n.uninit = x.uninit && y.uninit
			n.mayNil = x.mayNil || y.mayNil
			return &n
		}
		h.Equal = func(a, b State) bool { return *a.(*c09State) == *b.(*c09State) }
		h.Cond = func(e ast.Expr, truth bool, st State) State {
			s := st.(*c09State)
			if id, ok := ast.Unparen(e).(*ast.Ident); ok {
				if v, known := boolConst[info.Uses[id]]; known && v != truth {
					return nil // this outcome cannot happen for the literal argument of the call being expanded
				}
				if call := okCall[info.Uses[id]]; call != nil {
					refine(s, call, truth, false)
				}
			}
			if call, ok := ast.Unparen(e).(*ast.CallExpr); ok {
				refine(s, call, truth, true)
			}
			if truth && uninitTest(e) {
				s.uninit = true
				s.nilArm = true
				s.mayNil = true
			}
			switch stateTest(e, truth) {
			case +1:
				s.closedOK = true
				s.mayNil = false
			case -1:
				if fieldOf(e) != nil || fPhase != nil {
					s.nilArm = true
					s.mayNil = true
				}
			}
			if isClosedNilTest(e, truth) {
				s.closedOK = true // the helper that produced the alias answers nil for a closed channel
				s.mayNil = false
			}
			if isClosedNilTest(e, !truth) {
				s.nilArm = true
				s.mayNil = true
			}
			return s
		}
		h.CaseMatch = func(tag, val ast.Expr, truth bool, st State) State {
			s := st.(*c09State)
			if fPhase != nil && isState(tag) {
				if k := constOf(val); k != nil {
					switch {
					case k == openConst && truth:
						s.closedOK = true
					case k == openConst && !truth, k != openConst && truth:
						s.nilArm = true
					}
				}
			}
			return s
		}
		h.Visit = func(e ast.Expr, st State) State {
			s := st.(*c09State)
			switch x := e.(type) {
			case *ast.UnaryExpr:
				if x.Op == token.ARROW && isChanExpr(x.X) {
					if s.sends < 2 {
						s.sends++
					}
					if s.sendsMin < 2 {
						s.sendsMin++
					}
					ops = append(ops, opRec{x.Pos(), "receive", s.closedOK, s.locked})
				}
			case *ast.CallExpr:
				// calls into this package (helpers, wrappers such as locked(fn)) and calls of a function
				// literal handed in as a parameter are expanded: the callee is walked in the current state
				var body *ast.BlockStmt
				var callee *ast.FuncDecl
				if cd := localDecl[calleeOf(info, x)]; cd != nil && cd != fd {
					callee, body = cd, cd.Body
				} else if id, ok := ast.Unparen(x.Fun).(*ast.Ident); ok {
					if lit := litOf[info.Uses[id]]; lit != nil {
						body = lit.Body
					}
				}
				if body != nil && depthNow < 4 {
					if callee != nil {
						k := 0
						for _, f := range callee.Type.Params.List {
							for _, nm := range f.Names {
								if k < len(x.Args) {
									p := info.Defs[nm]
									a := x.Args[k]
									if isChanExpr(a) {
										chanAlias[p] = true
										if id, ok := ast.Unparen(a).(*ast.Ident); ok && closedNilAlias[info.Uses[id]] {
											closedNilAlias[p] = true
										}
									}
									if isSignalExpr(a) {
										signalAlias[p] = true
									}
									if lit, ok := ast.Unparen(a).(*ast.FuncLit); ok {
										litOf[p] = lit
									}
									if tv, ok := info.Types[a]; ok && tv.Value != nil && tv.Value.Kind() == constant.Bool {
										boolConst[p] = constant.BoolVal(tv.Value)
										defer delete(boolConst, p)
									}
								}
								k++
							}
						}
					}
					depthNow++
					sub := *h
					var outs []calleeExit
					sub.Return = func(rs *ast.ReturnStmt, st State) {
						res := ""
						if len(rs.Results) > 0 {
							res = exprStr(rs.Results[len(rs.Results)-1])
						}
						outs = append(outs, calleeExit{res, *st.(*c09State)})
					}
					sub.End = func(st State) { outs = append(outs, calleeExit{"", *st.(*c09State)}) }
					cp := *s
					WalkFunc(&sub, body, &cp)
					depthNow--
					if len(outs) > 0 {
						j := outs[0].st
						for _, o := range outs[1:] {
							o := o
							j = *h.Join(&j, &o.st).(*c09State)
						}
						if callee != nil && deferredUnlock(callee) {
							j.locked, j.mayHold = false, false
							for i := range outs {
								outs[i].st.locked, outs[i].st.mayHold = false, false
							}
						}
						*s = j
						calleeExits[x] = outs
					}
					return s
				}
				if id, ok := ast.Unparen(x.Fun).(*ast.Ident); ok && id.Name == "close" && len(x.Args) == 1 && (isChanExpr(x.Args[0]) || isSignalExpr(x.Args[0])) {
					ops = append(ops, opRec{x.Pos(), "close", s.closedOK, s.locked})
					if isChanExpr(x.Args[0]) {
						dataChanClosed = true
					}
				}
				if se, ok := ast.Unparen(x.Fun).(*ast.SelectorExpr); ok {
					if isNamed(info.TypeOf(se.X), "sync", "Mutex") || isNamed(info.TypeOf(se.X), "sync", "RWMutex") {
						switch se.Sel.Name {
						case "Lock", "RLock":
							s.locked = true
							s.mayHold = true
						case "Unlock", "RUnlock":
							s.locked = false
							s.mayHold = false
						}
					}
				}
			case *ast.SelectorExpr:
				if fClosed != nil && fieldOf(x) == fClosed {
					if b, ok := fClosed.Type().Underlying().(*types.Basic); ok && b.Kind() == types.Bool && !s.locked {
						flagAccess = append(flagAccess, x.Pos())
					}
				}
				if fPhase != nil && fieldOf(x) == fPhase && !s.locked {
					flagAccess = append(flagAccess, x.Pos())
				}
			}
			return s
		}
		h.Stmt = func(stm ast.Stmt, st State) State {
			s := st.(*c09State)
			if snd, ok := stm.(*ast.SendStmt); ok && isChanExpr(snd.Chan) {
				if s.sends < 2 {
					s.sends++
				}
				if s.sendsMin < 2 {
					s.sendsMin++
				}
				ops = append(ops, opRec{snd.Pos(), "send", s.closedOK, s.locked})
			}
			if as, ok := stm.(*ast.AssignStmt); ok {
				if len(as.Rhs) == 1 && len(as.Lhs) >= 2 {
					if call, ok := ast.Unparen(as.Rhs[0]).(*ast.CallExpr); ok {
						if _, expanded := calleeExits[call]; expanded {
							if id, ok := as.Lhs[len(as.Lhs)-1].(*ast.Ident); ok && id.Name != "_" {
								o := info.Defs[id]
								if o == nil {
									o = info.Uses[id]
								}
								if o != nil {
									okCall[o] = call
									// `!ok` is a never-built test when every failing exit of the helper is one
									allUninit, n := true, 0
									for _, ex := range calleeExits[call] {
										if ex.result == "false" {
											n++
											if !ex.st.uninit {
												allUninit = false
											}
										}
									}
									if n > 0 && allUninit {
										okUninit[o] = true
									}
								}
							}
						}
					}
				}
				for i, l := range as.Lhs {
					if fClosed != nil && fieldOf(l) == fClosed {
						// clearing the flag invalidates the observation; setting it is part of the protocol
						if i < len(as.Rhs) && exprStr(as.Rhs[i]) != "true" {
							s.closedOK = false
						}
					}
					if fPhase != nil && fieldOf(l) == fPhase && i < len(as.Rhs) && constOf(as.Rhs[i]) == openConst {
						s.closedOK = false // re-opened: what was observed before no longer holds
					}
				}
			}
			return s
		}
		h.Return = func(rs *ast.ReturnStmt, st State) {
			s := st.(*c09State)
			res := ""
			if len(rs.Results) > 0 {
				res = exprStr(rs.Results[len(rs.Results)-1])
			}
			expanded := false
			if len(rs.Results) > 0 {
				if c, ok := ast.Unparen(rs.Results[len(rs.Results)-1]).(*ast.CallExpr); ok {
					if outs, ok := calleeExits[c]; ok {
						for _, o := range outs {
							exits = append(exits, exitRec{rs.Pos(), o.result, o.st.sendsMin, o.st.sends, o.st.closedOK, o.st.nilArm, o.st.mayNil})
						}
						expanded = true
					}
				} else if len(rs.Results) == 1 {
					if c, ok := ast.Unparen(rs.Results[0]).(*ast.CallExpr); ok {
						if outs, ok := calleeExits[c]; ok {
							for _, o := range outs {
								exits = append(exits, exitRec{rs.Pos(), o.result, o.st.sendsMin, o.st.sends, o.st.closedOK, o.st.nilArm, o.st.mayNil})
							}
							expanded = true
						}
					}
				}
			}
			if !expanded {
				exits = append(exits, exitRec{rs.Pos(), res, s.sendsMin, s.sends, s.closedOK, s.nilArm, s.mayNil})
			}
			if s.mayHold && !deferredUnlock(fd) {
				leaks = append(leaks, rs.Pos())
			}
		}
		h.End = func(st State) {
			s := st.(*c09State)
			exits = append(exits, exitRec{fd.Body.Rbrace, "", s.sendsMin, s.sends, s.closedOK, s.nilArm, s.mayNil})
			if s.mayHold && !deferredUnlock(fd) {
				leaks = append(leaks, fd.Body.Rbrace)
			}
		}
		WalkFunc(h, c09NormalizeReturns(info, fd.Body), &c09State{})
		return exits, ops, flagAccess
	}

	var allFlagAccess []token.Pos
	judgeSender := func(send *ast.FuncDecl) {
		exits, ops, fa := analyse(send)
		allFlagAccess = append(allFlagAccess, fa...)
		r.curRule = "C09-ONCE"
		for _, e := range exits {
			key := funcKey(pkg, send) + "#exit:" + e.result
			switch {
			case e.result == "true" && (e.sends != 1 || e.min != 1):
				r.bad(key, e.pos, fmt.Sprintf("Send reports success on a path that performed between %d and %d channel sends: a value is lost or delivered twice", e.min, e.sends))
			case e.result == "false" && e.sends != 0:
				r.bad(key, e.pos, "Send reports failure on a path that already sent the value: the receiver gets a value whose send 'failed'")
			default:
				r.ok(key, e.pos, fmt.Sprintf("result %s after %d send(s)", e.result, e.sends))
			}
		}
		r.curRule = "C09-CHECK"
		nsend := 0
		for _, o := range ops {
			if o.kind != "send" {
				continue
			}
			nsend++
			key := funcKey(pkg, send) + "#send-after-closed-test"
			if o.checked {
				r.ok(key, o.pos, "the send is preceded on every path by a test that the channel is not closed")
			} else {
				r.bad(key, o.pos, "a send is reachable without the closed flag having been tested: send on a closed channel panics, and 'send reports failure after close' is lost")
			}
		}
		if nsend == 0 {
			r.bad(funcKey(pkg, send)+"#send-after-closed-test", send.Pos(), "Send never sends on the channel")
		}
		// closed arm returns false
		closedArmFalse := false
		ast.Inspect(send.Body, func(n ast.Node) bool {
			ifs, ok := n.(*ast.IfStmt)
			if !ok {
				return true
			}
			mentions := false
			ast.Inspect(ifs.Cond, func(m ast.Node) bool {
				if e, ok := m.(ast.Expr); ok && isState(e) {
					mentions = true
				}
				return true
			})
			if !mentions {
				// ch := c.open(); if ch == nil { return false }
				ast.Inspect(ifs.Cond, func(m ast.Node) bool {
					if e, ok := m.(ast.Expr); ok && isClosedNilTest(e, false) {
						mentions = true
					}
					return true
				})
			}
			if mentions {
				for _, s := range ifs.Body.List {
					if rs, ok := s.(*ast.ReturnStmt); ok && len(rs.Results) == 1 && exprStr(rs.Results[0]) == "false" {
						closedArmFalse = true
					}
				}
			}
			return true
		})
		for _, e := range exits {
			if (e.nilArm || e.mayNil) && e.result == "false" && e.sends == 0 {
				closedArmFalse = true
			}
		}
		for _, e := range exits {
			if e.nilArm && e.result == "true" {
				closedArmFalse = false
			}
		}
		if closedArmFalse {
			r.ok(funcKey(pkg, send)+"#closed-arm", send.Pos(), "on a closed channel Send returns false")
		} else {
			r.bad(funcKey(pkg, send)+"#closed-arm", send.Pos(), "no branch of Send returns false when the closed flag is set")
		}
		r.curRule = "C09-SAFE"
		for _, o := range ops {
			if o.kind != "send" {
				continue
			}
			key := funcKey(pkg, send) + "#send-vs-concurrent-close"
			if hasRecover(send) {
				r.ok(key, o.pos, "a deferred recover turns a send on a concurrently closed channel into a failure result")
			} else if !dataChanClosed {
				r.ok(key, o.pos, "the data channel itself is never closed (closing is signalled on a separate channel), so a send cannot hit a closed channel")
			} else {
				r.bad(key, o.pos, "check-then-send: a Close between the closed test and the send makes the send panic ('send on closed channel'); no recover, and a lock cannot be held across a blocking send")
			}
		}
	}
	if send := methods["Send"]; send == nil {
		r.fail("anchor not found: (*Channel).Send")
	} else {
		judgeSender(send)
	}
	judgeReceiver := func(recv *ast.FuncDecl) {
		exits, ops, fa := analyse(recv)
		allFlagAccess = append(allFlagAccess, fa...)
		r.curRule = "C09-ONCE"
		nrecv := 0
		for _, o := range ops {
			if o.kind == "receive" {
				nrecv++
			}
		}
		maxOps := 0
		for _, e := range exits {
			if e.sends > maxOps {
				maxOps = e.sends
			}
		}
		key := funcKey(pkg, recv) + "#one-receive"
		if nrecv >= 1 && maxOps == 1 {
			r.ok(key, recv.Pos(), "at most one receive per call")
		} else {
			r.bad(key, recv.Pos(), fmt.Sprintf("Receive performs %d receive operation(s) on some path: values are dropped or the call consumes two", maxOps))
		}
		r.curRule = "C09-CHECK"
		commaOK := false
		ast.Inspect(recv.Body, func(n ast.Node) bool {
			if as, ok := n.(*ast.AssignStmt); ok && len(as.Lhs) == 2 && len(as.Rhs) == 1 {
				if u, ok := ast.Unparen(as.Rhs[0]).(*ast.UnaryExpr); ok && u.Op == token.ARROW && isChanExpr(u.X) {
					commaOK = true
				}
			}
			return true
		})
		if !commaOK && !dataChanClosed {
			// the data channel is never closed: "no value" may be reported only for an uninitialised
			// channel or after a non-blocking receive found the buffer empty (default clause of a select
			// that also tries to receive from the data channel)
			drained := true
			nfalse := 0
			visiting := map[*ast.FuncDecl]bool{}
			var visit func(n ast.Node, inDrainDefault, inNilTest bool)
			visit = func(n ast.Node, inDrainDefault, inNilTest bool) {
				ast.Inspect(n, func(m ast.Node) bool {
					if m == n {
						return true
					}
					switch x := m.(type) {
					case *ast.SelectStmt:
						triesData := false
						for _, c := range x.Body.List {
							cc := c.(*ast.CommClause)
							if cc.Comm != nil {
								ast.Inspect(cc.Comm, func(k ast.Node) bool {
									if u, ok := k.(*ast.UnaryExpr); ok && u.Op == token.ARROW && isChanExpr(u.X) {
										triesData = true
									}
									return true
								})
							}
						}
						for _, c := range x.Body.List {
							cc := c.(*ast.CommClause)
							for _, st := range cc.Body {
								visit(&ast.BlockStmt{List: []ast.Stmt{st}}, cc.Comm == nil && triesData, inNilTest)
							}
						}
						return false
					case *ast.IfStmt:
						nilTest := uninitTest(x.Cond)
						if u, ok := ast.Unparen(x.Cond).(*ast.UnaryExpr); ok && u.Op == token.NOT {
							if id, ok := ast.Unparen(u.X).(*ast.Ident); ok && okUninit[info.Uses[id]] {
								nilTest = true
							}
						}
						visit(x.Body, inDrainDefault, inNilTest || nilTest)
						if x.Else != nil {
							visit(x.Else, inDrainDefault, inNilTest)
						}
						return false
					case *ast.ReturnStmt:
						if len(x.Results) == 2 && exprStr(x.Results[1]) == "false" {
							nfalse++
							if !inDrainDefault && !inNilTest {
								drained = false
							}
						}
						// return helper(ch): the helper has to establish the drained state itself
						if len(x.Results) == 1 {
							if c, ok := ast.Unparen(x.Results[0]).(*ast.CallExpr); ok {
								if cd := localDecl[calleeOf(info, c)]; cd != nil && !visiting[cd] {
									visiting[cd] = true
									visit(cd.Body, false, false)
									visiting[cd] = false
								}
							}
						}
					}
					return true
				})
			}
			visit(recv.Body, false, false)
			if drained && nfalse > 0 {
				commaOK = true
			}
		}
		if commaOK {
			r.ok(funcKey(pkg, recv)+"#comma-ok", recv.Pos(), "Receive reports 'no value' only when the channel cannot deliver one (two-result receive, or a drained non-blocking receive on a never-closed data channel)")
		} else {
			r.bad(funcKey(pkg, recv)+"#comma-ok", recv.Pos(), recv.Name.Name+" can report 'closed, no value' without having established that no value is left (no two-result receive, and not every such answer follows a drained non-blocking receive): buffered values are lost after close, or a zero value is indistinguishable from data")
		}
	}
	if recv := methods["Receive"]; recv == nil {
		r.fail("anchor not found: (*Channel).Receive")
	} else {
		judgeReceiver(recv)
	}
	if cl := methods["Close"]; cl == nil {
		r.fail("anchor not found: (*Channel).Close")
	} else {
		_, ops, fa := analyse(cl)
		allFlagAccess = append(allFlagAccess, fa...)
		for _, o := range ops {
			if o.kind != "close" {
				continue
			}
			r.curRule = "C09-CHECK"
			key := funcKey(pkg, cl) + "#close-after-closed-test"
			if o.checked || hasOnce {
				r.ok(key, o.pos, "close is preceded by a test of the closed flag")
			} else {
				r.bad(key, o.pos, "close() reachable without testing the closed flag: closing twice panics")
			}
			r.curRule = "C09-SAFE"
			key = funcKey(pkg, cl) + "#close-vs-concurrent-close"
			if hasOnce || (hasMutex && o.locked) || hasRecover(cl) {
				r.ok(key, o.pos, "close is serialised (sync.Once / mutex held across test and close / recover)")
			} else {
				r.bad(key, o.pos, "check-then-close without mutual exclusion: two concurrent Close calls both pass the test and the second close panics")
			}
		}
	}
	// other methods: they may read the flag but must not operate on the channel
	otherNames := []string{}
	for name := range methods {
		otherNames = append(otherNames, name)
	}
	sort.Strings(otherNames)
	for _, name := range otherNames {
		fd := methods[name]
		if name == "Send" || name == "Receive" || name == "Close" {
			continue
		}
		_, ops, fa := analyse(fd)
		if name != "Construct" && len(ops) > 0 {
			// a further operation of the same kind (receive with a timeout, non-blocking send): judged by
			// the rules of the operation it performs, by its result shape — (value, bool) / bool
			kinds := map[string]bool{}
			for _, o := range ops {
				kinds[o.kind] = true
			}
			if sig, ok := info.Defs[fd.Name].Type().(*types.Signature); ok {
				isBool := func(t types.Type) bool {
					b, ok := t.Underlying().(*types.Basic)
					return ok && b.Kind() == types.Bool
				}
				n := sig.Results().Len()
				if len(kinds) == 1 && kinds["receive"] && n == 2 && isBool(sig.Results().At(1).Type()) {
					judgeReceiver(fd)
					continue
				}
				if len(kinds) == 1 && kinds["send"] && n == 1 && isBool(sig.Results().At(0).Type()) {
					judgeSender(fd)
					continue
				}
			}
		}
		allFlagAccess = append(allFlagAccess, fa...)
		if name == "Construct" {
			continue // (re)initialisation closes the previous channel
		}
		r.curRule = "C09-ONCE"
		key := funcKey(pkg, fd) + "#no-channel-op"
		if len(ops) == 0 {
			r.ok(key, fd.Pos(), "performs no send, receive or close")
		} else {
			r.bad(key, ops[0].pos, fmt.Sprintf("%s performs a %s on the channel: a query consumes or injects a value behind the senders' and receivers' backs", name, ops[0].kind))
		}
	}
	// script-facing method objects: the operation they are named after is performed on every
	// path that does not fail on an uninitialised channel
	r.curRule = "C09-CHECK"
	wantOp := map[string]string{"send": "Send", "receive": "Receive", "close": "Close"}
	for _, fd := range funcDecls(pkg) {
		if fd.Name.Name != "GetName" || fd.Recv == nil || len(fd.Body.List) != 1 {
			continue
		}
		rs, ok := fd.Body.List[0].(*ast.ReturnStmt)
		if !ok || len(rs.Results) != 1 {
			continue
		}
		tv, ok := info.Types[rs.Results[0]]
		if !ok || tv.Value == nil {
			continue
		}
		op, ok := wantOp[strings.Trim(tv.Value.ExactString(), "\"")]
		if !ok {
			continue
		}
		call := findFunc(pkg, recvTypeName(fd), "Call")
		if call == nil {
			continue
		}
		type st struct{ done, nilChan bool }
		var early token.Pos
		h := &Hooks{Info: info}
		h.Copy = func(s State) State { c := *s.(*st); return &c }
		h.Join = func(a, b State) State { x, y := a.(*st), b.(*st); return &st{x.done && y.done, x.nilChan && y.nilChan} }
		h.Equal = func(a, b State) bool { return *a.(*st) == *b.(*st) }
		h.Cond = func(e ast.Expr, truth bool, s State) State {
			if be, ok := ast.Unparen(e).(*ast.BinaryExpr); ok && exprStr(be.Y) == "nil" && (be.Op == token.EQL) == truth {
				s.(*st).nilChan = true
			}
			return s
		}
		h.Visit = func(e ast.Expr, s State) State {
			if c, ok := e.(*ast.CallExpr); ok {
				if cal, ok := calleeOf(info, c).(*types.Func); ok && cal.Name() == op && isMethod(cal, pkg.PkgPath, "Channel", op) {
					s.(*st).done = true
				}
			}
			return s
		}
		h.Return = func(rs *ast.ReturnStmt, s State) {
			x := s.(*st)
			if x.done || x.nilChan {
				return
			}
			// returning an error control is a failure, not a skipped operation
			if len(rs.Results) == 2 && exprStr(rs.Results[1]) != "nil" {
				return
			}
			if early == token.NoPos {
				early = rs.Pos()
			}
		}
		WalkFunc(h, call.Body, &st{})
		key := funcKey(pkg, call) + "#performs:" + op
		if early == token.NoPos {
			r.ok(key, call.Pos(), "every successful path of the script method performs Channel."+op)
		} else {
			r.bad(key, early, "the script-level method returns a result without having called Channel."+op+": e.g. a receive that answers null for a closed channel without draining what is buffered")
		}
	}
	r.curRule = "C09-SAFE"
	if hasMutex {
		if len(leaks) == 0 {
			r.ok("Channel#mutex-released-on-every-exit", ch.Obj().Pos(), "no method of Channel returns with its mutex held")
		} else {
			r.bad("Channel#mutex-released-on-every-exit", leaks[0], fmt.Sprintf("a method of Channel returns with the mutex still held on some path (%d exit(s)): every later operation on this channel blocks forever", len(leaks)))
		}
	}
	r.curRule = "C09-SYNC"
	if fClosed == nil && fPhase != nil {
		if len(allFlagAccess) == 0 {
			r.ok("Channel.closed", fPhase.Pos(), "every access of the state field is under the channel's mutex")
		} else {
			r.bad("Channel.closed", allFlagAccess[0], fmt.Sprintf("the state field %s is read and written by concurrent senders, receivers and closers with no lock (%d unsynchronised accesses): a data race by construction", fPhase.Name(), len(allFlagAccess)))
		}
	} else if fClosed == nil {
		r.ok("Channel.closed", ch.Obj().Pos(), "no plain boolean closed flag")
	} else if isNamed(fClosed.Type(), "sync/atomic", "Bool") {
		r.ok("Channel.closed", fClosed.Pos(), "the closed flag is an atomic.Bool")
	} else if len(allFlagAccess) == 0 {
		r.ok("Channel.closed", fClosed.Pos(), "every access of the closed flag is under the channel's mutex")
	} else {
		r.bad("Channel.closed", allFlagAccess[0], fmt.Sprintf("the closed flag is a plain bool read and written by concurrent senders, receivers and closers with no lock or atomic (%d unsynchronised accesses): a data race by construction", len(allFlagAccess)))
	}
}

func isChanHelper(m map[*types.Func]int, f *types.Func) bool { _, ok := m[f]; return ok }

func f0(info *types.Info, c *ast.CallExpr) *types.Func {
	f, _ := calleeOf(info, c).(*types.Func)
	return f
}

// c09NormalizeReturns rewrites `return <bool expression with a call>` into
// `if <expr> { return true }; return false`, so that the walker's condition machinery (short circuit,
// refinement by the callee's exits) applies to results such as `return ok && ep.offer(v)`.
func c09NormalizeReturns(info *types.Info, body *ast.BlockStmt) *ast.BlockStmt {
	var stmts func(list []ast.Stmt) []ast.Stmt
	var one func(s ast.Stmt) []ast.Stmt
	block := func(b *ast.BlockStmt) *ast.BlockStmt {
		if b == nil {
			return nil
		}
		return &ast.BlockStmt{Lbrace: b.Lbrace, List: stmts(b.List), Rbrace: b.Rbrace}
	}
	one = func(s ast.Stmt) []ast.Stmt {
		switch x := s.(type) {
		case *ast.ReturnStmt:
			if len(x.Results) != 1 {
				return []ast.Stmt{s}
			}
			res := ast.Unparen(x.Results[0])
			if id, ok := res.(*ast.Ident); ok && (id.Name == "true" || id.Name == "false") {
				return []ast.Stmt{s}
			}
			t := info.TypeOf(res)
			if t == nil {
				return []ast.Stmt{s}
			}
			if b, ok := t.Underlying().(*types.Basic); !ok || b.Kind() != types.Bool {
				return []ast.Stmt{s}
			}
			if _, isBin := res.(*ast.BinaryExpr); !isBin {
				return []ast.Stmt{s} // a plain `return helper(…)` is expanded by the return hook
			}
			hasCall := false
			ast.Inspect(res, func(n ast.Node) bool {
				if _, ok := n.(*ast.CallExpr); ok {
					hasCall = true
				}
				return true
			})
			if !hasCall {
				return []ast.Stmt{s}
			}
			yes := &ast.ReturnStmt{Return: x.Return, Results: []ast.Expr{&ast.Ident{NamePos: x.Return, Name: "true"}}}
			no := &ast.ReturnStmt{Return: x.Return, Results: []ast.Expr{&ast.Ident{NamePos: x.Return, Name: "false"}}}
			return []ast.Stmt{&ast.IfStmt{If: x.Return, Cond: x.Results[0], Body: &ast.BlockStmt{Lbrace: x.Return, List: []ast.Stmt{yes}, Rbrace: x.Return}}, no}
		case *ast.BlockStmt:
			return []ast.Stmt{block(x)}
		case *ast.IfStmt:
			n := *x
			n.Body = block(x.Body)
			if x.Else != nil {
				el := one(x.Else)
				if len(el) == 1 {
					n.Else = el[0]
				} else {
					n.Else = &ast.BlockStmt{List: el}
				}
			}
			return []ast.Stmt{&n}
		case *ast.ForStmt:
			n := *x
			n.Body = block(x.Body)
			return []ast.Stmt{&n}
		case *ast.RangeStmt:
			n := *x
			n.Body = block(x.Body)
			return []ast.Stmt{&n}
		case *ast.LabeledStmt:
			n := *x
			in := one(x.Stmt)
			if len(in) == 1 {
				n.Stmt = in[0]
			} else {
				n.Stmt = &ast.BlockStmt{List: in}
			}
			return []ast.Stmt{&n}
		case *ast.SwitchStmt:
			n := *x
			nb := &ast.BlockStmt{Lbrace: x.Body.Lbrace, Rbrace: x.Body.Rbrace}
			for _, c := range x.Body.List {
				cc := *c.(*ast.CaseClause)
				cc.Body = stmts(cc.Body)
				nb.List = append(nb.List, &cc)
			}
			n.Body = nb
			return []ast.Stmt{&n}
		case *ast.TypeSwitchStmt:
			n := *x
			nb := &ast.BlockStmt{Lbrace: x.Body.Lbrace, Rbrace: x.Body.Rbrace}
			for _, c := range x.Body.List {
				cc := *c.(*ast.CaseClause)
				cc.Body = stmts(cc.Body)
				nb.List = append(nb.List, &cc)
			}
			n.Body = nb
			return []ast.Stmt{&n}
		case *ast.SelectStmt:
			n := *x
			nb := &ast.BlockStmt{Lbrace: x.Body.Lbrace, Rbrace: x.Body.Rbrace}
			for _, c := range x.Body.List {
				cc := *c.(*ast.CommClause)
				cc.Body = stmts(cc.Body)
				nb.List = append(nb.List, &cc)
			}
			n.Body = nb
			return []ast.Stmt{&n}
		}
		return []ast.Stmt{s}
	}
	stmts = func(list []ast.Stmt) []ast.Stmt {
		var out []ast.Stmt
		for _, s := range list {
			out = append(out, one(s)...)
		}
		return out
	}
	return block(body)
}
