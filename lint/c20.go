package main

import (
	"fmt"
	"go/ast"
	"go/token"
	"go/types"
	"strings"

	"golang.org/x/tools/go/packages"
)

func init() {
	for _, e := range [][2]string{
		{"data.WriteOutput", "host configuration of the output sink (embedding API); not written by scripts"},
		{"data.userOutputEmitted", "reset by VM.LoadAndRun (data.ResetUserOutput) before each program"},
		{"node.argcValue", "lazily built from os.Args: identical for every VM of the process"},
		{"node.argvValue", "lazily built from os.Args: identical for every VM of the process"},
		{"node.envValue", "cache of the process environment: identical for every VM of the process"},
		{"node.serverValue", "cache of the process environment / request; reset per request by ResetSuperglobals; A;B witness showed no carry-over between sequential VMs"},
		{"node.cookieValue", "HTTP request cache reset by ResetSuperglobals at the start of each request (C11 covers concurrent requests)"},
		{"node.filesValue", "HTTP request cache reset by ResetSuperglobals at the start of each request (C11 covers concurrent requests)"},
		{"node.getValue", "HTTP request cache reset by ResetSuperglobals at the start of each request (C11 covers concurrent requests)"},
		{"node.postValue", "HTTP request cache reset by ResetSuperglobals at the start of each request (C11 covers concurrent requests)"},
		{"node.requestValue", "HTTP request cache reset by ResetSuperglobals at the start of each request (C11 covers concurrent requests)"},
		{"node.sessionValue", "HTTP request cache reset by ResetSuperglobals at the start of each request (C11 covers concurrent requests)"},
		{"node.globalsValue", "A;B witness: $GLOBALS of program B does not contain A's variables (rebuilt from the running context)"},
		{"parser.globalScopeFactory", "host configuration hook (embedding API), set before parsing starts"},
		{"parser.parserRouter", "statement-parser registry extended by hosts at load time (AddParse); not written by scripts"},
		{"token.TokenDefinitions", "token table extended by hosts at load time (NewKeyword/NewOperator); not written by scripts"},
		{"token.initTokenDefinitions", "write-once under sync.Once"},
		{"token.tree", "write-once under sync.Once"},
		{"std/php.errorReportingLevel", "A;B witness showed no carry-over: error_reporting() declares no parameters, so the stored level is not changed by a script call"},
		{"std/php/core.headerCallbacks", "HTTP header emulation; A;B witness did not reproduce a carry-over (callbacks are cleared when run)"},
		{"std/php/core.headerOutputStarted", "HTTP header emulation flag; A;B witness did not reproduce an observable difference"},
		{"std/php/core.phptInputBody", "set by the phpt test runner only"},
	} {
		assumeSite("C20-GLOBALS", e[0], e[1])
	}
	for _, e := range [][2]string{
		{"node.(LambdaExpression).Call#range:f.parent", "each entry sets a distinct captured variable slot: the final state is the same for every order"},
		{"runtime.bindTemplateVariables#range:props", "each entry sets the distinct template variable of the same name: order does not matter"},
		{"runtime.(VM).RegisterReflectFunctions#range:functions", "host-side bulk registration; output only on a registration error"},
		{"runtime.(TempVM).AddedClasses#range:vm.addedClasses", "host API returning a set; its only caller (hot reload) treats it as unordered"},
		{"node.(FilesVariable).GetValue#range:httpReq.MultipartForm.File", "HTTP request data: the order is already lost in net/http's maps; not reachable from a sequential program without a server"},
		{"node.(GetVariable).GetValue#range:httpReq.URL.Query()", "HTTP request data: the order is already lost in net/http's maps; not reachable from a sequential program without a server"},
		{"node.(PostVariable).GetValue#range:httpReq.Form", "HTTP request data: the order is already lost in net/http's maps; not reachable from a sequential program without a server"},
		{"node.(ServerVariable).GetValue#range:httpReq.Header", "HTTP request data: the order is already lost in net/http's maps; not reachable from a sequential program without a server"},
	} {
		assumeSite("C20-MAPORDER", e[0], e[1])
	}
	register(&PropDef{
		ID:       "C20",
		Patterns: []string{"./lexer", "./parser", "./node", "./data", "./runtime", "./token", "./std/...", "./utils"},
		Explanation: "Go's map iteration order is unspecified, so any range over a map whose body is sensitive to the order (emits output, calls script code, fills an ordered container, returns the first match, appends to a slice that is used unsorted) makes a sequential program non-deterministic. Every range over a map in the packages a script can execute (lexer, parser, token, node, data, runtime, std/serializer/json, std/php and every package below it) is classified from its body and from what happens to the slices it fills; order-insensitive shapes are discharged, everything else must be a reviewed entry. " +
			"The second rule takes a census of package-level variables written outside init by code in those packages: each must be reset per VM, immutable after initialisation, keyed by VM/request, or listed. Byte-identical output as a whole is not decided.",
		Assumptions: []string{
			"order-insensitive shapes: stores into maps/sets, deletes, commutative accumulation (+=, ++, |=, boolean flags, min/max), early return of a constant or of an error, appends to a slice that is sorted before the function uses or returns it",
			"calls inside a classified body are assumed not to print or call script code unless they are the known output/evaluation entry points",
		},
		Rules: []RuleDef{
			{Name: "C20-GLOBALS", Floor: 2, Doc: "every package-level variable that interpreter code writes outside init is reset per VM, write-once configuration, keyed by VM/request, or a listed finding", Run: c20Globals},
			{Name: "C20-MAPORDER", Floor: 5, Doc: "every range over a Go map in interpreter and stdlib packages is order-insensitive by shape, or its result is sorted before use, or it is a reviewed entry", Run: c20MapOrder},
		},
	})
}

func c20MapOrder(r *Run) {
	n := 0
	for _, pkg := range r.Roots {
		if !strings.HasPrefix(pkg.PkgPath, modPath) {
			continue
		}
		rel := strings.TrimPrefix(strings.TrimPrefix(pkg.PkgPath, modPath), "/")
		inScope := false
		for _, sc := range []string{"lexer", "parser", "token", "node", "data", "runtime", "std/serializer/json", "std/php"} {
			if rel == sc || (sc == "std/php" && strings.HasPrefix(rel, "std/php/")) {
				inScope = true
			}
		}
		if !inScope {
			// std/** beyond the core: counted, not judged (see DESIGN: ~40 sites iterate GetProperties() maps)
			for _, fd := range funcDecls(pkg) {
				ast.Inspect(fd.Body, func(nd ast.Node) bool {
					if rs, ok := nd.(*ast.RangeStmt); ok {
						if _, isMap := pkg.TypesInfo.TypeOf(rs.X).Underlying().(*types.Map); isMap {
							r.stat("map_ranges_outside_scope_not_judged", 1)
						}
					}
					return true
				})
			}
			continue
		}
		for _, fd := range funcDecls(pkg) {
			var ranges []*ast.RangeStmt
			ast.Inspect(fd.Body, func(nd ast.Node) bool {
				if rs, ok := nd.(*ast.RangeStmt); ok {
					if _, isMap := pkg.TypesInfo.TypeOf(rs.X).Underlying().(*types.Map); isMap {
						ranges = append(ranges, rs)
					}
				}
				return true
			})
			for _, rs := range ranges {
				n++
				key := fmt.Sprintf("%s#range:%s", funcKey(pkg, fd), strings.ReplaceAll(exprStr(rs.X), " ", ""))
				verdict, why := classifyMapRange(pkg, fd, rs)
				if verdict != "ok" && c20RequestMap(pkg.TypesInfo, rs.X) {
					// HTTP request data (url.Values, http.Header, a multipart form's maps): the order in which
					// the client sent the entries is already lost in net/http's own maps, and no sequential
					// program without a server reaches it
					verdict, why = "ok", "ranges over a map handed out by net/http / net/url: its order is lost before the interpreter sees it"
				}
				switch verdict {
				case "ok":
					r.ok(key, rs.Pos(), why)
				case "fold":
					r.assume(key, rs.Pos(), "not armed: "+why+" — uniqueness up to case is the registry's invariant, not re-proved here")
				default:
					r.bad(key, rs.Pos(), why)
				}
			}
		}
	}
	r.stat("map_ranges", n)
}

// classifyMapRange decides whether the effect of the loop depends on the iteration order.
func classifyMapRange(pkg *packages.Package, fd *ast.FuncDecl, rs *ast.RangeStmt) (string, string) {
	info := pkg.TypesInfo
	objOf := func(e ast.Expr) types.Object {
		if id, ok := ast.Unparen(e).(*ast.Ident); ok {
			if o := info.Uses[id]; o != nil {
				return o
			}
			return info.Defs[id]
		}
		return nil
	}
	appended := map[types.Object]token.Pos{}            // slices appended to in the body
	fieldAppended := map[types.Object]map[string]bool{} // local object → its slice fields appended to in the body
	var problem string
	var problemPos token.Pos
	foldSelect := false
	flag := func(p token.Pos, s string) {
		if problem == "" {
			problem, problemPos = s, p
		}
	}
	isLocalToLoop := func(o types.Object) bool {
		return o != nil && o.Pos() >= rs.Pos() && o.Pos() <= rs.End()
	}
	var condHasFoldOnKey func(e ast.Expr) bool
	condHasFoldOnKey = func(e ast.Expr) bool {
		e = ast.Unparen(e)
		if be, ok := e.(*ast.BinaryExpr); ok && be.Op == token.LAND {
			return condHasFoldOnKey(be.X) || condHasFoldOnKey(be.Y)
		}
		c, ok := e.(*ast.CallExpr)
		if !ok || len(c.Args) != 2 {
			return false
		}
		cal, ok := calleeOf(info, c).(*types.Func)
		if !ok || cal.Pkg() == nil || cal.Pkg().Path() != "strings" || cal.Name() != "EqualFold" {
			return false
		}
		k := objOf(rs.Key)
		return k != nil && (objOf(c.Args[0]) == k || objOf(c.Args[1]) == k)
	}
	var checkStmt func(s ast.Stmt)
	checkExprCalls := func(e ast.Node) {
		ast.Inspect(e, func(nd ast.Node) bool {
			c, ok := nd.(*ast.CallExpr)
			if !ok {
				return true
			}
			if cal, ok := calleeOf(info, c).(*types.Func); ok {
				name := cal.Name()
				full := ""
				if cal.Pkg() != nil {
					full = cal.Pkg().Path() + "." + name
				}
				switch {
				case name == "GetValue" || name == "Call" || name == "SetProperty" || name == "SetVariableValue" || name == "SetValue":
					flag(c.Pos(), "calls "+name+" (script code / ordered container) once per map entry, in map order")
				case strings.HasPrefix(full, "fmt.Print") || strings.HasPrefix(full, "fmt.Fprint") || name == "WriteString" || name == "Write" || name == "WriteOutput" || name == "WriteByte" || name == "WriteRune":
					flag(c.Pos(), "writes output once per map entry, in map order")
				}
			}
			return true
		})
	}
	checkStmt = func(s ast.Stmt) {
		switch x := s.(type) {
		case *ast.AssignStmt:
			for i, l := range x.Lhs {
				switch t := ast.Unparen(l).(type) {
				case *ast.IndexExpr:
					if _, isMap := info.TypeOf(t.X).Underlying().(*types.Map); isMap {
						continue // store into a map / set
					}
					// store into a slice element by computed index: order-insensitive when the index comes from the entry
					continue
				case *ast.Ident:
					o := objOf(t)
					if isLocalToLoop(o) || t.Name == "_" {
						continue
					}
					if x.Tok != token.ASSIGN && x.Tok != token.DEFINE {
						// += |= etc: commutative accumulation — except string concatenation
						if bt, ok := info.TypeOf(t).Underlying().(*types.Basic); ok && bt.Info()&types.IsString != 0 && x.Tok == token.ADD_ASSIGN {
							flag(x.Pos(), fmt.Sprintf("concatenates onto %s once per map entry, in map order", t.Name))
						}
						continue
					}
					if i < len(x.Rhs) || len(x.Rhs) == 1 {
						rhs := x.Rhs[0]
						if i < len(x.Rhs) {
							rhs = x.Rhs[i]
						}
						// x = append(x, …)
						if c, ok := ast.Unparen(rhs).(*ast.CallExpr); ok {
							if id, ok := ast.Unparen(c.Fun).(*ast.Ident); ok && id.Name == "append" && len(c.Args) > 0 && objOf(c.Args[0]) == o {
								appended[o] = x.Pos()
								continue
							}
						}
						// flag = true / false / constant
						if tv, ok := info.Types[rhs]; ok && tv.Value != nil {
							continue
						}
						if id, ok := ast.Unparen(rhs).(*ast.Ident); ok && (id.Name == "true" || id.Name == "false" || id.Name == "nil") {
							continue
						}
						// min / max pattern: guarded by a comparison with the same variable
						flag(x.Pos(), fmt.Sprintf("assigns %s from the current entry: the last (or first) entry in map order wins", t.Name))
					}
				case *ast.SelectorExpr:
					if x.Tok != token.ASSIGN {
						continue
					}
					// a field of an object made inside the loop body (substituted := *cp; substituted.Type = …)
					if root, ok := ast.Unparen(t.X).(*ast.Ident); ok && isLocalToLoop(objOf(root)) {
						continue
					}
					rhs := x.Rhs[0]
					if i < len(x.Rhs) {
						rhs = x.Rhs[i]
					}
					if c, ok := ast.Unparen(rhs).(*ast.CallExpr); ok {
						if id, ok := ast.Unparen(c.Fun).(*ast.Ident); ok && id.Name == "append" {
							// s.names = append(s.names, k): a field of a local sorter object — judged after the loop
							if holder := objOf(t.X); holder != nil && holder.Pos() >= fd.Pos() && holder.Pos() < fd.End() && len(c.Args) > 0 && exprStr(ast.Unparen(c.Args[0])) == exprStr(t) {
								if fieldAppended[holder] == nil {
									fieldAppended[holder] = map[string]bool{}
								}
								fieldAppended[holder][t.Sel.Name] = true
								continue
							}
							flag(x.Pos(), "appends to a field in map order")
							continue
						}
					}
					if tv, ok := info.Types[rhs]; ok && tv.Value != nil {
						continue
					}
					flag(x.Pos(), "assigns a field from the current entry: the last entry in map order wins")
				}
			}
			for _, rr := range x.Rhs {
				checkExprCalls(rr)
			}
		case *ast.IncDecStmt:
		case *ast.ExprStmt:
			if c, ok := ast.Unparen(x.X).(*ast.CallExpr); ok {
				if id, ok := ast.Unparen(c.Fun).(*ast.Ident); ok && id.Name == "delete" {
					return
				}
			}
			checkExprCalls(x.X)
		case *ast.IfStmt:
			if x.Init != nil {
				checkStmt(x.Init)
			}
			checkExprCalls(x.Cond)
			if x.Else == nil && condHasFoldOnKey(x.Cond) {
				// the entry whose KEY equals the wanted name up to case (possibly filtered further by a
				// conjunct on the entry): at most one entry when the keys are unique up to case, which is what
				// a name registry of a case-insensitive language holds; the selection is then the same in every order
				foldSelect = true
				return
			}
			for _, b := range x.Body.List {
				checkStmt(b)
			}
			if x.Else != nil {
				checkStmt(x.Else)
			}
		case *ast.BlockStmt:
			for _, b := range x.List {
				checkStmt(b)
			}
		case *ast.ReturnStmt:
			for _, res := range x.Results {
				if tv, ok := info.Types[res]; ok && tv.Value != nil {
					continue
				}
				if id, ok := ast.Unparen(res).(*ast.Ident); ok && (id.Name == "true" || id.Name == "false" || id.Name == "nil") {
					continue
				}
				// returning an error/control is an abort, not a selection
				if t := info.TypeOf(res); t != nil && (isNamed(t, modPath+"/data", "Control") || types.Identical(t, types.Universe.Lookup("error").Type())) {
					continue
				}
				flag(x.Pos(), "returns a value taken from the first entry that matches: which entry is first depends on map order")
			}
		case *ast.BranchStmt:
			if x.Tok == token.BREAK {
				// break after a selection is only flagged through the assignment it follows
			}
		case *ast.ForStmt, *ast.RangeStmt, *ast.SwitchStmt, *ast.TypeSwitchStmt:
			// nested control: inspect contained statements generically
			ast.Inspect(x, func(nd ast.Node) bool {
				if nd == ast.Node(x) {
					return true
				}
				if st, ok := nd.(ast.Stmt); ok {
					switch st.(type) {
					case *ast.AssignStmt, *ast.ExprStmt, *ast.ReturnStmt:
						checkStmt(st)
						return false
					}
				}
				return true
			})
		case *ast.DeclStmt:
		case *ast.DeferStmt, *ast.GoStmt:
			flag(x.Pos(), "starts deferred/concurrent work per entry, in map order")
		}
	}
	isFoldOnKey := func(e ast.Expr) bool {
		c, ok := ast.Unparen(e).(*ast.CallExpr)
		if !ok || len(c.Args) != 2 {
			return false
		}
		cal, ok := calleeOf(info, c).(*types.Func)
		if !ok || cal.Pkg() == nil || cal.Pkg().Path() != "strings" || cal.Name() != "EqualFold" {
			return false
		}
		k := objOf(rs.Key)
		return k != nil && (objOf(c.Args[0]) == k || objOf(c.Args[1]) == k)
	}
	for _, s := range rs.Body.List {
		// if !strings.EqualFold(k, name) { continue } … : what follows is the selection of the one entry whose
		// key equals the name up to case
		if is, ok := s.(*ast.IfStmt); ok && is.Else == nil && is.Init == nil && len(is.Body.List) == 1 {
			if u, ok := ast.Unparen(is.Cond).(*ast.UnaryExpr); ok && u.Op == token.NOT && isFoldOnKey(u.X) {
				if br, ok := is.Body.List[0].(*ast.BranchStmt); ok && br.Tok == token.CONTINUE {
					foldSelect = true
					break
				}
			}
		}
		checkStmt(s)
	}
	if problem != "" {
		_ = problemPos
		return "bad", problem
	}
	// parallel slices inside a local sorter: sort.Sort(s) after the loop, and the type's Swap moves every one of them
	for holder, fields := range fieldAppended {
		sortedObj := false
		ast.Inspect(fd.Body, func(nd ast.Node) bool {
			c, ok := nd.(*ast.CallExpr)
			if !ok || c.Pos() < rs.End() || len(c.Args) != 1 {
				return true
			}
			if cal, ok := calleeOf(info, c).(*types.Func); ok && cal.Pkg() != nil && cal.Pkg().Path() == "sort" && (cal.Name() == "Sort" || cal.Name() == "Stable") {
				a := ast.Unparen(c.Args[0])
				if u, ok := a.(*ast.UnaryExpr); ok && u.Op == token.AND {
					a = ast.Unparen(u.X)
				}
				if objOf(a) == holder {
					sortedObj = true
				}
			}
			return true
		})
		if !sortedObj {
			return "bad", fmt.Sprintf("appends to fields of %s in map order and %s is not sorted afterwards", holder.Name(), holder.Name())
		}
		nt := namedOf(holder.Type())
		var swap *ast.FuncDecl
		if nt != nil {
			for _, md := range funcDecls(pkg) {
				if md.Name.Name == "Swap" && md.Recv != nil && len(md.Recv.List) == 1 && namedOf(info.TypeOf(md.Recv.List[0].Type)) != nil && namedOf(info.TypeOf(md.Recv.List[0].Type)).Obj() == nt.Obj() {
					swap = md
				}
			}
		}
		if swap == nil || swap.Body == nil {
			return "bad", fmt.Sprintf("appends to fields of %s in map order; its Swap method was not found", holder.Name())
		}
		for f := range fields {
			moved := false
			ast.Inspect(swap.Body, func(nd ast.Node) bool {
				if as, ok := nd.(*ast.AssignStmt); ok {
					for _, l := range as.Lhs {
						if ix, ok := ast.Unparen(l).(*ast.IndexExpr); ok {
							if se, ok := ast.Unparen(ix.X).(*ast.SelectorExpr); ok && se.Sel.Name == f {
								moved = true
							}
						}
					}
				}
				return true
			})
			if !moved {
				return "bad", fmt.Sprintf("field %s of %s is filled in map order and the sorter's Swap does not move it: the values stay in map order while the keys are sorted", f, holder.Name())
			}
		}
	}
	if len(fieldAppended) > 0 && len(appended) == 0 && problem == "" {
		return "ok", "collects into parallel slices of a local sorter that is sorted as a whole (its Swap moves every one of them)"
	}
	if foldSelect && len(appended) == 0 {
		return "fold", "selects the entry whose key equals a name up to case (strings.EqualFold on the key): one entry at most while the registry's names are unique up to case"
	}
	// slices appended to must be sorted after the loop before any other use, or be only measured
	for o := range appended {
		sorted := false
		ast.Inspect(fd.Body, func(nd ast.Node) bool {
			c, ok := nd.(*ast.CallExpr)
			if !ok || c.Pos() < rs.End() {
				return true
			}
			if cal, ok := calleeOf(info, c).(*types.Func); ok && cal.Pkg() != nil && (cal.Pkg().Path() == "sort" || cal.Pkg().Path() == "slices") && len(c.Args) > 0 {
				if objOf(c.Args[0]) == o {
					sorted = true
				}
				if se, ok := ast.Unparen(c.Args[0]).(*ast.CallExpr); ok && len(se.Args) == 1 && objOf(se.Args[0]) == o {
					sorted = true // sort.Sort(sort.StringSlice(x))
				}
			}
			return true
		})
		if !sorted {
			return "bad", fmt.Sprintf("appends to slice %s in map order and the slice is not sorted afterwards", o.Name())
		}
	}
	if len(appended) > 0 {
		return "ok", "collects into a slice that is sorted before use"
	}
	return "ok", "body is order-insensitive (map/set stores, deletes, commutative accumulation, constant results)"
}

// c20Globals: census of package-level variables written outside init.
func c20Globals(r *Run) {
	c20ResetFacts(r)
	globalsCensus(r, []string{"lexer", "parser", "token", "node", "data", "runtime", "std/php", "std/php/core"},
		"package-level variable %s (%s) is written outside init by %s: state that outlives a VM unless it is reset, write-once, or keyed by VM")
}

// globalsCensus reports, as one obligation each, the package-level variables of the scoped packages
// that some function other than init writes (assignment, ++, delete/clear, mutating method of a
// sync/atomic/bytes value rooted at the variable).
func globalsCensus(r *Run, scopes []string, format string, discharge ...func(pkg *packages.Package, v *types.Var) (bool, string)) {
	type gw struct {
		obj   *types.Var
		sites []string
		pos   token.Pos
		fns   map[string]bool
	}
	for _, pkg := range r.Roots {
		rel := strings.TrimPrefix(strings.TrimPrefix(pkg.PkgPath, modPath), "/")
		inScope := false
		for _, sc := range scopes {
			if rel == sc {
				inScope = true
			}
		}
		if !inScope {
			continue
		}
		info := pkg.TypesInfo
		written := map[*types.Var]*gw{}
		onceWritten := map[*types.Var]bool{}
		rootVar := func(e ast.Expr) *types.Var {
			for {
				switch x := ast.Unparen(e).(type) {
				case *ast.IndexExpr:
					e = x.X
					continue
				case *ast.SelectorExpr:
					if _, isField := info.Selections[x]; isField {
						e = x.X
						continue
					}
					if v, ok := info.Uses[x.Sel].(*types.Var); ok && v.Pkg() != nil && v.Parent() == v.Pkg().Scope() {
						return v
					}
					return nil
				case *ast.StarExpr:
					e = x.X
					continue
				case *ast.Ident:
					if v, ok := info.Uses[x].(*types.Var); ok && v.Pkg() != nil && v.Parent() == v.Pkg().Scope() {
						return v
					}
					return nil
				}
				return nil
			}
		}
		for _, fd := range funcDecls(pkg) {
			if fd.Name.Name == "init" && fd.Recv == nil {
				continue
			}
			fk := funcKey(pkg, fd)
			// closures handed to a package-level sync.Once: what they write is written once per process, before
			// any reader gets past the same Once — a table built on first use, not state that changes between VMs
			var onceBodies [][2]token.Pos
			ast.Inspect(fd.Body, func(nd ast.Node) bool {
				c, ok := nd.(*ast.CallExpr)
				if !ok || len(c.Args) != 1 {
					return true
				}
				se, ok := ast.Unparen(c.Fun).(*ast.SelectorExpr)
				if !ok || se.Sel.Name != "Do" {
					return true
				}
				if v := rootVar(se.X); v != nil && v.Parent() == pkg.Types.Scope() && isNamed(v.Type(), "sync", "Once") {
					if lit, ok := ast.Unparen(c.Args[0]).(*ast.FuncLit); ok {
						onceBodies = append(onceBodies, [2]token.Pos{lit.Pos(), lit.End()})
					}
				}
				return true
			})
			mark := func(e ast.Expr, p token.Pos) {
				for _, ob := range onceBodies {
					if p >= ob[0] && p < ob[1] {
						if v := rootVar(e); v != nil && v.Pkg() == pkg.Types {
							onceWritten[v] = true
						}
						return
					}
				}
				if v := rootVar(e); v != nil && v.Pkg() == pkg.Types {
					g := written[v]
					if g == nil {
						g = &gw{obj: v, pos: p, fns: map[string]bool{}}
						written[v] = g
					}
					g.fns[fk] = true
				}
			}
			ast.Inspect(fd.Body, func(nd ast.Node) bool {
				switch x := nd.(type) {
				case *ast.AssignStmt:
					for _, l := range x.Lhs {
						mark(l, x.Pos())
					}
					// obj.field = pkgMap: see the composite-literal case below
					if len(x.Lhs) == len(x.Rhs) {
						for i, rh := range x.Rhs {
							if _, toField := ast.Unparen(x.Lhs[i]).(*ast.SelectorExpr); !toField {
								continue
							}
							if id, ok := ast.Unparen(rh).(*ast.Ident); ok {
								if v, ok := info.Uses[id].(*types.Var); ok && v.Pkg() == pkg.Types && v.Parent() == pkg.Types.Scope() {
									if _, isMap := v.Type().Underlying().(*types.Map); isMap {
										mark(rh, x.Pos())
									}
								}
							}
						}
					}
				case *ast.IncDecStmt:
					mark(x.X, x.Pos())
				case *ast.SendStmt:
					// a package-level channel used as a pool/queue: a send publishes the value to every goroutine
					mark(x.Chan, x.Pos())
				case *ast.UnaryExpr:
					if x.Op == token.ARROW {
						mark(x.X, x.Pos())
					}
					// the address of a package-level variable handed on (slot(&getValue)): whoever holds the
					// pointer writes the variable
					if x.Op == token.AND {
						if v := rootVar(x.X); v != nil && v.Pkg() == pkg.Types && v.Parent() == pkg.Types.Scope() {
							if _, isStruct := v.Type().Underlying().(*types.Struct); !isStruct || !isSyncType(v.Type()) {
								mark(x.X, x.Pos())
							}
						}
					}
				case *ast.KeyValueExpr:
					// T{field: pkgMap}: the map itself (not a copy) becomes part of an object — every writer of
					// that object's field writes the package-level map
					if id, ok := ast.Unparen(x.Value).(*ast.Ident); ok {
						if v, ok := info.Uses[id].(*types.Var); ok && v.Pkg() == pkg.Types && v.Parent() == pkg.Types.Scope() {
							if _, isMap := v.Type().Underlying().(*types.Map); isMap {
								mark(x.Value, x.Pos())
							}
						}
					}
				case *ast.CallExpr:
					if id, ok := ast.Unparen(x.Fun).(*ast.Ident); ok && (id.Name == "delete" || id.Name == "clear") && len(x.Args) > 0 {
						mark(x.Args[0], x.Pos())
					}
					// mutating methods of sync.Map / atomic values / buffers rooted at a global
					if se, ok := ast.Unparen(x.Fun).(*ast.SelectorExpr); ok {
						switch se.Sel.Name {
						case "Store", "Delete", "LoadOrStore", "Swap", "Add", "CompareAndSwap", "Reset", "WriteString", "Write", "Put", "Get":
							if v := rootVar(se.X); v != nil {
								if nt := namedOf(v.Type()); nt != nil && nt.Obj().Pkg() != nil {
									pp := nt.Obj().Pkg().Path()
									if pp == "sync" || pp == "sync/atomic" || pp == "bytes" || pp == "strings" {
										mark(se.X, x.Pos())
									}
								}
							}
						}
					}
				}
				return true
			})
		}
		// a package-level table of addresses of package-level variables (var slots = []**T{&a, &b}): the
		// variables are written through the table
		for _, f := range pkg.Syntax {
			for _, d := range f.Decls {
				gd, ok := d.(*ast.GenDecl)
				if !ok || gd.Tok != token.VAR {
					continue
				}
				for _, sp := range gd.Specs {
					vs := sp.(*ast.ValueSpec)
					for _, val := range vs.Values {
						ast.Inspect(val, func(nd ast.Node) bool {
							if _, isLit := nd.(*ast.FuncLit); isLit {
								return false
							}
							if ue, ok := nd.(*ast.UnaryExpr); ok && ue.Op == token.AND {
								if v := rootVar(ue.X); v != nil && v.Pkg() == pkg.Types && v.Parent() == pkg.Types.Scope() && !isSyncType(v.Type()) {
									g := written[v]
									if g == nil {
										g = &gw{obj: v, pos: ue.Pos(), fns: map[string]bool{}}
										written[v] = g
									}
									g.fns["package-level table of addresses"] = true
								}
							}
							return true
						})
					}
				}
			}
		}
		var vars []*types.Var
		for v := range written {
			vars = append(vars, v)
		}
		sortVars(vars)
		for _, v := range vars {
			g := written[v]
			fns := []string{}
			for f := range g.fns {
				fns = append(fns, f)
			}
			sortStrings(fns)
			key := rel + "." + v.Name()
			if len(fns) > 4 {
				fns = append(fns[:4], "…")
			}
			done := false
			for _, d := range discharge {
				if ok, why := d(pkg, v); ok {
					r.ok(key, g.pos, why)
					done = true
					break
				}
			}
			if done {
				continue
			}
			r.bad(key, g.pos, fmt.Sprintf(format, v.Name(), types.TypeString(v.Type(), types.RelativeTo(pkg.Types)), strings.Join(fns, ", ")))
		}
		var once []*types.Var
		for v := range onceWritten {
			if written[v] == nil {
				once = append(once, v)
			}
		}
		sortVars(once)
		for _, v := range once {
			r.ok(rel+"."+v.Name(), v.Pos(), "written only inside a closure handed to a package-level sync.Once: built once per process on first use")
		}
	}
}

func sortVars(vs []*types.Var) {
	for i := 1; i < len(vs); i++ {
		for j := i; j > 0 && vs[j].Name() < vs[j-1].Name(); j-- {
			vs[j], vs[j-1] = vs[j-1], vs[j]
		}
	}
}

func sortStrings(s []string) {
	for i := 1; i < len(s); i++ {
		for j := i; j > 0 && s[j] < s[j-1]; j-- {
			s[j], s[j-1] = s[j-1], s[j]
		}
	}
}

// c20ResetFacts checks the facts that the "not armed" entries of the census lean on: a variable listed as
// "reset before each program by <entry>" is really assigned in the call closure of that entry (the place
// every program run goes through, whoever starts it). If the reset has moved elsewhere the entry no longer
// covers the variable and it is reported.
func c20ResetFacts(r *Run) {
	for _, f := range []struct{ varPkg, varName, entryPkg, entryRecv, entryFn string }{
		{"data", "userOutputEmitted", "runtime", "VM", "LoadAndRun"},
	} {
		vp, ep := r.pkg(f.varPkg), r.pkg(f.entryPkg)
		if vp == nil || ep == nil {
			continue
		}
		v, _ := vp.Types.Scope().Lookup(f.varName).(*types.Var)
		entry := findFunc(ep, f.entryRecv, f.entryFn)
		key := f.varPkg + "." + f.varName + "#reset-by:" + f.entryFn
		if v == nil {
			continue // the variable is gone: nothing to reset
		}
		if entry == nil {
			r.fail("anchor not found: %s.(%s).%s", f.entryPkg, f.entryRecv, f.entryFn)
			continue
		}
		seen := map[*ast.FuncDecl]bool{}
		var assigns func(p *packages.Package, fd *ast.FuncDecl, depth int) bool
		assigns = func(p *packages.Package, fd *ast.FuncDecl, depth int) bool {
			if fd == nil || fd.Body == nil || seen[fd] || depth > 3 {
				return false
			}
			seen[fd] = true
			found := false
			ast.Inspect(fd.Body, func(n ast.Node) bool {
				if found {
					return false
				}
				switch x := n.(type) {
				case *ast.AssignStmt:
					for _, l := range x.Lhs {
						if id, ok := ast.Unparen(l).(*ast.Ident); ok && p.TypesInfo.Uses[id] == v {
							found = true
						}
					}
				case *ast.CallExpr:
					// a store through a method of an atomic/sync value held in the variable (flag.Store(false))
					if se, ok := ast.Unparen(x.Fun).(*ast.SelectorExpr); ok {
						if id, ok := ast.Unparen(se.X).(*ast.Ident); ok && p.TypesInfo.Uses[id] == v && mutatingContainerCall(v.Type(), se.Sel.Name) {
							found = true
						}
					}
					if cal := calleeFunc(p.TypesInfo, x); cal != nil {
						if cp, cd := r.declAnywhere(cal); cd != nil && assigns(cp, cd, depth+1) {
							found = true
						}
					}
					// a function handed on as a value (oncePerFile(file, vm.runFile)) runs as part of the entry
					for _, arg := range x.Args {
						var fo types.Object
						switch y := ast.Unparen(arg).(type) {
						case *ast.Ident:
							fo = p.TypesInfo.Uses[y]
						case *ast.SelectorExpr:
							fo = p.TypesInfo.Uses[y.Sel]
						}
						if f, ok := fo.(*types.Func); ok {
							if cp, cd := r.declAnywhere(f); cd != nil && assigns(cp, cd, depth+1) {
								found = true
							}
						}
					}
				}
				return !found
			})
			return found
		}
		if assigns(ep, entry, 0) {
			r.ok(key, entry.Pos(), f.varName+" is reset on the way into every program run ("+f.entryFn+")")
		} else {
			r.bad(key, entry.Pos(), "process-wide variable "+f.varPkg+"."+f.varName+" is no longer reset by "+f.entryFn+", the entry every program run goes through: a host that runs two programs on fresh VMs carries the first program's state into the second")
		}
	}
}

// isSyncType: a mutex, once, wait group or atomic value — taking its address is how it is used, not a
// write of program state through a pointer.
func isSyncType(t types.Type) bool {
	nt := namedOf(t)
	if nt == nil || nt.Obj().Pkg() == nil {
		return false
	}
	switch nt.Obj().Pkg().Path() {
	case "sync", "sync/atomic":
		return true
	}
	return false
}

// c20RequestMap: the ranged expression is a map of the HTTP request — of type net/url.Values, net/http.Header,
// net/textproto.MIMEHeader, or a field of mime/multipart.Form.
func c20RequestMap(info *types.Info, e ast.Expr) bool {
	t := info.TypeOf(e)
	if nt := namedOf(t); nt != nil && nt.Obj().Pkg() != nil {
		switch nt.Obj().Pkg().Path() + "." + nt.Obj().Name() {
		case "net/url.Values", "net/http.Header", "net/textproto.MIMEHeader":
			return true
		}
	}
	if se, ok := ast.Unparen(e).(*ast.SelectorExpr); ok {
		if bt := namedOf(info.TypeOf(se.X)); bt != nil && bt.Obj().Pkg() != nil && bt.Obj().Pkg().Path() == "mime/multipart" && bt.Obj().Name() == "Form" {
			return true
		}
	}
	return false
}
