package main

import (
	"go/ast"
	"go/token"
	"go/types"
	"reflect"
	"sort"
	"strconv"
	"strings"
)

func init() {
	for _, e := range [][2]string{
		{"cmd/compile.emitCallExpression#reads-fields:node.CallExpression.Fun", "Fun is the resolved callee, a runtime reference that cannot be serialised; the handler emits NewCallTodo so that the call is resolved again by name at run time (documented in cmd/compile/doc.go)"},
		{"cmd/compile.emitClassStatement#reads-fields:node.ClassStatement.Construct", "NewClassStatement, which the handler calls, re-derives Construct from the method map (class.GetMethod(\"__construct\"))"},
		{"cmd/compile.emitFunctionStatement#reads-fields:node.FunctionStatement.FuncStmt", "embedded interface that the parser leaves nil"},
		{"cmd/compile.emitFunctionStatement#reads-fields:node.FunctionStatement.IsGenerator", "recomputed from the body by NewFunctionStatement (containsYield), which the handler calls"},
		{"cmd/compile.emitFunctionStatement#reads-fields:node.FunctionStatement.defineCtx", "run-time state: set by SetDefineCtx when a closure is created, nil after parsing"},
		{"cmd/compile.emitFunctionStatement#reads-fields:node.FunctionStatement.staticLocals", "run-time state: created on the first call"},
		{"cmd/compile.emitLambdaExpression#reads-fields:node.LambdaExpression.ctx", "run-time state: the defining context captured when the lambda expression is evaluated"},
		{"cmd/compile.emitLambdaExpression#reads-fields:node.LambdaExpression.parent", "run-time state captured at evaluation"},
	} {
		assumeSite("C16-HANDLER", e[0], e[1])
	}
	assumeSite("C16-SKIP", "cmd/compile.(Generator).emitStructLiteral#skips-element", "skips the embedded *Node (re-created as node.NewNode(from)) and fields tagged pp:\"-\", which are caches by the repository's convention (checked: all such fields are unexported resolution caches)")
	assumeSite("C16-SKIP", "cmd/compile.(Generator).emitStructValue#skips-element", "skips the embedded Node only, which is re-created")
	register(&PropDef{
		ID:          "C16",
		Patterns:    []string{"./cmd/compile", "./node", "./data", "./parser"},
		Explanation: "The ahead-of-time compiler rebuilds every AST node as a Go literal: a special handler if one is registered for the node type, else a scalar emitter, else a reflective struct literal, else an EmitError. 'A construct the generator cannot translate is reported as a compile error, never silently dropped or altered' has three structural necessary conditions: (HANDLER) a special handler reads every field of its node type that carries program content (all fields except the embedded Node and fields tagged pp:\"-\"), directly, through FieldByName, or by handing the node to a helper — a field it never reads is dropped from the compiled program; (TABLE) each registered handler asserts the node type it is registered for; (ERR) the reflective route turns every untranslatable shape into an error: each IsExported() test returns a non-nil error, the kind switch has an error default, and Emit ends in newEmitError. Whether the emitted program behaves like the interpreted one is not decided (that needs execution).",
		Assumptions: []string{
			"specialHandlers is one map literal keyed by reflect.TypeOf((*pkg.T)(nil))",
			"a node passed whole to another function counts as fully read",
		},
		Rules: []RuleDef{
			{Name: "C16-HANDLER", Floor: 11, Doc: "each special handler reads every content field of its node type", Run: c16Run},
			{Name: "C16-TABLE", Floor: 12, Doc: "each handler asserts exactly the type it is registered for", Run: nop},
			{Name: "C16-DECL", Floor: 1, Doc: "declarations that the parser registers in the VM instead of the AST (classes, interfaces) are re-attached to the program of every file shape", Run: nop},
			{Name: "C16-SKIP", Floor: 20, Doc: "no emitter loop skips an element of what it emits (no continue), and string content is written only through %q: nothing is dropped or altered on the way into the generated source", Run: nop},
			{Name: "C16-ERR", Floor: 2, Doc: "the reflective emitter reports every shape it cannot translate", Run: nop},
		},
	})
}

func c16Run(r *Run) {
	cp := r.pkg("cmd/compile")
	if cp == nil {
		return
	}
	info := cp.TypesInfo
	// locate the map literal
	var lit *ast.CompositeLit
	for _, fd := range funcDecls(cp) {
		ast.Inspect(fd.Body, func(n ast.Node) bool {
			as, ok := n.(*ast.AssignStmt)
			if !ok || len(as.Lhs) != 1 || len(as.Rhs) != 1 {
				return true
			}
			if id, ok := as.Lhs[0].(*ast.Ident); ok && id.Name == "specialHandlers" {
				if cl, ok := as.Rhs[0].(*ast.CompositeLit); ok {
					lit = cl
				}
			}
			return true
		})
	}
	declOf := map[types.Object]*ast.FuncDecl{}
	for _, fd := range funcDecls(cp) {
		declOf[info.Defs[fd.Name]] = fd
	}
	type entry struct {
		t     *types.Named
		h     *ast.FuncDecl
		pos   token.Pos
		typed types.Object // handler of the typed form func(g, n *T) error: the node parameter itself
	}
	var entries []entry
	if lit == nil {
		// registration form: a call with one argument, a handler func(g *Generator, n *T) error
		for _, fd := range funcDecls(cp) {
			ast.Inspect(fd.Body, func(n ast.Node) bool {
				c, ok := n.(*ast.CallExpr)
				if !ok || len(c.Args) != 1 {
					return true
				}
				id, ok := ast.Unparen(c.Args[0]).(*ast.Ident)
				if !ok {
					return true
				}
				hd := declOf[info.Uses[id]]
				if hd == nil || hd.Recv != nil || hd.Type.Params.NumFields() != 2 || hd.Type.Results == nil || hd.Type.Results.NumFields() != 1 {
					return true
				}
				var params []*ast.Ident
				for _, f := range hd.Type.Params.List {
					params = append(params, f.Names...)
				}
				if len(params) != 2 {
					return true
				}
				p0, ok0 := info.TypeOf(hd.Type.Params.List[0].Type).(*types.Pointer)
				if !ok0 || !isNamed(p0.Elem(), modPath+"/cmd/compile", "Generator") {
					return true
				}
				pt, ok1 := info.Defs[params[1]].Type().(*types.Pointer)
				if !ok1 {
					return true
				}
				nt := namedOf(pt.Elem())
				if nt == nil {
					return true
				}
				entries = append(entries, entry{nt, hd, c.Pos(), info.Defs[params[1]]})
				return true
			})
		}
		if len(entries) == 0 {
			r.curRule = "C16-HANDLER"
			r.fail("the special-handler table was found neither as the specialHandlers map literal nor as registration calls of typed handlers")
		}
	}
	var elts []ast.Expr
	if lit != nil {
		elts = lit.Elts
	}
	for _, el := range elts {
		kv, ok := el.(*ast.KeyValueExpr)
		if !ok {
			continue
		}
		var nt *types.Named
		ast.Inspect(kv.Key, func(n ast.Node) bool {
			if se, ok := n.(*ast.StarExpr); ok {
				if t := info.TypeOf(se.X); t != nil {
					if n := namedOf(t); n != nil {
						nt = n
					}
				}
			}
			return true
		})
		var hd *ast.FuncDecl
		if id, ok := kv.Value.(*ast.Ident); ok {
			hd = declOf[info.Uses[id]]
		}
		if nt == nil || hd == nil {
			r.curRule = "C16-TABLE"
			r.fail("specialHandlers entry at %s cannot be resolved to (type, handler)", r.pos(kv.Pos()))
			continue
		}
		entries = append(entries, entry{nt, hd, kv.Pos(), nil})
	}
	// paramReads: fields of the first node-typed parameter read by helper functions (one level)
	var readsOfDepth func(fd *ast.FuncDecl, obj types.Object, depth int) (map[string]bool, bool)
	readsOf := func(fd *ast.FuncDecl, obj types.Object) (map[string]bool, bool) {
		return readsOfDepth(fd, obj, 0)
	}
	readsOfDepth = func(fd *ast.FuncDecl, obj types.Object, depth int) (map[string]bool, bool) {
		reads := map[string]bool{}
		whole := false
		ast.Inspect(fd.Body, func(n ast.Node) bool {
			switch x := n.(type) {
			case *ast.SelectorExpr:
				if sel, ok := info.Selections[x]; ok && sel.Kind() == types.FieldVal {
					// root of the selector chain
					root := x.X
					for {
						if s, ok := ast.Unparen(root).(*ast.SelectorExpr); ok {
							if ss, ok := info.Selections[s]; ok && ss.Kind() == types.FieldVal {
								root = s.X
								continue
							}
						}
						break
					}
					if id, ok := ast.Unparen(root).(*ast.Ident); ok && info.Uses[id] == obj {
						// every field on the path from the node counts
						cur := ast.Expr(x)
						for {
							s, ok := ast.Unparen(cur).(*ast.SelectorExpr)
							if !ok {
								break
							}
							reads[s.Sel.Name] = true
							cur = s.X
						}
						// promoted field: record the embedded carrier too
						if len(sel.Index()) > 1 {
							reads["<promoted>"] = true
						}
					}
				}
			case *ast.CallExpr:
				// accessor method of the node: counts as reading the fields the method reads
				if se, ok := ast.Unparen(x.Fun).(*ast.SelectorExpr); ok {
					if id, ok := ast.Unparen(se.X).(*ast.Ident); ok && info.Uses[id] == obj {
						if f, ok := info.Uses[se.Sel].(*types.Func); ok {
							for fld := range methodReads(r, f) {
								reads[fld] = true
							}
						}
					}
				}
				// reflect: rv.FieldByName("x")
				if se, ok := ast.Unparen(x.Fun).(*ast.SelectorExpr); ok && se.Sel.Name == "FieldByName" && len(x.Args) == 1 {
					if bl, ok := x.Args[0].(*ast.BasicLit); ok {
						if s, err := strconv.Unquote(bl.Value); err == nil {
							reads[s] = true
						}
					}
				}
				// a reflective accessor of this package: helper(…, "x") whose parameter goes to FieldByName
				if callee := declOf[calleeOf(info, x)]; callee != nil {
					k := 0
					for _, f := range callee.Type.Params.List {
						for _, nm := range f.Names {
							if k < len(x.Args) && c16ParamToFieldByName(info, callee, info.Defs[nm]) {
								if bl, ok := ast.Unparen(x.Args[k]).(*ast.BasicLit); ok {
									if s, err := strconv.Unquote(bl.Value); err == nil {
										reads[s] = true
									}
								}
							}
							k++
						}
					}
				}
				// node handed whole to another function/method
				for _, a := range x.Args {
					if id, ok := ast.Unparen(a).(*ast.Ident); ok && info.Uses[id] == obj {
						if se, ok := ast.Unparen(x.Fun).(*ast.SelectorExpr); ok {
							if pid, ok := ast.Unparen(se.X).(*ast.Ident); ok && pid.Name == "reflect" {
								continue // reflect.ValueOf(n): only FieldByName reads count
							}
						}
						// a helper of this package: look at what it reads of the node (bounded depth);
						// anything else that receives the node counts as reading all of it
						if callee := declOf[calleeOf(info, x)]; callee != nil && depth < 3 {
							var pobj types.Object
							ai := 0
							for ai2, a2 := range x.Args {
								if a2 == a {
									ai = ai2
								}
							}
							k := 0
							for _, f := range callee.Type.Params.List {
								for _, nm := range f.Names {
									if k == ai {
										pobj = info.Defs[nm]
									}
									k++
								}
							}
							if pobj != nil {
								sub, subWhole := readsOfDepth(callee, pobj, depth+1)
								for fld := range sub {
									reads[fld] = true
								}
								if subWhole {
									whole = true
								}
								continue
							}
						}
						whole = true
					}
				}
			}
			return true
		})
		return reads, whole
	}

	for _, e := range entries {
		tn := e.t.Obj().Pkg().Name() + "." + e.t.Obj().Name()
		// TABLE: the handler asserts *T
		r.curRule = "C16-TABLE"
		var nodeVar types.Object
		asserted := ""
		if e.typed != nil {
			nodeVar = e.typed
			asserted = tn // the parameter type is the registration key
		}
		ast.Inspect(e.h.Body, func(n ast.Node) bool {
			if e.typed != nil {
				return false
			}
			as, ok := n.(*ast.AssignStmt)
			if !ok || len(as.Rhs) != 1 {
				return true
			}
			ta, ok := ast.Unparen(as.Rhs[0]).(*ast.TypeAssertExpr)
			if !ok || ta.Type == nil {
				return true
			}
			if id, ok := ast.Unparen(ta.X).(*ast.Ident); !ok || info.Uses[id] != info.Defs[e.h.Type.Params.List[1].Names[0]] {
				return true
			}
			if nodeVar == nil {
				if pt, ok := info.TypeOf(ta.Type).(*types.Pointer); ok {
					if n := namedOf(pt.Elem()); n != nil {
						asserted = n.Obj().Pkg().Name() + "." + n.Obj().Name()
					}
				}
				if l, ok := as.Lhs[0].(*ast.Ident); ok {
					nodeVar = info.Defs[l]
				}
			}
			return true
		})
		key := "cmd/compile." + e.h.Name.Name + "#for:" + tn
		switch {
		case asserted == "":
			// v.(*T) used directly as an argument
			ast.Inspect(e.h.Body, func(n ast.Node) bool {
				if ta, ok := n.(*ast.TypeAssertExpr); ok && ta.Type != nil && asserted == "" {
					if pt, ok := info.TypeOf(ta.Type).(*types.Pointer); ok {
						if n := namedOf(pt.Elem()); n != nil {
							asserted = n.Obj().Pkg().Name() + "." + n.Obj().Name()
						}
					}
				}
				return true
			})
			ifaceOK := false
			if asserted == "" {
				// v.(I): an interface the registered node type implements
				ast.Inspect(e.h.Body, func(n ast.Node) bool {
					if ta, ok := n.(*ast.TypeAssertExpr); ok && ta.Type != nil {
						if it, ok := info.TypeOf(ta.Type).Underlying().(*types.Interface); ok && types.Implements(types.NewPointer(e.t), it) {
							ifaceOK = true
						}
					}
					return true
				})
			}
			if asserted == tn {
				r.ok(key, e.pos, "handler asserts the type it is registered for")
			} else if ifaceOK {
				r.ok(key, e.pos, "handler asserts an interface that the registered node type implements")
			} else {
				r.bad(key, e.pos, "registered for "+tn+" but asserts "+asserted)
			}
		case asserted != tn:
			r.bad(key, e.pos, "registered for "+tn+" but asserts "+asserted+": compiling a program that contains this node panics instead of reporting an error")
		default:
			r.ok(key, e.pos, "handler asserts the type it is registered for")
		}
		// HANDLER: field coverage
		r.curRule = "C16-HANDLER"
		st, ok := e.t.Underlying().(*types.Struct)
		if !ok {
			continue
		}
		if nodeVar == nil {
			// v.(*T) handed directly to a helper
			direct := false
			ast.Inspect(e.h.Body, func(n ast.Node) bool {
				if c, ok := n.(*ast.CallExpr); ok {
					for _, a := range c.Args {
						if _, ok := ast.Unparen(a).(*ast.TypeAssertExpr); ok {
							direct = true
						}
					}
				}
				return true
			})
			// v.(I).M(): the accessor methods of the registered type stand for the fields they read
			ifaceReads := map[string]bool{}
			ast.Inspect(e.h.Body, func(n ast.Node) bool {
				c, ok := n.(*ast.CallExpr)
				if !ok {
					return true
				}
				se, ok := ast.Unparen(c.Fun).(*ast.SelectorExpr)
				if !ok {
					return true
				}
				ta, ok := ast.Unparen(se.X).(*ast.TypeAssertExpr)
				if !ok || ta.Type == nil {
					return true
				}
				if _, isIface := info.TypeOf(ta.Type).Underlying().(*types.Interface); !isIface {
					return true
				}
				if obj, _, _ := types.LookupFieldOrMethod(types.NewPointer(e.t), true, e.t.Obj().Pkg(), se.Sel.Name); obj != nil {
					if m, ok := obj.(*types.Func); ok {
						for fld := range methodReads(r, m) {
							ifaceReads[fld] = true
						}
					}
				}
				return true
			})
			if len(ifaceReads) > 0 && !direct {
				var missing []string
				for i := 0; i < st.NumFields(); i++ {
					f := st.Field(i)
					if (f.Embedded() && f.Name() == "Node") || reflect.StructTag(st.Tag(i)).Get("pp") == "-" || ifaceReads[f.Name()] {
						continue
					}
					missing = append(missing, f.Name())
				}
				sort.Strings(missing)
				k2 := "cmd/compile." + e.h.Name.Name + "#reads-fields:" + tn
				if len(missing) == 0 {
					r.ok(k2, e.h.Pos(), "every content field of the node type is read by its handler (through accessor methods)")
				} else {
					for _, m := range missing {
						r.bad(k2+"."+m, e.h.Pos(), "field "+m+" of "+tn+" is never read by its special handler: whatever the parser stored there is silently absent from the compiled program")
					}
				}
				continue
			}
			if direct {
				r.ok("cmd/compile."+e.h.Name.Name+"#reads-fields:"+tn, e.h.Pos(), "the node is handed whole to a helper (counted as fully read)")
			} else {
				r.bad("cmd/compile."+e.h.Name.Name+"#reads-fields:"+tn, e.pos, "the handler never looks at the node: every field of "+tn+" is dropped")
			}
			continue
		}
		reads, whole := readsOf(e.h, nodeVar)
		var missing []string
		for i := 0; i < st.NumFields(); i++ {
			f := st.Field(i)
			tag := reflect.StructTag(st.Tag(i)).Get("pp")
			if f.Embedded() && f.Name() == "Node" {
				continue
			}
			if tag == "-" {
				continue
			}
			if reads[f.Name()] {
				continue
			}
			if f.Embedded() && reads["<promoted>"] {
				continue // fields of the embedded node are read through promotion
			}
			if c16DerivedByEmittedCtor(r, e.h, e.t, f.Name()) {
				continue // computed by the constructor the handler emits, from what the handler passes it
			}
			missing = append(missing, f.Name())
		}
		sort.Strings(missing)
		key = "cmd/compile." + e.h.Name.Name + "#reads-fields:" + tn
		switch {
		case whole:
			r.ok(key, e.h.Pos(), "the node is handed whole to a helper (counted as fully read)")
		case len(missing) == 0:
			r.ok(key, e.h.Pos(), "every content field of the node type is read by its handler")
		default:
			for _, m := range missing {
				r.bad(key+"."+m, e.h.Pos(), "field "+m+" of "+tn+" is never read by its special handler: whatever the parser stored there is silently absent from the compiled program")
			}
		}
	}

	// ---- DECL ----
	r.curRule = "C16-DECL"
	if fd := findFunc(cp, "", "augmentProgramASTFromBase"); fd == nil {
		r.fail("anchor not found: cmd/compile.augmentProgramASTFromBase")
	} else {
		// (a) classes attached outside a namespace-only loop — looked for in the function and in the
		// package helpers it calls
		var closure []*ast.FuncDecl
		{
			seen := map[*ast.FuncDecl]bool{fd: true}
			closure = append(closure, fd)
			for i := 0; i < len(closure); i++ {
				ast.Inspect(closure[i].Body, func(n ast.Node) bool {
					if c, ok := n.(*ast.CallExpr); ok {
						if h := declOf[calleeOf(info, c)]; h != nil && !seen[h] {
							seen[h] = true
							closure = append(closure, h)
						}
					}
					return true
				})
			}
		}
		key := funcKey(cp, fd) + "#classes-of-files-without-namespace"
		uses, nsOnly := 0, 0
		isNodeList := func(e ast.Expr) bool {
			id, ok := ast.Unparen(e).(*ast.Ident)
			if !ok {
				return false
			}
			v, ok := info.Uses[id].(*types.Var)
			if !ok {
				return false
			}
			sl, ok := v.Type().(*types.Slice)
			return ok && isNamed(sl.Elem(), modPath+"/data", "GetValue")
		}
		for _, cf := range closure {
			var visit func(n ast.Node, inNs bool)
			nsGuard := func(n ast.Node) bool {
				guard := false
				ast.Inspect(n, func(k ast.Node) bool {
					if ta, ok := k.(*ast.TypeAssertExpr); ok && ta.Type != nil {
						if pt, ok := info.TypeOf(ta.Type).(*types.Pointer); ok && isNamed(pt.Elem(), modPath+"/node", "Namespace") {
							guard = true
						}
					}
					return true
				})
				return guard
			}
			visit = func(n ast.Node, inNs bool) {
				ast.Inspect(n, func(m ast.Node) bool {
					if m == n {
						return true
					}
					switch x := m.(type) {
					case *ast.RangeStmt:
						visit(x.Body, inNs || nsGuard(x.Body))
						return false
					case *ast.ForStmt:
						visit(x.Body, inNs || nsGuard(x.Body))
						return false
					case *ast.CallExpr:
						if x.Ellipsis.IsValid() && len(x.Args) > 0 && isNodeList(x.Args[len(x.Args)-1]) {
							if id, ok := ast.Unparen(x.Fun).(*ast.Ident); ok && id.Name == "append" {
								uses++
								if inNs {
									nsOnly++
								}
							}
						}
					}
					return true
				})
			}
			visit(cf.Body, false)
		}
		switch {
		case uses == 0:
			r.bad(key, fd.Pos(), "the classes registered by the parser are collected but never attached to the program")
		case uses == nsOnly:
			r.bad(key, fd.Pos(), "the classes registered by the parser are attached only inside Namespace statements: a file that declares classes without a namespace loses them in the compiled program")
		default:
			r.ok(key, fd.Pos(), "classes are attached for files with and without a namespace statement")
		}
		// (b) interfaces
		key = funcKey(cp, fd) + "#interfaces"
		found := false
		for _, f2 := range funcDecls(cp) {
			ast.Inspect(f2.Body, func(n ast.Node) bool {
				if c, ok := n.(*ast.CallExpr); ok {
					if se, ok := ast.Unparen(c.Fun).(*ast.SelectorExpr); ok && strings.Contains(se.Sel.Name, "Interface") && strings.HasPrefix(se.Sel.Name, "All") {
						found = true
					}
				}
				return true
			})
		}
		if found {
			r.ok(key, fd.Pos(), "interfaces registered by the parser are enumerated and re-attached")
		} else {
			r.bad(key, fd.Pos(), "interfaces are registered by the parser in the VM and never re-attached to the emitted program: compiled code has no interface declarations (and their constants)")
		}
	}

	// ---- SKIP / QUOTE ----
	r.curRule = "C16-SKIP"
	for _, fd := range funcDecls(cp) {
		isEmitter := recvTypeName(fd) == "Generator" || strings.HasPrefix(fd.Name.Name, "emit") || strings.HasPrefix(fd.Name.Name, "gen")
		if !isEmitter {
			continue
		}
		fk := funcKey(cp, fd)
		skips := 0
		var walk func(n ast.Node, inLoop bool)
		walk = func(n ast.Node, inLoop bool) {
			ast.Inspect(n, func(m ast.Node) bool {
				if m == n {
					return true
				}
				switch x := m.(type) {
				case *ast.FuncLit:
					return false
				case *ast.ForStmt:
					walk(x.Body, true)
					return false
				case *ast.RangeStmt:
					walk(x.Body, true)
					return false
				case *ast.BranchStmt:
					if x.Tok == token.CONTINUE && inLoop {
						skips++
						r.bad(fk+"#skips-element", x.Pos(), "an emitter loop skips an element with `continue`: that part of the program is silently absent from the generated source")
					}
				}
				return true
			})
		}
		walk(fd.Body, false)
		// quoting: dynamic string content between quote characters must go through %q
		badQuote := false
		ast.Inspect(fd.Body, func(m ast.Node) bool {
			switch x := m.(type) {
			case *ast.BinaryExpr:
				if x.Op == token.ADD {
					for _, side := range []ast.Expr{x.X, x.Y} {
						if bl, ok := ast.Unparen(side).(*ast.BasicLit); ok && bl.Kind == token.STRING {
							if v, err := strconv.Unquote(bl.Value); err == nil && (strings.HasSuffix(v, "`") || strings.HasPrefix(v, "`") || strings.HasSuffix(v, "\"") || strings.HasPrefix(v, "\"")) {
								other := x.Y
								if side == x.Y {
									other = x.X
								}
								if tv, ok := info.Types[other]; ok && tv.Value == nil {
									if b, ok := tv.Type.Underlying().(*types.Basic); ok && b.Info()&types.IsString != 0 {
										badQuote = true
										r.bad(fk+"#raw-quoting", x.Pos(), "string content is wrapped in quote characters by concatenation instead of %q: characters that the chosen literal form cannot hold (\\r in a raw string, a quote, a backslash) are altered in the compiled program")
									}
								}
							}
						}
					}
				}
			case *ast.CallExpr:
				// printf("…\"%s\"…") / printf("`%s`")
				if len(x.Args) >= 2 {
					if bl, ok := ast.Unparen(x.Args[0]).(*ast.BasicLit); ok && bl.Kind == token.STRING {
						if f, err := strconv.Unquote(bl.Value); err == nil {
							if strings.Contains(f, "\"%s\"") || strings.Contains(f, "\"%v\"") || strings.Contains(f, "`%s`") || strings.Contains(f, "`%v`") {
								badQuote = true
								r.bad(fk+"#raw-quoting", x.Pos(), "a %s/%v verb between quote characters writes string content unescaped into the generated source")
							}
						}
					}
				}
			}
			return true
		})
		if skips == 0 && !badQuote {
			r.ok(fk+"#emits-everything-quoted", fd.Pos(), "no element is skipped and no string content bypasses %q")
		}
	}

	// ---- ERR ----
	r.curRule = "C16-ERR"
	nonNil := func(e ast.Expr) bool { return exprStr(e) != "nil" }
	if fd := findFunc(cp, "Generator", "Emit"); fd == nil {
		r.fail("anchor not found: (*Generator).Emit")
	} else {
		// Emit may answer nil only for a nil node or after one of its routes answered nil; every other
		// way out is the error of a route or newEmitError
		key := funcKey(cp, fd) + "#ends-in-error"
		type st struct{ okPath bool }
		var badPos token.Pos
		h := &Hooks{Info: info}
		h.Copy = func(s State) State { c := *s.(*st); return &c }
		h.Join = func(a, b State) State { return &st{a.(*st).okPath && b.(*st).okPath} }
		h.Equal = func(a, b State) bool { return *a.(*st) == *b.(*st) }
		h.Cond = func(e ast.Expr, truth bool, s State) State {
			be, ok := ast.Unparen(e).(*ast.BinaryExpr)
			if !ok || exprStr(be.Y) != "nil" {
				return s
			}
			isNil := (be.Op == token.EQL && truth) || (be.Op == token.NEQ && !truth)
			if !isNil {
				return s
			}
			if id, ok := ast.Unparen(be.X).(*ast.Ident); ok {
				if v, ok := info.Uses[id].(*types.Var); ok {
					// the node parameter is nil, or the error of a route is nil
					if v.Type().String() == "error" || isNamed(v.Type(), modPath+"/data", "GetValue") {
						s.(*st).okPath = true
					}
				}
			}
			return s
		}
		h.Return = func(rs *ast.ReturnStmt, s State) {
			if len(rs.Results) == 1 && exprStr(rs.Results[0]) == "nil" && !s.(*st).okPath && !badPos.IsValid() {
				badPos = rs.Pos()
			}
		}
		h.End = func(s State) {}
		WalkFunc(h, fd.Body, &st{})
		if !badPos.IsValid() {
			r.ok(key, fd.Pos(), "Emit answers nil only for a nil node or after a route succeeded; a node with no route ends in an error")
		} else {
			r.bad(key, badPos, "Emit can answer nil without any route having succeeded: an untranslatable node is dropped silently")
		}
	}
	for _, fn := range []string{"emitStructLiteral", "emitStructValue"} {
		fd := findFunc(cp, "Generator", fn)
		if fd == nil {
			r.fail("anchor not found: (*Generator).%s", fn)
			continue
		}
		n := 0
		ast.Inspect(fd.Body, func(m ast.Node) bool {
			is, ok := m.(*ast.IfStmt)
			if !ok {
				return true
			}
			has := false
			ast.Inspect(is.Cond, func(c ast.Node) bool {
				if se, ok := c.(*ast.SelectorExpr); ok && se.Sel.Name == "IsExported" {
					has = true
				}
				return true
			})
			if !has {
				return true
			}
			n++
			key := funcKey(cp, fd) + "#unexported-field-is-error"
			okRet := false
			if len(is.Body.List) > 0 {
				if rs, ok := is.Body.List[len(is.Body.List)-1].(*ast.ReturnStmt); ok && len(rs.Results) == 1 && nonNil(rs.Results[0]) {
					okRet = true
				}
			}
			if okRet {
				r.ok(key, is.Pos(), "an unexported field makes the reflective route fail with an error")
			} else {
				r.bad(key, is.Pos(), "an unexported field is skipped instead of failing: its content is dropped from the compiled program")
			}
			return true
		})
		if n == 0 {
			r.bad(funcKey(cp, fd)+"#unexported-field-is-error", fd.Pos(), "the reflective emitter no longer tests IsExported(): unexported fields are silently omitted from the literal (or the generated code does not build)")
		}
	}
	if fd := findFunc(cp, "Generator", "emitReflectValue"); fd == nil {
		r.fail("anchor not found: (*Generator).emitReflectValue")
	} else {
		key := funcKey(cp, fd) + "#kind-default-is-error"
		found, good := false, false
		ast.Inspect(fd.Body, func(m ast.Node) bool {
			sw, ok := m.(*ast.SwitchStmt)
			if !ok {
				return true
			}
			if !strings.Contains(exprStr(sw.Tag), "Kind") {
				return true
			}
			for _, c := range sw.Body.List {
				cc := c.(*ast.CaseClause)
				if cc.List == nil {
					found = true
					if len(cc.Body) > 0 {
						if rs, ok := cc.Body[len(cc.Body)-1].(*ast.ReturnStmt); ok && len(rs.Results) == 1 && nonNil(rs.Results[0]) {
							good = true
						}
					}
				}
			}
			return true
		})
		if found && good {
			r.ok(key, fd.Pos(), "a value kind without an emitter is an error")
		} else {
			r.bad(key, fd.Pos(), "the kind switch has no error default: a field of an unsupported kind is emitted as nothing")
		}
	}
}

// methodReads: names of receiver fields that the method f (declared in a loaded package) reads.
func methodReads(r *Run, f *types.Func) map[string]bool {
	out := map[string]bool{}
	if f.Pkg() == nil {
		return out
	}
	p := r.ByPath[f.Pkg().Path()]
	if p == nil {
		return out
	}
	for _, fd := range funcDecls(p) {
		if p.TypesInfo.Defs[fd.Name] != f || fd.Recv == nil || len(fd.Recv.List[0].Names) == 0 {
			continue
		}
		recv := p.TypesInfo.Defs[fd.Recv.List[0].Names[0]]
		ast.Inspect(fd.Body, func(n ast.Node) bool {
			if se, ok := n.(*ast.SelectorExpr); ok {
				if id, ok := ast.Unparen(se.X).(*ast.Ident); ok && p.TypesInfo.Uses[id] == recv {
					if sel, ok := p.TypesInfo.Selections[se]; ok && sel.Kind() == types.FieldVal {
						out[se.Sel.Name] = true
					}
				}
			}
			return true
		})
	}
	return out
}

// c16ParamToFieldByName: the function hands its parameter p to a FieldByName call.
func c16ParamToFieldByName(info *types.Info, fd *ast.FuncDecl, p types.Object) bool {
	if p == nil || fd.Body == nil {
		return false
	}
	found := false
	ast.Inspect(fd.Body, func(n ast.Node) bool {
		if c, ok := n.(*ast.CallExpr); ok && len(c.Args) == 1 {
			if se, ok := ast.Unparen(c.Fun).(*ast.SelectorExpr); ok && se.Sel.Name == "FieldByName" {
				if id, ok := ast.Unparen(c.Args[0]).(*ast.Ident); ok && info.Uses[id] == p {
					found = true
				}
			}
		}
		return !found
	})
	return found
}

// c16DerivedByEmittedCtor: the handler emits a call of a constructor of package node ("node.NewX(" appears
// in one of its string literals), and that constructor fills the field with a value it computes itself
// (a call or other compound expression over its parameters, not a parameter stored as it is): the field
// is rebuilt in the compiled program by that very call.
func c16DerivedByEmittedCtor(r *Run, h *ast.FuncDecl, nt *types.Named, field string) bool {
	npkg := r.pkg("node")
	if npkg == nil || nt == nil {
		return false
	}
	emitted := map[string]bool{}
	ast.Inspect(h.Body, func(n ast.Node) bool {
		if bl, ok := n.(*ast.BasicLit); ok && bl.Kind == token.STRING {
			txt := bl.Value
			for {
				i := strings.Index(txt, "node.New")
				if i < 0 {
					break
				}
				j := i + len("node.")
				k := j
				for k < len(txt) && (txt[k] == '_' || txt[k] >= '0' && txt[k] <= '9' || txt[k] >= 'A' && txt[k] <= 'Z' || txt[k] >= 'a' && txt[k] <= 'z') {
					k++
				}
				if k < len(txt) && txt[k] == '(' {
					emitted[txt[j:k]] = true
				}
				txt = txt[k:]
			}
		}
		return true
	})
	if len(emitted) == 0 {
		return false
	}
	info := npkg.TypesInfo
	for _, fd := range funcDecls(npkg) {
		if fd.Recv != nil || fd.Body == nil || !emitted[fd.Name.Name] {
			continue
		}
		derived := false
		ast.Inspect(fd.Body, func(n ast.Node) bool {
			cl, ok := n.(*ast.CompositeLit)
			if !ok || namedOf(info.TypeOf(cl)) != nt {
				return true
			}
			for _, el := range cl.Elts {
				kv, ok := el.(*ast.KeyValueExpr)
				if !ok {
					continue
				}
				if id, ok := kv.Key.(*ast.Ident); ok && id.Name == field {
					switch ast.Unparen(kv.Value).(type) {
					case *ast.Ident, *ast.SelectorExpr, *ast.BasicLit:
					default:
						derived = true
					}
				}
			}
			return true
		})
		if derived && !c16FieldSetElsewhere(r, fd, nt, field) {
			return true
		}
	}
	return false
}

// c16FieldSetElsewhere: somewhere in the loaded packages, outside constructor ctor, field `field` of nt is
// given a value that is not a copy of the same field of another node (an assignment x.f = …, or a
// composite literal of nt with f: …). Then the constructor's own computation is not the only source of
// the field and a handler that leaves it to the constructor loses what the parser stored.
func c16FieldSetElsewhere(r *Run, ctor *ast.FuncDecl, nt *types.Named, field string) bool {
	st, ok := nt.Underlying().(*types.Struct)
	if !ok {
		return true
	}
	var fv *types.Var
	for i := 0; i < st.NumFields(); i++ {
		if st.Field(i).Name() == field {
			fv = st.Field(i)
		}
	}
	if fv == nil {
		return true
	}
	elsewhere := false
	for _, p := range r.Roots {
		info := p.TypesInfo
		isSameFieldCopy := func(e ast.Expr) bool {
			se, ok := ast.Unparen(e).(*ast.SelectorExpr)
			if !ok {
				return false
			}
			sel, ok := info.Selections[se]
			return ok && sel.Obj() == fv
		}
		for _, fd := range funcDecls(p) {
			if fd == ctor || fd.Body == nil {
				continue
			}
			ast.Inspect(fd.Body, func(n ast.Node) bool {
				switch x := n.(type) {
				case *ast.AssignStmt:
					for i, l := range x.Lhs {
						if se, ok := ast.Unparen(l).(*ast.SelectorExpr); ok {
							if sel, ok := info.Selections[se]; ok && sel.Obj() == fv {
								if len(x.Rhs) != len(x.Lhs) || !isSameFieldCopy(x.Rhs[i]) {
									elsewhere = true
								}
							}
						}
					}
				case *ast.IncDecStmt:
					if se, ok := ast.Unparen(x.X).(*ast.SelectorExpr); ok {
						if sel, ok := info.Selections[se]; ok && sel.Obj() == fv {
							elsewhere = true
						}
					}
				case *ast.CompositeLit:
					if namedOf(info.TypeOf(x)) != nt {
						return true
					}
					for _, el := range x.Elts {
						kv, ok := el.(*ast.KeyValueExpr)
						if !ok {
							elsewhere = true // positional literal sets every field
							continue
						}
						if id, ok := kv.Key.(*ast.Ident); ok && id.Name == field && !isSameFieldCopy(kv.Value) {
							elsewhere = true
						}
					}
				}
				return !elsewhere
			})
		}
	}
	return elsewhere
}
