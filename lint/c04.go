package main

import (
	"fmt"
	"go/ast"
	"go/constant"
	"go/token"
	"go/types"
	"sort"
	"strconv"
	"strings"

	"golang.org/x/tools/go/packages"
)

func init() {
	register(&PropDef{
		ID:       "C04",
		Patterns: []string{"./parser", "./token", "./node"},
		Explanation: "The precedence table is encoded in the shape of the recursive-descent expression parser: one function per level, each parsing its operands with the next tighter level. " +
			"The checker extracts that shape from the type-checked syntax tree (which operator tokens each function consumes — identified by their literal in token.TokenDefinitions —, which callee parses the left and the right operand, loop vs self-recursion) and compares it with the operator table of the property statement, embedded in the checker: relative order of every adjacent pair of levels, associativity per level, each operator consumed at one level only, the operand level of casts and prefix operators, the signed-number split, and the token→node constructor table. " +
			"It decides how expressions are grouped, not what the evaluator computes for them.",
		Assumptions: []string{
			"the expression parser is a recursive-descent ladder (a table-driven rewrite would make the anchors unresolvable and the check fails rather than guessing)",
			"operators are identified by their literal in token.TokenDefinitions",
			"the reference table is the one in the property statement",
		},
		Rules: []RuleDef{
			{Name: "C04-LADDER", Floor: 12, Doc: "for every adjacent pair of levels of the reference table the tighter operator's level function is strictly deeper in the operand-callee chain; '.' lies between arithmetic and ??; unary below **", Run: c04Run},
			{Name: "C04-ASSOC", Floor: 6, Doc: "left-associative levels loop and parse their right operand with the same callee as the left; ** and assignment recurse into themselves", Run: nop},
			{Name: "C04-ONELEVEL", Floor: 15, Doc: "each binary operator token is consumed as an infix operator at exactly one level reachable from Parse (assignment forms must all recurse into the assignment level)", Run: nop},
			{Name: "C04-CAST", Floor: 1, Doc: "the operand of a cast and of the prefix operators is parsed at the unary level", Run: nop},
			{Name: "C04-SIGNED", Floor: 1, Doc: "the branch that re-splits a signed number token hands the literal to the multiplicative level like the ordinary branch", Run: nop},
			{Name: "C04-OPTABLE", Floor: 25, Doc: "node.NewBinaryExpression maps every infix token the ladder can pass to a constructor, distinct constructors for distinct plain operators, compound assignments reuse the plain operator's constructor; token literals are unique", Run: nop},
		},
	})
}

// reference table: loosest → tightest, infix levels by literal
var c04Ref = []struct {
	name  string
	ops   []string
	assoc string // left | right | ternary | either
}{
	{"assignment", []string{"=", "+=", "-=", "*=", "/=", "%=", ".=", "??=", "|=", "&=", "^=", "<<=", ">>=", "**="}, "right"},
	{"ternary", []string{"?", "?:"}, "ternary"},
	{"coalesce", []string{"??"}, "either"},
	{"logical-or", []string{"||"}, "left"},
	{"logical-and", []string{"&&"}, "left"},
	{"bit-or", []string{"|"}, "left"},
	{"bit-xor", []string{"^"}, "left"},
	{"bit-and", []string{"&"}, "left"},
	{"equality", []string{"==", "!=", "===", "!=="}, "left"},
	{"comparison", []string{"<", "<=", ">", ">=", "<=>"}, "left"},
	{"shift", []string{"<<", ">>"}, "left"},
	{"additive", []string{"+", "-"}, "left"},
	{"multiplicative", []string{"*", "/", "%"}, "left"},
	// prefix unary here
	{"power", []string{"**"}, "right"},
}

type opGuard struct {
	fn           *ast.FuncDecl
	src          *ast.FuncDecl // the function whose body holds the guard (a generic level helper, or fn itself)
	toks         []string      // literals
	signed       bool          // isSignedNumberToken in the condition
	kind         string        // for | if | case
	pos          token.Pos
	rights       []*types.Func
	rightPos     []token.Pos
	hasNext      bool
	prefix       bool // occurs before the function's first operand parse
	ctors        []string
	noCallBranch token.Pos // a branch assigning the right operand without a parse call
	fold         string    // explicit-stack form: how the pending operands are folded ("right" | "left")
	lo, hi       token.Pos // extent of the guarded statements
	suffix       bool      // second token of a composite operator (`..` `<`): consumed right after another operator, before any operand
}

type c04Level struct {
	fd     *ast.FuncDecl
	obj    *types.Func
	left   *types.Func
	guards []*opGuard
}

func c04Run(r *Run) {
	ppkg := r.pkg("parser")
	tpkg := r.pkg("token")
	npkg := r.pkg("node")
	if ppkg == nil || tpkg == nil || npkg == nil {
		return
	}
	info := ppkg.TypesInfo
	// 1. token constant -> literal
	tokLit := map[types.Object]string{}
	litCount := map[string][]string{}
	for _, f := range tpkg.Syntax {
		ast.Inspect(f, func(n ast.Node) bool {
			vs, ok := n.(*ast.ValueSpec)
			if !ok || len(vs.Names) != 1 || vs.Names[0].Name != "TokenDefinitions" || len(vs.Values) != 1 {
				return true
			}
			cl, ok := vs.Values[0].(*ast.CompositeLit)
			if !ok {
				return true
			}
			for _, el := range cl.Elts {
				ecl, ok := el.(*ast.CompositeLit)
				if !ok {
					continue
				}
				var typ types.Object
				lit := ""
				for _, kv := range ecl.Elts {
					k, ok := kv.(*ast.KeyValueExpr)
					if !ok {
						continue
					}
					switch exprStr(k.Key) {
					case "Type":
						if id, ok := k.Value.(*ast.Ident); ok {
							typ = tpkg.TypesInfo.Uses[id]
						}
					case "Literal":
						if tv, ok := tpkg.TypesInfo.Types[k.Value]; ok && tv.Value != nil && tv.Value.Kind() == constant.String {
							lit = constant.StringVal(tv.Value)
						}
					}
				}
				if typ != nil {
					if _, dup := tokLit[typ]; !dup {
						tokLit[typ] = lit
					}
					litCount[lit] = append(litCount[lit], typ.Name())
				}
			}
			return true
		})
	}
	if len(tokLit) < 100 {
		r.fail("token.TokenDefinitions table not found or too small (%d entries)", len(tokLit))
		return
	}
	r.stat("token_definitions", len(tokLit))

	isParseSig := func(f *types.Func) bool {
		sig, ok := f.Type().(*types.Signature)
		if !ok || sig.Results().Len() != 2 {
			return false
		}
		return isNamed(sig.Results().At(0).Type(), modPath+"/data", "GetValue") && isNamed(sig.Results().At(1).Type(), modPath+"/data", "Control")
	}
	declOf := map[*types.Func]*ast.FuncDecl{}
	for _, fd := range funcDecls(ppkg) {
		if o, ok := info.Defs[fd.Name].(*types.Func); ok {
			declOf[o] = fd
		}
	}

	// a generic level helper (operand parser and operator tokens passed as arguments) is analysed once
	// per call site with its parameters bound to the arguments of that site
	type c04Bind struct {
		funcs map[types.Object]*types.Func
		toks  map[types.Object][]string
		ints  map[types.Object]int64 // level parameter (and other integer parameters) of a level-indexed function
		bools map[types.Object]bool
	}
	var bind *c04Bind
	// package-level tables: var T = []X{…} / map[K]X{…}
	tableLit := func(e ast.Expr) *ast.CompositeLit {
		id, ok := ast.Unparen(e).(*ast.Ident)
		if !ok {
			return nil
		}
		v, ok := info.Uses[id].(*types.Var)
		if !ok || v.Parent() != ppkg.Types.Scope() {
			return nil
		}
		for _, f := range ppkg.Syntax {
			for _, d := range f.Decls {
				gd, ok := d.(*ast.GenDecl)
				if !ok || gd.Tok != token.VAR {
					continue
				}
				for _, sp := range gd.Specs {
					vs := sp.(*ast.ValueSpec)
					for i, nm := range vs.Names {
						if info.Defs[nm] == v && i < len(vs.Values) {
							cl, _ := ast.Unparen(vs.Values[i]).(*ast.CompositeLit)
							return cl
						}
					}
				}
			}
		}
		return nil
	}
	var evalInt func(e ast.Expr) (int64, bool)
	evalInt = func(e ast.Expr) (int64, bool) {
		e = ast.Unparen(e)
		if tv, ok := info.Types[e]; ok && tv.Value != nil && tv.Value.Kind() == constant.Int {
			if v, exact := constant.Int64Val(tv.Value); exact {
				return v, true
			}
		}
		switch x := e.(type) {
		case *ast.Ident:
			if bind != nil {
				if v, ok := bind.ints[info.Uses[x]]; ok {
					return v, true
				}
			}
		case *ast.BinaryExpr:
			a, ok1 := evalInt(x.X)
			b, ok2 := evalInt(x.Y)
			if ok1 && ok2 {
				switch x.Op {
				case token.ADD:
					return a + b, true
				case token.SUB:
					return a - b, true
				}
			}
		case *ast.CallExpr:
			// len(table)
			if id, ok := ast.Unparen(x.Fun).(*ast.Ident); ok && id.Name == "len" && len(x.Args) == 1 {
				if cl := tableLit(x.Args[0]); cl != nil {
					if _, isMap := info.TypeOf(cl).Underlying().(*types.Map); !isMap {
						n := int64(0)
						for _, el := range cl.Elts {
							if kv, ok := el.(*ast.KeyValueExpr); ok {
								if k, ok := evalInt(kv.Key); ok && k+1 > n {
									n = k + 1
								}
							} else {
								n++
							}
						}
						return n, true
					}
				}
			}
			// conversion T(x)
			if tv, ok := info.Types[x.Fun]; ok && tv.IsType() && len(x.Args) == 1 {
				return evalInt(x.Args[0])
			}
		}
		return 0, false
	}
	var evalBool func(e ast.Expr) (bool, bool)
	evalBool = func(e ast.Expr) (bool, bool) {
		e = ast.Unparen(e)
		if tv, ok := info.Types[e]; ok && tv.Value != nil && tv.Value.Kind() == constant.Bool {
			return constant.BoolVal(tv.Value), true
		}
		switch x := e.(type) {
		case *ast.Ident:
			if bind != nil {
				if v, ok := bind.bools[info.Uses[x]]; ok {
					return v, true
				}
			}
		case *ast.UnaryExpr:
			if x.Op == token.NOT {
				if v, ok := evalBool(x.X); ok {
					return !v, true
				}
			}
		case *ast.BinaryExpr:
			switch x.Op {
			case token.LAND, token.LOR:
				a, ok1 := evalBool(x.X)
				b, ok2 := evalBool(x.Y)
				if x.Op == token.LAND {
					if (ok1 && !a) || (ok2 && !b) {
						return false, true
					}
					if ok1 && ok2 {
						return true, true
					}
				} else {
					if (ok1 && a) || (ok2 && b) {
						return true, true
					}
					if ok1 && ok2 {
						return false, true
					}
				}
			case token.EQL, token.NEQ, token.LSS, token.LEQ, token.GTR, token.GEQ:
				a, ok1 := evalInt(x.X)
				b, ok2 := evalInt(x.Y)
				if ok1 && ok2 {
					switch x.Op {
					case token.EQL:
						return a == b, true
					case token.NEQ:
						return a != b, true
					case token.LSS:
						return a < b, true
					case token.LEQ:
						return a <= b, true
					case token.GTR:
						return a > b, true
					case token.GEQ:
						return a >= b, true
					}
				}
			}
		}
		return false, false
	}
	// level-indexed functions: an integer-kind parameter p and a self-call that passes p+1 in its place;
	// each constant value of p denotes a level of its own (a virtual function)
	levelParamMemo := map[*ast.FuncDecl]int{}
	levelParam := func(fd *ast.FuncDecl) int {
		if fd == nil || fd.Body == nil {
			return -1
		}
		if v, ok := levelParamMemo[fd]; ok {
			return v
		}
		levelParamMemo[fd] = -1
		self := info.Defs[fd.Name]
		k := 0
		for _, f := range fd.Type.Params.List {
			for _, nm := range f.Names {
				po := info.Defs[nm]
				if bt, ok := info.TypeOf(f.Type).Underlying().(*types.Basic); ok && bt.Info()&types.IsInteger != 0 {
					idx := k
					ast.Inspect(fd.Body, func(n ast.Node) bool {
						c, ok := n.(*ast.CallExpr)
						if !ok || calleeOf(info, c) != self || idx >= len(c.Args) {
							return true
						}
						if be, ok := ast.Unparen(c.Args[idx]).(*ast.BinaryExpr); ok && be.Op == token.ADD {
							if id, ok := ast.Unparen(be.X).(*ast.Ident); ok && info.Uses[id] == po {
								levelParamMemo[fd] = idx
							}
						}
						return true
					})
				}
				k++
			}
		}
		return levelParamMemo[fd]
	}
	virtOf := map[string]*types.Func{}
	vbind := map[*types.Func]*c04Bind{}
	resolve := func(c *ast.CallExpr) *types.Func {
		if bind != nil {
			if id, ok := ast.Unparen(c.Fun).(*ast.Ident); ok {
				if f := bind.funcs[info.Uses[id]]; f != nil {
					return f
				}
			}
		}
		f, _ := calleeOf(info, c).(*types.Func)
		if f == nil {
			return nil
		}
		fd := declOf[f]
		lp := levelParam(fd)
		if lp < 0 || lp >= len(c.Args) {
			return f
		}
		lvl, ok := evalInt(c.Args[lp])
		if !ok {
			return f
		}
		b := &c04Bind{funcs: map[types.Object]*types.Func{}, toks: map[types.Object][]string{}, ints: map[types.Object]int64{}, bools: map[types.Object]bool{}}
		key := fmt.Sprintf("%p", fd)
		for i, a := range c.Args {
			po := paramObjAt(info, fd, i)
			if po == nil {
				continue
			}
			if v, ok := evalInt(a); ok {
				if _, isInt := po.Type().Underlying().(*types.Basic); isInt && po.Type().Underlying().(*types.Basic).Info()&types.IsInteger != 0 {
					b.ints[po] = v
					key += fmt.Sprintf("/%d=%d", i, v)
					continue
				}
			}
			if v, ok := evalBool(a); ok {
				b.bools[po] = v
				key += fmt.Sprintf("/%d=%v", i, v)
			}
		}
		if vf := virtOf[key]; vf != nil {
			return vf
		}
		vf := types.NewFunc(fd.Pos(), ppkg.Types, fmt.Sprintf("%s[%d]", f.Name(), lvl), f.Type().(*types.Signature))
		virtOf[key] = vf
		vbind[vf] = b
		declOf[vf] = fd
		return vf
	}

	// condition → tokens at offset 0
	var condToks func(e ast.Expr) (toks []string, signed bool)
	isCurrentType := func(e ast.Expr) bool {
		// X.current().Type()
		c, ok := ast.Unparen(e).(*ast.CallExpr)
		if !ok {
			return false
		}
		se, ok := ast.Unparen(c.Fun).(*ast.SelectorExpr)
		if !ok || se.Sel.Name != "Type" {
			return false
		}
		c2, ok := ast.Unparen(se.X).(*ast.CallExpr)
		if !ok {
			return false
		}
		se2, ok := ast.Unparen(c2.Fun).(*ast.SelectorExpr)
		return ok && se2.Sel.Name == "current"
	}
	tokOf := func(e ast.Expr) (string, bool) {
		var id *ast.Ident
		switch x := ast.Unparen(e).(type) {
		case *ast.SelectorExpr:
			id = x.Sel
		case *ast.Ident:
			id = x
		}
		if id == nil {
			return "", false
		}
		if o := info.Uses[id]; o != nil {
			if l, ok := tokLit[o]; ok {
				return l, true
			}
			if bind != nil && len(bind.toks[o]) == 1 {
				return bind.toks[o][0], true
			}
		}
		return "", false
	}
	// tokensOf: the operator tokens an expression denotes — a token constant, a bound parameter, an entry
	// of a package-level table selected by a known level (table[level]), or a local holding one of those
	var tokensOf func(e ast.Expr, fd *ast.FuncDecl, depth int) ([]string, bool)
	tokensOf = func(e ast.Expr, fd *ast.FuncDecl, depth int) ([]string, bool) {
		if depth > 3 {
			return nil, false
		}
		e = ast.Unparen(e)
		if l, ok := tokOf(e); ok {
			return []string{l}, true
		}
		switch x := e.(type) {
		case *ast.Ident:
			o := info.Uses[x]
			if bind != nil {
				if ts, ok := bind.toks[o]; ok {
					return ts, true
				}
			}
			// a local with a single definition
			if v, ok := o.(*types.Var); ok && fd != nil && v.Parent() != ppkg.Types.Scope() {
				var def ast.Expr
				n := 0
				ast.Inspect(fd.Body, func(m ast.Node) bool {
					if as, ok := m.(*ast.AssignStmt); ok && len(as.Lhs) == len(as.Rhs) {
						for i, l := range as.Lhs {
							if lid, ok := l.(*ast.Ident); ok && (info.Defs[lid] == o || info.Uses[lid] == o) {
								def = as.Rhs[i]
								n++
							}
						}
					}
					return true
				})
				if n == 1 {
					return tokensOf(def, fd, depth+1)
				}
			}
		case *ast.CompositeLit:
			var out []string
			for _, el := range x.Elts {
				ts, ok := tokensOf(el, fd, depth+1)
				if !ok {
					return nil, false
				}
				out = append(out, ts...)
			}
			return out, true
		case *ast.IndexExpr:
			cl := tableLit(x.X)
			k, ok := evalInt(x.Index)
			if cl == nil || !ok {
				return nil, false
			}
			pos := int64(0)
			for _, el := range cl.Elts {
				if kv, isKV := el.(*ast.KeyValueExpr); isKV {
					if kk, ok := evalInt(kv.Key); ok {
						if kk == k {
							return tokensOf(kv.Value, fd, depth+1)
						}
						pos = kk + 1
					}
					continue
				}
				if pos == k {
					return tokensOf(el, fd, depth+1)
				}
				pos++
			}
			return []string{}, true // no entry for this level: no operators
		}
		return nil, false
	}
	var curFd *ast.FuncDecl
	condToks = func(e ast.Expr) ([]string, bool) {
		switch x := ast.Unparen(e).(type) {
		case *ast.BinaryExpr:
			switch x.Op {
			case token.LOR, token.LAND:
				a, s1 := condToks(x.X)
				b, s2 := condToks(x.Y)
				return append(a, b...), s1 || s2
			case token.EQL:
				if isCurrentType(x.X) {
					if ts, ok := tokensOf(x.Y, curFd, 0); ok {
						return ts, false
					}
				}
			}
		case *ast.IndexExpr:
			// membership in a package-level operator set: ops[ep.current().Type()]
			if isCurrentType(x.Index) {
				if cl := tableLit(x.X); cl != nil {
					if _, isMap := info.TypeOf(cl).Underlying().(*types.Map); isMap {
						var out []string
						for _, el := range cl.Elts {
							kv, ok := el.(*ast.KeyValueExpr)
							if !ok {
								continue
							}
							if v, known := evalBool(kv.Value); known && !v {
								continue
							}
							if l, ok := tokOf(kv.Key); ok {
								out = append(out, l)
							}
						}
						return out, false
					}
				}
			}
		case *ast.CallExpr:
			if callee, ok := calleeOf(info, x).(*types.Func); ok {
				switch callee.Name() {
				case "checkPositionIs":
					if len(x.Args) >= 2 {
						if tv, ok := info.Types[x.Args[0]]; ok && tv.Value != nil && tv.Value.String() == "0" {
							var out []string
							for _, a := range x.Args[1:] {
								if ts, ok := tokensOf(a, curFd, 0); ok {
									out = append(out, ts...)
								}
							}
							return out, false
						}
					}
				case "isSignedNumberToken":
					return nil, true
				}
			}
		}
		return nil, false
	}

	opSet := map[string]int{} // literal -> reference level index
	for i, l := range c04Ref {
		for _, o := range l.ops {
			opSet[o] = i
		}
	}
	prefixOps := map[string]bool{"-": true, "!": true, "~": true}

	// 2. analyse a function into a level
	var analyse func(fd *ast.FuncDecl) *c04Level
	// genericCall: `return h(operandParser, tokens...)` where h takes the operand parser as a function value
	genericCall := func(fd *ast.FuncDecl) (*ast.FuncDecl, *c04Bind) {
		if len(fd.Body.List) != 1 {
			return nil, nil
		}
		ret, ok := fd.Body.List[0].(*ast.ReturnStmt)
		if !ok || len(ret.Results) != 1 {
			return nil, nil
		}
		call, ok := ast.Unparen(ret.Results[0]).(*ast.CallExpr)
		if !ok {
			return nil, nil
		}
		cal, _ := calleeOf(info, call).(*types.Func)
		if cal == nil || !isParseSig(cal) || declOf[cal] == nil || declOf[cal] == fd {
			return nil, nil
		}
		hd := declOf[cal]
		sig := cal.Type().(*types.Signature)
		b := &c04Bind{funcs: map[types.Object]*types.Func{}, toks: map[types.Object][]string{}}
		nFuncs := 0
		for i := 0; i < sig.Params().Len(); i++ {
			po := paramObjAt(info, hd, i)
			if po == nil {
				return nil, nil
			}
			pt := sig.Params().At(i).Type()
			variadic := sig.Variadic() && i == sig.Params().Len()-1
			if psig, ok := pt.Underlying().(*types.Signature); ok && !variadic {
				if psig.Results().Len() != 2 || psig.Params().Len() != 0 || i >= len(call.Args) {
					return nil, nil
				}
				var id *ast.Ident
				switch x := ast.Unparen(call.Args[i]).(type) {
				case *ast.SelectorExpr:
					id = x.Sel
				case *ast.Ident:
					id = x
				}
				if id == nil {
					return nil, nil
				}
				f, _ := info.Uses[id].(*types.Func)
				if f == nil || !isParseSig(f) {
					return nil, nil
				}
				b.funcs[po] = f
				nFuncs++
				continue
			}
			if variadic {
				if call.Ellipsis.IsValid() {
					return nil, nil
				}
				ts := []string{}
				for _, a := range call.Args[i:] {
					l, ok := tokOf(a)
					if !ok {
						return nil, nil
					}
					ts = append(ts, l)
				}
				b.toks[po] = ts
				continue
			}
			if i < len(call.Args) {
				if l, ok := tokOf(call.Args[i]); ok {
					b.toks[po] = []string{l}
				}
			}
		}
		if nFuncs == 0 {
			return nil, nil
		}
		return hd, b
	}
	// analyseAs analyses a function object: a declared function, or a virtual level of a level-indexed one
	analyseAs := func(self *types.Func) *c04Level {
		fd := declOf[self]
		if fd == nil {
			return nil
		}
		if vb := vbind[self]; vb != nil {
			saved := bind
			bind = vb
			lv := analyse(fd)
			bind = saved
			lv.obj = self
			return lv
		}
		return analyse(fd)
	}
	// effective: the statements that run under the current binding (decidable ifs and switches on the
	// level parameter are resolved; everything else is kept as written)
	var effective func(list []ast.Stmt) ([]ast.Stmt, bool)
	effective = func(list []ast.Stmt) ([]ast.Stmt, bool) {
		var out []ast.Stmt
		for _, st := range list {
			switch x := st.(type) {
			case *ast.IfStmt:
				if x.Init == nil && bind != nil {
					if v, ok := evalBool(x.Cond); ok {
						var branch []ast.Stmt
						if v {
							branch = x.Body.List
						} else if x.Else != nil {
							switch e := x.Else.(type) {
							case *ast.BlockStmt:
								branch = e.List
							case *ast.IfStmt:
								branch = []ast.Stmt{e}
							}
						}
						sub, term := effective(branch)
						out = append(out, sub...)
						if term {
							return out, true
						}
						continue
					}
				}
			case *ast.SwitchStmt:
				if x.Init == nil && x.Tag != nil && bind != nil {
					if tv, ok := evalInt(x.Tag); ok {
						var chosen, def *ast.CaseClause
						decided := true
						for _, c := range x.Body.List {
							cc := c.(*ast.CaseClause)
							if cc.List == nil {
								def = cc
							}
							for _, v := range cc.List {
								cv, ok := evalInt(v)
								if !ok {
									decided = false
								} else if cv == tv && chosen == nil {
									chosen = cc
								}
							}
						}
						if decided {
							if chosen == nil {
								chosen = def
							}
							if chosen != nil {
								sub, term := effective(chosen.Body)
								out = append(out, sub...)
								if term {
									return out, true
								}
							}
							continue
						}
					}
				}
			case *ast.ReturnStmt:
				out = append(out, st)
				return out, true
			}
			out = append(out, st)
		}
		return out, false
	}
	analyse = func(fd *ast.FuncDecl) *c04Level {
		obj, _ := info.Defs[fd.Name].(*types.Func)
		lv := &c04Level{fd: fd, obj: obj}
		savedFd := curFd
		curFd = fd
		defer func() { curFd = savedFd }()
		body, _ := effective(fd.Body.List)
		if bind == nil {
			if hd, b := genericCall(fd); hd != nil {
				bind = b
				h := analyse(hd)
				bind = nil
				lv.left = h.left
				for _, g := range h.guards {
					g.fn = fd
					lv.guards = append(lv.guards, g)
				}
				return lv
			}
		}
		var leftPos token.Pos
		// first parse call in a top-level statement
		for _, s := range body {
			found := false
			var call *ast.CallExpr
			switch x := s.(type) {
			case *ast.AssignStmt:
				if len(x.Rhs) == 1 {
					call, _ = ast.Unparen(x.Rhs[0]).(*ast.CallExpr)
				}
			case *ast.ReturnStmt:
				if len(x.Results) == 1 {
					call, _ = ast.Unparen(x.Results[0]).(*ast.CallExpr)
				}
			}
			if call != nil {
				if cal := resolve(call); cal != nil && isParseSig(cal) {
					lv.left = cal
					leftPos = call.Pos()
					found = true
				}
			}
			if found {
				break
			}
		}
		bodyInfo := func(g *opGuard, body []ast.Stmt) {
			for _, s := range body {
				ast.Inspect(s, func(n ast.Node) bool {
					switch x := n.(type) {
					case *ast.FuncLit:
						return false
					case *ast.IfStmt:
						// the signed-number re-split branch is judged by C04-SIGNED, not as an ordinary operand
						if _, signed := condToks(x.Cond); signed || c04SignedCond(ppkg, x) {
							ast.Inspect(x.Body, func(m ast.Node) bool {
								if c, ok := m.(*ast.CallExpr); ok {
									if cal := resolve(c); cal != nil && cal.Name() == "next" {
										g.hasNext = true
									}
								}
								return true
							})
							if x.Else != nil {
								ast.Inspect(x.Else, func(m ast.Node) bool {
									if c, ok := m.(*ast.CallExpr); ok {
										if cal := resolve(c); cal != nil {
											if cal.Name() == "next" {
												g.hasNext = true
											}
											if isParseSig(cal) {
												g.rights = append(g.rights, cal)
												g.rightPos = append(g.rightPos, c.Pos())
											}
										}
									}
									return true
								})
							}
							return false
						}
					case *ast.CallExpr:
						if cal := resolve(x); cal != nil {
							if cal.Name() == "next" {
								g.hasNext = true
							}
							if isParseSig(cal) {
								g.rights = append(g.rights, cal)
								g.rightPos = append(g.rightPos, x.Pos())
							}
							if cal.Pkg() != nil && cal.Pkg().Path() == modPath+"/node" && strings.HasPrefix(cal.Name(), "New") {
								g.ctors = append(g.ctors, cal.Name())
							}
						}
					}
					return true
				})
			}
		}
		var visit func(list []ast.Stmt)
		addGuard := func(kind string, cond ast.Expr, caseToks []string, body []ast.Stmt, pos token.Pos) {
			var toks []string
			signed := false
			if cond != nil {
				toks, signed = condToks(cond)
			} else {
				toks = caseToks
			}
			if len(toks) == 0 && !signed {
				return
			}
			g := &opGuard{fn: fd, src: fd, toks: toks, signed: signed, kind: kind, pos: pos}
			g.prefix = leftPos == token.NoPos || pos < leftPos
			bodyInfo(g, body)
			if len(body) > 0 {
				g.lo, g.hi = body[0].Pos(), body[len(body)-1].End()
			}
			// `if cur == DOUBLE_DOT { next(); if cur == LT { next(); … } right := parse() }`: the inner token is
			// consumed directly after the outer operator, before any operand, and has no operand of its own —
			// it is the tail of a two-token operator, not an infix use of `<`
			if kind == "if" && g.hasNext && len(g.rights) == 0 {
				for _, outer := range lv.guards {
					if outer.lo == token.NoPos || pos < outer.lo || pos > outer.hi || !outer.hasNext || len(outer.rights) == 0 {
						continue
					}
					operandBefore := false
					for _, rp := range outer.rightPos {
						if rp < pos {
							operandBefore = true
						}
					}
					sameTok := false
					for _, a := range outer.toks {
						for _, b := range toks {
							if a == b {
								sameTok = true
							}
						}
					}
					if !operandBefore && !sameTok {
						g.suffix = true
					}
				}
			}
			// a guard in front of the level's operand parse that builds a *binary* node has a left operand
			// of its own (a literal built on the spot): the operator is consumed as an infix operator here
			if g.prefix && g.hasNext && len(g.rights) > 0 {
				for _, c := range g.ctors {
					if c == "NewBinaryExpression" {
						g.prefix = false
					}
				}
			}
			lv.guards = append(lv.guards, g)
		}
		visit = func(list []ast.Stmt) {
			if bind != nil {
				list, _ = effective(list)
			}
			for si, s := range list {
				switch x := s.(type) {
				case *ast.ForStmt:
					if x.Cond != nil {
						addGuard("for", x.Cond, nil, x.Body.List, x.Pos())
					}
					visit(x.Body.List)
				case *ast.IfStmt:
					// the explicit-stack form of a level: inside `for { operand := parse(); if cur != OP { fold the
					// pending operands; return }; push(operand, operator); next() }` the statements after the if
					// are the operator's arm, and the fold in the if says how the chain groups
					if be, ok := ast.Unparen(x.Cond).(*ast.BinaryExpr); ok && be.Op == token.NEQ && isCurrentType(be.X) && x.Else == nil && len(x.Body.List) > 0 {
						if _, leaves := x.Body.List[len(x.Body.List)-1].(*ast.ReturnStmt); leaves {
							if ts, ok := tokensOf(be.Y, curFd, 0); ok && len(ts) > 0 {
								if fold := c04FoldDirection(info, x.Body); fold != "" {
									g := &opGuard{fn: fd, src: fd, toks: ts, kind: "for", pos: x.Pos(), fold: fold}
									bodyInfo(g, list[si+1:])
									lv.guards = append(lv.guards, g)
								}
							}
						}
					}
					addGuard("if", x.Cond, nil, x.Body.List, x.Pos())
					visit(x.Body.List)
					if x.Else != nil {
						switch e := x.Else.(type) {
						case *ast.BlockStmt:
							visit(e.List)
						case *ast.IfStmt:
							visit([]ast.Stmt{e})
						}
					}
				case *ast.SwitchStmt:
					if x.Tag != nil && isCurrentType(x.Tag) {
						for _, c := range x.Body.List {
							cc := c.(*ast.CaseClause)
							var toks []string
							for _, v := range cc.List {
								if l, ok := tokOf(v); ok {
									toks = append(toks, l)
								}
							}
							if len(toks) > 0 {
								addGuard("case", nil, toks, cc.Body, cc.Pos())
							}
							visit(cc.Body)
						}
					} else {
						for _, c := range x.Body.List {
							visit(c.(*ast.CaseClause).Body)
						}
					}
				case *ast.BlockStmt:
					visit(x.List)
				case *ast.LabeledStmt:
					visit([]ast.Stmt{x.Stmt})
				}
			}
		}
		visit(body)
		return lv
	}

	// 3. the chain from ExpressionParser.Parse along left-operand callees
	ep := r.lookupType(ppkg, "ExpressionParser")
	if ep == nil {
		return
	}
	start := findFunc(ppkg, "ExpressionParser", "Parse")
	if start == nil {
		r.fail("anchor not found: (*ExpressionParser).Parse")
		return
	}
	levels := map[*types.Func]*c04Level{}
	var chain []*c04Level
	depth := map[*types.Func]int{}
	{
		cur, _ := info.Defs[start.Name].(*types.Func)
		seen := map[*types.Func]bool{}
		for cur != nil && !seen[cur] && declOf[cur] != nil {
			seen[cur] = true
			lv := analyseAs(cur)
			// the entry function's left is the call in its return statement
			if lv.left == nil && len(chain) == 0 {
				ast.Inspect(declOf[cur].Body, func(n ast.Node) bool {
					if c, ok := n.(*ast.CallExpr); ok {
						if cal := resolve(c); cal != nil && isParseSig(cal) && lv.left == nil {
							lv.left = cal
						}
					}
					return true
				})
			}
			levels[lv.obj] = lv
			depth[lv.obj] = len(chain)
			chain = append(chain, lv)
			if lv.left == nil {
				break
			}
			cur = lv.left
		}
	}
	if len(chain) < 10 {
		r.fail("expression ladder has only %d levels from Parse; the parser is no longer a recursive-descent ladder the extractor understands", len(chain))
		return
	}
	r.stat("ladder_levels", len(chain))
	chainNames := []string{}
	for _, l := range chain {
		chainNames = append(chainNames, l.obj.Name())
	}

	// all functions reachable from Parse through parse calls (operand positions), within package parser
	reach := map[*types.Func]bool{}
	var work []*types.Func
	push := func(f *types.Func) {
		if f != nil && !reach[f] && declOf[f] != nil {
			reach[f] = true
			work = append(work, f)
		}
	}
	push(chain[0].obj)
	for len(work) > 0 {
		f := work[len(work)-1]
		work = work[:len(work)-1]
		// the edges of the analysed level (they name virtual levels where the callee is level-indexed)
		if recvTypeName(declOf[f]) == "ExpressionParser" && levelParam(declOf[f]) < 0 || vbind[f] != nil {
			lv := levels[f]
			if lv == nil {
				lv = analyseAs(f)
				levels[f] = lv
			}
			if lv != nil {
				push(lv.left)
				for _, g := range lv.guards {
					for _, rt := range g.rights {
						push(rt)
					}
				}
			}
		}
		scan := func(n ast.Node) bool {
			// calls and method values handed to a generic level helper
			if id, ok := n.(*ast.Ident); ok {
				if cal, ok := info.Uses[id].(*types.Func); ok && isParseSig(cal) && levelParam(declOf[cal]) < 0 {
					push(cal)
				}
			}
			return true
		}
		if vb := vbind[f]; vb != nil {
			// a virtual level: only the statements that run at this level
			saved := bind
			bind = vb
			body, _ := effective(declOf[f].Body.List)
			bind = saved
			for _, st := range body {
				ast.Inspect(st, scan)
			}
		} else {
			ast.Inspect(declOf[f].Body, scan)
		}
	}
	r.stat("functions_reachable_from_Parse", len(reach))

	// infix guards of every reachable ExpressionParser method
	// helpers: non-chain methods of ExpressionParser called from a chain level contribute their
	// guards to that level (an extracted helper does not change the grammar)
	helperOf := map[*types.Func]*c04Level{}
	isHelperCandidate := func(cal *types.Func) bool {
		if cal == nil || !isParseSig(cal) || declOf[cal] == nil || recvTypeName(declOf[cal]) != "ExpressionParser" {
			return false
		}
		if _, onChain := depth[cal]; onChain {
			return false
		}
		// a helper takes the already parsed left operand as a parameter
		sig := cal.Type().(*types.Signature)
		for i := 0; i < sig.Params().Len(); i++ {
			if isNamed(sig.Params().At(i).Type(), modPath+"/data", "GetValue") {
				return true
			}
		}
		return false
	}
	// a helper belongs to the deepest chain level that calls it (directly or through helpers)
	helperGuards := map[*types.Func][]*opGuard{}
	sharedHelper := map[[2]*c04Level]bool{}
	// appliedToOwnLeft: the helper call continues the level's own left operand (the variable assigned from
	// its first operand parse), not a right operand that is being completed
	appliedToOwnLeft := func(fd *ast.FuncDecl, c *ast.CallExpr) bool {
		var leftVar types.Object
		for _, st := range fd.Body.List {
			as, ok := st.(*ast.AssignStmt)
			if !ok || len(as.Rhs) != 1 {
				continue
			}
			call, ok := ast.Unparen(as.Rhs[0]).(*ast.CallExpr)
			if !ok {
				continue
			}
			if cal, _ := calleeOf(info, call).(*types.Func); cal != nil && isParseSig(cal) {
				if id, ok := as.Lhs[0].(*ast.Ident); ok {
					leftVar = info.Defs[id]
					if leftVar == nil {
						leftVar = info.Uses[id]
					}
				}
				break
			}
		}
		if leftVar == nil {
			return false
		}
		for _, a := range c.Args {
			if id, ok := ast.Unparen(a).(*ast.Ident); ok && info.Uses[id] == leftVar {
				return true
			}
		}
		return false
	}
	for i := len(chain) - 1; i >= 0; i-- {
		lv := chain[i]
		var addHelpers func(fd *ast.FuncDecl, d int)
		addHelpers = func(fd *ast.FuncDecl, d int) {
			if d > 3 {
				return
			}
			ast.Inspect(fd.Body, func(n ast.Node) bool {
				c, ok := n.(*ast.CallExpr)
				if !ok {
					return true
				}
				cal, _ := calleeOf(info, c).(*types.Func)
				if !isHelperCandidate(cal) {
					return true
				}
				if owner := helperOf[cal]; owner != nil {
					// a helper shared by several levels (the assignment chain after an lvalue is parsed both at
					// the assignment level and after a unary operand): its operators are consumed at each of them
					if owner != lv && d == 0 && !sharedHelper[[2]*c04Level{lv, owner}] && appliedToOwnLeft(fd, c) {
						sharedHelper[[2]*c04Level{lv, owner}] = true
						for _, g := range helperGuards[cal] {
							lv.guards = append(lv.guards, g)
						}
					}
					return true
				}
				helperOf[cal] = lv
				h := analyse(declOf[cal])
				completesRight := d == 0 && !appliedToOwnLeft(fd, c)
				for _, g := range h.guards {
					g.prefix = false
					// a helper that completes a *right* operand under construction (the literal split from a signed
					// number token: `$a -2 ** 2 * 3`) re-enters the ladder with that operand as its left side: each
					// operator it consumes belongs to the level that consumes the same operator on the chain, and
					// is judged there (same operand parsers, same associativity)
					owner := lv
					if completesRight {
						for _, cl := range chain {
							if cl == lv {
								continue
							}
							for _, cg := range cl.guards {
								if cg.prefix || !cg.hasNext || cg.suffix {
									continue
								}
								for _, a := range cg.toks {
									for _, b := range g.toks {
										if a == b {
											owner = cl
										}
									}
								}
							}
						}
					}
					if owner != lv && g.kind == "if" {
						g.kind = "for" // one step of the owner's chain; the owner's own loop or recursion supplies the rest
					}
					owner.guards = append(owner.guards, g)
				}
				helperGuards[cal] = h.guards
				addHelpers(declOf[cal], d+1)
				return true
			})
		}
		addHelpers(lv.fd, 0)
	}
	// a generic level helper is judged through its instantiations, not on its own
	isGenericLevel := func(f *types.Func) bool {
		sig := f.Type().(*types.Signature)
		for i := 0; i < sig.Params().Len(); i++ {
			if ps, ok := sig.Params().At(i).Type().Underlying().(*types.Signature); ok && ps.Results().Len() == 2 && ps.Params().Len() == 0 {
				return true
			}
		}
		return false
	}
	infix := map[string][]c04Occ{}
	prefixG := []c04Occ{}
	for f := range reach {
		fd := declOf[f]
		if recvTypeName(fd) != "ExpressionParser" || helperOf[f] != nil || isGenericLevel(f) {
			continue
		}
		if vbind[f] == nil && levelParam(fd) >= 0 {
			continue // a level-indexed function is judged through its levels
		}
		lv := levels[f]
		if lv == nil {
			lv = analyseAs(f)
			levels[f] = lv
		}
		for _, g := range lv.guards {
			if !g.hasNext || g.suffix {
				continue
			}
			if g.prefix {
				isPfx := false
				for _, t := range g.toks {
					if prefixOps[t] {
						isPfx = true
					}
				}
				if isPfx {
					prefixG = append(prefixG, c04Occ{lv, g})
				}
				continue
			}
			for _, t := range g.toks {
				if _, ok := opSet[t]; ok || t == "." {
					// a binary node must be built, or a ternary/coalesce node
					infix[t] = append(infix[t], c04Occ{lv, g})
				}
			}
		}
	}

	levelOf := func(op string) *c04Level { // the unique chain level consuming op (first chain occurrence)
		var best *c04Level
		for _, o := range infix[op] {
			if _, ok := depth[o.lv.obj]; ok {
				if best == nil || depth[o.lv.obj] < depth[best.obj] {
					best = o.lv
				}
			}
		}
		return best
	}

	// C04-ONELEVEL
	r.curRule = "C04-ONELEVEL"
	assignLevel := chain[1] // loosest level below Parse
	for i, ref := range c04Ref {
		for _, op := range ref.ops {
			occs := infix[op]
			key := "op:" + op
			if len(occs) == 0 {
				r.bad(key, start.Pos(), fmt.Sprintf("operator %q is not consumed as an infix operator by any level reachable from Parse", op))
				continue
			}
			fns := map[*types.Func]bool{}
			for _, o := range occs {
				fns[o.lv.obj] = true
			}
			if i == 0 {
				// assignment: allowed at several syntactic places, each must recurse into the assignment level
				okAll := true
				var badPos token.Pos
				for _, o := range occs {
					rec := false
					for _, rt := range o.g.rights {
						if rt == assignLevel.obj {
							rec = true
						}
					}
					if !rec {
						okAll = false
						badPos = o.g.pos
					}
				}
				if okAll {
					r.ok(key, occs[0].g.pos, fmt.Sprintf("%q consumed in %d place(s), each parsing its right side with %s", op, len(occs), assignLevel.obj.Name()))
				} else {
					r.bad(key, badPos, fmt.Sprintf("%q is consumed at a place whose right operand is not parsed by the assignment level %s", op, assignLevel.obj.Name()))
				}
				continue
			}
			if len(fns) == 1 {
				r.ok(key, occs[0].g.pos, fmt.Sprintf("%q consumed only in %s", op, occs[0].lv.obj.Name()))
			} else {
				n := []string{}
				for f := range fns {
					n = append(n, f.Name())
				}
				sort.Strings(n)
				r.bad(key, occs[0].g.pos, fmt.Sprintf("%q is consumed as an infix operator at %d different levels (%s): grouping depends on which one is reached", op, len(fns), strings.Join(n, ", ")))
			}
		}
	}

	// C04-LADDER: adjacent reference levels
	r.curRule = "C04-LADDER"
	lvlFn := func(i int) (*c04Level, string) {
		var lv *c04Level
		for _, op := range c04Ref[i].ops {
			l := levelOf(op)
			if l == nil {
				return nil, op
			}
			if lv == nil {
				lv = l
			} else if lv != l {
				return nil, op
			}
		}
		return lv, ""
	}
	for i := range c04Ref {
		lv, badOp := lvlFn(i)
		key := "level:" + c04Ref[i].name
		if lv == nil {
			r.bad(key, start.Pos(), fmt.Sprintf("operators of level %s are not all consumed by one function of the ladder (offending operator %q)", c04Ref[i].name, badOp))
			continue
		}
		r.ok(key, lv.fd.Pos(), fmt.Sprintf("level %s = %s (depth %d)", c04Ref[i].name, lv.obj.Name(), depth[lv.obj]))
	}
	for i := 0; i+1 < len(c04Ref); i++ {
		a, _ := lvlFn(i)
		b, _ := lvlFn(i + 1)
		if a == nil || b == nil {
			continue
		}
		key := fmt.Sprintf("order:%s<%s", c04Ref[i].name, c04Ref[i+1].name)
		if depth[a.obj] < depth[b.obj] {
			r.ok(key, b.fd.Pos(), fmt.Sprintf("%s (%s, depth %d) binds tighter than %s (%s, depth %d)", c04Ref[i+1].name, b.obj.Name(), depth[b.obj], c04Ref[i].name, a.obj.Name(), depth[a.obj]))
		} else {
			r.bad(key, b.fd.Pos(), fmt.Sprintf("%s (%s, depth %d) must bind tighter than %s (%s, depth %d) but is not deeper in the operand chain %v", c04Ref[i+1].name, b.obj.Name(), depth[b.obj], c04Ref[i].name, a.obj.Name(), depth[a.obj], chainNames))
		}
	}
	// '.' constraints
	if dot := levelOfLit(infix, depth, "."); dot != nil {
		add, _ := lvlFn(11)
		sh, _ := lvlFn(10)
		co, _ := lvlFn(2)
		_ = sh
		if add != nil {
			if depth[dot.obj] < depth[add.obj] {
				r.ok("order:concat<additive", dot.fd.Pos(), "'.' is looser than + -")
			} else {
				r.bad("order:concat<additive", dot.fd.Pos(), "'.' must be looser than arithmetic but its level is not above the additive level")
			}
		}
		if co != nil {
			if depth[dot.obj] > depth[co.obj] {
				r.ok("order:coalesce<concat", dot.fd.Pos(), "'.' is tighter than ??")
			} else {
				r.bad("order:coalesce<concat", dot.fd.Pos(), "'.' must be tighter than ?? but its level is not below the coalesce level")
			}
		}
	} else {
		r.bad("level:concat", start.Pos(), "operator '.' is not consumed by exactly one ladder level")
	}
	// unary between multiplicative and power
	var unaryLv *c04Level
	for _, o := range prefixG {
		if _, ok := depth[o.lv.obj]; ok && (unaryLv == nil || depth[o.lv.obj] < depth[unaryLv.obj]) {
			unaryLv = o.lv
		}
	}
	mul, _ := lvlFn(12)
	pow, _ := lvlFn(13)
	if unaryLv == nil {
		r.bad("level:unary", start.Pos(), "no ladder level consumes the prefix operators - ! ~")
	} else {
		r.ok("level:unary", unaryLv.fd.Pos(), fmt.Sprintf("prefix operators consumed by %s (depth %d)", unaryLv.obj.Name(), depth[unaryLv.obj]))
		if mul != nil {
			if depth[mul.obj] < depth[unaryLv.obj] {
				r.ok("order:multiplicative<unary", unaryLv.fd.Pos(), "unary binds tighter than * / %")
			} else {
				r.bad("order:multiplicative<unary", unaryLv.fd.Pos(), "prefix - ! ~ must bind tighter than * / %")
			}
		}
		if pow != nil {
			if depth[unaryLv.obj] < depth[pow.obj] {
				r.ok("order:unary<power", pow.fd.Pos(), "** binds tighter than unary minus")
			} else {
				r.bad("order:unary<power", pow.fd.Pos(), "** must bind tighter than unary minus (-2 ** 2 = -(2 ** 2))")
			}
		}
	}

	// C04-ASSOC
	r.curRule = "C04-ASSOC"
	for i, ref := range c04Ref {
		lv, _ := lvlFn(i)
		if lv == nil {
			continue
		}
		for _, g := range lv.guards {
			if g.prefix || !g.hasNext {
				continue
			}
			match := false
			for _, t := range g.toks {
				if opSet[t] == i {
					if _, ok := opSet[t]; ok {
						match = true
					}
				}
			}
			if !match {
				continue
			}
			key := fmt.Sprintf("assoc:%s", ref.name)
			if g.fold != "" {
				// explicit operand stack: the fold direction is the associativity
				want := "left"
				if ref.assoc == "right" {
					want = "right"
				}
				if g.fold == want {
					r.ok(key, g.pos, fmt.Sprintf("%s: operands collected on a stack and folded from the %s (%s-associative)", ref.name, map[string]string{"right": "right", "left": "left"}[g.fold], g.fold))
				} else {
					r.bad(key, g.pos, fmt.Sprintf("level %s folds its pending operands from the %s: the chain groups %s-associatively, the table says %s", ref.name, g.fold, g.fold, ref.assoc))
				}
				continue
			}
			switch ref.assoc {
			case "left", "either":
				okr := len(g.rights) > 0
				var badName string
				for _, rt := range g.rights {
					if rt == lv.left {
						continue
					}
					if ref.assoc == "either" && rt == lv.obj {
						continue
					}
					okr = false
					badName = rt.Name()
				}
				if g.kind != "for" && ref.assoc == "left" {
					r.bad(key, g.pos, fmt.Sprintf("level %s consumes its operator in an %s, not a loop: a chain a %s b %s c is not grouped left to right", ref.name, g.kind, ref.ops[0], ref.ops[0]))
				} else if !okr {
					if badName == "" {
						badName = "(no parse call)"
					}
					r.bad(key, g.pos, fmt.Sprintf("left-associative level %s (%s) parses its right operand with %s instead of %s (the callee of its left operand)", ref.name, lv.obj.Name(), badName, lv.left.Name()))
				} else {
					r.ok(key, g.pos, fmt.Sprintf("%s: loop, right operand parsed by %s like the left", ref.name, lv.left.Name()))
				}
			case "right":
				want := lv.obj
				if i == 0 {
					want = assignLevel.obj
				}
				okr := len(g.rights) > 0
				for _, rt := range g.rights {
					if rt != want {
						okr = false
					}
				}
				if okr {
					r.ok(key, g.pos, fmt.Sprintf("%s: right operand parsed by %s (right-associative)", ref.name, want.Name()))
				} else {
					r.bad(key, g.pos, fmt.Sprintf("right-associative level %s must parse its right operand by recursing into %s", ref.name, want.Name()))
				}
			case "ternary":
				okr := true
				for _, rt := range g.rights {
					if d, isLv := depth[rt]; isLv && d > depth[lv.obj] {
						// a tighter level for a branch: a ? b : c ? d : e would not nest to the right
						if recvTypeName(declOf[rt]) == "ExpressionParser" {
							okr = false
						}
					}
				}
				if okr {
					r.ok(key, g.pos, "ternary branches parsed at the ternary level or looser")
				} else {
					r.bad(key, g.pos, "a ternary branch is parsed by a level tighter than the ternary level")
				}
			}
		}
	}
	// '.' assoc
	if dot := levelOfLit(infix, depth, "."); dot != nil {
		for _, g := range dot.guards {
			for _, t := range g.toks {
				if t == "." && !g.prefix && g.hasNext {
					okr := g.kind == "for" && len(g.rights) > 0
					for _, rt := range g.rights {
						if rt != dot.left {
							okr = false
						}
					}
					if okr {
						r.ok("assoc:concat", g.pos, "'.': loop, right operand parsed like the left")
					} else {
						r.bad("assoc:concat", g.pos, "'.' must be left-associative with both operands parsed by the next tighter level")
					}
				}
			}
		}
	}

	// C04-SIGNED
	r.curRule = "C04-SIGNED"
	for _, lv := range chain {
		for _, g := range lv.guards {
			if !g.signed || g.prefix {
				continue
			}
			c04Signed(r, ppkg, lv, g, mul, isParseSig, helperOf)
		}
	}

	// C04-CAST: prefix operators and casts parse their operand at the unary level
	r.curRule = "C04-CAST"
	if unaryLv != nil {
		for _, o := range prefixG {
			key := fmt.Sprintf("%s#prefix-operand", funcKey(ppkg, o.lv.fd))
			okr := len(o.g.rights) > 0
			for _, rt := range o.g.rights {
				if d, isLv := depth[rt]; !isLv || d < depth[unaryLv.obj] {
					okr = false
				}
			}
			if okr {
				r.ok(key, o.g.pos, "operand of the prefix operator parsed at the unary level or tighter")
			} else {
				r.bad(key, o.g.pos, "operand of a prefix operator is parsed by a level looser than unary: -a * b would negate the product")
			}
		}
		// casts: functions of LparenParser that build a call from a type name: anchor = callee of isTypeCast-guarded branch
		castFns := 0
		for _, fd := range funcDecls(ppkg) {
			if recvTypeName(fd) != "LparenParser" {
				continue
			}
			obj, _ := info.Defs[fd.Name].(*types.Func)
			if obj == nil || !c04IsCastParser(info, fd) {
				continue
			}
			castFns++
			key := funcKey(ppkg, fd) + "#cast-operand"
			found := false
			ast.Inspect(fd.Body, func(n ast.Node) bool {
				c, ok := n.(*ast.CallExpr)
				if !ok {
					return true
				}
				cal, ok := calleeOf(info, c).(*types.Func)
				if !ok || !isParseSig(cal) {
					return true
				}
				found = true
				if d, isLv := depth[cal]; isLv && d >= depth[unaryLv.obj] {
					r.ok(key, c.Pos(), fmt.Sprintf("cast operand parsed by %s (unary level or tighter)", cal.Name()))
				} else {
					r.bad(key, c.Pos(), fmt.Sprintf("cast operand parsed by %s, which is looser than the unary level: (int)$s + 1 casts the sum", cal.Name()))
				}
				return true
			})
			if !found {
				r.bad(key, fd.Pos(), "cast parser does not parse an operand")
			}
		}
		if castFns == 0 {
			r.fail("no cast-parsing function found in LparenParser (looked for a function that reads a type name and builds a call node)")
		}
		// the recogniser of "(T) expr": the token accepted between the parentheses is a name (an identifier
		// or a type keyword), never a token that carries a value — otherwise "(2) * 3" is read as a cast
		c04CastTokens(r, ppkg, tpkg)
	}

	// C04-OPTABLE
	r.curRule = "C04-OPTABLE"
	c04OpTable(r, npkg, tpkg, tokLit, infix, litCount)
}

type c04Occ struct {
	lv *c04Level
	g  *opGuard
}

func levelOfLit(infix map[string][]c04Occ, depth map[*types.Func]int, op string) *c04Level {
	var best *c04Level
	for _, o := range infix[op] {
		if _, ok := depth[o.lv.obj]; ok {
			if best != nil && best != o.lv {
				return nil
			}
			best = o.lv
		}
	}
	return best
}

// c04IsCastParser: a function that takes the current token's literal as a type name and builds a
// call expression from it (the cast form "(int) expr").
func c04IsCastParser(info *types.Info, fd *ast.FuncDecl) bool {
	usesLiteral, buildsCall := false, false
	ast.Inspect(fd.Body, func(n ast.Node) bool {
		if c, ok := n.(*ast.CallExpr); ok {
			if cal, ok := calleeOf(info, c).(*types.Func); ok {
				if cal.Name() == "Literal" {
					usesLiteral = true
				}
				if cal.Name() == "NewCallExpression" {
					buildsCall = true
				}
			}
		}
		return true
	})
	return usesLiteral && buildsCall
}

func c04Signed(r *Run, ppkg *packages.Package, lv *c04Level, g *opGuard, mul *c04Level, isParseSig func(*types.Func) bool, helperOf map[*types.Func]*c04Level) {
	info := ppkg.TypesInfo
	// find the statement list of the guard (loop body) and in it the if-statement testing isSignedNumberToken
	var body *ast.BlockStmt
	src := lv.fd
	if g.src != nil {
		src = g.src
	}
	ast.Inspect(src.Body, func(n ast.Node) bool {
		if f, ok := n.(*ast.ForStmt); ok && f.Pos() == g.pos {
			body = f.Body
		}
		return true
	})
	if body == nil {
		return
	}
	key := funcKey(ppkg, lv.fd) + "#signed-branch"
	found := false
	ast.Inspect(body, func(n ast.Node) bool {
		ifs, ok := n.(*ast.IfStmt)
		if !ok {
			return true
		}
		if !c04SignedCond(ppkg, ifs) {
			return true
		}
		found = true
		// inside the signed branch: is there a parse call that continues at the multiplicative level?
		cont := false
		var contName string
		var scan func(body ast.Node, d int)
		var visit func(m ast.Node) bool
		scan = func(body ast.Node, d int) { ast.Inspect(body, visit) }
		depthNow := 0
		visit = func(m ast.Node) bool {
			c, ok := m.(*ast.CallExpr)
			if !ok {
				return true
			}
			cal, ok := calleeOf(info, c).(*types.Func)
			if !ok {
				return true
			}
			if !isParseSig(cal) {
				// a helper of the parser that performs the split: its body belongs to the branch
				if hd := declOf(ppkg, cal); hd != nil && hd.Body != nil && cal.Pkg() == ppkg.Types && depthNow < 2 {
					depthNow++
					scan(hd.Body, depthNow)
					depthNow--
				}
				return true
			}
			contName = cal.Name()
			if mul != nil {
				if cal == mul.obj || helperOf[cal] == mul {
					cont = true
				} else if hd := declOf(ppkg, cal); hd != nil && hd.Body != nil && depthNow < 2 {
					// a completion helper that handles a tighter operator first and then hands the operand to
					// the multiplicative level (parseSignedLiteralRest: `**`, then parseFactorRest)
					takesOperand := false
					sig := cal.Type().(*types.Signature)
					for i := 0; i < sig.Params().Len(); i++ {
						if isNamed(sig.Params().At(i).Type(), modPath+"/data", "GetValue") {
							takesOperand = true
						}
					}
					// … applied to the operand being completed, not to the level's own left side (a helper that
					// receives the left operand and continues on `left - literal` groups ($a - 1) * 2)
					if takesOperand && !c04PassesOwnLeft(info, src, c, isParseSig) {
						depthNow++
						scan(hd.Body, depthNow)
						depthNow--
					}
				}
				for _, mg := range mul.guards {
					if mg.fn != nil {
						if o, ok := info.Defs[mg.fn.Name].(*types.Func); ok && o == cal {
							cont = true
						}
					}
				}
			}
			return true
		}
		scan(ifs.Body, 0)
		if cont {
			r.ok(key, ifs.Pos(), "the literal split from a signed number token is continued at the multiplicative level ("+contName+")")
		} else {
			r.bad(key, ifs.Pos(), "the signed-number branch uses the bare literal as the right operand of + / -: a following * / % is not grouped with it ($a -1 * 2 parses as ($a - 1) then a dangling * 2)")
		}
		return false
	})
	if !found {
		r.info(key, g.pos, "signed-number guard without a dedicated branch")
	}
}

func c04OpTable(r *Run, npkg, tpkg *packages.Package, tokLit map[types.Object]string, infix map[string][]c04Occ, litCount map[string][]string) {
	info := npkg.TypesInfo
	fd := findFunc(npkg, "", "NewBinaryExpression")
	if fd == nil {
		r.fail("anchor not found: node.NewBinaryExpression")
		return
	}
	type entry struct {
		ctors []string
		args  [][]string
		pos   token.Pos
	}
	// the dispatch is evaluated once per token with the token known and the operands symbolic
	table := map[string]*entry{}
	ev := &pvEval{pkg: npkg, info: info, isTok: func(o types.Object) bool { _, ok := tokLit[o]; return ok }}
	var paramNames []string
	var tokParam = -1
	{
		i := 0
		for _, f := range fd.Type.Params.List {
			for _, nm := range f.Names {
				paramNames = append(paramNames, nm.Name)
				if isNamed(info.TypeOf(f.Type), modPath+"/lexer", "Token") {
					tokParam = i
				}
				i++
			}
		}
	}
	if tokParam < 0 {
		r.fail("node.NewBinaryExpression takes no lexer.Token operator parameter")
		return
	}
	toks := []types.Object{}
	for o := range tokLit {
		toks = append(toks, o)
	}
	sort.Slice(toks, func(i, j int) bool { return toks[i].Name() < toks[j].Name() })
	undecided := []string{}
	for _, o := range toks {
		args := make([]*pv, len(paramNames))
		for i, nm := range paramNames {
			args[i] = &pv{kind: pvLeaf, name: nm}
		}
		args[tokParam] = &pv{kind: pvOperator, tok: o}
		ev.budget = 4000
		res := ev.call(fd, args)
		switch res.kind {
		case pvNode:
			e := &entry{pos: res.pos}
			var walk func(v *pv)
			walk = func(v *pv) {
				if v.kind != pvNode {
					return
				}
				e.ctors = append(e.ctors, v.name)
				var as []string
				for _, a := range v.args {
					switch a.kind {
					case pvLeaf:
						as = append(as, a.name)
					case pvNode:
						as = append(as, a.name+"(…)")
					default:
						as = append(as, "?")
					}
				}
				e.args = append(e.args, as)
				for _, a := range v.args {
					walk(a)
				}
			}
			walk(res)
			table[tokLit[o]] = e
		case pvPanic, pvNil:
		default:
			undecided = append(undecided, o.Name())
		}
	}
	if len(table) == 0 {
		r.fail("node.NewBinaryExpression: the constructor dispatch could not be evaluated for any token (undecided: %d)", len(undecided))
		return
	}
	r.stat("binary_dispatch_undecided_tokens", len(undecided))
	undecidedSet := map[string]bool{}
	for _, o := range toks {
		for _, u := range undecided {
			if u == o.Name() {
				undecidedSet[tokLit[o]] = true
			}
		}
	}
	r.stat("binary_constructor_cases", len(table))
	// parameter names of left / right
	var leftName, rightName string
	if ps := fd.Type.Params.List; len(ps) >= 4 {
		names := []string{}
		for _, p := range ps {
			for _, n := range p.Names {
				names = append(names, n.Name)
			}
		}
		if len(names) == 4 {
			leftName, rightName = names[1], names[3]
		}
	}
	// (i) coverage of every token a ladder level hands to NewBinaryExpression
	lits := []string{}
	for lit := range infix {
		lits = append(lits, lit)
	}
	sort.Strings(lits)
	for _, lit := range lits {
		uses := false
		for _, o := range infix[lit] {
			for _, c := range o.g.ctors {
				if c == "NewBinaryExpression" {
					uses = true
				}
			}
		}
		if !uses {
			continue
		}
		key := "covers:" + lit
		if e := table[lit]; e != nil {
			r.ok(key, e.pos, fmt.Sprintf("%q → %s", lit, strings.Join(e.ctors, "∘")))
		} else if undecidedSet[lit] {
			r.fail("node.NewBinaryExpression: the dispatch for %q could not be evaluated statically", lit)
		} else {
			r.bad(key, fd.Pos(), fmt.Sprintf("the ladder passes %q to NewBinaryExpression but its dispatch builds no node for it (it panics or returns nil)", lit))
		}
	}
	// (ii) injectivity and operand order of plain operators; (iii) compound assignments
	plain := map[string]string{}
	keys := []string{}
	for lit := range table {
		keys = append(keys, lit)
	}
	sort.Strings(keys)
	for _, lit := range keys {
		e := table[lit]
		compound := len(lit) >= 2 && strings.HasSuffix(lit, "=") && !map[string]bool{"==": true, "!=": true, "<=": true, ">=": true, "===": true, "!==": true}[lit]
		if compound || len(e.ctors) != 1 {
			continue
		}
		key := "plain:" + lit
		if other, dup := plain[e.ctors[0]]; dup {
			r.bad(key, e.pos, fmt.Sprintf("operators %q and %q build the same node %s", other, lit, e.ctors[0]))
			continue
		}
		plain[e.ctors[0]] = lit
		if leftName != "" && len(e.args[0]) == 3 && (e.args[0][1] != leftName || e.args[0][2] != rightName) {
			r.bad(key, e.pos, fmt.Sprintf("%q passes its operands as (%s, %s) instead of (%s, %s)", lit, e.args[0][1], e.args[0][2], leftName, rightName))
			continue
		}
		r.ok(key, e.pos, fmt.Sprintf("%q → %s(%s, %s)", lit, e.ctors[0], leftName, rightName))
	}
	ctorOf := map[string]string{}
	for c, lit := range plain {
		ctorOf[lit] = c
	}
	ctorOf["??"] = "NewNullCoalesceExpression"
	for _, lit := range keys {
		e := table[lit]
		compound := len(lit) >= 2 && strings.HasSuffix(lit, "=") && !map[string]bool{"==": true, "!=": true, "<=": true, ">=": true, "===": true, "!==": true}[lit]
		if !compound {
			continue
		}
		base := strings.TrimSuffix(lit, "=")
		key := "compound:" + lit
		want := ctorOf[base]
		assign := ctorOf["="]
		if want == "" || assign == "" {
			r.bad(key, e.pos, fmt.Sprintf("no plain operator %q to derive %q from", base, lit))
			continue
		}
		if len(e.ctors) == 2 && e.ctors[0] == assign && e.ctors[1] == want {
			okArgs := true
			if leftName != "" && len(e.args[0]) == 3 && len(e.args[1]) == 3 {
				if e.args[0][1] != leftName || e.args[1][1] != leftName || e.args[1][2] != rightName {
					okArgs = false
				}
			}
			if okArgs {
				r.ok(key, e.pos, fmt.Sprintf("%q → %s(%s, %s(%s, %s))", lit, assign, leftName, want, leftName, rightName))
			} else {
				r.bad(key, e.pos, fmt.Sprintf("%q does not assign %s %s %s back to %s", lit, leftName, base, rightName, leftName))
			}
		} else {
			r.bad(key, e.pos, fmt.Sprintf("%q builds %s; expected %s(left, %s(left, right))", lit, strings.Join(e.ctors, "∘"), assign, want))
		}
	}
	// (iv) literal uniqueness among operator tokens
	ls := []string{}
	for l := range litCount {
		ls = append(ls, l)
	}
	sort.Strings(ls)
	nuniq := 0
	for _, l := range ls {
		if len(litCount[l]) > 1 && l != "" {
			// keywords may alias (e.g. two spellings) but two token types sharing one literal is ambiguous
			r.bad("literal:"+strconv.Quote(l), tpkg.Types.Scope().Lookup("TokenDefinitions").Pos(), fmt.Sprintf("literal %q is defined for several token types %v: the longest-match lexer cannot tell them apart", l, litCount[l]))
		} else {
			nuniq++
		}
	}
	r.ok("literals-unique", tpkg.Types.Scope().Lookup("TokenDefinitions").Pos(), fmt.Sprintf("%d token literals, none shared by two token types", nuniq))
}

// c04CastTokens: the cast recogniser (the bool method of LparenParser that guards the call of the cast
// parser) accepts at offset 1 only IDENTIFIER or tokens defined as keywords in token.TokenDefinitions.
func c04CastTokens(r *Run, ppkg, tpkg *packages.Package) {
	info := ppkg.TypesInfo
	// token kinds from the definition table: WordType field by token constant
	wordType := map[types.Object]string{}
	for _, f := range tpkg.Syntax {
		ast.Inspect(f, func(n ast.Node) bool {
			cl, ok := n.(*ast.CompositeLit)
			if !ok {
				return true
			}
			var typ types.Object
			wt := ""
			for _, el := range cl.Elts {
				kv, ok := el.(*ast.KeyValueExpr)
				if !ok {
					continue
				}
				switch exprStr(kv.Key) {
				case "Type":
					if id, ok := kv.Value.(*ast.Ident); ok {
						typ = tpkg.TypesInfo.Uses[id]
					}
				case "WordType":
					wt = exprStr(kv.Value)
				}
			}
			if typ != nil && wt != "" {
				wordType[typ] = wt
			}
			return true
		})
	}
	if len(wordType) < 50 {
		return // the table has no WordType column: nothing to judge with
	}
	tokObj := func(e ast.Expr) types.Object {
		switch x := ast.Unparen(e).(type) {
		case *ast.SelectorExpr:
			if c, ok := info.Uses[x.Sel].(*types.Const); ok && isNamed(c.Type(), modPath+"/token", "TokenType") {
				return c
			}
		case *ast.Ident:
			if c, ok := info.Uses[x].(*types.Const); ok && isNamed(c.Type(), modPath+"/token", "TokenType") {
				return c
			}
		}
		return nil
	}
	// tokens a predicate func(t TokenType) bool compares its parameter with
	predicateTokens := func(fd *ast.FuncDecl) []types.Object {
		var out []types.Object
		ast.Inspect(fd.Body, func(n ast.Node) bool {
			switch x := n.(type) {
			case *ast.BinaryExpr:
				if x.Op == token.EQL {
					if o := tokObj(x.Y); o != nil {
						out = append(out, o)
					} else if o := tokObj(x.X); o != nil {
						out = append(out, o)
					}
				}
			case *ast.CaseClause:
				for _, v := range x.List {
					if o := tokObj(v); o != nil {
						out = append(out, o)
					}
				}
			}
			return true
		})
		return out
	}
	for _, fd := range funcDecls(ppkg) {
		if recvTypeName(fd) != "LparenParser" || fd.Type.Results == nil || len(fd.Type.Results.List) != 1 {
			continue
		}
		if b, ok := info.TypeOf(fd.Type.Results.List[0].Type).Underlying().(*types.Basic); !ok || b.Kind() != types.Bool {
			continue
		}
		// is it the guard of the cast parser?
		self := info.Defs[fd.Name]
		guards := false
		for _, other := range funcDecls(ppkg) {
			ast.Inspect(other.Body, func(n ast.Node) bool {
				is, ok := n.(*ast.IfStmt)
				if !ok {
					return true
				}
				tests := false
				ast.Inspect(is.Cond, func(m ast.Node) bool {
					if c, ok := m.(*ast.CallExpr); ok && calleeOf(info, c) == self {
						tests = true
					}
					return true
				})
				if !tests {
					return true
				}
				ast.Inspect(is.Body, func(m ast.Node) bool {
					if c, ok := m.(*ast.CallExpr); ok {
						if cal, ok := calleeOf(info, c).(*types.Func); ok {
							if cd := declOf(ppkg, cal); cd != nil && c04IsCastParser(info, cd) {
								guards = true
							}
						}
					}
					return true
				})
				return true
			})
		}
		if !guards {
			continue
		}
		var accepted []types.Object
		ast.Inspect(fd.Body, func(n ast.Node) bool {
			c, ok := n.(*ast.CallExpr)
			if !ok {
				return true
			}
			cal, _ := calleeOf(info, c).(*types.Func)
			if cal == nil {
				return true
			}
			// checkPositionIs(1, toks…)
			if cal.Name() == "checkPositionIs" && len(c.Args) >= 2 {
				if tv, ok := info.Types[c.Args[0]]; ok && tv.Value != nil && tv.Value.String() == "1" {
					for _, a := range c.Args[1:] {
						if o := tokObj(a); o != nil {
							accepted = append(accepted, o)
						}
					}
				}
				return true
			}
			// predicate(<token at offset 1>)
			if pd := declOf(ppkg, cal); pd != nil && len(c.Args) == 1 && cal.Type().(*types.Signature).Params().Len() == 1 {
				if isNamed(cal.Type().(*types.Signature).Params().At(0).Type(), modPath+"/token", "TokenType") {
					mentionsOne := false
					ast.Inspect(c.Args[0], func(m ast.Node) bool {
						if bl, ok := m.(*ast.BasicLit); ok && bl.Value == "1" {
							mentionsOne = true
						}
						return true
					})
					if mentionsOne {
						accepted = append(accepted, predicateTokens(pd)...)
					}
				}
			}
			return true
		})
		key := funcKey(ppkg, fd) + "#cast-type-tokens"
		if len(accepted) == 0 {
			r.info(key, fd.Pos(), "the tokens accepted as a cast type name could not be listed")
			continue
		}
		var bad []string
		for _, o := range accepted {
			wt, defined := wordType[o]
			switch {
			case o.Name() == "IDENTIFIER":
			case defined && wt == "KEYWORD":
			default:
				bad = append(bad, o.Name())
			}
		}
		if len(bad) == 0 {
			r.ok(key, fd.Pos(), fmt.Sprintf("%d tokens are accepted as a cast type name, all identifiers or keywords", len(accepted)))
		} else {
			sort.Strings(bad)
			r.bad(key, fd.Pos(), fmt.Sprintf("the cast recogniser accepts value tokens as a type name (%s): a parenthesised literal such as (2) or (\"x\") is parsed as a cast of what follows, so `$a + (2) * 3` no longer groups as written", strings.Join(bad, ", ")))
		}
	}
}

// c04SignedPredicate: the callee is the signed-number predicate (isSignedNumberToken) or a helper of the
// parser package that takes a token and consults it first (splitSignedNumber(t) (sign, digits, ok)).
func c04SignedPredicate(p *packages.Package, f *types.Func, depth int) bool {
	if f == nil || f.Pkg() != p.Types || depth > 2 {
		return false
	}
	if f.Name() == "isSignedNumberToken" {
		return true
	}
	fd := declOf(p, f)
	if fd == nil || fd.Body == nil || fd.Recv != nil {
		return false
	}
	sig := f.Type().(*types.Signature)
	if sig.Params().Len() != 1 || !isNamed(sig.Params().At(0).Type(), modPath+"/lexer", "Token") {
		return false
	}
	found := false
	ast.Inspect(fd.Body, func(n ast.Node) bool {
		if c, ok := n.(*ast.CallExpr); ok {
			if cal, ok := calleeOf(p.TypesInfo, c).(*types.Func); ok && cal != f && c04SignedPredicate(p, cal, depth+1) {
				found = true
			}
		}
		return !found
	})
	return found
}

// c04SignedCond: the condition of an if (with its init statement) tests the signed-number predicate,
// directly or through the ok result of a helper assigned in the init.
func c04SignedCond(p *packages.Package, ifs *ast.IfStmt) bool {
	info := p.TypesInfo
	signed := false
	ast.Inspect(ifs.Cond, func(m ast.Node) bool {
		if c, ok := m.(*ast.CallExpr); ok {
			if cal, ok := calleeOf(info, c).(*types.Func); ok && c04SignedPredicate(p, cal, 0) {
				signed = true
			}
		}
		return true
	})
	if signed || ifs.Init == nil {
		return signed
	}
	as, ok := ifs.Init.(*ast.AssignStmt)
	if !ok || len(as.Rhs) != 1 {
		return false
	}
	c, ok := ast.Unparen(as.Rhs[0]).(*ast.CallExpr)
	if !ok {
		return false
	}
	cal, _ := calleeOf(info, c).(*types.Func)
	if !c04SignedPredicate(p, cal, 0) {
		return false
	}
	// the condition is the last (bool) result
	if id, ok := ast.Unparen(ifs.Cond).(*ast.Ident); ok {
		if lid, ok := as.Lhs[len(as.Lhs)-1].(*ast.Ident); ok && info.Defs[lid] != nil && info.Uses[id] == info.Defs[lid] {
			return true
		}
	}
	return false
}

// c04FoldDirection: the body folds a stack of pending (left, operator) pairs into one tree. "right": a
// loop running from the last pending entry to the first builds New(…, entry.left, entry.op, acc) with the
// accumulated tree as the right operand; "left": a forward loop builds New(…, acc, entry.op, entry.right)
// with it as the left operand. "" when neither shape is present.
func c04FoldDirection(info *types.Info, body *ast.BlockStmt) string {
	out := ""
	ast.Inspect(body, func(n ast.Node) bool {
		var loopBody *ast.BlockStmt
		backward := false
		switch x := n.(type) {
		case *ast.ForStmt:
			loopBody = x.Body
			if inc, ok := x.Post.(*ast.IncDecStmt); ok && inc.Tok == token.DEC {
				backward = true
			}
		case *ast.RangeStmt:
			loopBody = x.Body
			if c, ok := ast.Unparen(x.X).(*ast.CallExpr); ok {
				if cal := calleeFunc(info, c); cal != nil && cal.Pkg() != nil && cal.Pkg().Path() == "slices" && cal.Name() == "Backward" {
					backward = true
				}
			}
		}
		if loopBody == nil {
			return true
		}
		ast.Inspect(loopBody, func(m ast.Node) bool {
			as, ok := m.(*ast.AssignStmt)
			if !ok || len(as.Lhs) != 1 || len(as.Rhs) != 1 {
				return true
			}
			acc, ok := as.Lhs[0].(*ast.Ident)
			if !ok {
				return true
			}
			c, ok := ast.Unparen(as.Rhs[0]).(*ast.CallExpr)
			if !ok || len(c.Args) != 4 {
				return true
			}
			if cal := calleeFunc(info, c); cal == nil || cal.Name() != "NewBinaryExpression" {
				return true
			}
			isAcc := func(e ast.Expr) bool {
				id, ok := ast.Unparen(e).(*ast.Ident)
				return ok && info.Uses[id] != nil && info.Uses[id] == info.Uses[acc]
			}
			switch {
			case isAcc(c.Args[3]) && !isAcc(c.Args[1]) && backward:
				out = "right"
			case isAcc(c.Args[1]) && !isAcc(c.Args[3]) && !backward:
				out = "left"
			}
			return true
		})
		return true
	})
	return out
}

// c04PassesOwnLeft: one of the call's arguments is the variable that holds the level's own left operand
// (the variable assigned from the function's first operand parse).
func c04PassesOwnLeft(info *types.Info, fd *ast.FuncDecl, c *ast.CallExpr, isParseSig func(*types.Func) bool) bool {
	var leftVar types.Object
	for _, st := range fd.Body.List {
		as, ok := st.(*ast.AssignStmt)
		if !ok || len(as.Rhs) != 1 {
			continue
		}
		call, ok := ast.Unparen(as.Rhs[0]).(*ast.CallExpr)
		if !ok {
			continue
		}
		if cal, _ := calleeOf(info, call).(*types.Func); cal != nil && isParseSig(cal) {
			if id, ok := as.Lhs[0].(*ast.Ident); ok {
				leftVar = info.ObjectOf(id)
			}
			break
		}
	}
	if leftVar == nil {
		return false
	}
	for _, a := range c.Args {
		if id, ok := ast.Unparen(a).(*ast.Ident); ok && info.Uses[id] == leftVar {
			return true
		}
	}
	return false
}
