package main

import (
	"fmt"
	"go/ast"
	"go/constant"
	"go/token"
	"go/types"
	"os"
	"sort"
	"strings"

	"golang.org/x/tools/go/packages"
)

// E-IDX: a zone (difference-bound) abstract interpreter deciding "every index / slice expression
// over a string, a []rune/[]byte copy or a token slice is within bounds on every path".
//
// Facts are difference constraints  x - y <= w  over terms: integer variables, field selector
// chains, len(S) of a tracked sequence, and the constant ZERO. Queries are shortest paths.

const zeroTerm = "0"

type pendEdge struct {
	x, y string
	w    int
}

type zone struct {
	pend   map[string][]pendEdge // facts that hold when the named boolean variable is true
	e      map[[2]string]int     // x - y <= w
	neg    map[string]bool       // terms not assumed non-negative
	offOf  map[string]idxOffset  // r ↦ (S, a, L): a + r + L <= len(S)   (library results relative to a suffix)
	closed bool
}

type idxOffset struct {
	seq, base string
	plus      int
	minR      int // lower bound of r (-1 for Index results, 0 for sizes)
}

func newZone() *zone {
	return &zone{e: map[[2]string]int{}, neg: map[string]bool{}, offOf: map[string]idxOffset{}, pend: map[string][]pendEdge{}}
}

func (z *zone) clone() *zone {
	n := newZone()
	for k, v := range z.e {
		n.e[k] = v
	}
	for k := range z.neg {
		n.neg[k] = true
	}
	for k, v := range z.offOf {
		n.offOf[k] = v
	}
	for k, v := range z.pend {
		n.pend[k] = v
	}
	n.closed = z.closed
	return n
}

func (z *zone) terms() []string {
	set := map[string]bool{zeroTerm: true}
	for k := range z.e {
		set[k[0]] = true
		set[k[1]] = true
	}
	out := make([]string, 0, len(set))
	for t := range set {
		out = append(out, t)
	}
	sort.Strings(out)
	return out
}

func (z *zone) add(x, y string, w int) {
	if x == y {
		return
	}
	k := [2]string{x, y}
	if old, ok := z.e[k]; !ok || w < old {
		z.e[k] = w
		z.closed = false
	}
}

// close computes all-pairs shortest paths, with the implicit edges ZERO - t <= 0 for every term
// not marked possibly-negative, and len(S) >= 0.
func (z *zone) close() {
	if z.closed {
		return
	}
	ts := z.terms()
	for _, t := range ts {
		if strings.Contains(t, "+") {
			parts := strings.Split(t, "+")
			if len(parts) == 2 {
				a, b := parts[0], parts[1]
				// a <= a+b when b >= 0 ; b <= a+b when a >= 0 (explicit or assumed lower bounds)
				lo := func(x string) (int, bool) {
					if w, ok := z.e[[2]string{zeroTerm, x}]; ok {
						return -w, true
					}
					if !z.neg[x] {
						return 0, true
					}
					return 0, false
				}
				if lb, ok := lo(b); ok {
					k := [2]string{a, t}
					if old, ok := z.e[k]; !ok || old > -lb {
						z.e[k] = -lb
					}
				}
				if la, ok := lo(a); ok {
					k := [2]string{b, t}
					if old, ok := z.e[k]; !ok || old > -la {
						z.e[k] = -la
					}
				}
				if z.neg[a] || z.neg[b] {
					z.neg[t] = true
				}
			}
		}
	}
	ts = z.terms()
	for _, t := range ts {
		if t != zeroTerm && !z.neg[t] {
			k := [2]string{zeroTerm, t}
			if old, ok := z.e[k]; !ok || old > 0 {
				z.e[k] = 0
			}
		}
	}
	for _, k := range ts {
		for _, i := range ts {
			ik, ok := z.e[[2]string{i, k}]
			if !ok {
				continue
			}
			for _, j := range ts {
				if i == j {
					continue
				}
				kj, ok := z.e[[2]string{k, j}]
				if !ok {
					continue
				}
				if old, ok := z.e[[2]string{i, j}]; !ok || ik+kj < old {
					z.e[[2]string{i, j}] = ik + kj
				}
			}
		}
	}
	z.closed = true
}

// inconsistent reports whether the constraints contradict each other (a negative cycle).
func (z *zone) inconsistent() bool {
	z.close()
	for k, w := range z.e {
		if v, ok := z.e[[2]string{k[1], k[0]}]; ok && w+v < 0 {
			return true
		}
	}
	return false
}

// le reports whether x - y <= w is implied.
func (z *zone) le(x, y string, w int) bool {
	if x == y {
		return 0 <= w
	}
	z.close()
	if x != zeroTerm && y == zeroTerm {
		// fallthrough to table
	}
	if x == zeroTerm && y != zeroTerm && !z.neg[y] && w >= 0 {
		return true
	}
	v, ok := z.e[[2]string{x, y}]
	return ok && v <= w
}

func (z *zone) forget(x string) {
	for k := range z.e {
		if termMentions(k[0], x) || termMentions(k[1], x) {
			delete(z.e, k)
		}
	}
	for k, v := range z.offOf {
		if termMentions(k, x) || termMentions(v.seq, x) || termMentions(v.base, x) {
			delete(z.offOf, k)
		}
	}
	for k := range z.neg {
		if termMentions(k, x) {
			delete(z.neg, k)
		}
	}
	for k, es := range z.pend {
		kill := k == x
		for _, e := range es {
			if termMentions(e.x, x) || termMentions(e.y, x) {
				kill = true
			}
		}
		if kill {
			delete(z.pend, k)
		}
	}
}

// termMentions: t is x, or is built from x (x.f, len(x), len(x.f)).
func termMentions(t, x string) bool {
	if t == x {
		return true
	}
	if strings.Contains(t, "+") {
		for _, part := range strings.Split(t, "+") {
			if termMentions(part, x) {
				return true
			}
		}
		return false
	}
	if strings.HasPrefix(t, "len(") {
		inner := t[4 : len(t)-1]
		return termMentions(inner, x)
	}
	return strings.HasPrefix(t, x+".")
}

func (z *zone) shift(x string, c int) {
	z.close()
	ne := map[[2]string]int{}
	has := func(t string) bool {
		if t == x {
			return true
		}
		if strings.Contains(t, "+") {
			for _, p := range strings.Split(t, "+") {
				if p == x {
					return true
				}
			}
		}
		return false
	}
	for k, w := range z.e {
		h0, h1 := has(k[0]), has(k[1])
		switch {
		case h0 && !h1:
			ne[k] = w + c
		case h1 && !h0:
			ne[k] = w - c
		default:
			ne[k] = w
		}
	}
	z.e = ne
	if c < 0 {
		// lower bound must now come from explicit edges
		if !z.neg[x] {
			// previously x >= 0 ⇒ now x >= c
			if old, ok := z.e[[2]string{zeroTerm, x}]; !ok || old > -c {
				z.e[[2]string{zeroTerm, x}] = -c
			}
			z.neg[x] = true
		}
	}
	for k, v := range z.offOf {
		if k == x || v.base == x {
			delete(z.offOf, k)
		}
	}
	z.closed = false
}

// grow models x increasing by an unknown amount >= by: upper bounds on x die, lower bounds stay.
func (z *zone) grow(x string, by int) {
	z.close()
	for k := range z.e {
		if termMentions(k[0], x) && !termMentions(k[1], x) {
			delete(z.e, k)
		} else if termMentions(k[1], x) && !termMentions(k[0], x) && by != 0 {
			z.e[k] -= by
		}
	}
	for k, v := range z.offOf {
		if k == x || v.base == x {
			delete(z.offOf, k)
		}
	}
	z.closed = false
}

func joinZones(a, b *zone) *zone {
	// make both sides speak about the same terms so that implicit facts (x >= 0, len >= 0)
	// take part in the closure on the side that never mentioned the term
	ta, tb := a.terms(), b.terms()
	for _, t := range tb {
		if t != zeroTerm && !a.neg[t] {
			if _, ok := a.e[[2]string{zeroTerm, t}]; !ok {
				a.e[[2]string{zeroTerm, t}] = 0
				a.closed = false
			}
		}
	}
	for _, t := range ta {
		if t != zeroTerm && !b.neg[t] {
			if _, ok := b.e[[2]string{zeroTerm, t}]; !ok {
				b.e[[2]string{zeroTerm, t}] = 0
				b.closed = false
			}
		}
	}
	a.close()
	b.close()
	n := newZone()
	for k, wa := range a.e {
		if wb, ok := b.e[k]; ok {
			if wb > wa {
				wa = wb
			}
			n.e[k] = wa
		} else if k[0] == zeroTerm && !b.neg[k[1]] && wa <= 0 {
			// implicit non-negativity on the other side
			n.e[k] = 0
		}
	}
	for k := range a.neg {
		n.neg[k] = true
	}
	for k := range b.neg {
		n.neg[k] = true
	}
	for k, v := range a.offOf {
		if w, ok := b.offOf[k]; ok && w == v {
			n.offOf[k] = v
		}
	}
	for k, v := range a.pend {
		if w, ok := b.pend[k]; ok && fmt.Sprint(v) == fmt.Sprint(w) {
			n.pend[k] = v
		}
	}
	n.closed = false
	return n
}

func zonesEqual(a, b *zone) bool {
	a.close()
	b.close()
	// ghost terms (loop-head snapshots used by the progress rule) are reset at every loop head
	// and must not keep the fixpoint iteration alive
	isGhost := func(k [2]string) bool {
		return strings.HasPrefix(k[0], "ghost#") || strings.HasPrefix(k[1], "ghost#")
	}
	na, nb := 0, 0
	for k := range a.e {
		if !isGhost(k) {
			na++
		}
	}
	for k := range b.e {
		if !isGhost(k) {
			nb++
		}
	}
	if na != nb || len(a.offOf) != len(b.offOf) {
		return false
	}
	for k, v := range a.e {
		if isGhost(k) {
			continue
		}
		if w, ok := b.e[k]; !ok || w != v {
			return false
		}
	}
	for k := range a.neg {
		if !strings.HasPrefix(k, "ghost#") && !b.neg[k] {
			return false
		}
	}
	for k := range b.neg {
		if !strings.HasPrefix(k, "ghost#") && !a.neg[k] {
			return false
		}
	}
	return true
}

func zonesEqualOld(a, b *zone) bool {
	if len(a.e) != len(b.e) || len(a.neg) != len(b.neg) || len(a.offOf) != len(b.offOf) {
		return false
	}
	for k, v := range a.e {
		if w, ok := b.e[k]; !ok || w != v {
			return false
		}
	}
	for k := range a.neg {
		if !b.neg[k] {
			return false
		}
	}
	return true
}

// linear form: Σ coef·term + c
type linExpr struct {
	t map[string]int
	c int
}

func (l *linExpr) single() (string, bool) { // exactly one term with coefficient +1
	if len(l.t) != 1 {
		return "", false
	}
	for k, v := range l.t {
		if v == 1 {
			return k, true
		}
	}
	return "", false
}

type idxSite struct {
	fn   *ast.FuncDecl
	pos  token.Pos
	expr string
	ok   bool
	msg  string
	kind string // index | slice
	// unresolved requirement in terms of parameters (for caller-side discharge)
	pre []idxPre
}

// idxPre: a requirement x - y <= w over parameter-rooted terms, to be proven at call sites.
type idxPre struct {
	x, y string
	w    int
}

type idxAnalyzer struct {
	r     *Run
	pkg   *packages.Package
	info  *types.Info
	track func(t types.Type) bool // which sequence types are checked
	sites []idxSite
	// summaries of functions in the package: result i satisfies  res - len(param j) <= w
	retLE map[types.Object][]retFact
	// retCond: return facts that hold only if, at the call, argument needIP <= len(argument needSP)
	retCond map[types.Object][]retFact
	// fields written by methods (transitively), by receiver
	writes map[*types.Func]map[string]bool
	declOf map[*types.Func]*ast.FuncDecl
	// call-site states for precondition discharge
	callStates map[*types.Func][]callCtx
	curFn      *ast.FuncDecl
	retStates  []retCtx

	// interprocedural layer (idxinter.go)
	pre       map[types.Object][]prePair // assumed at entry of a function / local closure, proven at call sites
	preLevel  map[types.Object]int
	litOf     map[types.Object]*ast.FuncLit // local closure variables
	callObls  []idxCallObl
	curID     types.Object
	curParams []*ast.Field
	final     bool
	// object invariants and monotone fields
	inv      map[*types.Named][]invPair
	invBad   map[string]bool
	mono     map[*types.Func]map[string]bool
	curRecv  string
	subst    map[*types.Var]string // receiver variable of an inlined predicate method → term at the call site
	curRecvT *types.Named
	lenKeep  map[*types.Func]bool // string → string functions that preserve the byte length
	progress map[ast.Node]*progSite
	delta    map[*types.Func]map[string]fieldDelta
	exitHook func(z *zone, rs *ast.ReturnStmt)
	muted    bool
	// pure getters: parameterless methods every implementation of which returns one never-reassigned field
	getterMemo map[*types.Func]bool
	fieldFixed map[*types.Var]bool
	// boolean functions: what a true answer says about the lengths of sequences reached from a parameter
	predTrue map[types.Object][]predFact
}

// predFact: the function returned true ⇒ len(<argument param><suffix>) >= min
type predFact struct {
	param  int
	suffix string
	min    int
}

// fieldDelta: how much a method advances a cursor field of its receiver, at least.
type fieldDelta struct {
	okD     int // … on exits whose boolean last result is not the literal false
	hasOK   bool
	uncond  int // f' - f >= uncond on every exit (valid if hasU)
	hasU    bool
	cond    int // … when f < len(condSeq) held at entry
	hasC    bool
	condSeq string // field name of the text
}

type progSite struct {
	fn     *ast.FuncDecl
	loop   *ast.ForStmt
	site   ast.Node
	cursor string
	ok     bool
	seen   bool
}

type retFact struct {
	whenOK int    // -1: unconditional; else index of the boolean result that must be true
	seqKey string // captured sequence (closures); param is -1 then
	res    int
	param  int
	w      int // res - len(param) <= w ;  or if lenOf==false: res - param <= w
	lenOf  bool
	lo     int // res >= lo (valid if hasLo)
	hasLo  bool
	// geParam: res >= (entry value of) the integer parameter param, e.g. a scanner that only moves forward
	geParam bool
	// conditional fact: valid only when arg[needIP] <= len(arg[needSP]) at the call site
	cond           bool
	needIP, needSP int
	// param == -2: the sequence is the field rfield of the method's receiver (seqKey is its term inside the method)
	rfield string
}

type callCtx struct {
	call *ast.CallExpr
	z    *zone
	fn   *ast.FuncDecl
}

type retCtx struct {
	rs *ast.ReturnStmt
	z  *zone
}

func (a *idxAnalyzer) termKey(e ast.Expr) (string, bool) {
	switch x := ast.Unparen(e).(type) {
	case *ast.Ident:
		o := a.info.Uses[x]
		if o == nil {
			o = a.info.Defs[x]
		}
		if v, ok := o.(*types.Var); ok {
			if k, ok := a.subst[v]; ok {
				return k, true // the receiver of a predicate method being read at a call site
			}
			if v.Pkg() != nil && v.Parent() == v.Pkg().Scope() {
				return "", false // package-level variables are not tracked
			}
			return fmt.Sprintf("%s@%d", x.Name, v.Pos()), true
		}
	case *ast.SelectorExpr:
		if s, ok := a.info.Selections[x]; ok && s.Kind() == types.FieldVal {
			if b, ok := a.termKey(x.X); ok {
				return b + "." + x.Sel.Name, true
			}
		}
	case *ast.StarExpr:
		return a.termKey(x.X)
	case *ast.CallExpr:
		// t.Literal(): a pure getter read of an immutable field names the same sequence every time
		if len(x.Args) == 0 {
			if se, ok := ast.Unparen(x.Fun).(*ast.SelectorExpr); ok {
				if fn, ok := calleeOf(a.info, x).(*types.Func); ok && a.pureGetter(fn) {
					if b, ok := a.termKey(se.X); ok {
						return b + "." + fn.Name() + "()", true
					}
				}
			}
		}
	}
	return "", false
}

// pureGetter: fn takes nothing, returns one tracked sequence, and every implementation in the module
// (all implementers when fn is an interface method) is `return recv.f` for a field f that no statement of
// the module assigns (it is set by composite literals only): two calls on the same value agree.
func (a *idxAnalyzer) pureGetter(fn *types.Func) bool {
	if v, ok := a.getterMemo[fn]; ok {
		return v
	}
	if a.getterMemo == nil {
		a.getterMemo = map[*types.Func]bool{}
		a.fieldFixed = map[*types.Var]bool{}
	}
	a.getterMemo[fn] = false
	sig := fn.Type().(*types.Signature)
	if sig.Recv() == nil || sig.Params().Len() != 0 || sig.Results().Len() != 1 || !a.track(sig.Results().At(0).Type()) {
		return false
	}
	var impls []*types.Func
	if it, ok := sig.Recv().Type().Underlying().(*types.Interface); ok {
		for _, pk := range a.r.sortedPkgs() {
			if pk.Types == nil || !strings.HasPrefix(pk.PkgPath, modPath) {
				continue
			}
			sc := pk.Types.Scope()
			for _, n := range sc.Names() {
				tn, ok := sc.Lookup(n).(*types.TypeName)
				if !ok || tn.IsAlias() {
					continue
				}
				if _, isIface := tn.Type().Underlying().(*types.Interface); isIface {
					continue
				}
				for _, t := range []types.Type{tn.Type(), types.NewPointer(tn.Type())} {
					if types.Implements(t, it) {
						if m, _, _ := types.LookupFieldOrMethod(t, true, fn.Pkg(), fn.Name()); m != nil {
							if mf, ok := m.(*types.Func); ok {
								impls = append(impls, mf)
							}
						}
						break
					}
				}
			}
		}
	} else {
		impls = []*types.Func{fn}
	}
	if len(impls) == 0 {
		return false
	}
	for _, m := range impls {
		pk := a.r.ByPath[m.Pkg().Path()]
		if pk == nil {
			return false
		}
		var decl *ast.FuncDecl
		for _, fd := range funcDecls(pk) {
			if pk.TypesInfo.Defs[fd.Name] == m {
				decl = fd
			}
		}
		if decl == nil || decl.Body == nil || len(decl.Body.List) != 1 || decl.Recv == nil || len(decl.Recv.List) != 1 || len(decl.Recv.List[0].Names) != 1 {
			return false
		}
		rs, ok := decl.Body.List[0].(*ast.ReturnStmt)
		if !ok || len(rs.Results) != 1 {
			return false
		}
		se, ok := ast.Unparen(rs.Results[0]).(*ast.SelectorExpr)
		if !ok {
			return false
		}
		id, ok := ast.Unparen(se.X).(*ast.Ident)
		if !ok || pk.TypesInfo.Uses[id] != pk.TypesInfo.Defs[decl.Recv.List[0].Names[0]] {
			return false
		}
		sel, ok := pk.TypesInfo.Selections[se]
		if !ok || sel.Kind() != types.FieldVal {
			return false
		}
		f, ok := sel.Obj().(*types.Var)
		if !ok || !a.fieldNeverAssigned(f) {
			return false
		}
	}
	a.getterMemo[fn] = true
	return true
}

func (a *idxAnalyzer) fieldNeverAssigned(f *types.Var) bool {
	if v, ok := a.fieldFixed[f]; ok {
		return v
	}
	fixed := true
	for _, pk := range a.r.sortedPkgs() {
		if !fixed || pk.TypesInfo == nil || !strings.HasPrefix(pk.PkgPath, modPath) {
			continue
		}
		isF := func(e ast.Expr) bool {
			for {
				switch x := ast.Unparen(e).(type) {
				case *ast.IndexExpr:
					e = x.X
					continue
				case *ast.SliceExpr:
					e = x.X
					continue
				case *ast.SelectorExpr:
					if sel, ok := pk.TypesInfo.Selections[x]; ok && sel.Obj() == f {
						return true
					}
				}
				return false
			}
		}
		for _, file := range pk.Syntax {
			ast.Inspect(file, func(n ast.Node) bool {
				switch x := n.(type) {
				case *ast.AssignStmt:
					for _, l := range x.Lhs {
						if isF(l) {
							fixed = false
						}
					}
				case *ast.IncDecStmt:
					if isF(x.X) {
						fixed = false
					}
				case *ast.UnaryExpr:
					if x.Op == token.AND && isF(x.X) {
						fixed = false
					}
				case *ast.RangeStmt:
					if (x.Key != nil && isF(x.Key)) || (x.Value != nil && isF(x.Value)) {
						fixed = false
					}
				}
				return fixed
			})
		}
	}
	a.fieldFixed[f] = fixed
	return fixed
}

func isIntType(t types.Type) bool {
	if t == nil {
		return false
	}
	b, ok := t.Underlying().(*types.Basic)
	return ok && b.Info()&types.IsInteger != 0
}

// lin parses an integer expression into a linear form; ok=false when not linear.
func (a *idxAnalyzer) lin(e ast.Expr) (*linExpr, bool) {
	e = ast.Unparen(e)
	if tv, ok := a.info.Types[e]; ok && tv.Value != nil {
		if tv.Value.Kind() == constant.Int {
			if v, ok := constant.Int64Val(tv.Value); ok {
				return &linExpr{t: map[string]int{}, c: int(v)}, true
			}
		}
		return nil, false
	}
	switch x := e.(type) {
	case *ast.Ident, *ast.SelectorExpr, *ast.StarExpr:
		if !isIntType(a.info.TypeOf(e)) {
			return nil, false
		}
		if k, ok := a.termKey(e); ok {
			return &linExpr{t: map[string]int{k: 1}}, true
		}
	case *ast.CallExpr:
		if len(x.Args) == 1 {
			// conversion int(x) / len(S)
			if tv, ok := a.info.Types[x.Fun]; ok && tv.IsType() {
				if isIntType(tv.Type) && isIntType(a.info.TypeOf(x.Args[0])) {
					return a.lin(x.Args[0])
				}
				return nil, false
			}
			if id, ok := ast.Unparen(x.Fun).(*ast.Ident); ok && id.Name == "len" {
				if _, isB := a.info.Uses[id].(*types.Builtin); isB {
					if at, ok := a.info.TypeOf(x.Args[0]).Underlying().(*types.Array); ok {
						return &linExpr{t: map[string]int{}, c: int(at.Len())}, true
					}
					if k, ok := a.seqKey(x.Args[0]); ok {
						return &linExpr{t: map[string]int{"len(" + k + ")": 1}}, true
					}
				}
			}
		}
	case *ast.BinaryExpr:
		switch x.Op {
		case token.ADD, token.SUB:
			l, ok1 := a.lin(x.X)
			r, ok2 := a.lin(x.Y)
			if !ok1 || !ok2 {
				return nil, false
			}
			out := &linExpr{t: map[string]int{}, c: l.c}
			for k, v := range l.t {
				out.t[k] = v
			}
			sign := 1
			if x.Op == token.SUB {
				sign = -1
			}
			out.c += sign * r.c
			for k, v := range r.t {
				out.t[k] += sign * v
				if out.t[k] == 0 {
					delete(out.t, k)
				}
			}
			return out, true
		}
	case *ast.UnaryExpr:
		if x.Op == token.SUB {
			l, ok := a.lin(x.X)
			if !ok {
				return nil, false
			}
			out := &linExpr{t: map[string]int{}, c: -l.c}
			for k, v := range l.t {
				out.t[k] = -v
			}
			return out, true
		}
	}
	return nil, false
}

// norm collapses  a + b (+ const, - q)  into the compound term "a+b" so that three-term
// comparisons such as  pos+n <= len(s)  fit the zone.
func normLin(l *linExpr) *linExpr {
	for _, sign := range []int{1, -1} {
		var same []string
		for t, v := range l.t {
			if v == sign {
				same = append(same, t)
			}
		}
		if len(same) != 2 || len(l.t) > 3 {
			continue
		}
		compoundAlready := false
		for _, p := range same {
			if strings.Contains(p, "+") {
				compoundAlready = true
			}
		}
		if compoundAlready {
			continue
		}
		sort.Strings(same)
		out := &linExpr{t: map[string]int{same[0] + "+" + same[1]: sign}, c: l.c}
		for t, v := range l.t {
			if v != sign {
				out.t[t] = v
			}
		}
		return out
	}
	return l
}

// seqKey names a sequence expression (string / slice) that can be tracked.
func (a *idxAnalyzer) seqKey(e ast.Expr) (string, bool) {
	return a.termKey(e)
}

// constrain adds  lhs - rhs <= k  (strict handled by caller) when expressible.
func (a *idxAnalyzer) constrainLE(z *zone, l *linExpr, k int) {
	// Σ coef·t + c <= k
	l = normLin(l)
	var pos, neg []string
	for t, v := range l.t {
		switch v {
		case 1:
			pos = append(pos, t)
		case -1:
			neg = append(neg, t)
		default:
			return
		}
	}
	w := k - l.c
	switch {
	case len(pos) == 1 && len(neg) == 1:
		z.add(pos[0], neg[0], w)
	case len(pos) == 1 && len(neg) == 0:
		z.add(pos[0], zeroTerm, w)
	case len(pos) == 0 && len(neg) == 1:
		z.add(zeroTerm, neg[0], w)
		if w < 0 || true {
			// explicit lower bound recorded
		}
	}
}

func (a *idxAnalyzer) refine(z *zone, e ast.Expr, truth bool) {
	if id, isId := ast.Unparen(e).(*ast.Ident); isId && truth {
		if k, ok := a.termKey(id); ok {
			for _, pe := range z.pend[k] {
				z.add(pe.x, pe.y, pe.w)
			}
		}
		return
	}
	// a predicate method of this package — no parameters, one boolean return over the receiver's
	// fields (isEOF() = position >= len(tokens)) — is read as its body at the call's receiver
	if call, isCall := ast.Unparen(e).(*ast.CallExpr); isCall && len(call.Args) == 0 && len(a.subst) == 0 {
		if se, ok := ast.Unparen(call.Fun).(*ast.SelectorExpr); ok {
			if cal := calleeFunc(a.info, call); cal != nil {
				if fd := a.declOf[cal]; fd != nil && fd.Body != nil && len(fd.Body.List) == 1 && fd.Recv != nil && len(fd.Recv.List) == 1 && len(fd.Recv.List[0].Names) == 1 {
					if rs, ok := fd.Body.List[0].(*ast.ReturnStmt); ok && len(rs.Results) == 1 {
						if rk, ok := a.termKey(se.X); ok {
							if rv, ok := a.info.Defs[fd.Recv.List[0].Names[0]].(*types.Var); ok {
								pure := true
								ast.Inspect(rs.Results[0], func(n ast.Node) bool {
									if c, ok := n.(*ast.CallExpr); ok {
										if id, ok := ast.Unparen(c.Fun).(*ast.Ident); !ok || id.Name != "len" {
											pure = false
										}
									}
									return true
								})
								if pure {
									a.subst = map[*types.Var]string{rv: rk}
									a.refine(z, rs.Results[0], truth)
									a.subst = nil
								}
							}
						}
					}
				}
			}
		}
		return
	}
	if call, isCall := ast.Unparen(e).(*ast.CallExpr); isCall && truth {
		// a boolean function of this package that answered true: what its summary says about its arguments
		if cal := calleeOf(a.info, call); cal != nil {
			for _, pf := range a.predTrue[cal] {
				if pf.param < len(call.Args) {
					if ak, ok := a.termKey(call.Args[pf.param]); ok {
						z.add(zeroTerm, "len("+ak+pf.suffix+")", -pf.min)
					}
				}
			}
		}
	}
	if call, isCall := ast.Unparen(e).(*ast.CallExpr); isCall && truth && len(call.Args) == 2 {
		if cal, ok := calleeOf(a.info, call).(*types.Func); ok && cal.Pkg() != nil && (cal.Pkg().Path() == "strings" || cal.Pkg().Path() == "bytes") {
			switch cal.Name() {
			case "HasPrefix", "HasSuffix", "Contains":
				if tv, ok := a.info.Types[call.Args[1]]; ok && tv.Value != nil && tv.Value.Kind() == constant.String {
					if sk, ok := a.seqKey(call.Args[0]); ok {
						z.add(zeroTerm, "len("+sk+")", -len(constant.StringVal(tv.Value)))
					}
				} else {
					// a text that starts with / ends with / contains another is at least as long:
					// HasPrefix(s[p:], id) ⇒ p + len(id) <= len(s)
					if l0, l1 := a.seqLenOf(z, call.Args[0]), a.seqLenOf(z, call.Args[1]); l0 != nil && l1 != nil {
						a.constrainLE(z, linSub(l1, l0), 0)
					}
				}
			}
		}
		return
	}
	be, ok := ast.Unparen(e).(*ast.BinaryExpr)
	if !ok {
		return
	}
	// s != "" / s == "" on a tracked string: len(s) >= 1 / len(s) == 0
	if be.Op == token.EQL || be.Op == token.NEQ {
		var other ast.Expr
		if tv, ok := a.info.Types[be.Y]; ok && tv.Value != nil && tv.Value.Kind() == constant.String && constant.StringVal(tv.Value) == "" {
			other = be.X
		} else if tv, ok := a.info.Types[be.X]; ok && tv.Value != nil && tv.Value.Kind() == constant.String && constant.StringVal(tv.Value) == "" {
			other = be.Y
		}
		if other != nil {
			if sk, ok := a.seqKey(other); ok {
				nonEmpty := (be.Op == token.NEQ) == truth
				if nonEmpty {
					z.add(zeroTerm, "len("+sk+")", -1)
				} else {
					z.add("len("+sk+")", zeroTerm, 0)
				}
			}
			return
		}
	}
	op := be.Op
	if !truth {
		switch op {
		case token.LSS:
			op = token.GEQ
		case token.LEQ:
			op = token.GTR
		case token.GTR:
			op = token.LEQ
		case token.GEQ:
			op = token.LSS
		case token.EQL:
			op = token.NEQ
		case token.NEQ:
			op = token.EQL
		default:
			return
		}
	}
	l, ok1 := a.lin(be.X)
	r, ok2 := a.lin(be.Y)
	if !ok1 || !ok2 {
		return
	}
	diff := func(x, y *linExpr) *linExpr { // x - y
		out := &linExpr{t: map[string]int{}, c: x.c - y.c}
		for k, v := range x.t {
			out.t[k] = v
		}
		for k, v := range y.t {
			out.t[k] -= v
			if out.t[k] == 0 {
				delete(out.t, k)
			}
		}
		return out
	}
	switch op {
	case token.LSS:
		a.constrainLE(z, diff(l, r), -1)
	case token.LEQ:
		a.constrainLE(z, diff(l, r), 0)
	case token.GTR:
		a.constrainLE(z, diff(r, l), -1)
	case token.GEQ:
		a.constrainLE(z, diff(r, l), 0)
	case token.EQL:
		a.constrainLE(z, diff(l, r), 0)
		a.constrainLE(z, diff(r, l), 0)
	case token.NEQ:
		// x != -1 with x >= -1 known ⇒ x >= 0
		d := diff(l, r)
		if t, ok := d.single(); ok {
			// t + c != 0  ⇒ t != -c
			v := -d.c
			if z.le(zeroTerm, t, -v) && !z.le(zeroTerm, t, -v-1) { // t >= v is the tightest known lower bound
				z.add(zeroTerm, t, -v-1)
			}
			if z.le(t, zeroTerm, v) && !z.le(t, zeroTerm, v-1) {
				z.add(t, zeroTerm, v-1)
			}
		} else if len(d.t) == 2 {
			// p - q + c != 0 with p - q + c <= 0 known ⇒ p - q + c <= -1 (pos != len(input) after pos <= len(input))
			var p, q string
			for t, v := range d.t {
				switch v {
				case 1:
					p = t
				case -1:
					q = t
				}
			}
			if p != "" && q != "" {
				if z.le(p, q, -d.c) {
					z.add(p, q, -d.c-1)
				} else if z.le(q, p, d.c) {
					z.add(q, p, d.c-1)
				}
			}
		}
	}
}

// proveLE tries to prove  Σ l <= k.
func (a *idxAnalyzer) proveLE(z *zone, l *linExpr, k int) bool {
	var pos, neg []string
	for t, v := range l.t {
		switch v {
		case 1:
			pos = append(pos, t)
		case -1:
			neg = append(neg, t)
		default:
			return false
		}
	}
	w := k - l.c
	switch {
	case len(pos) == 0 && len(neg) == 0:
		return 0 <= w
	case len(pos) == 1 && len(neg) == 1:
		return z.le(pos[0], neg[0], w)
	case len(pos) == 1 && len(neg) == 0:
		return z.le(pos[0], zeroTerm, w)
	case len(pos) == 0 && len(neg) == 1:
		return z.le(zeroTerm, neg[0], w)
	case len(pos) == 2 && len(neg) == 1:
		// a + r - len(S) <= w  with the suffix-relative fact  a + r + L <= len(S)
		for i := 0; i < 2; i++ {
			r, b := pos[i], pos[1-i]
			if o, ok := z.offOf[r]; ok && o.base == b && "len("+o.seq+")" == neg[0] {
				if -o.plus <= w {
					return true
				}
			}
		}
		n := normLin(l)
		if len(n.t) < len(l.t) {
			return a.proveLE(z, n, k)
		}
	case len(pos) == 2 && len(neg) == 0, len(neg) == 2 && len(pos) <= 1:
		n := normLin(l)
		if len(n.t) < len(l.t) && a.proveLE(z, n, k) {
			return true
		}
		// p - q - r <= k follows from p - q <= k when r is known non-negative
		if len(neg) == 2 {
			for i := 0; i < 2; i++ {
				if strings.HasPrefix(neg[i], "len(") || z.le(zeroTerm, neg[i], 0) {
					d := &linExpr{t: map[string]int{}, c: l.c}
					for t, v := range l.t {
						if t != neg[i] {
							d.t[t] = v
						}
					}
					if a.proveLE(z, d, k) {
						return true
					}
				}
			}
		}
	}
	return false
}

func linSub(x, y *linExpr) *linExpr {
	out := &linExpr{t: map[string]int{}, c: x.c - y.c}
	for k, v := range x.t {
		out.t[k] = v
	}
	for k, v := range y.t {
		out.t[k] -= v
		if out.t[k] == 0 {
			delete(out.t, k)
		}
	}
	return out
}

func (a *idxAnalyzer) lenLin(seq string) *linExpr {
	return &linExpr{t: map[string]int{"len(" + seq + ")": 1}}
}

func (z *zone) dump() string {
	z.close()
	var ks []string
	for k, w := range z.e {
		ks = append(ks, fmt.Sprintf("%s-%s<=%d", k[0], k[1], w))
	}
	sort.Strings(ks)
	var ns []string
	for k := range z.neg {
		ns = append(ns, k)
	}
	sort.Strings(ns)
	return strings.Join(ks, " ; ") + " | neg: " + strings.Join(ns, ",") + fmt.Sprintf(" | off: %v", z.offOf)
}

var idxDebug = os.Getenv("IDXDEBUG")

func (a *idxAnalyzer) record(pos token.Pos, kind, expr string, ok bool, msg string) {
	if a.muted {
		return // literals of package-level tables are summarised, their own sites are not obligations
	}
	for i := range a.sites {
		if a.sites[i].pos == pos && a.sites[i].kind == kind {
			if !ok && a.sites[i].ok {
				a.sites[i].ok = false
				a.sites[i].msg = msg
			}
			return
		}
	}
	a.sites = append(a.sites, idxSite{fn: a.curFn, pos: pos, expr: expr, ok: ok, msg: msg, kind: kind})
}

func (a *idxAnalyzer) checkIndex(z *zone, x *ast.IndexExpr) {
	t := a.info.TypeOf(x.X)
	if t == nil || !a.track(t) {
		return
	}
	if at, ok := t.Underlying().(*types.Array); ok {
		_ = at
		return
	}
	seq, ok := a.seqKey(x.X)
	idx, lok := a.lin(x.Index)
	es := exprStr(x)
	if !ok && lok && len(idx.t) == 0 && idx.c == 0 {
		// []rune(S)[0] / []byte(S)[0]: needs len(S) >= 1
		if c, isCall := ast.Unparen(x.X).(*ast.CallExpr); isCall && len(c.Args) == 1 {
			if tv, isT := a.info.Types[c.Fun]; isT && tv.IsType() {
				if sl := a.seqLenOf(z, c.Args[0]); sl != nil {
					neg := &linExpr{t: map[string]int{}, c: -sl.c}
					for k, v := range sl.t {
						neg.t[k] = -v
					}
					if a.proveLE(z, neg, -1) {
						a.record(x.Pos(), "index", es, true, "first element of a rune/byte copy of a text proven non-empty")
						return
					}
				}
			}
		}
	}
	if !ok || !lok {
		a.record(x.Pos(), "index", es, false, "index or sequence expression is not a tracked linear term; bounds not established")
		return
	}
	// idx - len(seq) <= -1  and  -idx <= 0
	up := a.proveLE(z, linSub(idx, a.lenLin(seq)), -1)
	neg := &linExpr{t: map[string]int{}, c: -idx.c}
	for k, v := range idx.t {
		neg.t[k] = -v
	}
	lo := a.proveLE(z, neg, 0)
	if idxDebug != "" && !(up && lo) && strings.Contains(a.r.pos(x.Pos()), idxDebug) {
		fmt.Printf("IDXDEBUG %s %s up=%v lo=%v\n   %s\n", a.r.pos(x.Pos()), es, up, lo, z.dump())
	}
	switch {
	case up && lo:
		a.record(x.Pos(), "index", es, true, "index proven within [0, len) on every path")
	case !up:
		a.record(x.Pos(), "index", es, false, fmt.Sprintf("%s: index not proven below len(%s) on every path reaching it", es, exprStr(x.X)))
	default:
		a.record(x.Pos(), "index", es, false, fmt.Sprintf("%s: index not proven non-negative on every path reaching it", es))
	}
}

func (a *idxAnalyzer) checkSlice(z *zone, x *ast.SliceExpr) {
	t := a.info.TypeOf(x.X)
	if t == nil || !a.track(t) {
		return
	}
	if _, ok := t.Underlying().(*types.Array); ok {
		return
	}
	if pt, ok := t.Underlying().(*types.Pointer); ok {
		if _, ok := pt.Elem().Underlying().(*types.Array); ok {
			return
		}
	}
	es := exprStr(x)
	seq, ok := a.seqKey(x.X)
	if !ok {
		a.record(x.Pos(), "slice", es, false, "sliced expression is not a tracked term")
		return
	}
	var lo, hi *linExpr
	lo = &linExpr{t: map[string]int{}}
	hi = a.lenLin(seq)
	if x.Low != nil {
		l, ok := a.lin(x.Low)
		if !ok {
			a.record(x.Pos(), "slice", es, false, "low bound is not linear")
			return
		}
		lo = l
	}
	if x.High != nil {
		h, ok := a.lin(x.High)
		if !ok {
			a.record(x.Pos(), "slice", es, false, "high bound is not linear")
			return
		}
		hi = h
	}
	negLo := &linExpr{t: map[string]int{}, c: -lo.c}
	for k, v := range lo.t {
		negLo.t[k] = -v
	}
	c1 := a.proveLE(z, negLo, 0)                     // 0 <= lo
	c2 := a.proveLE(z, linSub(lo, hi), 0)            // lo <= hi
	c3 := a.proveLE(z, linSub(hi, a.lenLin(seq)), 0) // hi <= len
	if idxDebug != "" && !(c1 && c2 && c3) && strings.Contains(a.r.pos(x.Pos()), idxDebug) {
		fmt.Printf("IDXDEBUG %s %s c1=%v c2=%v c3=%v\n   %s\n", a.r.pos(x.Pos()), es, c1, c2, c3, z.dump())
	}
	switch {
	case c1 && c2 && c3:
		a.record(x.Pos(), "slice", es, true, "slice bounds proven 0 <= low <= high <= len on every path")
	case !c3:
		a.record(x.Pos(), "slice", es, false, fmt.Sprintf("%s: high bound not proven <= len(%s)", es, exprStr(x.X)))
	case !c2:
		a.record(x.Pos(), "slice", es, false, fmt.Sprintf("%s: low bound not proven <= high bound", es))
	default:
		a.record(x.Pos(), "slice", es, false, fmt.Sprintf("%s: low bound not proven non-negative", es))
	}
}

// assign models  lhs = rhs  (single int-typed target).
func (a *idxAnalyzer) assign(z *zone, lhs ast.Expr, rhs ast.Expr) {
	key, ok := a.termKey(lhs)
	if !ok {
		return
	}
	t := a.info.TypeOf(lhs)
	if !isIntType(t) {
		// h := T{text: input, …}: the struct's sequence fields have the lengths of what they were built from
		if rhs != nil {
			lit, _ := ast.Unparen(rhs).(*ast.CompositeLit)
			if ue, ok := ast.Unparen(rhs).(*ast.UnaryExpr); ok && ue.Op == token.AND {
				lit, _ = ast.Unparen(ue.X).(*ast.CompositeLit)
			}
			if lit != nil {
				if _, isStruct := a.info.TypeOf(lit).Underlying().(*types.Struct); isStruct {
					type eq struct {
						f  string
						ln *linExpr
					}
					var eqs []eq
					for _, el := range lit.Elts {
						kv, ok := el.(*ast.KeyValueExpr)
						if !ok {
							continue
						}
						fid, ok := kv.Key.(*ast.Ident)
						if !ok || !a.track(a.info.TypeOf(kv.Value)) {
							continue
						}
						if ln := a.seqLenOf(z, kv.Value); ln != nil {
							eqs = append(eqs, eq{fid.Name, ln})
						}
					}
					z.forget(key)
					for _, e := range eqs {
						fl := a.lenLin(key + "." + e.f)
						a.constrainLE(z, linSub(fl, e.ln), 0)
						a.constrainLE(z, linSub(e.ln, fl), 0)
					}
					return
				}
			}
		}
		// a sequence variable reassigned: its length facts die; model S = S[a:] etc. not needed
		var newLen *linExpr
		if rhs != nil {
			newLen = a.seqLenOf(z, rhs)
		}
		oldLenKey := "len(" + key + ")"
		if newLen != nil {
			// express the new length before forgetting when it is relative to the old one
			if sk, ok := newLen.single(); ok && sk == oldLenKey {
				z.close()
				z.shift(oldLenKey, newLen.c)
				// other facts about key itself (not len) are dropped
				return
			}
		}
		z.forget(key)
		if newLen != nil {
			if sk, ok := newLen.single(); ok {
				z.add(oldLenKey, sk, newLen.c)
				z.add(sk, oldLenKey, -newLen.c)
			} else if len(newLen.t) == 0 {
				z.add(oldLenKey, zeroTerm, newLen.c)
				z.add(zeroTerm, oldLenKey, -newLen.c)
			}
		}
		return
	}
	if rhs == nil {
		z.forget(key)
		return
	}
	if a.assignMinMax(z, key, rhs) {
		return
	}
	l, lok := a.lin(rhs)
	if lok {
		if v, has := l.t[key]; has && v == 1 && len(l.t) == 1 {
			z.shift(key, l.c)
			return
		}
		// x = x + r + c  with r relative to a suffix starting at x:  x' <= len(S) - L + c
		if v, has := l.t[key]; has && v == 1 && len(l.t) == 2 {
			for r, cv := range l.t {
				if r == key || cv != 1 {
					continue
				}
				if o, ok := z.offOf[r]; ok && o.base == key {
					seqLen := "len(" + o.seq + ")"
					z.close()
					minR := o.minR
					if w, ok := z.e[[2]string{zeroTerm, r}]; ok && -w > minR {
						minR = -w
					}
					if minR+l.c >= 0 {
						z.grow(key, minR+l.c)
					} else {
						z.forget(key)
						z.neg[key] = true
					}
					z.add(key, seqLen, l.c-o.plus)
					return
				}
			}
		}
		// x = x + t + c with t + c known non-negative: x only grows (its lower bounds survive), and
		// the new x is at least t + c above the old x's own lower bound
		if v, has := l.t[key]; has && v == 1 && len(l.t) == 2 {
			for tk, cv := range l.t {
				if tk == key || cv != 1 {
					continue
				}
				z.close()
				lo, known := 0, !z.neg[tk]
				if w, ok := z.e[[2]string{zeroTerm, tk}]; ok {
					lo, known = -w, true
				}
				if known && lo+l.c >= 0 {
					lox, knownX := 0, !z.neg[key]
					if w, ok := z.e[[2]string{zeroTerm, key}]; ok {
						lox, knownX = -w, true
					}
					z.grow(key, lo+l.c)
					if knownX && !termMentions(tk, key) {
						z.add(tk, key, -(lox + l.c))
					}
					return
				}
			}
		}
		// key = a + r (+ c) where r is an offset into seq[a:]:  key + plus - c <= len(seq)
		if len(l.t) == 2 {
			for r, cv := range l.t {
				if cv != 1 {
					continue
				}
				o, ok := z.offOf[r]
				if !ok {
					continue
				}
				if bv, has := l.t[o.base]; has && bv == 1 && o.base != key && r != key {
					z.close()
					lowB, knownB := 0, !z.neg[o.base]
					if w, ok := z.e[[2]string{zeroTerm, o.base}]; ok {
						lowB, knownB = -w, true
					}
					minR := o.minR
					if w, ok := z.e[[2]string{zeroTerm, r}]; ok && -w > minR {
						minR = -w
					}
					z.forget(key)
					z.add(key, "len("+o.seq+")", l.c-o.plus)
					if knownB {
						nl := lowB + minR + l.c
						if nl < 0 {
							z.neg[key] = true
						}
						z.add(zeroTerm, key, -nl)
						if minR+l.c >= 0 {
							z.add(o.base, key, -(minR + l.c))
						}
					} else {
						z.neg[key] = true
					}
					return
				}
			}
		}
		// generic lower bound of a sum of non-negative-coefficient terms
		if len(l.t) >= 2 {
			allPos, lb, known := true, l.c, true
			z.close()
			for tk, v := range l.t {
				if v < 0 || tk == key {
					allPos = false
					break
				}
				lo, ok := 0, !z.neg[tk]
				if w, has := z.e[[2]string{zeroTerm, tk}]; has {
					lo, ok = -w, true
				}
				if !ok {
					known = false
				}
				lb += v * lo
			}
			if allPos && known && len(l.t) == 2 {
				n := normLin(l)
				z.forget(key)
				if lb < 0 {
					z.neg[key] = true
				}
				z.add(zeroTerm, key, -lb)
				if sk, ok := n.single(); ok {
					z.add(key, sk, n.c)
					z.add(sk, key, -n.c)
				}
				return
			}
		}
		hadNeg := false
		for tk, v := range l.t {
			if v < 0 || z.neg[tk] {
				hadNeg = true
			}
		}
		if l.c < 0 {
			hadNeg = true
		}
		// compute bounds before forgetting (the rhs may mention key)
		type edge struct {
			x, y string
			w    int
		}
		var edges []edge
		if sk, ok := l.single(); ok && sk != key {
			edges = append(edges, edge{key, sk, l.c}, edge{sk, key, -l.c})
		} else if len(l.t) == 0 {
			edges = append(edges, edge{key, zeroTerm, l.c}, edge{zeroTerm, key, -l.c})
		} else if len(l.t) == 2 {
			// p - q + c: upper bound via p - q <= w
			var p, q string
			for tk, v := range l.t {
				if v == 1 {
					p = tk
				} else if v == -1 {
					q = tk
				}
			}
			if p != "" && q != "" && p != key && q != key {
				z.close()
				if w, ok := z.e[[2]string{p, q}]; ok {
					edges = append(edges, edge{key, zeroTerm, w + l.c})
				}
				if w, ok := z.e[[2]string{q, p}]; ok {
					edges = append(edges, edge{zeroTerm, key, w - l.c})
				}
				// key - p <= c - lo(q)
				if z.le(zeroTerm, q, 0) {
					edges = append(edges, edge{key, p, l.c})
				}
			}
		}
		z.forget(key)
		if hadNeg {
			z.neg[key] = true
		}
		for _, e := range edges {
			z.add(e.x, e.y, e.w)
		}
		return
	}
	// key = f(…, arg, …) where f only moves forward (res >= arg): relate the new value to the
	// argument's value before the assignment (the argument may be key itself: j = scan(s, j))
	var geArgs []*linExpr
	if call, ok := ast.Unparen(rhs).(*ast.CallExpr); ok {
		var fid types.Object
		switch f := ast.Unparen(call.Fun).(type) {
		case *ast.Ident:
			fid = a.info.Uses[f]
		case *ast.SelectorExpr:
			if sel, ok := a.info.Selections[f]; ok {
				fid = sel.Obj()
			} else {
				fid = a.info.Uses[f.Sel]
			}
		}
		for _, f := range a.retLE[fid] {
			if f.geParam && f.res == 0 && f.param < len(call.Args) {
				if la, ok := a.lin(call.Args[f.param]); ok {
					geArgs = append(geArgs, la)
				}
			}
		}
	}
	// conditional summaries (res <= len(seq) provided arg <= len(seq) at the call): the condition is
	// about the argument's value before the assignment, so it is evaluated here
	type condApply struct {
		seqTerm string
		w       int
	}
	var condFacts []condApply
	if call, ok := ast.Unparen(rhs).(*ast.CallExpr); ok {
		var fid types.Object
		switch f := ast.Unparen(call.Fun).(type) {
		case *ast.Ident:
			fid = a.info.Uses[f]
		case *ast.SelectorExpr:
			if sel, ok := a.info.Selections[f]; ok {
				fid = sel.Obj()
			} else {
				fid = a.info.Uses[f.Sel]
			}
		}
		for _, f := range a.retCond[fid] {
			if f.cond && f.res == 0 && f.lenOf && f.param == -2 && f.needSP == -2 && f.needIP < len(call.Args) {
				// res <= len(recv.field) provided arg <= len(recv.field) at the call
				if sk, ok := a.recvSeqAtCall(call, f.rfield); ok {
					if la, ok := a.lin(call.Args[f.needIP]); ok && a.proveLE(z, linSub(la, a.lenLin(sk)), 0) {
						condFacts = append(condFacts, condApply{"len(" + sk + ")", f.w})
					}
				}
				continue
			}
			if !f.cond || f.res != 0 || !f.lenOf || f.needIP >= len(call.Args) || f.needSP >= len(call.Args) || f.param >= len(call.Args) || f.param < 0 || f.needSP < 0 {
				continue
			}
			la, ok := a.lin(call.Args[f.needIP])
			sl := a.seqLenOf(z, call.Args[f.needSP])
			if !ok || sl == nil || !a.proveLE(z, linSub(la, sl), 0) {
				continue
			}
			if tl := a.seqLenOf(z, call.Args[f.param]); tl != nil {
				if sk, ok := tl.single(); ok {
					condFacts = append(condFacts, condApply{sk, f.w + tl.c})
				}
			}
		}
	}
	defer func() {
		for _, cf := range condFacts {
			z.add(key, cf.seqTerm, cf.w)
		}
	}()
	const preTerm = "pre#arg"
	for i, la := range geArgs {
		// snapshot: pre = arg
		pk := fmt.Sprintf("%s%d", preTerm, i)
		pl := &linExpr{t: map[string]int{pk: 1}}
		a.constrainLE(z, linSub(pl, la), 0)
		a.constrainLE(z, linSub(la, pl), 0)
	}
	if len(geArgs) > 0 {
		z.close() // materialise what other terms know about the argument before it is overwritten
	}
	z.forget(key)
	for i := range geArgs {
		pk := fmt.Sprintf("%s%d", preTerm, i)
		z.add(pk, key, 0) // pre - key <= 0
	}
	if len(geArgs) > 0 {
		z.close()
		for i := range geArgs {
			z.forget(fmt.Sprintf("%s%d", preTerm, i))
		}
	}
	a.libResult(z, key, rhs)
}

// seqLenOf gives the length of a sequence-valued expression as a linear form when known.
func (a *idxAnalyzer) seqLenOf(z *zone, e ast.Expr) *linExpr {
	e = ast.Unparen(e)
	switch x := e.(type) {
	case *ast.SliceExpr:
		seq, ok := a.seqKey(x.X)
		if !ok {
			return nil
		}
		hi := a.lenLin(seq)
		if x.High != nil {
			h, ok := a.lin(x.High)
			if !ok {
				return nil
			}
			hi = h
		}
		lo := &linExpr{t: map[string]int{}}
		if x.Low != nil {
			l, ok := a.lin(x.Low)
			if !ok {
				return nil
			}
			lo = l
		}
		return linSub(hi, lo)
	case *ast.BasicLit:
		if tv, ok := a.info.Types[e]; ok && tv.Value != nil && tv.Value.Kind() == constant.String {
			return &linExpr{t: map[string]int{}, c: len(constant.StringVal(tv.Value))}
		}
	case *ast.Ident, *ast.SelectorExpr:
		if tv, ok := a.info.Types[e]; ok && tv.Value != nil && tv.Value.Kind() == constant.String {
			return &linExpr{t: map[string]int{}, c: len(constant.StringVal(tv.Value))}
		}
		if k, ok := a.seqKey(e); ok {
			return a.lenLin(k)
		}
	case *ast.CallExpr:
		if k, ok := a.seqKey(e); ok {
			return a.lenLin(k)
		}
		// []rune(s), []byte(s), string(b): []byte(s) keeps the length; []rune(s) has len <= len(s)
		if len(x.Args) == 1 {
			if tv, ok := a.info.Types[x.Fun]; ok && tv.IsType() {
				if sl, ok := tv.Type.Underlying().(*types.Slice); ok {
					if b, ok := sl.Elem().Underlying().(*types.Basic); ok && b.Kind() == types.Byte {
						return a.seqLenOf(z, x.Args[0])
					}
				}
			}
		}
	}
	return nil
}

// libResult models results of library calls assigned to an int variable.
func (a *idxAnalyzer) libResult(z *zone, key string, rhs ast.Expr) {
	call, ok := ast.Unparen(rhs).(*ast.CallExpr)
	if !ok {
		return
	}
	callee, _ := calleeOf(a.info, call).(*types.Func)
	if callee == nil || callee.Pkg() == nil || callee.Pkg() == a.pkg.Types {
		// a method of this package: one-result summaries, including facts about sequences held by its receiver
		if se, ok := ast.Unparen(call.Fun).(*ast.SelectorExpr); ok && callee != nil {
			for _, f := range a.retLE[callee.Origin()] {
				if f.res != 0 || f.whenOK >= 0 || !f.lenOf || f.geParam {
					continue
				}
				switch {
				case f.param == -2:
					if sk, ok := a.recvSeqAtCall(call, f.rfield); ok {
						z.add(key, "len("+sk+")", f.w)
					}
				case f.param >= 0 && f.param < len(call.Args):
					if sl := a.seqLenOf(z, call.Args[f.param]); sl != nil {
						if sk, ok := sl.single(); ok {
							z.add(key, sk, f.w+sl.c)
						}
					}
				}
			}
			_ = se
		}
		// local function or closure: one-result summaries
		if id, ok := ast.Unparen(call.Fun).(*ast.Ident); ok {
			for _, f := range a.retLE[a.info.Uses[id]] {
				if f.res == 0 && f.whenOK < 0 {
					if f.param < 0 {
						z.add(key, "len("+f.seqKey+")", f.w)
					} else if f.param < len(call.Args) && f.lenOf {
						if sl := a.seqLenOf(z, call.Args[f.param]); sl != nil {
							if sk, ok := sl.single(); ok {
								z.add(key, sk, f.w+sl.c)
							}
						}
					}
				}
			}
		}
		return
	}
	p, n := callee.Pkg().Path(), callee.Name()
	if (p == "strings" || p == "bytes") && (strings.HasPrefix(n, "Index") || strings.HasPrefix(n, "LastIndex")) && len(call.Args) >= 1 {
		z.neg[key] = true
		z.add(zeroTerm, key, 1) // r >= -1
		a.relToSeq(z, key, call.Args[0], a.needleLen(call, n), -1)
	}
}

func (a *idxAnalyzer) needleLen(call *ast.CallExpr, name string) int {
	if len(call.Args) < 2 {
		return 1
	}
	switch name {
	case "Index", "LastIndex":
		if tv, ok := a.info.Types[call.Args[1]]; ok && tv.Value != nil && tv.Value.Kind() == constant.String {
			return len(constant.StringVal(tv.Value))
		}
		return 0
	case "IndexByte", "LastIndexByte":
		return 1
	}
	return 1 // rune/any/func: at least one byte
}

// relToSeq records that r is an offset into seqExpr with r + plus <= len(seqExpr).
func (a *idxAnalyzer) relToSeq(z *zone, r string, seqExpr ast.Expr, plus, minR int) {
	seqExpr = ast.Unparen(seqExpr)
	if c, ok := seqExpr.(*ast.CallExpr); ok && len(c.Args) == 1 {
		if cal, ok := calleeOf(a.info, c).(*types.Func); ok && a.lenKeep[cal] {
			a.relToSeq(z, r, c.Args[0], plus, minR)
			return
		}
	}
	if sl, ok := seqExpr.(*ast.SliceExpr); ok && sl.High == nil && sl.Low != nil {
		if seq, ok := a.seqKey(sl.X); ok {
			if l, ok := a.lin(sl.Low); ok {
				if b, ok := l.single(); ok && l.c == 0 {
					z.offOf[r] = idxOffset{seq: seq, base: b, plus: plus, minR: minR}
					return
				}
			}
		}
		return
	}
	if seq, ok := a.seqKey(seqExpr); ok {
		z.add(r, "len("+seq+")", -plus)
	}
}

// tupleAssign handles  r, size := utf8.DecodeRuneInString(S[p:])  and similar.
func (a *idxAnalyzer) tupleAssign(z *zone, lhs []ast.Expr, call *ast.CallExpr) {
	callee, _ := calleeOf(a.info, call).(*types.Func)
	for _, l := range lhs {
		if k, ok := a.termKey(l); ok {
			z.forget(k)
		}
	}
	if callee != nil && a.curRecvT != nil && len(lhs) >= 2 {
		if se, ok := ast.Unparen(call.Fun).(*ast.SelectorExpr); ok {
			if rk, ok := a.termKey(se.X); ok && rk == a.curRecv {
				if okKey, ok := a.termKey(lhs[len(lhs)-1]); ok {
					for f, d := range a.delta[callee] {
						if d.hasOK && d.okD > 0 {
							pre := fmt.Sprintf("pre#%d:%s", call.Pos(), f)
							z.pend[okKey] = append(append([]pendEdge{}, z.pend[okKey]...), pendEdge{pre, rk + "." + f, -d.okD})
						}
					}
				}
			}
		}
	}
	if callee == nil || callee.Pkg() == nil {
		a.applyRetFacts(z, lhs, call)
		return
	}
	p, n := callee.Pkg().Path(), callee.Name()
	if p == "google.golang.org/protobuf/encoding/protowire" && strings.HasPrefix(n, "Consume") && len(call.Args) >= 1 && len(lhs) >= 2 {
		// the last result is the number of bytes consumed (<= len(b)), or a negative error code
		if k, ok := a.termKey(lhs[len(lhs)-1]); ok {
			z.neg[k] = true
			if sk, ok := a.seqKey(call.Args[0]); ok {
				z.add(k, "len("+sk+")", 0)
			} else {
				// Consume*(data[pos:]): the count is an offset into the suffix that starts at pos
				a.relToSeq(z, k, call.Args[0], 0, -1<<30)
			}
			// a length-delimited payload is no longer than the input
			if n == "ConsumeBytes" || n == "ConsumeString" {
				if pk, ok := a.seqKey(lhs[0]); ok {
					if sk, ok := a.seqKey(call.Args[0]); ok {
						z.add("len("+pk+")", "len("+sk+")", 0)
					}
				}
			}
		}
		return
	}
	if p == "unicode/utf8" && (n == "DecodeRuneInString" || n == "DecodeRune" || n == "DecodeLastRuneInString" || n == "DecodeLastRune") && len(lhs) == 2 && len(call.Args) == 1 {
		if k, ok := a.termKey(lhs[1]); ok {
			// 0 <= size <= len(arg); size >= 1 when arg is non-empty (not modelled: lower bound 0)
			a.relToSeq(z, k, call.Args[0], 0, 0)
			if sl := a.seqLenOf(z, call.Args[0]); sl != nil {
				// non-empty argument ⇒ size >= 1
				neg := &linExpr{t: map[string]int{}, c: -sl.c}
				for tk, v := range sl.t {
					neg.t[tk] = -v
				}
				if a.proveLE(z, neg, -1) {
					z.add(zeroTerm, k, -1)
				}
			}
		}
		return
	}
	a.applyRetFacts(z, lhs, call)
}

// applyRetFacts uses the return summaries of package functions and local closures.
func (a *idxAnalyzer) applyRetFacts(z *zone, lhs []ast.Expr, call *ast.CallExpr) {
	var id types.Object
	switch f := ast.Unparen(call.Fun).(type) {
	case *ast.Ident:
		id = a.info.Uses[f]
	case *ast.SelectorExpr:
		if sel, ok := a.info.Selections[f]; ok {
			id = sel.Obj()
		} else {
			id = a.info.Uses[f.Sel]
		}
	}
	if id == nil {
		return
	}
	for _, f := range a.retLE[id] {
		if f.res >= len(lhs) {
			continue
		}
		rk, ok := a.termKey(lhs[f.res])
		if !ok {
			continue
		}
		addE := func(x, y string, w int) {
			if f.whenOK >= 0 {
				if f.whenOK >= len(lhs) {
					return
				}
				okKey, ok := a.termKey(lhs[f.whenOK])
				if !ok {
					return
				}
				z.pend[okKey] = append(append([]pendEdge{}, z.pend[okKey]...), pendEdge{x, y, w})
				return
			}
			z.add(x, y, w)
		}
		if f.param == -2 {
			if sk, ok := a.recvSeqAtCall(call, f.rfield); ok {
				addE(rk, "len("+sk+")", f.w)
			}
			continue
		}
		if f.param < 0 {
			addE(rk, "len("+f.seqKey+")", f.w)
			continue
		}
		if f.param >= len(call.Args) {
			continue
		}
		if f.geParam {
			// arg - res <= 0
			if la, ok := a.lin(call.Args[f.param]); ok {
				if f.whenOK >= 0 {
					if ak, ok := la.single(); ok {
						addE(ak, rk, -la.c)
					} else if len(la.t) == 0 {
						addE(zeroTerm, rk, -la.c)
					}
				} else if lr, ok := a.lin(lhs[f.res]); ok {
					a.constrainLE(z, linSub(la, lr), 0)
				}
			}
			continue
		}
		if f.lenOf {
			if sl := a.seqLenOf(z, call.Args[f.param]); sl != nil {
				if sk, ok := sl.single(); ok {
					addE(rk, sk, f.w+sl.c)
				} else if len(sl.t) == 0 {
					addE(rk, zeroTerm, f.w+sl.c)
				}
			}
		}
	}
}

// invalidateByCall drops facts a call may break: &x arguments and fields of pointer receivers.
func (a *idxAnalyzer) invalidateByCall(z *zone, call *ast.CallExpr) {
	for _, arg := range call.Args {
		if u, ok := ast.Unparen(arg).(*ast.UnaryExpr); ok && u.Op == token.AND {
			if k, ok := a.termKey(u.X); ok {
				z.forget(k)
			}
		}
	}
	callee, _ := calleeOf(a.info, call).(*types.Func)
	se, ok := ast.Unparen(call.Fun).(*ast.SelectorExpr)
	if !ok {
		// plain function call: pointer-typed arguments may be written through
		for _, arg := range call.Args {
			if pt, isPtr := a.info.TypeOf(arg).Underlying().(*types.Pointer); isPtr {
				if k, ok := a.termKey(arg); ok {
					if isIntType(pt.Elem()) {
						// *int cursor: the callee only moves it forward when it is a known
						// monotone cursor function of this package, otherwise forget it
						if a.advancesPtr(call) {
							z.grow(k, 0)
						} else {
							z.forget(k)
						}
					} else {
						a.forgetFields(z, k, nil)
					}
				}
			}
		}
		return
	}
	sel, ok := a.info.Selections[se]
	if !ok || sel.Kind() != types.MethodVal {
		for _, arg := range call.Args {
			if _, isPtr := a.info.TypeOf(arg).Underlying().(*types.Pointer); isPtr {
				if k, ok := a.termKey(arg); ok {
					a.forgetFields(z, k, nil)
				}
			}
		}
		return
	}
	rk, ok := a.termKey(se.X)
	if !ok {
		return
	}
	// value receivers cannot modify the receiver
	if callee != nil {
		if sig, ok := callee.Type().(*types.Signature); ok && sig.Recv() != nil {
			if _, isPtr := sig.Recv().Type().(*types.Pointer); !isPtr {
				if _, isIface := sig.Recv().Type().Underlying().(*types.Interface); !isIface {
					return
				}
			}
		}
		if w, ok := a.writes[callee]; ok {
			a.forgetFields(z, rk, w)
			return
		}
	}
	a.forgetFields(z, rk, nil)
}

func (a *idxAnalyzer) forgetFields(z *zone, recv string, only map[string]bool) {
	prefix := recv + "."
	kill := map[string]bool{}
	for k := range z.e {
		for _, t := range k {
			tt := t
			if strings.HasPrefix(tt, "len(") {
				tt = tt[4 : len(tt)-1]
			}
			if strings.HasPrefix(tt, prefix) {
				f := strings.SplitN(tt[len(prefix):], ".", 2)[0]
				if strings.HasSuffix(f, "()") {
					continue // a pure getter read of a field nothing assigns: no call changes it
				}
				if only == nil || only[f] {
					kill[recv+"."+f] = true
				}
			}
		}
	}
	for k := range kill {
		z.forget(k)
	}
}

// advancesPtr: the callee is a package function that only ever increases the *int cursor it is
// given (every write through the pointer is ++, += non-negative, or = an expression provably >=
// the old value is not attempted: only the syntactic forms are accepted), transitively.
func (a *idxAnalyzer) advancesPtr(call *ast.CallExpr) bool {
	callee, _ := calleeOf(a.info, call).(*types.Func)
	if callee == nil || a.declOf[callee] == nil {
		return false
	}
	return a.ptrMonotone(callee, map[*types.Func]bool{})
}

func (a *idxAnalyzer) ptrMonotone(fn *types.Func, seen map[*types.Func]bool) bool {
	if seen[fn] {
		return true
	}
	seen[fn] = true
	fd := a.declOf[fn]
	if fd == nil {
		return false
	}
	ok := true
	ast.Inspect(fd.Body, func(n ast.Node) bool {
		switch x := n.(type) {
		case *ast.AssignStmt:
			for i, l := range x.Lhs {
				st, isStar := ast.Unparen(l).(*ast.StarExpr)
				if !isStar || !isIntType(a.info.TypeOf(l)) {
					continue
				}
				switch x.Tok {
				case token.ADD_ASSIGN:
					// accepted: += without subtraction
					ast.Inspect(x.Rhs[0], func(m ast.Node) bool {
						if be, isBin := m.(*ast.BinaryExpr); isBin && be.Op == token.SUB {
							ok = false
						}
						return true
					})
				case token.ASSIGN:
					// *idx = j + c where j was derived from *idx by additions only: accept the
					// common form "local cursor copied from *idx, advanced, stored back"
					if i < len(x.Rhs) {
						l, lok := a.lin(x.Rhs[i])
						if !lok {
							ok = false
						} else {
							for _, v := range l.t {
								if v < 0 {
									ok = false
								}
							}
							if l.c < 0 {
								ok = false
							}
						}
					}
				default:
					ok = false
				}
				_ = st
			}
		case *ast.IncDecStmt:
			if _, isStar := ast.Unparen(x.X).(*ast.StarExpr); isStar && x.Tok == token.DEC {
				ok = false
			}
		case *ast.CallExpr:
			if cal, isFn := calleeOf(a.info, x).(*types.Func); isFn && a.declOf[cal] != nil {
				for _, arg := range x.Args {
					if pt, isPtr := a.info.TypeOf(arg).Underlying().(*types.Pointer); isPtr && isIntType(pt.Elem()) {
						if !a.ptrMonotone(cal, seen) {
							ok = false
						}
					}
				}
			}
		}
		return true
	})
	return ok
}

// assignMinMax models  key = max(a, b, …) / min(a, b, …)  (the builtins) over linear arguments: the
// result is above (below) every argument, and it is bounded against a term by the weakest (for the
// side where all arguments must agree) or the strongest (for the side any one argument gives) of the
// arguments' own bounds against that term.
func (a *idxAnalyzer) assignMinMax(z *zone, key string, rhs ast.Expr) bool {
	call, ok := ast.Unparen(rhs).(*ast.CallExpr)
	if !ok || len(call.Args) < 2 {
		return false
	}
	id, ok := ast.Unparen(call.Fun).(*ast.Ident)
	if !ok {
		return false
	}
	b, ok := a.info.Uses[id].(*types.Builtin)
	if !ok || (b.Name() != "max" && b.Name() != "min") {
		return false
	}
	isMax := b.Name() == "max"
	var tmps []string
	for i, arg := range call.Args {
		la, ok := a.lin(arg)
		if !ok {
			for _, t := range tmps {
				z.forget(t)
			}
			z.forget(key)
			z.neg[key] = true
			return true
		}
		tk := fmt.Sprintf("mm#%d", i)
		z.neg[tk] = true
		tl := &linExpr{t: map[string]int{tk: 1}}
		a.constrainLE(z, linSub(tl, la), 0)
		a.constrainLE(z, linSub(la, tl), 0)
		tmps = append(tmps, tk)
	}
	z.close()
	type edge struct {
		x, y string
		w    int
	}
	var edges []edge
	isTmp := map[string]bool{}
	for _, t := range tmps {
		isTmp[t] = true
	}
	for _, t := range z.terms() {
		if t == key || isTmp[t] {
			continue
		}
		// up: key - t <= w ; down: t - key <= w
		upAll, upAny, downAll, downAny := true, false, true, false
		upMax, upMin, downMax, downMin := 0, 0, 0, 0
		for i, tk := range tmps {
			if w, ok := z.e[[2]string{tk, t}]; ok {
				if !upAny || w > upMax {
					upMax = w
				}
				if !upAny || w < upMin {
					upMin = w
				}
				upAny = true
			} else {
				upAll = false
			}
			if w, ok := z.e[[2]string{t, tk}]; ok {
				if !downAny || w > downMax {
					downMax = w
				}
				if !downAny || w < downMin {
					downMin = w
				}
				downAny = true
			} else {
				downAll = false
			}
			_ = i
		}
		if isMax {
			if upAll && upAny {
				edges = append(edges, edge{key, t, upMax})
			}
			if downAny {
				edges = append(edges, edge{t, key, downMin})
			}
		} else {
			if upAny {
				edges = append(edges, edge{key, t, upMin})
			}
			if downAll && downAny {
				edges = append(edges, edge{t, key, downMax})
			}
		}
	}
	z.forget(key)
	for _, t := range tmps {
		z.forget(t)
		delete(z.neg, t)
	}
	z.neg[key] = true
	for _, e := range edges {
		z.add(e.x, e.y, e.w)
	}
	return true
}

// recvSeqAtCall names, at a call site recv.m(…), the sequence held in field rfield of the receiver.
func (a *idxAnalyzer) recvSeqAtCall(call *ast.CallExpr, rfield string) (string, bool) {
	se, ok := ast.Unparen(call.Fun).(*ast.SelectorExpr)
	if !ok || rfield == "" {
		return "", false
	}
	rk, ok := a.termKey(se.X)
	if !ok {
		return "", false
	}
	return rk + "." + rfield, true
}

// recvSeqFields lists the tracked sequence fields of a method's receiver: (term inside the method, field name).
func (a *idxAnalyzer) recvSeqFields(fd *ast.FuncDecl) [][2]string {
	if fd == nil || fd.Recv == nil || len(fd.Recv.List) != 1 || len(fd.Recv.List[0].Names) != 1 {
		return nil
	}
	rn := fd.Recv.List[0].Names[0]
	rk, ok := a.termKey(rn)
	if !ok {
		return nil
	}
	t := a.info.TypeOf(rn)
	if pt, ok := t.(*types.Pointer); ok {
		t = pt.Elem()
	}
	st, ok := t.Underlying().(*types.Struct)
	if !ok {
		return nil
	}
	var out [][2]string
	for i := 0; i < st.NumFields(); i++ {
		if a.track(st.Field(i).Type()) {
			out = append(out, [2]string{rk + "." + st.Field(i).Name(), st.Field(i).Name()})
		}
	}
	return out
}
