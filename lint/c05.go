package main

import (
	"fmt"
	"go/ast"
	"go/token"
	"go/types"
	"strings"

	"golang.org/x/tools/go/packages"
)

func init() {
	register(&PropDef{
		ID:       "C05",
		Patterns: []string{"./node", "./cmd", "./runtime", "."},
		Explanation: "Decides the structural clauses of try/catch/finally and of the process boundary: every exit of TryStatement.GetValue — including the path on which a Go panic inside the try body is recovered — passes the finally region exactly once; the catch clauses are tried in declaration order, the first match leaves the dispatch loop, the catch variable receives the thrown control itself; a control returned to the command line (syntax error, uncaught throw) cannot reach a zero exit status, and the VM's default uncaught-handler prints and exits non-zero. " +
			"Which class matches (the hierarchy relation) is C08's clause; diagnostics text and flushing order are not decided.",
		Assumptions: []string{
			"a deferred closure that calls recover() and assigns the named results is an exit of the function that bypasses the rest of its body",
			"method summaries (\"runs the finally block on every exit\") are computed from the bodies on every run",
			"os.Exit with a non-zero constant, or returning a non-nil error to main (which exits 1), is the failing exit",
		},
		Rules: []RuleDef{
			{Name: "C05-FINALLY", Floor: 1, Doc: "every exit of TryStatement.GetValue has passed the finally region exactly once; no recover path bypasses it", Run: c05Run},
			{Name: "C05-CATCH", Floor: 1, Doc: "catch clauses are tried in slice order, a match leaves the loop on every path, the catch variable is bound to the thrown control", Run: nop},
			{Name: "C05-EXIT", Floor: 1, Doc: "a non-nil control from LoadAndRun cannot reach a nil-error return; main exits non-zero on error; the VM default handler shows the control and exits non-zero", Run: nop},
		},
	})
}

type finState struct {
	done  int // number of times the finally region was passed on this path (0,1,2=more)
	min   int // minimum over joined paths
	match bool
	flags map[types.Object]tri // boolean locals with a known value
}

func (s *finState) clone() *finState {
	c := *s
	c.flags = map[types.Object]tri{}
	for k, v := range s.flags {
		c.flags[k] = v
	}
	return &c
}

func c05Run(r *Run) {
	npkg := r.pkg("node")
	if npkg == nil {
		return
	}
	info := npkg.TypesInfo
	try := r.lookupType(npkg, "TryStatement")
	if try == nil {
		return
	}
	fFinally := r.lookupField(try, "FinallyBlock")
	fCatch := r.lookupField(try, "CatchBlocks")
	fTry := r.lookupField(try, "TryBlock")
	if fFinally == nil || fCatch == nil || fTry == nil {
		return
	}
	fieldOf := func(e ast.Expr) *types.Var {
		if se, ok := ast.Unparen(e).(*ast.SelectorExpr); ok {
			if s, ok := info.Selections[se]; ok {
				if v, ok := s.Obj().(*types.Var); ok {
					return v
				}
			}
		}
		return nil
	}
	// the functions that implement the try statement: its own methods and whatever they reach inside
	// the package through static calls and method values (helpers, a per-execution state struct)
	methods := map[*types.Func]*ast.FuncDecl{}
	{
		var work []*ast.FuncDecl
		add := func(f *types.Func) {
			if f == nil || f.Pkg() != npkg.Types || methods[f] != nil {
				return
			}
			fd := declOf(npkg, f)
			if fd == nil || fd.Body == nil {
				return
			}
			// other AST nodes' evaluation entries are not part of this statement
			if fd.Recv != nil && recvTypeName(fd) != "TryStatement" {
				switch fd.Name.Name {
				case "GetValue", "SetValue", "Call":
					return
				}
			}
			methods[f] = fd
			work = append(work, fd)
		}
		for _, fd := range funcDecls(npkg) {
			if recvTypeName(fd) == "TryStatement" {
				if o, ok := info.Defs[fd.Name].(*types.Func); ok {
					add(o)
				}
			}
		}
		for len(work) > 0 && len(methods) < 40 {
			fd := work[len(work)-1]
			work = work[:len(work)-1]
			ast.Inspect(fd.Body, func(n ast.Node) bool {
				switch x := n.(type) {
				case *ast.Ident:
					if f, ok := info.Uses[x].(*types.Func); ok {
						add(f)
					}
				case *ast.SelectorExpr:
					if f, ok := info.Uses[x.Sel].(*types.Func); ok {
						add(f)
					}
				}
				return true
			})
		}
	}
	// ---- FINALLY ----
	r.curRule = "C05-FINALLY"
	runsFinally := map[*types.Func]bool{} // every exit has passed the region exactly once
	type exitRec struct {
		pos token.Pos
		min int
		max int
	}
	analyse := func(fd *ast.FuncDecl) (exits []exitRec, twice []token.Pos, recoverPos token.Pos) {
		pass := func(s *finState, p token.Pos) {
			if s.done >= 1 {
				twice = append(twice, p)
			}
			if s.done < 2 {
				s.done++
			}
			if s.min < 2 {
				s.min++
			}
		}
		var deferred []*ast.FuncLit
		var walkBody func(body *ast.BlockStmt, entry *finState, endPos token.Pos, onExit func(s *finState, p token.Pos))
		walkBody = func(body *ast.BlockStmt, entry *finState, endPos token.Pos, onExit func(s *finState, p token.Pos)) {
			finRanges := map[ast.Stmt]bool{}
			ast.Inspect(body, func(n ast.Node) bool {
				if _, ok := n.(*ast.FuncLit); ok && n != ast.Node(body) {
					return false
				}
				if rs, ok := n.(*ast.RangeStmt); ok && fieldOf(rs.X) == fFinally {
					finRanges[rs] = true
				}
				// for i := 0; i < len(t.FinallyBlock); i++ { t.FinallyBlock[i]… }
				if fs, ok := n.(*ast.ForStmt); ok && fs.Cond != nil && c05IndexLoopOver(fs, fieldOf, fFinally) {
					finRanges[fs] = true
				}
				return true
			})
			h := &Hooks{Info: info}
			h.Copy = func(s State) State { return s.(*finState).clone() }
			h.Join = func(a, b State) State {
				x, y := a.(*finState), b.(*finState)
				n := x.clone()
				if y.done > n.done {
					n.done = y.done
				}
				if y.min < n.min {
					n.min = y.min
				}
				for k, v := range x.flags {
					if y.flags[k] != v {
						delete(n.flags, k)
					}
				}
				return n
			}
			h.Equal = func(a, b State) bool {
				x, y := a.(*finState), b.(*finState)
				if x.done != y.done || x.min != y.min || len(x.flags) != len(y.flags) {
					return false
				}
				for k, v := range x.flags {
					if y.flags[k] != v {
						return false
					}
				}
				return true
			}
			h.Cond = func(e ast.Expr, truth bool, st State) State {
				s := st.(*finState)
				if id, ok := ast.Unparen(e).(*ast.Ident); ok {
					if v, known := s.flags[info.Uses[id]]; known {
						if (v == triT) != truth {
							return nil
						}
					}
					return s
				}
				// len(t.FinallyBlock) > 0 false  ⇒ nothing to run: counts as passed
				if be, ok := ast.Unparen(e).(*ast.BinaryExpr); ok {
					if c, ok := ast.Unparen(be.X).(*ast.CallExpr); ok && len(c.Args) == 1 {
						if id, ok := ast.Unparen(c.Fun).(*ast.Ident); ok && id.Name == "len" && fieldOf(c.Args[0]) == fFinally {
							empty := false
							switch be.Op {
							case token.GTR, token.NEQ:
								empty = !truth
							case token.EQL:
								empty = truth
							}
							if empty {
								pass(s, e.Pos())
							}
						}
					}
					if (be.Op == token.NEQ || be.Op == token.EQL) && fieldOf(be.X) == fFinally {
						if (be.Op == token.NEQ && !truth) || (be.Op == token.EQL && truth) {
							pass(s, e.Pos())
						}
					}
				}
				return s
			}
			h.Visit = func(e ast.Expr, st State) State {
				s := st.(*finState)
				if c, ok := e.(*ast.CallExpr); ok {
					if cal, ok := calleeOf(info, c).(*types.Func); ok && runsFinally[cal] {
						pass(s, c.Pos())
					}
				}
				return s
			}
			h.Stmt = func(stm ast.Stmt, st State) State {
				s := st.(*finState)
				switch x := stm.(type) {
				case *ast.DeferStmt:
					if lit, ok := ast.Unparen(x.Call.Fun).(*ast.FuncLit); ok {
						hasRecover := false
						ast.Inspect(lit.Body, func(n ast.Node) bool {
							if c, ok := n.(*ast.CallExpr); ok {
								if id, ok := ast.Unparen(c.Fun).(*ast.Ident); ok && id.Name == "recover" {
									hasRecover = true
									recoverPos = c.Pos()
								}
							}
							return true
						})
						if !hasRecover {
							deferred = append(deferred, lit)
						}
					} else if cal, ok := calleeOf(info, x.Call).(*types.Func); ok && runsFinally[cal] {
						// defer t.runFinally(ctx): modelled as a closure-less deferred pass
						deferred = append(deferred, nil)
					}
				case *ast.AssignStmt:
					for i, l := range x.Lhs {
						id, ok := l.(*ast.Ident)
						if !ok || i >= len(x.Rhs) {
							continue
						}
						o := info.Defs[id]
						if o == nil {
							o = info.Uses[id]
						}
						if o == nil {
							continue
						}
						switch exprStr(x.Rhs[i]) {
						case "true":
							s.flags[o] = triT
						case "false":
							s.flags[o] = triF
						default:
							delete(s.flags, o)
						}
					}
				}
				return s
			}
			h.Node = func(stm ast.Stmt, st State) {
				if finRanges[stm] {
					pass(st.(*finState), stm.Pos())
				}
			}
			h.Return = func(rs *ast.ReturnStmt, st State) { onExit(st.(*finState), rs.Pos()) }
			h.End = func(st State) { onExit(st.(*finState), endPos) }
			WalkFunc(h, body, entry)
		}
		var atExit func(s *finState, p token.Pos, k int)
		atExit = func(s *finState, p token.Pos, k int) {
			// run the deferred closures registered so far, last first
			if k < 0 {
				exits = append(exits, exitRec{p, s.min, s.done})
				return
			}
			lit := deferred[k]
			if lit == nil {
				c := s.clone()
				pass(c, p)
				atExit(c, p, k-1)
				return
			}
			walkBody(lit.Body, s.clone(), p, func(s2 *finState, _ token.Pos) { atExit(s2, p, k-1) })
		}
		walkBody(fd.Body, &finState{flags: map[types.Object]tri{}}, fd.Body.Rbrace, func(s *finState, p token.Pos) {
			atExit(s, p, len(deferred)-1)
		})
		return
	}
	for changed := true; changed; {
		changed = false
		for fn, fd := range methods {
			if runsFinally[fn] {
				continue
			}
			exits, twice, rec := analyse(fd)
			okAll := len(exits) > 0 && len(twice) == 0 && rec == token.NoPos
			for _, e := range exits {
				if e.min != 1 || e.max != 1 {
					okAll = false
				}
			}
			if okAll {
				runsFinally[fn] = true
				changed = true
			}
		}
	}
	var entry *ast.FuncDecl
	var entryObj *types.Func
	for fn, fd := range methods {
		if fn.Name() == "GetValue" && recvTypeName(fd) == "TryStatement" {
			entry, entryObj = fd, fn
		}
	}
	if entry == nil {
		r.fail("anchor not found: (*TryStatement).GetValue")
		return
	}
	_ = entryObj
	exits, twice, rec := analyse(entry)
	fk := funcKey(npkg, entry)
	for _, e := range exits {
		key := fk + "#exit"
		switch {
		case e.min == 0:
			r.bad(key, e.pos, "an exit of the try statement is reachable without the finally block having run")
		case e.max >= 2:
			r.bad(key, e.pos, "the finally block can run twice before this exit")
		default:
			r.ok(key, e.pos, "finally region passed exactly once before this exit")
		}
	}
	for _, p := range twice {
		r.bad(fk+"#finally-twice", p, "the finally region is entered on a path that has already run it")
	}
	if rec != token.NoPos {
		r.bad(fk+"#recover-exit", rec, "a deferred recover in the function that owns the finally region is an exit path that skips it: a Go panic inside try leaves without running finally")
	} else {
		r.ok(fk+"#recover-exit", entry.Pos(), "no recover-based exit in the function that owns the finally region")
	}
	// the try body is evaluated under a recover (so that a panic becomes a throw and reaches finally)
	{
		var tryFn *ast.FuncDecl
		for _, fd := range methods {
			ast.Inspect(fd.Body, func(n ast.Node) bool {
				if rs, ok := n.(*ast.RangeStmt); ok && fieldOf(rs.X) == fTry {
					tryFn = fd
				}
				return true
			})
		}
		if tryFn == nil {
			r.fail("no method of TryStatement ranges over TryBlock")
		} else if tryFn == entry {
			r.info(fk+"#try-body", tryFn.Pos(), "try body evaluated in GetValue itself")
		}
	}

	// a recovered Go panic leaves the recovering function as a control: the deferred closure that calls
	// recover() stores a non-nil control into a *named result* of the enclosing function (a store into a
	// local is lost when the function unwinds: the panic is swallowed and neither catch nor the caller sees it)
	for fn, fd := range methods {
		_ = fn
		ast.Inspect(fd.Body, func(n ast.Node) bool {
			ds, ok := n.(*ast.DeferStmt)
			if !ok {
				return true
			}
			lit, ok := ast.Unparen(ds.Call.Fun).(*ast.FuncLit)
			if !ok {
				return true
			}
			recovers := false
			ast.Inspect(lit.Body, func(m ast.Node) bool {
				if c, ok := m.(*ast.CallExpr); ok {
					if id, ok := ast.Unparen(c.Fun).(*ast.Ident); ok && id.Name == "recover" {
						if _, isBuiltin := info.Uses[id].(*types.Builtin); isBuiltin {
							recovers = true
						}
					}
				}
				return true
			})
			if !recovers {
				return true
			}
			results := map[types.Object]bool{}
			if fd.Type.Results != nil {
				for _, f := range fd.Type.Results.List {
					for _, nm := range f.Names {
						results[info.Defs[nm]] = true
					}
				}
			}
			toResult, toLocal := false, token.NoPos
			ast.Inspect(lit.Body, func(m ast.Node) bool {
				as, ok := m.(*ast.AssignStmt)
				if !ok {
					return true
				}
				for i, l := range as.Lhs {
					// a field of a per-execution state object reached through a pointer outlives the call too
					if se, ok := ast.Unparen(l).(*ast.SelectorExpr); ok && isNamed(info.TypeOf(se), modPath+"/data", "Control") {
						if sel, ok := info.Selections[se]; ok && sel.Kind() == types.FieldVal {
							if base, ok := ast.Unparen(se.X).(*ast.Ident); ok {
								if _, isPtr := info.TypeOf(base).(*types.Pointer); isPtr {
									var rhs ast.Expr
									if len(as.Rhs) == len(as.Lhs) {
										rhs = as.Rhs[i]
									}
									if rhs == nil || exprStr(rhs) != "nil" {
										toResult = true
									}
								}
							}
						}
						continue
					}
					id, ok := l.(*ast.Ident)
					if !ok {
						continue
					}
					o := info.Uses[id]
					if o == nil || !isNamed(o.Type(), modPath+"/data", "Control") {
						continue
					}
					var rhs ast.Expr
					if len(as.Rhs) == len(as.Lhs) {
						rhs = as.Rhs[i]
					} else if len(as.Rhs) == 1 {
						rhs = as.Rhs[0]
					}
					if rhs != nil && exprStr(rhs) == "nil" {
						continue
					}
					if results[o] {
						toResult = true
					} else if v, ok := o.(*types.Var); ok && v.Pos() >= fd.Pos() && v.Pos() < lit.Pos() {
						toLocal = as.Pos()
					}
				}
				return true
			})
			// the address of a named result handed to a helper (convertPanic(r, &c)) reaches the result too
			ast.Inspect(lit.Body, func(m ast.Node) bool {
				if ue, ok := m.(*ast.UnaryExpr); ok && ue.Op == token.AND {
					if id, ok := ast.Unparen(ue.X).(*ast.Ident); ok {
						if o := info.Uses[id]; o != nil && isNamed(o.Type(), modPath+"/data", "Control") {
							if results[o] {
								toResult = true
							} else if v, ok := o.(*types.Var); ok && v.Pos() >= fd.Pos() && v.Pos() < lit.Pos() && toLocal == token.NoPos {
								toLocal = ue.Pos()
							}
						}
					}
				}
				return true
			})
			key := funcKey(npkg, fd) + "#panic-becomes-control"
			switch {
			case toResult:
				r.ok(key, ds.Pos(), "the recovered panic is handed out through a named result of the recovering function (or stored in state that outlives it)")
			case toLocal != token.NoPos:
				r.bad(key, toLocal, "the recovered panic is converted into a control but stored in a local variable, not in a named result: once the function has unwound nothing returns it, so a Go panic inside try is swallowed (no catch runs, the script continues)")
			default:
				r.bad(key, ds.Pos(), "the deferred recover does not hand a control out of the function: a Go panic inside try is swallowed")
			}
			return true
		})
	}

	// every statement node that owns a finally region (a []data.GetValue field whose name says so) — the
	// general try statement and any leaner sibling a parser may build for try/finally without catch —
	// evaluates its protected block under a deferred recover, so that a Go panic inside try becomes a throw
	// and still reaches finally
	{
		stmtList := func(t types.Type) bool {
			sl, ok := t.Underlying().(*types.Slice)
			return ok && isNamed(sl.Elem(), modPath+"/data", "GetValue")
		}
		scope := npkg.Types.Scope()
		for _, nm := range scope.Names() {
			tn, ok := scope.Lookup(nm).(*types.TypeName)
			if !ok {
				continue
			}
			st, ok := tn.Type().Underlying().(*types.Struct)
			if !ok {
				continue
			}
			hasFinally := false
			for i := 0; i < st.NumFields(); i++ {
				if stmtList(st.Field(i).Type()) && strings.Contains(strings.ToLower(st.Field(i).Name()), "finally") {
					hasFinally = true
				}
			}
			if !hasFinally {
				continue
			}
			entry := findFunc(npkg, tn.Name(), "GetValue")
			if entry == nil {
				continue
			}
			// closure: the type's methods and package functions reached from GetValue
			seen := map[*ast.FuncDecl]bool{entry: true}
			work := []*ast.FuncDecl{entry}
			recovers := false
			for len(work) > 0 {
				fd := work[0]
				work = work[1:]
				ast.Inspect(fd.Body, func(n ast.Node) bool {
					switch x := n.(type) {
					case *ast.CallExpr:
						if id, ok := ast.Unparen(x.Fun).(*ast.Ident); ok && id.Name == "recover" {
							if _, isBuiltin := info.Uses[id].(*types.Builtin); isBuiltin {
								recovers = true
							}
						}
						if cal := calleeFunc(info, x); cal != nil && cal.Pkg() == npkg.Types {
							if hd := declOf(npkg, cal); hd != nil && hd.Body != nil && !seen[hd] && len(seen) < 40 {
								seen[hd] = true
								work = append(work, hd)
							}
						}
					}
					return true
				})
			}
			// every statement list of the node other than finally (try body, catch bodies, an else block) is
			// run under the recover: directly inside a function literal handed to the recovering helper, or
			// in a function that defers the recover itself
			{
				hasRecover := func(fd *ast.FuncDecl) bool {
					found := false
					ast.Inspect(fd.Body, func(n ast.Node) bool {
						if d, ok := n.(*ast.DeferStmt); ok {
							isRecover := func(m ast.Node) bool {
								if c, ok := m.(*ast.CallExpr); ok {
									if id, ok := ast.Unparen(c.Fun).(*ast.Ident); ok && id.Name == "recover" {
										_, isB := info.Uses[id].(*types.Builtin)
										return isB
									}
								}
								return false
							}
							ast.Inspect(d, func(m ast.Node) bool {
								if isRecover(m) {
									found = true
								}
								return true
							})
							// defer t.panicToThrow(&v, &c): the deferred function itself calls recover()
							if cal := calleeFunc(info, d.Call); cal != nil && cal.Pkg() == npkg.Types {
								if hd := declOf(npkg, cal); hd != nil && hd.Body != nil {
									ast.Inspect(hd.Body, func(m ast.Node) bool {
										if _, isLit := m.(*ast.FuncLit); isLit {
											return false // recover() in a nested literal does not stop this panic
										}
										if isRecover(m) {
											found = true
										}
										return true
									})
								}
							}
						}
						return true
					})
					return found
				}
				protector := map[*types.Func]bool{}
				declByObj := map[*types.Func]*ast.FuncDecl{}
				for fd := range seen {
					if f, ok := info.Defs[fd.Name].(*types.Func); ok {
						declByObj[f] = fd
						if hasRecover(fd) {
							protector[f] = true
						}
					}
				}
				isUserList := func(e ast.Expr) bool {
					se, ok := ast.Unparen(e).(*ast.SelectorExpr)
					if !ok || !stmtList(info.TypeOf(e)) {
						return false
					}
					return !strings.Contains(strings.ToLower(se.Sel.Name), "finally")
				}
				memo := map[*ast.FuncDecl]int{} // 1 running, 2 clean, 3 runs unprotected
				var firstBad token.Pos
				var unprot func(fd *ast.FuncDecl) bool
				unprot = func(fd *ast.FuncDecl) bool {
					switch memo[fd] {
					case 1, 2:
						return false
					case 3:
						return true
					}
					memo[fd] = 1
					bad := false
					var walk func(n ast.Node, protected bool)
					walk = func(n ast.Node, protected bool) {
						ast.Inspect(n, func(m ast.Node) bool {
							if m == nil || m == n {
								return true
							}
							switch x := m.(type) {
							case *ast.CallExpr:
								cal := calleeFunc(info, x)
								if cal != nil && protector[cal] {
									for _, a := range x.Args {
										if lit, ok := ast.Unparen(a).(*ast.FuncLit); ok {
											walk(lit.Body, true)
										} else {
											walk(a, protected)
										}
									}
									walk(x.Fun, protected)
									return false
								}
								if cal != nil && !protected {
									if hd := declByObj[cal]; hd != nil && !protector[cal] && unprot(hd) {
										bad = true
										if firstBad == token.NoPos {
											firstBad = x.Pos()
										}
									}
								}
							case *ast.RangeStmt:
								if !protected && isUserList(x.X) {
									bad = true
									if firstBad == token.NoPos {
										firstBad = x.Pos()
									}
								}
							}
							return true
						})
					}
					walk(fd.Body, false)
					if bad {
						memo[fd] = 3
					} else {
						memo[fd] = 2
					}
					return bad
				}
				if f, ok := info.Defs[entry.Name].(*types.Func); ok && recovers && !protector[f] {
					ukey := "node.(" + tn.Name() + ")#user-code-protected"
					if unprot(entry) {
						r.bad(ukey, firstBad, "a statement list of this node other than its finally block is run outside the recovering region: a Go panic raised there unwinds past the statement and its finally block never runs")
					} else {
						r.ok(ukey, entry.Pos(), "every statement list of the node other than finally runs inside the recovering region")
					}
				}
			}
			key := "node.(" + tn.Name() + ")#panic-protected"
			if recovers {
				r.ok(key, entry.Pos(), "the statement's evaluation recovers a Go panic (it becomes a throw and reaches finally)")
			} else {
				r.bad(key, entry.Pos(), "this statement owns a finally region but nothing in its evaluation recovers a Go panic: a panic inside its try block unwinds past it and the finally block never runs")
			}
		}
	}

	// ---- CATCH ----
	r.curRule = "C05-CATCH"
	var catchFn *ast.FuncDecl
	var catchRange *ast.RangeStmt
	for _, fd := range methods {
		ast.Inspect(fd.Body, func(n ast.Node) bool {
			if rs, ok := n.(*ast.RangeStmt); ok && fieldOf(rs.X) == fCatch {
				catchFn, catchRange = fd, rs
			}
			return true
		})
	}
	if catchFn == nil && c05CatchBySearch(r, npkg, methods, fCatch) {
		// decided by the search form
	} else if catchFn == nil {
		// a range over a copy?
		r.bad("TryStatement#catch-dispatch", try.Obj().Pos(), "no method of TryStatement ranges directly over the CatchBlocks slice: declaration order cannot be established")
	} else {
		ck := funcKey(npkg, catchFn)
		if _, isSlice := info.TypeOf(catchRange.X).Underlying().(*types.Slice); isSlice {
			r.ok(ck+"#order", catchRange.Pos(), "catch clauses tried by ranging over the CatchBlocks slice (declaration order)")
		} else {
			r.bad(ck+"#order", catchRange.Pos(), "CatchBlocks is not ranged as a slice")
		}
		// the thrown control parameter
		var ctlParam types.Object
		for _, p := range catchFn.Type.Params.List {
			for _, n := range p.Names {
				if isNamed(info.TypeOf(p.Type), modPath+"/data", "Control") {
					ctlParam = info.Defs[n]
				}
			}
		}
		aliases := map[types.Object]bool{}
		if ctlParam != nil {
			aliases[ctlParam] = true
		}
		// a local that holds the pending control of a per-execution state (thrown := r.pending), taken
		// before the dispatch loop, stands for the thrown control as a parameter does
		ast.Inspect(catchFn.Body, func(n ast.Node) bool {
			if n == ast.Node(catchRange) {
				return false
			}
			if as, ok := n.(*ast.AssignStmt); ok && len(as.Rhs) == 1 && len(as.Lhs) == 1 && as.Tok == token.DEFINE && as.Pos() < catchRange.Pos() {
				if se, ok := ast.Unparen(as.Rhs[0]).(*ast.SelectorExpr); ok && isNamed(info.TypeOf(se), modPath+"/data", "Control") {
					if sel, ok := info.Selections[se]; ok && sel.Kind() == types.FieldVal {
						if l, ok := as.Lhs[0].(*ast.Ident); ok {
							aliases[info.Defs[l]] = true
						}
					}
				}
			}
			return true
		})
		for pass := 0; pass < 2; pass++ {
			ast.Inspect(catchFn.Body, func(n ast.Node) bool {
				if as, ok := n.(*ast.AssignStmt); ok && len(as.Rhs) == 1 && as.Tok == token.DEFINE {
					if ta, ok := ast.Unparen(as.Rhs[0]).(*ast.TypeAssertExpr); ok {
						if id, ok := ast.Unparen(ta.X).(*ast.Ident); ok && aliases[info.Uses[id]] {
							if l, ok := as.Lhs[0].(*ast.Ident); ok {
								aliases[info.Defs[l]] = true
							}
						}
					}
				}
				return true
			})
		}
		// walk: matched flag
		matchedAtHead := token.NoPos
		boundOK, boundSeen := true, false
		var boundPos token.Pos
		reassigned := token.NoPos
		h := &Hooks{Info: info}
		h.Copy = func(s State) State { c := *s.(*finState); return &c }
		h.Join = func(a, b State) State {
			x, y := a.(*finState), b.(*finState)
			n := *x
			n.match = x.match || y.match
			return &n
		}
		h.Equal = func(a, b State) bool { return a.(*finState).match == b.(*finState).match }
		mentionsType := func(e ast.Expr) bool {
			found := false
			ast.Inspect(e, func(n ast.Node) bool {
				if se, ok := n.(*ast.SelectorExpr); ok && se.Sel.Name == "ExceptionType" {
					found = true
				}
				return true
			})
			return found
		}
		h.Cond = func(e ast.Expr, truth bool, st State) State {
			s := st.(*finState)
			if truth && mentionsType(e) {
				s.match = true
			}
			return s
		}
		h.LoopHead = func(loop ast.Stmt, st State) State {
			if loop == ast.Stmt(catchRange) && st.(*finState).match {
				matchedAtHead = catchRange.Pos()
			}
			return st
		}
		h.Visit = func(e ast.Expr, st State) State {
			s := st.(*finState)
			if c, ok := e.(*ast.CallExpr); ok && s.match {
				if cal, ok := calleeOf(info, c).(*types.Func); ok && (cal.Name() == "SetVariableValue" || cal.Name() == "SetValue") && len(c.Args) == 2 {
					boundSeen = true
					boundPos = c.Pos()
					id, isId := ast.Unparen(c.Args[1]).(*ast.Ident)
					if !isId || !aliases[info.Uses[id]] {
						boundOK = false
					}
				}
			}
			return s
		}
		h.Stmt = func(stm ast.Stmt, st State) State {
			s := st.(*finState)
			if as, ok := stm.(*ast.AssignStmt); ok && !s.match {
				_ = as
			}
			return s
		}
		WalkFunc(h, catchFn.Body, &finState{})
		_ = reassigned
		// only a thrown value is caught: a catch body runs only where the control has been found to be a
		// throw (successful assertion of the control to the throw type) — a catch-all clause that also takes
		// a return, break or continue leaving the try block swallows it
		{
			okVars := map[types.Object]bool{}
			ast.Inspect(catchFn.Body, func(n ast.Node) bool {
				if as, ok := n.(*ast.AssignStmt); ok && len(as.Lhs) == 2 && len(as.Rhs) == 1 {
					if ta, ok := ast.Unparen(as.Rhs[0]).(*ast.TypeAssertExpr); ok && ta.Type != nil {
						if id, ok := ast.Unparen(ta.X).(*ast.Ident); ok && aliases[info.Uses[id]] {
							if okID, ok := as.Lhs[1].(*ast.Ident); ok {
								okVars[info.ObjectOf(okID)] = true
							}
						}
					}
				}
				return true
			})
			type thrState struct{ known bool }
			var badPos token.Pos
			runs := 0
			h2 := &Hooks{Info: info}
			h2.Copy = func(s State) State { c := *s.(*thrState); return &c }
			h2.Join = func(a, b State) State { return &thrState{known: a.(*thrState).known && b.(*thrState).known} }
			h2.Equal = func(a, b State) bool { return a.(*thrState).known == b.(*thrState).known }
			h2.Cond = func(e ast.Expr, truth bool, st State) State {
				if id, ok := ast.Unparen(e).(*ast.Ident); ok && truth && okVars[info.Uses[id]] {
					st.(*thrState).known = true
				}
				return st
			}
			h2.TypeCase = func(x ast.Expr, bind *ast.Ident, cc *ast.CaseClause, st State) State {
				if id, ok := ast.Unparen(x).(*ast.Ident); ok && aliases[info.Uses[id]] && len(cc.List) > 0 {
					st.(*thrState).known = true
				}
				return st
			}
			h2.Node = func(stm ast.Stmt, st State) {
				rs, ok := stm.(*ast.RangeStmt)
				if !ok || rs == catchRange || rs.Pos() < catchRange.Pos() || rs.End() > catchRange.End() {
					return
				}
				if sl, ok := info.TypeOf(rs.X).Underlying().(*types.Slice); ok && isNamed(sl.Elem(), modPath+"/data", "GetValue") {
					runs++
					if !st.(*thrState).known && badPos == token.NoPos {
						badPos = rs.Pos()
					}
				}
			}
			WalkFunc(h2, catchFn.Body, &thrState{})
			if runs > 0 && len(okVars) > 0 {
				if badPos == token.NoPos {
					r.ok(ck+"#only-throws", catchRange.Pos(), "a catch body runs only where the control has been asserted to be a thrown value")
				} else {
					r.bad(ck+"#only-throws", badPos, "a catch body can run for a control that has not been found to be a thrown value: a return, break or continue leaving the try block is swallowed by this clause")
				}
			}
		}
		if matchedAtHead == token.NoPos {
			r.ok(ck+"#first-match", catchRange.Pos(), "a matching clause leaves the dispatch loop on every path (no later clause can run)")
		} else {
			r.bad(ck+"#first-match", matchedAtHead, "after a catch clause matched, the loop can continue to a later clause")
		}
		if !boundSeen {
			// the dispatch loop only selects the clause: the function that receives the selected clause binds
			for cfn, cfd := range methods {
				_ = cfn
				if cfd == catchFn {
					continue
				}
				callsDispatch := false
				ast.Inspect(cfd.Body, func(n ast.Node) bool {
					if c, ok := n.(*ast.CallExpr); ok {
						if cal, ok := calleeOf(info, c).(*types.Func); ok && methods[cal] == catchFn {
							callsDispatch = true
						}
					}
					return true
				})
				if !callsDispatch {
					continue
				}
				als := map[types.Object]bool{}
				for _, p := range cfd.Type.Params.List {
					for _, n := range p.Names {
						if isNamed(info.TypeOf(p.Type), modPath+"/data", "Control") {
							als[info.Defs[n]] = true
						}
					}
				}
				ast.Inspect(cfd.Body, func(n ast.Node) bool {
					c, ok := n.(*ast.CallExpr)
					if !ok || len(c.Args) != 2 {
						return true
					}
					cal, ok := calleeOf(info, c).(*types.Func)
					if !ok || (cal.Name() != "SetVariableValue" && cal.Name() != "SetValue") {
						return true
					}
					if fv := fieldOf(c.Args[0]); fv == nil || fv.Name() != "Variable" {
						return true
					}
					boundSeen = true
					boundPos = c.Pos()
					id, isId := ast.Unparen(c.Args[1]).(*ast.Ident)
					if !isId || !als[info.Uses[id]] {
						boundOK = false
					}
					return true
				})
			}
		}
		if !boundSeen {
			r.bad(ck+"#bind", catchRange.Pos(), "the matching branch never stores the thrown value into the catch variable")
		} else if boundOK {
			r.ok(ck+"#bind", boundPos, "the catch variable receives the thrown control itself")
		} else {
			r.bad(ck+"#bind", boundPos, "the value stored into the catch variable is not the thrown control")
		}
	}

	// ---- EXIT ----
	r.curRule = "C05-EXIT"
	c05Exit(r)
}

type exitState struct {
	nonNil map[types.Object]bool
	maybe  map[types.Object]bool // control/error variables that may be non-nil (assigned from a call, not tested nil)
}

func c05Exit(r *Run) {
	// (a) callers of LoadAndRun in cmd/... and main
	nA := 0
	for _, p := range r.Roots {
		if !(p.PkgPath == modPath || p.PkgPath == modPath+"/cmd" || (len(p.PkgPath) > len(modPath)+5 && p.PkgPath[:len(modPath)+5] == modPath+"/cmd/")) {
			continue
		}
		info := p.TypesInfo
		for _, u := range funcUnits(p) {
			// variables assigned from LoadAndRun / from cmd functions returning error
			tracked := map[types.Object]string{}
			ast.Inspect(u.body, func(n ast.Node) bool {
				if l, ok := n.(*ast.FuncLit); ok && l != u.lit {
					return false
				}
				as, ok := n.(*ast.AssignStmt)
				if !ok || len(as.Rhs) != 1 {
					return true
				}
				c, ok := ast.Unparen(as.Rhs[0]).(*ast.CallExpr)
				if !ok {
					return true
				}
				cal, ok := calleeOf(info, c).(*types.Func)
				if !ok {
					return true
				}
				sig := cal.Type().(*types.Signature)
				if sig.Results().Len() == 0 {
					return true
				}
				last := sig.Results().At(sig.Results().Len() - 1).Type()
				what := ""
				if cal.Name() == "LoadAndRun" && isNamed(last, modPath+"/data", "Control") {
					what = "control returned by LoadAndRun"
				} else if p.PkgPath == modPath && cal.Pkg() != nil && cal.Pkg().Path() == modPath+"/cmd" && types.Identical(last, types.Universe.Lookup("error").Type()) {
					what = "error returned by cmd." + cal.Name()
				}
				if what == "" || len(as.Lhs) != sig.Results().Len() {
					return true
				}
				if id, ok := as.Lhs[len(as.Lhs)-1].(*ast.Ident); ok && id.Name != "_" {
					o := info.Defs[id]
					if o == nil {
						o = info.Uses[id]
					}
					if o != nil {
						tracked[o] = what
					}
				} else {
					r.bad(u.name+"#discarded", c.Pos(), what+" is discarded: a failed run cannot influence the exit status")
					nA++
				}
				return true
			})
			if len(tracked) == 0 {
				continue
			}
			returnsError := false
			if u.decl != nil && u.lit == nil && u.decl.Type.Results != nil {
				for _, f := range u.decl.Type.Results.List {
					if types.Identical(info.TypeOf(f.Type), types.Universe.Lookup("error").Type()) {
						returnsError = true
					}
				}
			}
			isMain := p.PkgPath == modPath && u.decl != nil && u.decl.Name.Name == "main" && u.lit == nil
			var badExit token.Pos
			h := &Hooks{Info: info}
			cp := func(s State) State {
				n := &exitState{nonNil: map[types.Object]bool{}}
				for k := range s.(*exitState).nonNil {
					n.nonNil[k] = true
				}
				return n
			}
			h.Copy = cp
			h.Join = func(a, b State) State {
				n := cp(a).(*exitState)
				for k := range b.(*exitState).nonNil {
					n.nonNil[k] = true
				}
				return n
			}
			h.Equal = func(a, b State) bool { return len(a.(*exitState).nonNil) == len(b.(*exitState).nonNil) }
			h.Stmt = func(stm ast.Stmt, st State) State {
				s := st.(*exitState)
				if as, ok := stm.(*ast.AssignStmt); ok {
					for _, l := range as.Lhs {
						if id, ok := l.(*ast.Ident); ok {
							o := info.Defs[id]
							if o == nil {
								o = info.Uses[id]
							}
							if _, ok := tracked[o]; ok {
								s.nonNil[o] = true // may be non-nil from here on
							}
						}
					}
				}
				return s
			}
			h.Cond = func(e ast.Expr, truth bool, st State) State {
				s := st.(*exitState)
				if be, ok := ast.Unparen(e).(*ast.BinaryExpr); ok && (be.Op == token.NEQ || be.Op == token.EQL) {
					var id *ast.Ident
					if x, ok := ast.Unparen(be.X).(*ast.Ident); ok && exprStr(be.Y) == "nil" {
						id = x
					}
					if id != nil {
						o := info.Uses[id]
						if _, ok := tracked[o]; ok {
							isNil := (be.Op == token.EQL) == truth
							if isNil {
								delete(s.nonNil, o)
							}
						}
					}
				}
				return s
			}
			h.Return = func(rs *ast.ReturnStmt, st State) {
				s := st.(*exitState)
				if len(s.nonNil) == 0 {
					return
				}
				if returnsError {
					last := rs.Results[len(rs.Results)-1]
					if exprStr(last) == "nil" {
						badExit = rs.Pos()
					}
				} else if isMain {
					badExit = rs.Pos()
				}
			}
			h.End = func(st State) {
				s := st.(*exitState)
				if len(s.nonNil) > 0 && (isMain || !returnsError) {
					badExit = u.body.Rbrace
				}
			}
			WalkFunc(h, u.body, &exitState{nonNil: map[types.Object]bool{}})
			for _, what := range tracked {
				nA++
				key := u.name + "#exit-status"
				if badExit != token.NoPos {
					r.bad(key, badExit, fmt.Sprintf("a zero-status exit (nil error / falling out of main) is reachable while the %s may be non-nil", what))
				} else {
					r.ok(key, u.body.Pos(), fmt.Sprintf("no zero-status exit reachable while the %s is non-nil", what))
				}
			}
		}
	}
	if nA == 0 {
		r.fail("no caller of LoadAndRun found in cmd/main: the process-boundary anchor moved")
	}
	// (c) VM default handler
	rp := r.pkg("runtime")
	if rp == nil {
		return
	}
	c05DefaultHandler(r, rp)
}

func c05DefaultHandler(r *Run, rp *packages.Package) {
	info := rp.TypesInfo
	vm := r.lookupType(rp, "VM")
	if vm == nil {
		return
	}
	found := false
	for _, fd := range funcDecls(rp) {
		ast.Inspect(fd.Body, func(n ast.Node) bool {
			// the handler is a function literal stored into a func(data.Control) field of the VM: in the VM's
			// composite literal, or by an assignment vm.f = func(…) {…} in the function that builds the VM
			var lits []*ast.FuncLit
			switch x := n.(type) {
			case *ast.CompositeLit:
				if nt := namedOf(info.TypeOf(x)); nt != nil && nt.Obj() == vm.Obj() {
					for _, el := range x.Elts {
						if kv, ok := el.(*ast.KeyValueExpr); ok {
							if lit, ok := kv.Value.(*ast.FuncLit); ok {
								lits = append(lits, lit)
							}
						}
					}
				}
			case *ast.AssignStmt:
				if len(x.Lhs) == len(x.Rhs) {
					for i, l := range x.Lhs {
						se, ok := ast.Unparen(l).(*ast.SelectorExpr)
						if !ok {
							continue
						}
						sel, ok := info.Selections[se]
						if !ok || sel.Kind() != types.FieldVal || namedOf(info.TypeOf(se.X)) == nil || namedOf(info.TypeOf(se.X)).Obj() != vm.Obj() {
							continue
						}
						if lit, ok := ast.Unparen(x.Rhs[i]).(*ast.FuncLit); ok {
							lits = append(lits, lit)
						}
					}
				}
			}
			if len(lits) == 0 {
				return true
			}
			for _, lit := range lits {
				// a func(data.Control) field
				sig, ok := info.TypeOf(lit).(*types.Signature)
				if !ok || sig.Params().Len() != 1 || !isNamed(sig.Params().At(0).Type(), modPath+"/data", "Control") {
					continue
				}
				found = true
				key := funcKey(rp, fd) + "#default-handler"
				shows, exits := false, true
				h := &Hooks{Info: info}
				h.Copy = func(s State) State { c := *s.(*finState); return &c }
				h.Join = func(a, b State) State { return a }
				h.Equal = func(a, b State) bool { return true }
				h.Visit = func(e ast.Expr, st State) State {
					if c, ok := e.(*ast.CallExpr); ok {
						if cal, ok := calleeOf(info, c).(*types.Func); ok && cal.Name() == "ShowControl" {
							shows = true
						}
						if cal, ok := calleeOf(info, c).(*types.Func); ok && isPkgFunc(cal, "os", "Exit") && len(c.Args) == 1 {
							if tv, ok := info.Types[c.Args[0]]; ok && tv.Value != nil && tv.Value.String() == "0" {
								exits = false
							}
						}
					}
					return st
				}
				// any normal return from the handler = did not exit
				h.Return = func(rs *ast.ReturnStmt, st State) { exits = false }
				h.End = func(st State) { exits = false }
				WalkFunc(h, lit.Body, &finState{})
				switch {
				case !exits:
					r.bad(key, lit.Pos(), "the VM's default uncaught-control handler can return (or exit 0) instead of terminating the process with a non-zero status")
				case !shows:
					r.bad(key, lit.Pos(), "the VM's default uncaught-control handler exits without printing the diagnostic")
				default:
					r.ok(key, lit.Pos(), "default handler prints the control and exits non-zero on every path")
				}
			}
			return true
		})
	}
	if !found {
		r.fail("the VM constructor no longer installs a default func(data.Control) handler")
	}
}

// c05IndexLoopOver: `for i := …; i < len(x.F); i++ { … x.F[i] … }` over the given field.
func c05IndexLoopOver(fs *ast.ForStmt, fieldOf func(ast.Expr) *types.Var, f *types.Var) bool {
	be, ok := ast.Unparen(fs.Cond).(*ast.BinaryExpr)
	if !ok || (be.Op != token.LSS && be.Op != token.NEQ) {
		return false
	}
	c, ok := ast.Unparen(be.Y).(*ast.CallExpr)
	if !ok || len(c.Args) != 1 {
		return false
	}
	if id, ok := ast.Unparen(c.Fun).(*ast.Ident); !ok || id.Name != "len" || fieldOf(c.Args[0]) != f {
		return false
	}
	indexed := false
	ast.Inspect(fs.Body, func(n ast.Node) bool {
		if ix, ok := n.(*ast.IndexExpr); ok && fieldOf(ix.X) == f {
			indexed = true
		}
		return true
	})
	return indexed
}

// c05CatchBySearch: the dispatch written as a library search — at := slices.IndexFunc(t.CatchBlocks, pred)
// followed by t.CatchBlocks[at]. slices.IndexFunc answers the first index, in slice order, whose element
// satisfies pred: declaration order and first-match are the library's contract, provided the clause that
// runs is the one at exactly that index, pred consults the clause's declared type, and the catch variable
// receives the thrown control. Reports under the same constructs as the loop form; false when no method
// searches CatchBlocks this way.
func c05CatchBySearch(r *Run, npkg *packages.Package, methods map[*types.Func]*ast.FuncDecl, fCatch *types.Var) bool {
	info := npkg.TypesInfo
	fieldOf := func(e ast.Expr) *types.Var {
		if se, ok := ast.Unparen(e).(*ast.SelectorExpr); ok {
			if sel, ok := info.Selections[se]; ok && sel.Kind() == types.FieldVal {
				return sel.Obj().(*types.Var)
			}
		}
		return nil
	}
	var fn *ast.FuncDecl
	var call *ast.CallExpr
	for _, fd := range methods {
		ast.Inspect(fd.Body, func(n ast.Node) bool {
			if c, ok := n.(*ast.CallExpr); ok && len(c.Args) == 2 && fieldOf(c.Args[0]) == fCatch {
				if cal := calleeFunc(info, c); cal != nil && cal.Pkg() != nil && cal.Pkg().Path() == "slices" && cal.Name() == "IndexFunc" {
					if fn == nil || c.Pos() < call.Pos() {
						fn, call = fd, c
					}
				}
			}
			return true
		})
	}
	if fn == nil {
		return false
	}
	ck := funcKey(npkg, fn)
	r.ok(ck+"#order", call.Pos(), "catch clauses searched with slices.IndexFunc over the CatchBlocks slice (first index in declaration order)")
	// the result of the search
	var at types.Object
	ast.Inspect(fn.Body, func(n ast.Node) bool {
		if as, ok := n.(*ast.AssignStmt); ok && len(as.Lhs) == 1 && len(as.Rhs) == 1 && ast.Unparen(as.Rhs[0]) == ast.Expr(call) {
			if id, ok := as.Lhs[0].(*ast.Ident); ok {
				at = info.Defs[id]
				if at == nil {
					at = info.Uses[id]
				}
			}
		}
		return true
	})
	// the predicate consults the declared exception type (itself, or through one helper it calls)
	mentionsType := func(n ast.Node) bool {
		found := false
		ast.Inspect(n, func(m ast.Node) bool {
			if se, ok := m.(*ast.SelectorExpr); ok && se.Sel.Name == "ExceptionType" {
				found = true
			}
			return true
		})
		return found
	}
	var predBody ast.Node
	switch p := ast.Unparen(call.Args[1]).(type) {
	case *ast.FuncLit:
		predBody = p.Body
	default:
		var o types.Object
		switch q := p.(type) {
		case *ast.Ident:
			o = info.Uses[q]
		case *ast.SelectorExpr:
			o = info.Uses[q.Sel]
		}
		if f, ok := o.(*types.Func); ok {
			if _, fd := r.declAnywhere(f); fd != nil {
				predBody = fd.Body
			}
		}
	}
	consults := false
	if predBody != nil {
		consults = mentionsType(predBody)
		ast.Inspect(predBody, func(n ast.Node) bool {
			if c, ok := n.(*ast.CallExpr); ok && !consults {
				if f := calleeFunc(info, c); f != nil {
					if _, fd := r.declAnywhere(f); fd != nil && mentionsType(fd.Body) {
						consults = true
					}
				}
			}
			return true
		})
	}
	// the clause that runs is the one at the found index, and the index is not re-assigned
	bad := token.NoPos
	uses := 0
	ast.Inspect(fn.Body, func(n ast.Node) bool {
		switch x := n.(type) {
		case *ast.IndexExpr:
			if fieldOf(x.X) == fCatch {
				uses++
				if id, ok := ast.Unparen(x.Index).(*ast.Ident); !ok || at == nil || info.Uses[id] != at {
					bad = x.Pos()
				}
			}
		case *ast.RangeStmt:
			if fieldOf(x.X) == fCatch {
				bad = x.Pos()
			}
		case *ast.AssignStmt:
			for _, l := range x.Lhs {
				if id, ok := l.(*ast.Ident); ok && at != nil && info.Uses[id] == at && !(len(x.Rhs) == 1 && ast.Unparen(x.Rhs[0]) == ast.Expr(call)) {
					bad = x.Pos()
				}
			}
		case *ast.IncDecStmt:
			if id, ok := ast.Unparen(x.X).(*ast.Ident); ok && at != nil && info.Uses[id] == at {
				bad = x.Pos()
			}
		}
		return true
	})
	switch {
	case !consults:
		r.bad(ck+"#first-match", call.Pos(), "the search predicate does not consult the clause's declared exception type")
	case at == nil || uses == 0:
		r.bad(ck+"#first-match", call.Pos(), "the index found by the search is not what selects the clause that runs")
	case bad != token.NoPos:
		r.bad(ck+"#first-match", bad, "a catch clause is selected by something other than the index the search found")
	default:
		r.ok(ck+"#first-match", call.Pos(), "the clause that runs is the one at the first matching index (no later clause can run)")
	}
	// binding: the catch variable receives the thrown control
	aliases := map[types.Object]bool{}
	for _, p := range fn.Type.Params.List {
		for _, n := range p.Names {
			t := info.TypeOf(p.Type)
			if isNamed(t, modPath+"/data", "Control") || isNamed(t, modPath+"/data", "ThrowValue") {
				aliases[info.Defs[n]] = true
			}
		}
	}
	for pass := 0; pass < 2; pass++ {
		ast.Inspect(fn.Body, func(n ast.Node) bool {
			if as, ok := n.(*ast.AssignStmt); ok && len(as.Rhs) == 1 && as.Tok == token.DEFINE {
				if ta, ok := ast.Unparen(as.Rhs[0]).(*ast.TypeAssertExpr); ok {
					if id, ok := ast.Unparen(ta.X).(*ast.Ident); ok && aliases[info.Uses[id]] {
						if l, ok := as.Lhs[0].(*ast.Ident); ok {
							aliases[info.Defs[l]] = true
						}
					}
				}
			}
			return true
		})
	}
	boundSeen, boundOK := false, true
	boundPos := call.Pos()
	ast.Inspect(fn.Body, func(n ast.Node) bool {
		c, ok := n.(*ast.CallExpr)
		if !ok || len(c.Args) != 2 {
			return true
		}
		cal := calleeFunc(info, c)
		if cal == nil || (cal.Name() != "SetVariableValue" && cal.Name() != "SetValue") {
			return true
		}
		if fv := fieldOf(c.Args[0]); fv == nil || fv.Name() != "Variable" {
			return true
		}
		boundSeen = true
		boundPos = c.Pos()
		id, isId := ast.Unparen(c.Args[1]).(*ast.Ident)
		if !isId || !aliases[info.Uses[id]] {
			boundOK = false
		}
		return true
	})
	switch {
	case !boundSeen:
		r.bad(ck+"#bind", call.Pos(), "the matching branch never stores the thrown value into the catch variable")
	case boundOK:
		r.ok(ck+"#bind", boundPos, "the catch variable receives the thrown control itself")
	default:
		r.bad(ck+"#bind", boundPos, "the value stored into the catch variable is not the thrown control")
	}
	return true
}
