package main

import (
	"fmt"
	"go/ast"
	"go/token"
	"go/types"
	"os"
	"sort"
	"strings"

	"golang.org/x/tools/go/packages"
)

func init() {
	register(&PropDef{
		ID:          "C19",
		Patterns:    []string{"./node", "./data", "./parser"},
		Explanation: "ClassGeneric.Clone shares the *ClassStatement between all instantiations of a generic class. For 'instantiating Box<int> never changes what Box<string> accepts' it is necessary that (SHARED) no method of ClassGeneric mutates anything reachable from the shared statement — no store into its maps or fields and no call of a receiver-mutating method on a value taken from them; (MAP) every instantiation gets its own type-argument map, built from this new-expression's arguments; (PRED) the generic type predicate is not a constant. Which values a given instantiation accepts is value-level and not decided.",
		Assumptions: []string{
			"a method is receiver-mutating if some implementation in packages node/data assigns a field of its receiver (directly)",
			"values derived from the embedded ClassStatement's fields by index/selection/assignment are shared",
		},
		Rules: []RuleDef{
			{Name: "C19-SHARED", Floor: 1, Doc: "methods of ClassGeneric never mutate objects reachable from the shared class declaration", Run: c19Run},
			{Name: "C19-MAP", Floor: 1, Doc: "Clone stores the map it is given (not the receiver's) and each caller passes a map freshly built in that call", Run: nop},
			{Name: "C19-SITE", Floor: 79, Doc: "evaluation methods of AST nodes never store a property or type declaration taken from a value into the node: a store site shared by several instantiations re-reads the declaration from the object each time", Run: c19Site},
			{Name: "C19-PRED", Floor: 1, Doc: "data.Generic.Is is not a constant predicate", Run: nop},
		},
	})
}

// mutatingMethodNames: names of methods for which some implementation assigns a receiver field.
func mutatingMethodNames(pkgs []*packages.Package) map[string]bool {
	out := map[string]bool{}
	for _, p := range pkgs {
		if p == nil {
			continue
		}
		info := p.TypesInfo
		for _, fd := range funcDecls(p) {
			if fd.Recv == nil || len(fd.Recv.List) == 0 || len(fd.Recv.List[0].Names) == 0 {
				continue
			}
			if _, isPtr := info.TypeOf(fd.Recv.List[0].Type).(*types.Pointer); !isPtr {
				continue
			}
			recv := info.Defs[fd.Recv.List[0].Names[0]]
			ast.Inspect(fd.Body, func(n ast.Node) bool {
				mark := func(e ast.Expr) {
					for {
						switch x := ast.Unparen(e).(type) {
						case *ast.IndexExpr:
							e = x.X
							continue
						case *ast.SelectorExpr:
							if id, ok := ast.Unparen(x.X).(*ast.Ident); ok && info.Uses[id] == recv {
								out[fd.Name.Name] = true
							}
							e = x.X
							continue
						}
						return
					}
				}
				switch x := n.(type) {
				case *ast.AssignStmt:
					for _, l := range x.Lhs {
						mark(l)
					}
				case *ast.IncDecStmt:
					mark(x.X)
				}
				return true
			})
		}
	}
	return out
}

func c19Run(r *Run) {
	npkg := r.pkg("node")
	dpkg := r.pkg("data")
	if npkg == nil || dpkg == nil {
		return
	}
	freshMapResolve = r.declAnywhere
	info := npkg.TypesInfo
	cg := r.lookupType(npkg, "ClassGeneric")
	cs := r.lookupType(npkg, "ClassStatement")
	if cg == nil || cs == nil {
		return
	}
	mut := mutatingMethodNames([]*packages.Package{npkg, dpkg})
	r.stat("receiver_mutating_method_names", len(mut))
	csFields := map[*types.Var]bool{}
	if st, ok := cs.Underlying().(*types.Struct); ok {
		for i := 0; i < st.NumFields(); i++ {
			csFields[st.Field(i)] = true
		}
	}
	ownFields := map[*types.Var]bool{} // fields of ClassGeneric itself (GenericMap …) are per instantiation
	if st, ok := cg.Underlying().(*types.Struct); ok {
		for i := 0; i < st.NumFields(); i++ {
			if !st.Field(i).Embedded() {
				ownFields[st.Field(i)] = true
			}
		}
	}
	r.curRule = "C19-SHARED"
	// container parameters of ClassGeneric's own helpers that some caller fills with something it did not
	// build itself (a slice taken from a property's declared type, a field of the declaration): inside the
	// helper they stand for the shared declaration
	sharedParams := map[types.Object]bool{}
	{
		methodDecl := map[types.Object]*ast.FuncDecl{}
		for _, fd := range funcDecls(npkg) {
			if recvTypeName(fd) == "ClassGeneric" {
				methodDecl[info.Defs[fd.Name]] = fd
			}
		}
		isContainer := func(t types.Type) bool {
			switch t.Underlying().(type) {
			case *types.Slice, *types.Map:
				return true
			}
			return false
		}
		for _, fd := range funcDecls(npkg) {
			if recvTypeName(fd) != "ClassGeneric" || fd.Body == nil {
				continue
			}
			fresh := map[types.Object]bool{}
			ast.Inspect(fd.Body, func(n ast.Node) bool {
				if as, ok := n.(*ast.AssignStmt); ok && len(as.Lhs) == len(as.Rhs) {
					for i, rh := range as.Rhs {
						isFresh := false
						switch x := ast.Unparen(rh).(type) {
						case *ast.CompositeLit:
							isFresh = true
						case *ast.CallExpr:
							if id, ok := ast.Unparen(x.Fun).(*ast.Ident); ok && (id.Name == "make" || id.Name == "append") {
								isFresh = id.Name == "make" || (len(x.Args) > 0 && exprStr(x.Args[0]) == "nil")
							}
						}
						if id, ok := as.Lhs[i].(*ast.Ident); ok && isFresh {
							fresh[info.ObjectOf(id)] = true
						}
					}
				}
				return true
			})
			ast.Inspect(fd.Body, func(n ast.Node) bool {
				c, ok := n.(*ast.CallExpr)
				if !ok {
					return true
				}
				callee := methodDecl[calleeOf(info, c)]
				if callee == nil {
					return true
				}
				k := 0
				for _, f := range callee.Type.Params.List {
					for _, nm := range f.Names {
						if k < len(c.Args) && isContainer(info.TypeOf(f.Type)) {
							a := ast.Unparen(c.Args[k])
							ownFresh := false
							switch x := a.(type) {
							case *ast.Ident:
								ownFresh = fresh[info.Uses[x]] || x.Name == "nil"
							case *ast.CompositeLit:
								ownFresh = true
							case *ast.CallExpr:
								if id, ok := ast.Unparen(x.Fun).(*ast.Ident); ok && id.Name == "make" {
									ownFresh = true
								}
							}
							if !ownFresh {
								sharedParams[info.Defs[nm]] = true
							}
						}
						k++
					}
				}
				return true
			})
		}
	}
	nMethods := 0
	for _, fd := range funcDecls(npkg) {
		if recvTypeName(fd) != "ClassGeneric" || len(fd.Recv.List[0].Names) == 0 {
			continue
		}
		nMethods++
		fk := funcKey(npkg, fd)
		recv := info.Defs[fd.Recv.List[0].Names[0]]
		shared := map[types.Object]bool{}
		for _, f := range fd.Type.Params.List {
			for _, nm := range f.Names {
				if sharedParams[info.Defs[nm]] {
					shared[info.Defs[nm]] = true
				}
			}
		}
		// is e rooted at the shared statement?
		var isShared func(e ast.Expr) bool
		isShared = func(e ast.Expr) bool {
			switch x := ast.Unparen(e).(type) {
			case *ast.Ident:
				return shared[info.Uses[x]]
			case *ast.IndexExpr:
				return isShared(x.X)
			case *ast.StarExpr:
				return isShared(x.X)
			case *ast.TypeAssertExpr:
				return isShared(x.X)
			case *ast.CallExpr:
				// getter on a shared value returns shared state
				if se, ok := ast.Unparen(x.Fun).(*ast.SelectorExpr); ok {
					return isShared(se.X) && !mut[se.Sel.Name]
				}
			case *ast.SelectorExpr:
				if s, ok := info.Selections[x]; ok {
					if v, ok := s.Obj().(*types.Var); ok {
						if id, ok := ast.Unparen(x.X).(*ast.Ident); ok && info.Uses[id] == recv {
							return csFields[v] && !ownFields[v] || v.Embedded() && namedOf(v.Type()) == cs
						}
					}
				}
				return isShared(x.X)
			}
			return false
		}
		// propagate through local definitions (two passes are enough for straight-line code)
		for pass := 0; pass < 3; pass++ {
			ast.Inspect(fd.Body, func(n ast.Node) bool {
				switch x := n.(type) {
				case *ast.AssignStmt:
					if len(x.Rhs) == 1 {
						if isShared(x.Rhs[0]) {
							if id, ok := x.Lhs[0].(*ast.Ident); ok {
								o := info.Defs[id]
								if o == nil {
									o = info.Uses[id]
								}
								if o != nil {
									// a struct copied by value (x := *p) is private to this call
									if _, isStruct := o.Type().Underlying().(*types.Struct); !isStruct {
										shared[o] = true
									}
								}
							}
						}
					}
				case *ast.RangeStmt:
					if isShared(x.X) {
						for _, kv := range []ast.Expr{x.Key, x.Value} {
							if id, ok := kv.(*ast.Ident); ok && id.Name != "_" {
								if o := info.Defs[id]; o != nil {
									if _, isBasic := o.Type().Underlying().(*types.Basic); !isBasic {
										shared[o] = true
									}
								}
							}
						}
					}
				}
				return true
			})
		}
		found := false
		ast.Inspect(fd.Body, func(n ast.Node) bool {
			switch x := n.(type) {
			case *ast.AssignStmt:
				for _, l := range x.Lhs {
					switch t := ast.Unparen(l).(type) {
					case *ast.IndexExpr:
						if isShared(t.X) {
							found = true
							r.bad(fk+"#store:"+strings.ReplaceAll(exprStr(t.X), " ", ""), x.Pos(), "stores into a container of the shared class declaration: visible to every instantiation of the generic class")
						}
					case *ast.SelectorExpr:
						if isShared(t.X) || isShared(t) {
							found = true
							r.bad(fk+"#store:"+strings.ReplaceAll(exprStr(t), " ", ""), x.Pos(), "assigns a field of the shared class declaration: visible to every instantiation of the generic class")
						}
					}
				}
			case *ast.CallExpr:
				if se, ok := ast.Unparen(x.Fun).(*ast.SelectorExpr); ok && mut[se.Sel.Name] && isShared(se.X) {
					found = true
					r.bad(fmt.Sprintf("%s#call:%s.%s", fk, strings.ReplaceAll(exprStr(se.X), " ", ""), se.Sel.Name), x.Pos(), fmt.Sprintf("calls the receiver-mutating method %s on %s, which belongs to the class declaration shared by all instantiations: the first instantiation's type argument sticks for the others", se.Sel.Name, exprStr(se.X)))
				}
			}
			return true
		})
		ast.Inspect(fd.Body, func(n ast.Node) bool {
			id, ok := n.(*ast.Ident)
			if !ok {
				return true
			}
			v, ok := info.Uses[id].(*types.Var)
			if !ok || v.Pkg() == nil || v.Parent() != v.Pkg().Scope() {
				return true
			}
			if _, basic := v.Type().Underlying().(*types.Basic); basic {
				return true
			}
			found = true
			r.bad(fk+"#process-state:"+v.Name(), id.Pos(), "uses the package-level variable "+v.Name()+": what an instantiation answers must depend on its own type arguments only, and a process-wide store is shared by every instantiation")
			return true
		})
		if !found {
			r.ok(fk+"#read-only", fd.Pos(), "does not mutate state reachable from the shared declaration and uses no process-wide state")
		}
	}
	if nMethods == 0 {
		r.fail("ClassGeneric has no methods")
	}

	// MAP
	r.curRule = "C19-MAP"
	if clone := findFunc(npkg, "ClassGeneric", "Clone"); clone == nil {
		r.fail("anchor not found: (*ClassGeneric).Clone")
	} else {
		recv := info.Defs[clone.Recv.List[0].Names[0]]
		// the type-argument map: the map-typed field(s) of ClassGeneric, whatever they are called
		mapField := map[types.Object]bool{}
		if cg := r.lookupType(npkg, "ClassGeneric"); cg != nil {
			if st, ok := cg.Underlying().(*types.Struct); ok {
				for i := 0; i < st.NumFields(); i++ {
					if _, isMap := st.Field(i).Type().Underlying().(*types.Map); isMap {
						mapField[st.Field(i)] = true
					}
				}
				if len(mapField) == 0 {
					// the bound types may be kept positionally, in a slice parallel to the declared parameters
					for i := 0; i < st.NumFields(); i++ {
						if sl, ok := st.Field(i).Type().Underlying().(*types.Slice); ok && isNamed(sl.Elem(), modPath+"/data", "Types") {
							mapField[st.Field(i)] = true
						}
					}
				}
			}
		}
		if len(mapField) == 0 {
			r.fail("node.ClassGeneric has no map-typed field: the type-argument map moved")
		}
		isMapSel := func(se *ast.SelectorExpr) bool {
			if sel, ok := info.Selections[se]; ok {
				return mapField[sel.Obj()]
			}
			return false
		}
		okMap, seen := true, false
		nOwn, nAliased := 0, 0
		ast.Inspect(clone.Body, func(n ast.Node) bool {
			var value ast.Expr
			switch x := n.(type) {
			case *ast.KeyValueExpr:
				if id, ok := x.Key.(*ast.Ident); ok && mapField[info.Uses[id]] {
					value = x.Value
				}
			case *ast.AssignStmt:
				// built field by field: inst.GenericMap = m
				for i, l := range x.Lhs {
					if se, ok := ast.Unparen(l).(*ast.SelectorExpr); ok && isMapSel(se) && i < len(x.Rhs) {
						if id, ok := ast.Unparen(se.X).(*ast.Ident); !ok || info.Uses[id] != recv {
							value = x.Rhs[i]
						}
					}
				}
			}
			if value == nil {
				return true
			}
			kv := struct{ Value ast.Expr }{value}
			seen = true
			aliased := false
			ast.Inspect(kv.Value, func(m ast.Node) bool {
				if se, ok := m.(*ast.SelectorExpr); ok {
					if id, ok := ast.Unparen(se.X).(*ast.Ident); ok && info.Uses[id] == recv && isMapSel(se) {
						aliased = true
					}
				}
				return true
			})
			if aliased {
				nAliased++
			} else {
				nOwn++
			}
			return true
		})
		// with a positional representation the declared parameter list is a candidate too and is shared
		// on purpose: it is enough that one container of the new instantiation is its own
		okMap = nOwn > 0 && (nAliased == 0 || len(mapField) > 1)
		key := funcKey(npkg, clone) + "#own-map"
		if seen && okMap {
			r.ok(key, clone.Pos(), "the clone stores the map it is given, not the receiver's map")
		} else {
			r.bad(key, clone.Pos(), "Clone does not give the new instantiation its own type-argument map (it reuses the receiver's or sets none)")
		}
	}
	for _, fd := range funcDecls(npkg) {
		ast.Inspect(fd.Body, func(n ast.Node) bool {
			c, ok := n.(*ast.CallExpr)
			if !ok || len(c.Args) != 1 {
				return true
			}
			se, ok := ast.Unparen(c.Fun).(*ast.SelectorExpr)
			if !ok || se.Sel.Name != "Clone" {
				return true
			}
			if !isNamed(info.TypeOf(se.X), modPath+"/data", "ClassGeneric") && !isNamed(info.TypeOf(se.X), modPath+"/node", "ClassGeneric") {
				return true
			}
			key := funcKey(npkg, fd) + "#clone-arg"
			fresh := freshMapExpr(info, npkg, c.Args[0], 0)
			if id, ok := ast.Unparen(c.Args[0]).(*ast.Ident); ok {
				obj := info.Uses[id]
				ast.Inspect(fd.Body, func(m ast.Node) bool {
					if as, ok := m.(*ast.AssignStmt); ok && len(as.Rhs) == 1 {
						if lid, ok := as.Lhs[0].(*ast.Ident); ok && info.Defs[lid] == obj {
							if freshMapExpr(info, npkg, as.Rhs[0], 0) {
								fresh = true
							}
						}
					}
					return true
				})
			}
			if fresh {
				r.ok(key, c.Pos(), "the type-argument map passed to Clone is built in this call")
			} else {
				r.bad(key, c.Pos(), "the map passed to Clone is not freshly built here: instantiations may share (and overwrite) one type-argument map")
			}
			return true
		})
	}

	// PRED
	r.curRule = "C19-PRED"
	is := findFunc(dpkg, "Generic", "Is")
	if is == nil {
		r.fail("anchor not found: data.Generic.Is")
		return
	}
	constant := true
	ast.Inspect(is.Body, func(n ast.Node) bool {
		if rs, ok := n.(*ast.ReturnStmt); ok && len(rs.Results) == 1 {
			if s := exprStr(rs.Results[0]); s != "true" && s != "false" {
				constant = false
			}
		}
		return true
	})
	key := funcKey(dpkg, is) + "#non-constant"
	if constant {
		r.bad(key, is.Pos(), "data.Generic.Is returns a constant: a member still typed with the bare type parameter accepts (or rejects) every value, whatever the instantiation's type argument")
	} else {
		r.ok(key, is.Pos(), "the predicate depends on its argument")
	}
}

// evalFieldWrite is one assignment to a receiver field found in the closure of a node type's
// evaluation methods (GetValue/SetValue/Call/GetZVal plus the methods they call on the same receiver).
type evalFieldWrite struct {
	typeName, field string
	ftype           types.Type
	pos             token.Pos
}

// evalClosureFieldWrites lists, per node type that has evaluation methods, the receiver-field
// assignments reachable from them; the second result names every type examined.
func evalClosureFieldWrites(npkg *packages.Package) ([]evalFieldWrite, map[string]token.Pos) {
	info := npkg.TypesInfo
	byRecv := map[string]map[string]*ast.FuncDecl{}
	for _, fd := range funcDecls(npkg) {
		if tn := recvTypeName(fd); tn != "" {
			if byRecv[tn] == nil {
				byRecv[tn] = map[string]*ast.FuncDecl{}
			}
			byRecv[tn][fd.Name.Name] = fd
		}
	}
	tns := []string{}
	for tn := range byRecv {
		tns = append(tns, tn)
	}
	sort.Strings(tns)
	var out []evalFieldWrite
	examined := map[string]token.Pos{}
	for _, tn := range tns {
		ms := byRecv[tn]
		var work []*ast.FuncDecl
		for _, n := range []string{"GetValue", "SetValue", "Call", "GetZVal"} {
			if fd := ms[n]; fd != nil {
				work = append(work, fd)
			}
		}
		if len(work) == 0 {
			continue
		}
		examined[tn] = ms[firstKey(ms)].Pos()
		seen := map[*ast.FuncDecl]bool{}
		for len(work) > 0 {
			fd := work[0]
			work = work[1:]
			if seen[fd] || len(fd.Recv.List[0].Names) == 0 {
				continue
			}
			seen[fd] = true
			recv := info.Defs[fd.Recv.List[0].Names[0]]
			ast.Inspect(fd.Body, func(n ast.Node) bool {
				switch x := n.(type) {
				case *ast.CallExpr:
					if se, ok := ast.Unparen(x.Fun).(*ast.SelectorExpr); ok {
						if id, ok := ast.Unparen(se.X).(*ast.Ident); ok && info.Uses[id] == recv {
							if h := ms[se.Sel.Name]; h != nil {
								work = append(work, h)
							}
						}
						// recv.f.Store(…), recv.buf.WriteString(…): a mutating method of a container held in an own field
						if in, ok := ast.Unparen(se.X).(*ast.SelectorExpr); ok {
							if id, ok := ast.Unparen(in.X).(*ast.Ident); ok && info.Uses[id] == recv {
								if t := info.TypeOf(in); t != nil && mutatingContainerCall(t, se.Sel.Name) {
									out = append(out, evalFieldWrite{tn, in.Sel.Name, t, x.Pos()})
								}
								// recv.f.m(…) where f is a struct of this package and m writes its receiver
								// (a memo, a counter object embedded in the node)
								if m, ok := info.Uses[se.Sel].(*types.Func); ok && m.Pkg() == npkg.Types {
									if md := declOf(npkg, m); md != nil && methodWritesReceiver(info, md) {
										if t := info.TypeOf(in); t != nil {
											out = append(out, evalFieldWrite{tn, in.Sel.Name, t, x.Pos()})
										}
									}
								}
							}
						}
					}
					// append(recv.f, …) / copy(recv.f, …) / delete(recv.f, k) with the result dropped elsewhere are
					// assignments or builtins on the field
					if id, ok := ast.Unparen(x.Fun).(*ast.Ident); ok && len(x.Args) > 0 {
						if b, ok := info.Uses[id].(*types.Builtin); ok && (b.Name() == "delete" || b.Name() == "clear" || b.Name() == "copy") {
							if in, ok := ast.Unparen(x.Args[0]).(*ast.SelectorExpr); ok {
								if rid, ok := ast.Unparen(in.X).(*ast.Ident); ok && info.Uses[rid] == recv {
									if t := info.TypeOf(in); t != nil {
										out = append(out, evalFieldWrite{tn, in.Sel.Name, t, x.Pos()})
									}
								}
							}
						}
					}
				case *ast.IncDecStmt:
					base := ast.Unparen(x.X)
					if ix, ok := base.(*ast.IndexExpr); ok {
						base = ast.Unparen(ix.X)
					}
					if se, ok := base.(*ast.SelectorExpr); ok {
						if id, ok := ast.Unparen(se.X).(*ast.Ident); ok && info.Uses[id] == recv {
							if t := info.TypeOf(se); t != nil {
								out = append(out, evalFieldWrite{tn, se.Sel.Name, t, x.Pos()})
							}
						}
					}
				case *ast.AssignStmt:
					for _, l := range x.Lhs {
						// pe.f = …   or   pe.f[i] = …
						base := ast.Unparen(l)
						if ix, ok := base.(*ast.IndexExpr); ok {
							base = ast.Unparen(ix.X)
						}
						se, ok := base.(*ast.SelectorExpr)
						if !ok {
							continue
						}
						id, ok := ast.Unparen(se.X).(*ast.Ident)
						if !ok || info.Uses[id] != recv {
							continue
						}
						if t := info.TypeOf(se); t != nil {
							out = append(out, evalFieldWrite{tn, se.Sel.Name, t, x.Pos()})
						}
					}
				}
				return true
			})
		}
	}
	return out, examined
}

// c19SiteArgs: every `new C<…>` node carries a type-argument list of its own. Where the parser builds a
// node.NewClassGenerated, the slice it stores is made for this node — a literal, make, or a local grown
// from nil/a literal — and is not (a reslice of, or an append onto) a slice held in a field of the parser:
// a reused buffer gives all sites one backing array, so the site parsed last rewrites the others' arguments.
func c19SiteArgs(r *Run) {
	pp := r.pkg("parser")
	if pp == nil {
		return
	}
	r.curRule = "C19-MAP"
	info := pp.TypesInfo
	n := 0
	for _, fd := range funcDecls(pp) {
		if fd.Body == nil {
			continue
		}
		// roots of locals: does the value derive from a struct field?
		defs := map[types.Object][]ast.Expr{}
		ast.Inspect(fd.Body, func(m ast.Node) bool {
			if as, ok := m.(*ast.AssignStmt); ok && len(as.Lhs) == len(as.Rhs) {
				for i, l := range as.Lhs {
					if id, ok := l.(*ast.Ident); ok {
						o := info.Defs[id]
						if o == nil {
							o = info.Uses[id]
						}
						if o != nil {
							defs[o] = append(defs[o], as.Rhs[i])
						}
					}
				}
			}
			return true
		})
		var fromField func(e ast.Expr, depth int) (bool, string)
		fromField = func(e ast.Expr, depth int) (bool, string) {
			if depth > 4 {
				return false, ""
			}
			switch x := ast.Unparen(e).(type) {
			case *ast.SelectorExpr:
				if sel, ok := info.Selections[x]; ok && sel.Kind() == types.FieldVal {
					return true, exprStr(x)
				}
			case *ast.SliceExpr:
				return fromField(x.X, depth+1)
			case *ast.CallExpr:
				if id, ok := ast.Unparen(x.Fun).(*ast.Ident); ok && id.Name == "append" && len(x.Args) > 0 {
					return fromField(x.Args[0], depth+1)
				}
			case *ast.Ident:
				for _, d := range defs[info.Uses[x]] {
					if id2, ok := ast.Unparen(d).(*ast.CallExpr); ok {
						if fid, ok := ast.Unparen(id2.Fun).(*ast.Ident); ok && fid.Name == "append" && len(id2.Args) > 0 {
							if a0, ok := ast.Unparen(id2.Args[0]).(*ast.Ident); ok && info.Uses[a0] == info.Uses[x] {
								continue // x = append(x, …): the root is x's other definitions
							}
						}
					}
					if ok, why := fromField(d, depth+1); ok {
						return true, why
					}
				}
			}
			return false, ""
		}
		ast.Inspect(fd.Body, func(m ast.Node) bool {
			cl, ok := m.(*ast.CompositeLit)
			if !ok || !isNamed(info.TypeOf(cl), modPath+"/node", "NewClassGenerated") {
				return true
			}
			for _, el := range cl.Elts {
				kv, ok := el.(*ast.KeyValueExpr)
				if !ok {
					continue
				}
				if _, isSlice := info.TypeOf(kv.Value).Underlying().(*types.Slice); !isSlice {
					continue
				}
				n++
				key := funcKey(pp, fd) + "#site-arguments:" + exprStr(kv.Key)
				if shared, why := fromField(kv.Value, 0); shared {
					r.bad(key, kv.Pos(), "the type-argument list stored in this `new C<…>` node is built on "+why+", a slice held by the parser: every site parsed with the same parser shares its backing array, so a site parsed later overwrites the arguments of the earlier ones")
				} else {
					r.ok(key, kv.Pos(), "the type-argument list of this site is a slice made for this node")
				}
			}
			return true
		})
	}
	if n == 0 {
		r.fail("no construction of node.NewClassGenerated with a type-argument list found in package parser")
	}
}

// c19Site: no node type stores a declaration (data.Property / data.Types) into itself during evaluation.
func c19Site(r *Run) {
	c19SiteArgs(r)
	c19OwnClassFirst(r)
	r.curRule = "C19-SITE"
	npkg := r.pkg("node")
	if npkg == nil {
		return
	}
	isDecl := func(t types.Type) bool {
		return isNamed(t, modPath+"/data", "Property") || isNamed(t, modPath+"/data", "Types") || isNamed(t, modPath+"/data", "ClassStmt")
	}
	// resolution caches of names written in the source (new Foo, an annotation's class): the same answer
	// for every instantiation; listed with reasons in nodeStateTable
	tabled := map[string]bool{}
	for _, e := range nodeStateTable {
		tabled[e[0]] = true
	}
	writes, examined := evalClosureFieldWrites(npkg)
	if os.Getenv("DUMPWRITES") != "" {
		for _, w := range writes {
			fmt.Fprintf(os.Stderr, "EVALWRITE %s.%s %s %s\n", w.typeName, w.field, types.TypeString(w.ftype, func(p *types.Package) string { return p.Name() }), r.pos(w.pos))
		}
	}
	bad := map[string]bool{}
	for _, w := range writes {
		if isDecl(w.ftype) && !tabled[w.typeName+"."+w.field] {
			bad[w.typeName] = true
			r.bad("node.("+w.typeName+")#remembers:"+w.field, w.pos, "during evaluation the node stores a "+types.TypeString(w.ftype, func(p *types.Package) string { return p.Name() })+" in its own field "+w.field+": the AST node is shared by every object that reaches this site, so one instantiation's declaration is later applied to another")
		}
	}
	tns := []string{}
	for tn := range examined {
		tns = append(tns, tn)
	}
	sort.Strings(tns)
	for _, tn := range tns {
		if !bad[tn] {
			r.ok("node.("+tn+")#stateless-site", examined[tn], "evaluation methods keep no declaration in the node")
		}
	}
}

func firstKey(m map[string]*ast.FuncDecl) string {
	ks := []string{}
	for k := range m {
		ks = append(ks, k)
	}
	sort.Strings(ks)
	return ks[0]
}

// freshMapResolve finds the declaration of a function of another module package (set by c19Run).
var freshMapResolve func(*types.Func) (*packages.Package, *ast.FuncDecl)

// freshMapExpr: e builds a new map in this call: make(map…), a composite literal, or a call of a package
// function every map-typed return of which is such a fresh map (built in that function).
func freshMapExpr(info *types.Info, p *packages.Package, e ast.Expr, depth int) bool {
	switch rv := ast.Unparen(e).(type) {
	case *ast.CompositeLit:
		return true
	case *ast.CallExpr:
		if mid, ok := ast.Unparen(rv.Fun).(*ast.Ident); ok && mid.Name == "make" {
			return true
		}
		if depth > 1 {
			return false
		}
		callee := calleeOf(info, rv)
		// a helper of another package of the module (data.BindTypeArguments): judged in its own package
		if cf, ok := callee.(*types.Func); ok && cf.Pkg() != nil && cf.Pkg() != p.Types && freshMapResolve != nil {
			if hp, hd := freshMapResolve(cf); hd != nil {
				p, info = hp, hp.TypesInfo
				callee = hp.TypesInfo.Defs[hd.Name]
			}
		}
		// a conversion to a named map type keeps the identity of the map
		if tv, ok := info.Types[rv.Fun]; ok && tv.IsType() && len(rv.Args) == 1 {
			return freshMapExpr(info, p, rv.Args[0], depth)
		}
		for _, fd := range funcDecls(p) {
			if info.Defs[fd.Name] != callee {
				continue
			}
			// locals of the helper that are fresh maps
			freshLocal := map[types.Object]bool{}
			ast.Inspect(fd.Body, func(n ast.Node) bool {
				if as, ok := n.(*ast.AssignStmt); ok && len(as.Lhs) == 1 && len(as.Rhs) == 1 {
					if id, ok := as.Lhs[0].(*ast.Ident); ok {
						if o := info.Defs[id]; o != nil && freshMapExpr(info, p, as.Rhs[0], depth+1) {
							freshLocal[o] = true
						}
					}
				}
				return true
			})
			all, n := true, 0
			ast.Inspect(fd.Body, func(n2 ast.Node) bool {
				if _, ok := n2.(*ast.FuncLit); ok {
					return false
				}
				rs, ok := n2.(*ast.ReturnStmt)
				if !ok || len(rs.Results) == 0 {
					return true
				}
				res := ast.Unparen(rs.Results[0])
				if exprStr(res) == "nil" {
					return true
				}
				n++
				if id, ok := res.(*ast.Ident); ok && freshLocal[info.Uses[id]] {
					return true
				}
				if freshMapExpr(info, p, res, depth+1) {
					return true
				}
				all = false
				return true
			})
			return all && n > 0
		}
	}
	return false
}

// mutatingContainerCall: method name of a standard mutable container (sync.Map, sync.Pool,
// bytes.Buffer, strings.Builder, atomic values) that changes it.
func mutatingContainerCall(t types.Type, method string) bool {
	if pt, ok := t.(*types.Pointer); ok {
		t = pt.Elem()
	}
	nt := namedOf(t)
	if nt == nil || nt.Obj().Pkg() == nil {
		return false
	}
	switch nt.Obj().Pkg().Path() {
	case "sync":
		switch method {
		case "Store", "LoadOrStore", "LoadAndDelete", "Delete", "Swap", "CompareAndSwap", "Put", "Range":
			return method != "Range"
		}
	case "sync/atomic":
		switch method {
		case "Store", "Swap", "CompareAndSwap", "Add":
			return true
		}
	case "bytes", "strings":
		switch method {
		case "Write", "WriteString", "WriteByte", "WriteRune", "Reset", "Grow", "Truncate":
			return true
		}
	}
	return false
}

// methodWritesReceiver: a pointer-receiver method that assigns to a field of its receiver.
func methodWritesReceiver(info *types.Info, md *ast.FuncDecl) bool {
	if md.Recv == nil || len(md.Recv.List) != 1 || len(md.Recv.List[0].Names) != 1 || md.Body == nil {
		return false
	}
	if _, isPtr := info.TypeOf(md.Recv.List[0].Type).(*types.Pointer); !isPtr {
		return false
	}
	recv := info.Defs[md.Recv.List[0].Names[0]]
	writes := false
	ast.Inspect(md.Body, func(n ast.Node) bool {
		var targets []ast.Expr
		switch x := n.(type) {
		case *ast.AssignStmt:
			targets = x.Lhs
		case *ast.IncDecStmt:
			targets = []ast.Expr{x.X}
		}
		for _, l := range targets {
			base := ast.Unparen(l)
			if ix, ok := base.(*ast.IndexExpr); ok {
				base = ast.Unparen(ix.X)
			}
			if se, ok := base.(*ast.SelectorExpr); ok {
				if id, ok := ast.Unparen(se.X).(*ast.Ident); ok && info.Uses[id] == recv {
					writes = true
				}
			}
		}
		return !writes
	})
	return writes
}

// c19OwnClassFirst: the declared type of a property is the one of the object's own instantiation. The
// lookup behind every typed property write, (ClassValue).GetPropertyStmt, therefore starts at the class
// the object was created from (the receiver's Class field) — not at a class looked up again by name in
// the VM, which for a generic class is the shared template (every Box<X> would then answer alike).
func c19OwnClassFirst(r *Run) {
	dp := r.pkg("data")
	if dp == nil {
		return
	}
	r.curRule = "C19-SHARED"
	info := dp.TypesInfo
	fd := findFunc(dp, "ClassValue", "GetPropertyStmt")
	if fd == nil || fd.Recv == nil || len(fd.Recv.List[0].Names) == 0 {
		r.fail("anchor not found: data.(ClassValue).GetPropertyStmt")
		return
	}
	recv := info.Defs[fd.Recv.List[0].Names[0]]
	isOwn := func(e ast.Expr) bool {
		se, ok := ast.Unparen(e).(*ast.SelectorExpr)
		if !ok || se.Sel.Name != "Class" {
			return false
		}
		id, ok := ast.Unparen(se.X).(*ast.Ident)
		return ok && info.Uses[id] == recv
	}
	var first *ast.CallExpr
	ast.Inspect(fd.Body, func(n ast.Node) bool {
		if c, ok := n.(*ast.CallExpr); ok {
			if se, ok := ast.Unparen(c.Fun).(*ast.SelectorExpr); ok && se.Sel.Name == "GetProperty" && isNamed(info.TypeOf(se.X), modPath+"/data", "ClassStmt") {
				if first == nil || c.Pos() < first.Pos() {
					first = c
				}
			}
		}
		return true
	})
	key := funcKey(dp, fd) + "#own-class-first"
	if first == nil {
		// the lookup may go through a probe closure applied to c.Class first (judged by C08-LOOKUP's twin rule)
		applied := false
		ast.Inspect(fd.Body, func(n ast.Node) bool {
			if c, ok := n.(*ast.CallExpr); ok {
				for _, a := range c.Args {
					if isOwn(a) {
						applied = true
					}
				}
				if se, ok := ast.Unparen(c.Fun).(*ast.SelectorExpr); ok && isOwn(se.X) {
					applied = true
				}
			}
			return true
		})
		if applied {
			r.ok(key, fd.Pos(), "the property lookup is applied to the object's own class")
		} else {
			r.fail("data.(ClassValue).GetPropertyStmt: no property lookup on a class declaration found")
		}
		return
	}
	target := ast.Unparen(first.Fun.(*ast.SelectorExpr).X)
	ok := isOwn(target)
	why := ""
	if id, isID := target.(*ast.Ident); isID && !ok {
		o := info.Uses[id]
		ok = true
		seen := false
		ast.Inspect(fd.Body, func(n ast.Node) bool {
			as, isAs := n.(*ast.AssignStmt)
			if !isAs || as.Pos() >= first.Pos() || len(as.Lhs) != len(as.Rhs) {
				return true
			}
			for i, l := range as.Lhs {
				if lid, isL := l.(*ast.Ident); isL && (info.Defs[lid] == o || info.Uses[lid] == o) {
					seen = true
					if !isOwn(as.Rhs[i]) {
						ok = false
						why = exprStr(as.Rhs[i])
					}
				}
			}
			return true
		})
		if !seen {
			ok = false
		}
	}
	if ok {
		r.ok(key, first.Pos(), "the first property lookup is on the class the object was created from")
	} else {
		r.bad(key, first.Pos(), "the property declaration is first looked up on "+exprStr(target)+" ("+why+"), not on the object's own class: for an instance of a generic class that is the shared template, so every instantiation answers with the same (unbound) member types")
	}
}
