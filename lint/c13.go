package main

import (
	"fmt"
	"go/ast"
	"go/constant"
	"go/token"
	"go/types"
	"sort"
	"strings"

	"golang.org/x/tools/go/packages"
)

const httpPkgRel = "std/net/http"

func init() {
	register(&PropDef{
		ID:       "C13",
		Patterns: []string{"./std/net/http"},
		Explanation: "Commit-once typestate of std/net/http.bufferedWriter decided on every path of its methods: the embedded net/http.ResponseWriter's WriteHeader is reached only after headerSent was observed false and is set true (so a second commit is unreachable), every body write to the underlying writer happens after the header commit, status/statusSet are only assigned while headerSent is known false, a recorded status is either marked pending or committed, the committed code is the recorded status, the raw writer is touched only by bufferedWriter's own methods, and every beginResponse is paired with a deferred commitPending. " +
			"These are the structural conditions that make 'at most one header commit; pre-commit status reaches the client; post-commit calls cannot alter it' hold for every call order. Middleware ordering and the bytes seen by the client are not decided.",
		Assumptions: []string{
			"net/http.ResponseWriter contract: first Write commits an implicit 200 if WriteHeader was not called",
			"method summaries (\"ensures headerSent\") are computed from the method bodies on every run",
			"one goroutine per response (no concurrent use of one bufferedWriter)",
		},
		Rules: []RuleDef{
			{Name: "C13-SINGLE", Floor: 1, Doc: "the underlying WriteHeader is called only inside bufferedWriter, after headerSent tested false, and headerSent is true on every exit after it", Run: c13Run},
			{Name: "C13-BODY", Floor: 1, Doc: "every body write to the underlying ResponseWriter is preceded on all paths by the header commit (sendHeader/WriteHeader)", Run: nop},
			{Name: "C13-FROZEN", Floor: 2, Doc: "status and statusSet are assigned only where headerSent is known false", Run: nop},
			{Name: "C13-PENDING", Floor: 1, Doc: "a method that records a status marks it pending (statusSet=true) or commits before returning", Run: nop},
			{Name: "C13-VALUE", Floor: 1, Doc: "the code handed to the commit is the recorded status", Run: nop},
			{Name: "C13-OWNER", Floor: 3, Doc: "the raw ResponseWriter is used only inside bufferedWriter's methods; Write/WriteHeader are bufferedWriter's own methods; no interface-typed ResponseWriter is written to elsewhere in the package", Run: nop},
			{Name: "C13-DISPATCH", Floor: 4, Doc: "each script-facing response method (status, writeHeader, write, redirect, noContent, json, html, header, cookie) reaches the bufferedWriter operation of that name", Run: nop},
			{Name: "C13-MWORDER", Floor: 0, Doc: "applyMiddlewares: for the recognised shape (sort of a copy by priority + wrapping loop) the comparator direction, the stability of the sort and the wrapping direction together give ascending priority outermost-first with ties in registration order; unrecognised shapes are not judged", Run: nop},
			{Name: "C13-PAIR", Floor: 2, Doc: "each beginResponse call is followed by defer commitPending on the same writer before any handler code or exit", Run: nop},
		},
	})
}

func nop(r *Run) {}

type hsState struct {
	sent        int // 0 unknown, 1 false, 2 true
	testedFalse bool
	sp          uint8        // set of possible (status assigned, statusSet=true assigned) combinations on the paths joined here: bit (2*a+p)
	statusFrom  types.Object // identifier most recently copied into b.status
	committed   bool         // raw WriteHeader called on this path
	owed        bool         // some path here found the status pending and has not committed it yet
}

func (s *hsState) clone() *hsState { c := *s; return &c }

// funcUnit is a function body analysed on its own: a declaration or a literal.
type funcUnit struct {
	decl *ast.FuncDecl
	lit  *ast.FuncLit
	body *ast.BlockStmt
	name string
}

func funcUnits(p *packages.Package) []funcUnit {
	var out []funcUnit
	for _, fd := range funcDecls(p) {
		fk := funcKey(p, fd)
		out = append(out, funcUnit{decl: fd, body: fd.Body, name: fk})
		n := 0
		ast.Inspect(fd.Body, func(nd ast.Node) bool {
			if l, ok := nd.(*ast.FuncLit); ok {
				n++
				out = append(out, funcUnit{decl: fd, lit: l, body: l.Body, name: fmt.Sprintf("%s$lit%d", fk, n)})
			}
			return true
		})
	}
	return out
}

func c13Run(r *Run) {
	pkg := r.pkg(httpPkgRel)
	bw := r.lookupType(pkg, "bufferedWriter")
	if bw == nil {
		return
	}
	info := pkg.TypesInfo
	var fRaw *types.Var
	st := bw.Underlying().(*types.Struct)
	for i := 0; i < st.NumFields(); i++ {
		// the wrapped writer: embedded, or held in a named field
		if f := st.Field(i); isNamed(f.Type(), "net/http", "ResponseWriter") {
			fRaw = f
		}
	}
	if fRaw == nil {
		r.fail("bufferedWriter holds no net/http.ResponseWriter (embedded or as a field)")
		return
	}
	// the state fields are found by their role, not by their names:
	//   committed flag = the bool field set to true in the method that calls the raw WriteHeader
	//   status         = the int field of the struct
	//   pending flag   = the other bool field, set to true in a method that also assigns the status
	var fHeaderSent, fStatus, fStatusSet *types.Var
	{
		selField := func(e ast.Expr) *types.Var {
			se, ok := ast.Unparen(e).(*ast.SelectorExpr)
			if !ok {
				return nil
			}
			if s, ok := info.Selections[se]; ok {
				if v, ok := s.Obj().(*types.Var); ok {
					return v
				}
			}
			return nil
		}
		own := func(v *types.Var) bool {
			for i := 0; i < st.NumFields(); i++ {
				if st.Field(i) == v {
					return true
				}
			}
			return false
		}
		for i := 0; i < st.NumFields(); i++ {
			if b, ok := st.Field(i).Type().Underlying().(*types.Basic); ok && b.Kind() == types.Int && fStatus == nil {
				fStatus = st.Field(i)
			}
		}
		var testedInCommit *types.Var
		for _, fd := range funcDecls(pkg) {
			if recvTypeName(fd) != "bufferedWriter" {
				continue
			}
			callsRawWH, setsStatus := false, false
			var trueBools []*types.Var
			ast.Inspect(fd.Body, func(n ast.Node) bool {
				switch x := n.(type) {
				case *ast.CallExpr:
					if se, ok := ast.Unparen(x.Fun).(*ast.SelectorExpr); ok && se.Sel.Name == "WriteHeader" && selField(se.X) == fRaw {
						callsRawWH = true
					}
				case *ast.AssignStmt:
					for i, l := range x.Lhs {
						f := selField(l)
						if f == nil || !own(f) {
							continue
						}
						if f == fStatus {
							setsStatus = true
						}
						if b, ok := f.Type().Underlying().(*types.Basic); ok && b.Kind() == types.Bool && i < len(x.Rhs) && exprStr(x.Rhs[i]) == "true" {
							trueBools = append(trueBools, f)
						}
					}
				}
				return true
			})
			if callsRawWH && len(trueBools) > 0 && fHeaderSent == nil {
				fHeaderSent = trueBools[0]
			}
			if callsRawWH {
				// fallback: the bool field tested in the committing method (the flag may be the very
				// thing a defect forgets to set)
				ast.Inspect(fd.Body, func(n ast.Node) bool {
					if is, ok := n.(*ast.IfStmt); ok && testedInCommit == nil {
						ast.Inspect(is.Cond, func(m ast.Node) bool {
							if e, ok := m.(ast.Expr); ok {
								if f := selField(e); f != nil && own(f) {
									if b, ok := f.Type().Underlying().(*types.Basic); ok && b.Kind() == types.Bool {
										testedInCommit = f
									}
								}
							}
							return true
						})
					}
					return true
				})
			}
			_ = setsStatus
		}
		if fHeaderSent == nil {
			fHeaderSent = testedInCommit
		}
		if fHeaderSent == nil {
			// last resort: the bool whose negation guards a call of the own WriteHeader
			for _, fd := range funcDecls(pkg) {
				if recvTypeName(fd) != "bufferedWriter" {
					continue
				}
				ast.Inspect(fd.Body, func(n ast.Node) bool {
					is, ok := n.(*ast.IfStmt)
					if !ok || fHeaderSent != nil {
						return true
					}
					calls := false
					ast.Inspect(is.Body, func(m ast.Node) bool {
						if c, ok := m.(*ast.CallExpr); ok {
							if se, ok := ast.Unparen(c.Fun).(*ast.SelectorExpr); ok && se.Sel.Name == "WriteHeader" {
								calls = true
							}
						}
						return true
					})
					if !calls {
						return true
					}
					ast.Inspect(is.Cond, func(m ast.Node) bool {
						if u, ok := m.(*ast.UnaryExpr); ok && u.Op == token.NOT {
							if f := selField(u.X); f != nil && own(f) && fHeaderSent == nil {
								fHeaderSent = f
							}
						}
						return true
					})
					return true
				})
			}
		}
		for _, fd := range funcDecls(pkg) {
			if recvTypeName(fd) != "bufferedWriter" {
				continue
			}
			setsStatus := false
			var cand *types.Var
			ast.Inspect(fd.Body, func(n ast.Node) bool {
				if x, ok := n.(*ast.AssignStmt); ok {
					for i, l := range x.Lhs {
						f := selField(l)
						if f == nil || !own(f) {
							continue
						}
						if f == fStatus {
							setsStatus = true
						}
						if b, ok := f.Type().Underlying().(*types.Basic); ok && b.Kind() == types.Bool && f != fHeaderSent && i < len(x.Rhs) && exprStr(x.Rhs[i]) == "true" {
							cand = f
						}
					}
				}
				return true
			})
			if setsStatus && cand != nil && fStatusSet == nil {
				fStatusSet = cand
			}
		}
	}
	// the same two facts kept in one state field: an integer-kind field of a named type of this package
	// whose constants are stored where the flags would be set — "committed" in the method that calls the
	// raw WriteHeader, "pending" in a method that records the status without committing
	var fPhase *types.Var
	var cCommitted, cPending types.Object
	if fHeaderSent == nil || fStatusSet == nil {
		selField := func(e ast.Expr) *types.Var {
			if se, ok := ast.Unparen(e).(*ast.SelectorExpr); ok {
				if sl, ok := info.Selections[se]; ok {
					if v, ok := sl.Obj().(*types.Var); ok {
						return v
					}
				}
			}
			return nil
		}
		for i := 0; i < st.NumFields(); i++ {
			f := st.Field(i)
			if b, ok := f.Type().Underlying().(*types.Basic); ok && b.Info()&types.IsInteger != 0 {
				if nt := namedOf(f.Type()); nt != nil && nt.Obj().Pkg() == pkg.Types {
					fPhase = f
				}
			}
		}
		if fPhase != nil {
			for _, fd := range funcDecls(pkg) {
				if recvTypeName(fd) != "bufferedWriter" {
					continue
				}
				callsRawWH, setsStatus := false, false
				var stored []types.Object
				ast.Inspect(fd.Body, func(n ast.Node) bool {
					switch x := n.(type) {
					case *ast.CallExpr:
						if se, ok := ast.Unparen(x.Fun).(*ast.SelectorExpr); ok && se.Sel.Name == "WriteHeader" && selField(se.X) == fRaw {
							callsRawWH = true
						}
					case *ast.AssignStmt:
						for i, l := range x.Lhs {
							switch selField(l) {
							case fStatus:
								setsStatus = true
							case fPhase:
								if i < len(x.Rhs) {
									if id, ok := ast.Unparen(x.Rhs[i]).(*ast.Ident); ok {
										if c, ok := info.Uses[id].(*types.Const); ok {
											stored = append(stored, c)
										}
									}
								}
							}
						}
					}
					return true
				})
				if callsRawWH && len(stored) == 0 && cCommitted == nil {
					// the committing method may be the very place a defect forgets to store the state:
					// fall back on the constant its guard compares the state with
					ast.Inspect(fd.Body, func(n ast.Node) bool {
						if be, ok := n.(*ast.BinaryExpr); ok && (be.Op == token.EQL || be.Op == token.NEQ) && cCommitted == nil {
							var other ast.Expr
							if selField(be.X) == fPhase {
								other = be.Y
							} else if selField(be.Y) == fPhase {
								other = be.X
							}
							if other != nil {
								if id, ok := ast.Unparen(other).(*ast.Ident); ok {
									if c, ok := info.Uses[id].(*types.Const); ok {
										cCommitted = c
									}
								}
							}
						}
						return true
					})
				}
				if len(stored) == 0 {
					continue
				}
				if callsRawWH && cCommitted == nil {
					cCommitted = stored[0]
				}
				if !callsRawWH && setsStatus && cPending == nil {
					cPending = stored[0]
				}
			}
		}
		if fPhase == nil || cCommitted == nil || cPending == nil || cCommitted == cPending {
			fPhase = nil
		}
	}
	if fStatus == nil || ((fHeaderSent == nil || fStatusSet == nil) && fPhase == nil) {
		r.fail("bufferedWriter: cannot identify the committed flag, the status field and the pending flag (or a state field with a committed and a pending value) by their roles")
		return
	}
	fieldOf := func(e ast.Expr) *types.Var {
		se, ok := ast.Unparen(e).(*ast.SelectorExpr)
		if !ok {
			return nil
		}
		if s, ok := info.Selections[se]; ok {
			if v, ok := s.Obj().(*types.Var); ok {
				return v
			}
		}
		return nil
	}
	isRawExpr := func(e ast.Expr) bool { return fieldOf(e) == fRaw }
	constObj := func(e ast.Expr) types.Object {
		if id, ok := ast.Unparen(e).(*ast.Ident); ok {
			if c, ok := info.Uses[id].(*types.Const); ok {
				return c
			}
		}
		return nil
	}
	// phaseCmp: e is `phase == K` / `phase != K`; returns K and whether the comparison is an equality
	phaseCmp := func(e ast.Expr) (types.Object, bool, bool) {
		be, ok := ast.Unparen(e).(*ast.BinaryExpr)
		if !ok || fPhase == nil || (be.Op != token.EQL && be.Op != token.NEQ) {
			return nil, false, false
		}
		var k types.Object
		switch {
		case fieldOf(be.X) == fPhase:
			k = constObj(be.Y)
		case fieldOf(be.Y) == fPhase:
			k = constObj(be.X)
		}
		return k, be.Op == token.EQL, k != nil
	}
	// sentTest: what outcome `truth` of e says about "the header is committed": 2 yes, 1 no, 0 nothing
	sentTest := func(e ast.Expr, truth bool) int {
		if fPhase == nil {
			if fieldOf(e) == fHeaderSent {
				if truth {
					return 2
				}
				return 1
			}
			return 0
		}
		k, eq, ok := phaseCmp(e)
		if !ok {
			return 0
		}
		holds := eq == truth
		switch {
		case k == cCommitted && holds:
			return 2
		case k == cCommitted:
			return 1
		case holds:
			return 1 // the state is some other value
		}
		return 0
	}
	// mentionsPending: the expression consults the pending state
	mentionsPending := func(e ast.Expr) bool {
		if fPhase == nil {
			return fieldOf(e) == fStatusSet
		}
		if k, _, ok := phaseCmp(e); ok && k == cPending {
			return true
		}
		return constObj(e) == cPending
	}

	// own methods
	methods := map[*types.Func]*ast.FuncDecl{}
	for _, fd := range funcDecls(pkg) {
		if recvTypeName(fd) == "bufferedWriter" {
			if o, ok := info.Defs[fd.Name].(*types.Func); ok {
				methods[o] = fd
			}
		}
	}
	// OWNER(a): Write and WriteHeader are explicit methods
	r.curRule = "C13-OWNER"
	for _, name := range []string{"Write", "WriteHeader"} {
		obj, _, _ := types.LookupFieldOrMethod(types.NewPointer(bw), true, pkg.Types, name)
		fn, _ := obj.(*types.Func)
		key := "bufferedWriter#own-method:" + name
		if fn == nil || methods[fn] == nil {
			r.bad(key, bw.Obj().Pos(), name+" is not declared on bufferedWriter itself: calls fall through to the raw writer and bypass the commit-once state")
		} else {
			r.ok(key, fn.Pos(), name+" is bufferedWriter's own method")
		}
	}

	// summaries: ensures headerSent at every exit
	ensures := map[*types.Func]bool{}
	type siteReport struct {
		rule, key, msg string
		pos            token.Pos
		ok             bool
	}
	var reports []siteReport
	analyse := func(fn *types.Func, fd *ast.FuncDecl, emit bool) bool {
		fk := funcKey(pkg, fd)
		allSent := true
		rep := func(rule, key string, pos token.Pos, ok bool, msg string) {
			if emit {
				reports = append(reports, siteReport{rule, fk + "#" + key, msg, pos, ok})
			}
		}
		testsPending := false
		ast.Inspect(fd.Body, func(n ast.Node) bool {
			switch x := n.(type) {
			case *ast.IfStmt:
				ast.Inspect(x.Cond, func(m ast.Node) bool {
					if e, ok := m.(ast.Expr); ok && mentionsPending(e) {
						testsPending = true
					}
					return true
				})
			case *ast.SwitchStmt:
				if x.Tag != nil && fPhase != nil && fieldOf(x.Tag) == fPhase {
					testsPending = true
				}
			}
			return true
		})
		litParam := map[types.Object]*ast.FuncLit{} // function-typed parameters of the own method being expanded
		expandDepth := 0
		h := &Hooks{Info: info}
		h.CaseMatch = func(tag, val ast.Expr, truth bool, st State) State {
			s := st.(*hsState)
			if fPhase != nil && fieldOf(tag) == fPhase {
				k := constObj(val)
				switch {
				case k == cCommitted && truth:
					s.sent, s.testedFalse, s.owed = 2, false, false
				case k == cCommitted:
					s.sent, s.testedFalse = 1, true
				case k != nil && truth:
					s.sent, s.testedFalse = 1, true
					if k == cPending {
						s.owed = true
					}
				}
			}
			return s
		}
		h.Copy = func(s State) State { return s.(*hsState).clone() }
		h.Join = func(a, b State) State {
			x, y := a.(*hsState), b.(*hsState)
			n := x.clone()
			if x.sent != y.sent {
				n.sent = 0
			}
			n.testedFalse = x.testedFalse && y.testedFalse
			n.sp = x.sp | y.sp
			if x.statusFrom != y.statusFrom {
				n.statusFrom = nil
			}
			n.committed = x.committed || y.committed
			n.owed = x.owed || y.owed
			return n
		}
		h.Equal = func(a, b State) bool { return *a.(*hsState) == *b.(*hsState) }
		h.Cond = func(e ast.Expr, truth bool, st State) State {
			s := st.(*hsState)
			switch sentTest(e, truth) {
			case 2:
				s.sent = 2
				s.testedFalse = false
				s.owed = false
			case 1:
				s.sent = 1
				s.testedFalse = true
			}
			if truth && mentionsPending(e) && s.sent != 2 {
				s.owed = true
			}
			return s
		}
		h.Visit = func(e ast.Expr, st State) State {
			s := st.(*hsState)
			call, ok := e.(*ast.CallExpr)
			if !ok {
				return s
			}
			callee, _ := calleeOf(info, call).(*types.Func)
			if se, ok := ast.Unparen(call.Fun).(*ast.SelectorExpr); ok && isRawExpr(se.X) && callee != nil {
				switch callee.Name() {
				case "WriteHeader":
					good := s.testedFalse
					msg := "underlying WriteHeader reached with headerSent observed false on this path"
					if !good {
						msg = "underlying WriteHeader reachable without a preceding test that headerSent is false: a second header commit is possible"
					}
					rep("C13-SINGLE", "raw.WriteHeader", call.Pos(), good, msg)
					if len(call.Args) == 1 {
						okv := false
						if fieldOf(call.Args[0]) == fStatus {
							okv = true
						} else if id, ok := ast.Unparen(call.Args[0]).(*ast.Ident); ok && s.statusFrom != nil && info.Uses[id] == s.statusFrom {
							okv = true
						}
						m := "committed code is the recorded status"
						if !okv {
							m = "the code passed to the underlying WriteHeader is not the recorded status (b.status or the value just stored in it)"
						}
						rep("C13-VALUE", "raw.WriteHeader-arg", call.Pos(), okv, m)
					}
					s.testedFalse = false
					s.committed = true
					s.owed = false
				case "Write":
					good := s.sent == 2
					m := "body write after the header commit"
					if !good {
						m = "body bytes written to the underlying writer on a path where the header may not have been committed by bufferedWriter (an implicit 200 would be sent and the recorded status lost)"
					}
					rep("C13-BODY", "raw.Write", call.Pos(), good, m)
				case "Header":
				default:
					rep("C13-OWNER", "raw."+callee.Name(), call.Pos(), false, "unexpected method "+callee.Name()+" called on the raw writer")
				}
				return s
			}
			// raw writer passed as an argument
			for i, a := range call.Args {
				if !isRawExpr(a) {
					continue
				}
				switch {
				case callee != nil && isPkgFunc(callee, "io", "Copy") && i == 0, callee != nil && isPkgFunc(callee, "io", "CopyN") && i == 0, callee != nil && isPkgFunc(callee, "io", "WriteString") && i == 0,
					callee != nil && isPkgFunc(callee, "fmt", "Fprintf") && i == 0, callee != nil && isPkgFunc(callee, "fmt", "Fprint") && i == 0, callee != nil && isPkgFunc(callee, "fmt", "Fprintln") && i == 0:
					good := s.sent == 2
					m := "body copy after the header commit"
					if !good {
						m = "body bytes copied to the underlying writer on a path where the header may not have been committed"
					}
					rep("C13-BODY", "raw<-"+callee.Name(), call.Pos(), good, m)
				case callee != nil && isPkgFunc(callee, "net/http", "SetCookie"):
					rep("C13-OWNER", "raw->SetCookie", call.Pos(), true, "header-only helper")
				default:
					n := "?"
					if callee != nil {
						n = callee.Name()
					}
					rep("C13-OWNER", "raw->"+n, call.Pos(), false, "raw writer handed to "+n+": it can commit or write behind bufferedWriter's back")
				}
			}
			// a function literal bound to a parameter of the own method being expanded: its body runs here
			if id, ok := ast.Unparen(call.Fun).(*ast.Ident); ok {
				if lit := litParam[info.Uses[id]]; lit != nil && expandDepth < 4 {
					expandDepth++
					sub := *h
					var outs []hsState
					sub.Return = func(rs *ast.ReturnStmt, st State) { outs = append(outs, *st.(*hsState)) }
					sub.End = func(st State) { outs = append(outs, *st.(*hsState)) }
					cp := *s
					WalkFunc(&sub, lit.Body, &cp)
					expandDepth--
					if len(outs) > 0 {
						j := outs[0]
						for i := range outs[1:] {
							j = *h.Join(&j, &outs[i+1]).(*hsState)
						}
						*s = j
					}
					return s
				}
			}
			// an own method that is handed a function literal (a guard wrapper: `b.uncommitted(func() { … })`):
			// the method is walked in the current state with the literal in place of its parameter
			if callee != nil && methods[callee] != nil && methods[callee] != fd && expandDepth < 4 {
				cd := methods[callee]
				var bound []types.Object
				k := 0
				for _, f := range cd.Type.Params.List {
					for _, nm := range f.Names {
						if k < len(call.Args) {
							if lit, ok := ast.Unparen(call.Args[k]).(*ast.FuncLit); ok {
								po := info.Defs[nm]
								litParam[po] = lit
								bound = append(bound, po)
							}
						}
						k++
					}
				}
				if len(bound) > 0 {
					expandDepth++
					sub := *h
					var outs []hsState
					sub.Return = func(rs *ast.ReturnStmt, st State) { outs = append(outs, *st.(*hsState)) }
					sub.End = func(st State) { outs = append(outs, *st.(*hsState)) }
					cp := *s
					WalkFunc(&sub, cd.Body, &cp)
					expandDepth--
					for _, po := range bound {
						delete(litParam, po)
					}
					if len(outs) > 0 {
						j := outs[0]
						for i := range outs[1:] {
							j = *h.Join(&j, &outs[i+1]).(*hsState)
						}
						*s = j
					}
					return s
				}
			}
			// own methods
			if callee != nil && methods[callee] != nil {
				if callee.Name() == "WriteHeader" && len(call.Args) == 1 {
					okv := fieldOf(call.Args[0]) == fStatus
					if fd.Name.Name != "WriteHeader" {
						m := "internal commit passes b.status"
						if !okv {
							m = "internal commit passes something other than the recorded status"
						}
						rep("C13-VALUE", "WriteHeader-arg", call.Pos(), okv, m)
					}
				}
				if ensures[callee] {
					s.sent = 2
					s.owed = false
					s.testedFalse = false
				} else if callee.Name() != "Header" {
					// unknown effect on the flag
					if s.sent == 1 {
						// methods never clear headerSent (checked by FROZEN-like rule below); false may become true
						s.sent = 0
					}
					s.testedFalse = false
				}
			}
			return s
		}
		h.Stmt = func(stm ast.Stmt, st State) State {
			s := st.(*hsState)
			as, ok := stm.(*ast.AssignStmt)
			if !ok {
				return s
			}
			for i, l := range as.Lhs {
				f := fieldOf(l)
				if f == nil {
					continue
				}
				if fPhase != nil && f == fPhase {
					var k types.Object
					if len(as.Rhs) == len(as.Lhs) {
						k = constObj(as.Rhs[i])
					}
					switch {
					case k == cCommitted:
						s.sent = 2
					case k == cPending:
						good := s.sent == 1
						m := "the pending state is entered where the header is known not to be committed"
						if !good {
							m = "the state is set to pending on a path where the header may already have been sent: the commit-once state is lost"
						}
						rep("C13-FROZEN", "assign:statusSet", l.Pos(), good, m)
						s.sp = spMap(s.sp, func(a, p bool) (bool, bool) { return a, true })
					default:
						if s.sent != 1 {
							rep("C13-SINGLE", "headerSent-cleared", l.Pos(), false, "the state field is assigned a value other than committed on a path where the header may already have been sent: the commit-once state can be reset")
						}
						if s.sent != 1 {
							s.sent = 0
						}
					}
					continue
				}
				switch f {
				case fHeaderSent:
					val := ""
					if len(as.Rhs) == len(as.Lhs) {
						if id, ok := ast.Unparen(as.Rhs[i]).(*ast.Ident); ok {
							val = id.Name
						}
					}
					if val == "true" {
						s.sent = 2
					} else {
						rep("C13-SINGLE", "headerSent-cleared", l.Pos(), false, "headerSent assigned something other than true: the commit-once flag can be reset")
						s.sent = 0
					}
				case fStatus:
					good := s.sent == 1
					m := "status assigned where headerSent is known false"
					if !good {
						m = "status assigned on a path where the header may already have been sent: a post-commit call alters the recorded status"
					}
					rep("C13-FROZEN", "assign:status", l.Pos(), good, m)
					s.sp = spMap(s.sp, func(a, p bool) (bool, bool) { return true, p })
					s.statusFrom = nil
					if len(as.Rhs) == len(as.Lhs) {
						if id, ok := ast.Unparen(as.Rhs[i]).(*ast.Ident); ok {
							s.statusFrom = info.Uses[id]
						}
					}
				case fStatusSet:
					good := s.sent == 1
					m := "statusSet assigned where headerSent is known false"
					if !good {
						m = "statusSet assigned on a path where the header may already have been sent"
					}
					rep("C13-FROZEN", "assign:statusSet", l.Pos(), good, m)
					if len(as.Rhs) == len(as.Lhs) {
						if id, ok := ast.Unparen(as.Rhs[i]).(*ast.Ident); ok && id.Name == "true" {
							s.sp = spMap(s.sp, func(a, p bool) (bool, bool) { return a, true })
						}
					}
				}
			}
			return s
		}
		exit := func(p token.Pos, st State) {
			s := st.(*hsState)
			if s.sent != 2 {
				allSent = false
			}
			if testsPending {
				good := !s.owed
				m := "where the status is found pending the header is committed before the method returns"
				if !good {
					m = "the method finds the status pending (recorded, header not sent) and returns without committing it: a status-only response (204, redirect without body) is never sent"
				}
				rep("C13-PENDING", "pending-arm-commits", p, good, m)
			}
			if s.committed {
				good := s.sent == 2
				m := "headerSent is true on exit after the commit"
				if !good {
					m = "an exit after the underlying WriteHeader leaves headerSent not set: the next call commits again"
				}
				rep("C13-SINGLE", "exit-after-commit", p, good, m)
			}
			if s.sp&(4|8) != 0 {
				good := s.sp&4 == 0 || s.sent == 2
				m := "recorded status is marked pending or committed on exit"
				if !good {
					m = "status recorded but neither statusSet nor a commit on this path: a status-only response is never sent"
				}
				rep("C13-PENDING", "exit-after-status", p, good, m)
			}
		}
		h.Return = func(rs *ast.ReturnStmt, st State) { exit(rs.Pos(), st) }
		h.End = func(st State) { exit(fd.Body.Rbrace, st) }
		WalkFunc(h, fd.Body, &hsState{sp: 1})
		return allSent
	}
	for changed := true; changed; {
		changed = false
		for fn, fd := range methods {
			if ensures[fn] {
				continue
			}
			if analyse(fn, fd, false) {
				ensures[fn] = true
				changed = true
			}
		}
	}
	r.stat("methods_ensuring_commit", len(ensures))
	// emit, in source order
	for _, fd := range funcDecls(pkg) {
		if fn, ok := info.Defs[fd.Name].(*types.Func); ok && methods[fn] != nil {
			analyse(fn, fd, true)
		}
	}
	seen := map[string]bool{}
	for _, sr := range reports {
		// a site visited on several loop iterations is reported once; a failing visit wins
		k := fmt.Sprintf("%s|%s|%d", sr.rule, sr.key, sr.pos)
		if seen[k] {
			continue
		}
		bad := false
		for _, o := range reports {
			if o.rule == sr.rule && o.key == sr.key && o.pos == sr.pos && !o.ok {
				bad = true
				sr.msg = o.msg
			}
		}
		seen[k] = true
		r.curRule = sr.rule
		if bad {
			r.bad(sr.key, sr.pos, sr.msg)
		} else {
			r.ok(sr.key, sr.pos, sr.msg)
		}
	}

	// OWNER(b): raw field selected outside own methods; interface-typed writers written to elsewhere
	r.curRule = "C13-OWNER"
	for _, fd := range funcDecls(pkg) {
		own := recvTypeName(fd) == "bufferedWriter"
		fk := funcKey(pkg, fd)
		ast.Inspect(fd.Body, func(n ast.Node) bool {
			switch x := n.(type) {
			case *ast.SelectorExpr:
				if fieldOf(x) == fRaw && !own {
					r.bad(fk+"#raw-field", x.Pos(), "the embedded ResponseWriter of a bufferedWriter is accessed outside bufferedWriter's methods")
				}
			case *ast.CallExpr:
				if own {
					return true
				}
				callee, _ := calleeOf(info, x).(*types.Func)
				if callee == nil {
					return true
				}
				if se, ok := ast.Unparen(x.Fun).(*ast.SelectorExpr); ok {
					if tv := info.TypeOf(se.X); tv != nil && isNamed(tv, "net/http", "ResponseWriter") && (callee.Name() == "Write" || callee.Name() == "WriteHeader") {
						r.bad(fk+"#iface."+callee.Name(), x.Pos(), "Write/WriteHeader called on an interface-typed ResponseWriter outside bufferedWriter: bypasses the commit-once state")
					}
				}
				if callee.Pkg() != nil && callee.Pkg().Path() == "net/http" {
					switch callee.Name() {
					case "Error", "NotFound", "Redirect", "ServeContent", "ServeFile", "ServeFileFS":
						if len(x.Args) > 0 {
							if tv := info.TypeOf(x.Args[0]); tv != nil && !isNamed(tv, modPath+"/"+httpPkgRel, "bufferedWriter") {
								r.bad(fk+"#http."+callee.Name(), x.Pos(), "net/http."+callee.Name()+" writes status and body directly to a writer that is not the bufferedWriter")
							}
						}
					}
				}
			}
			return true
		})
	}
	// every script-facing method object holds the writer as *bufferedWriter
	for _, name := range pkg.Types.Scope().Names() {
		tn, ok := pkg.Types.Scope().Lookup(name).(*types.TypeName)
		if !ok {
			continue
		}
		stt, ok := tn.Type().Underlying().(*types.Struct)
		if !ok || len(name) < 14 || name[:14] != "ResponseWriter" {
			continue
		}
		for i := 0; i < stt.NumFields(); i++ {
			f := stt.Field(i)
			if isNamed(f.Type(), "net/http", "ResponseWriter") {
				r.bad("type:"+name+"#field:"+f.Name(), f.Pos(), "script-facing response type keeps a raw net/http.ResponseWriter instead of the bufferedWriter")
			} else if isNamed(f.Type(), modPath+"/"+httpPkgRel, "bufferedWriter") {
				r.ok("type:"+name+"#field:"+f.Name(), f.Pos(), "holds *bufferedWriter")
			}
		}
	}

	// DISPATCH: script-visible name → the bufferedWriter operation it must perform
	r.curRule = "C13-DISPATCH"
	want := map[string][]string{
		"status": {"SetStatus"}, "writeHeader": {"WriteHeader"}, "write": {"Write"}, "redirect": {"Redirect"},
		"noContent": {"NoContent"}, "json": {"WriteJSON"}, "html": {"WriteHTML"}, "header": {"Header", "SetHeader"}, "cookie": {"SetCookie"}, "file": {"SendFile"},
	}
	declOfFn := map[*types.Func]*ast.FuncDecl{}
	for _, fd := range funcDecls(pkg) {
		if o, ok := info.Defs[fd.Name].(*types.Func); ok {
			declOfFn[o] = fd
		}
	}
	var reaches func(fd *ast.FuncDecl, names []string, d int) bool
	reaches = func(fd *ast.FuncDecl, names []string, d int) bool {
		found := false
		ast.Inspect(fd.Body, func(n ast.Node) bool {
			c, ok := n.(*ast.CallExpr)
			if !ok || found {
				return !found
			}
			cal, ok := calleeOf(info, c).(*types.Func)
			if !ok {
				return true
			}
			if methods[cal] != nil || (cal.Name() == "Header" && cal.Pkg() != nil) {
				for _, nm := range names {
					if cal.Name() == nm {
						// must be invoked on a bufferedWriter
						if se, ok := ast.Unparen(c.Fun).(*ast.SelectorExpr); ok && isNamed(info.TypeOf(se.X), modPath+"/"+httpPkgRel, "bufferedWriter") {
							found = true
						}
					}
				}
			}
			if !found && d < 2 {
				if cfd := declOfFn[cal]; cfd != nil && cfd.Recv == nil {
					if reaches(cfd, names, d+1) {
						found = true
					}
				}
			}
			return true
		})
		return found
	}
	for _, fd := range funcDecls(pkg) {
		if fd.Name.Name != "GetName" || fd.Recv == nil || len(fd.Body.List) != 1 {
			continue
		}
		rs, ok := fd.Body.List[0].(*ast.ReturnStmt)
		if !ok || len(rs.Results) != 1 {
			continue
		}
		tv, ok := info.Types[rs.Results[0]]
		if !ok || tv.Value == nil {
			continue
		}
		name := strings.Trim(tv.Value.ExactString(), "\"")
		names, ok := want[name]
		if !ok {
			continue
		}
		recv := recvTypeName(fd)
		// only method objects that hold the response writer
		nt, _ := pkg.Types.Scope().Lookup(recv).(*types.TypeName)
		if nt == nil {
			continue
		}
		st, ok := nt.Type().Underlying().(*types.Struct)
		if !ok {
			continue
		}
		holds := false
		for i := 0; i < st.NumFields(); i++ {
			if isNamed(st.Field(i).Type(), modPath+"/"+httpPkgRel, "bufferedWriter") {
				holds = true
			}
		}
		if !holds {
			continue
		}
		callFd := findFunc(pkg, recv, "Call")
		if callFd == nil {
			continue
		}
		key := fmt.Sprintf("%s#script-method:%s", funcKey(pkg, callFd), name)
		if reaches(callFd, names, 0) {
			r.ok(key, callFd.Pos(), fmt.Sprintf("$response->%s() performs bufferedWriter.%s", name, strings.Join(names, "/")))
		} else {
			r.bad(key, callFd.Pos(), fmt.Sprintf("$response->%s() never calls bufferedWriter.%s: the script-visible operation no longer does what its name says (e.g. writeHeader must commit immediately, status must only record)", name, strings.Join(names, "/")))
		}
	}

	c13MiddlewareOrder(r, pkg)
	c13ScriptWrites(r, pkg)

	// multi-valued headers: a Set-Cookie line is added, never set (Header.Set keeps only the last cookie)
	r.curRule = "C13-VALUE"
	{
		isHeaderSet := func(c *ast.CallExpr) bool {
			se, ok := ast.Unparen(c.Fun).(*ast.SelectorExpr)
			return ok && se.Sel.Name == "Set" && isNamed(info.TypeOf(se.X), "net/http", "Header")
		}
		// package functions whose i-th string parameter becomes the key of Header.Set
		setsKey := map[types.Object]int{}
		for _, fd := range funcDecls(pkg) {
			k := 0
			for _, f := range fd.Type.Params.List {
				for _, nm := range f.Names {
					po := info.Defs[nm]
					idx := k
					ast.Inspect(fd.Body, func(n ast.Node) bool {
						if c, ok := n.(*ast.CallExpr); ok && isHeaderSet(c) && len(c.Args) == 2 {
							if id, ok := ast.Unparen(c.Args[0]).(*ast.Ident); ok && info.Uses[id] == po {
								setsKey[info.Defs[fd.Name]] = idx
							}
						}
						return true
					})
					k++
				}
				if len(f.Names) == 0 {
					k++
				}
			}
		}
		isSetCookieKey := func(e ast.Expr) bool {
			tv, ok := info.Types[e]
			return ok && tv.Value != nil && tv.Value.Kind() == constant.String && strings.EqualFold(constant.StringVal(tv.Value), "Set-Cookie")
		}
		for _, fd := range funcDecls(pkg) {
			ast.Inspect(fd.Body, func(n ast.Node) bool {
				c, ok := n.(*ast.CallExpr)
				if !ok {
					return true
				}
				key := funcKey(pkg, fd) + "#set-cookie-is-added"
				if isHeaderSet(c) && len(c.Args) == 2 && isSetCookieKey(c.Args[0]) {
					r.bad(key, c.Pos(), "a Set-Cookie header is written with Header.Set: every cookie set before replaces the previous one and only the last reaches the client")
					return true
				}
				if idx, ok := setsKey[calleeOf(info, c)]; ok && idx < len(c.Args) && isSetCookieKey(c.Args[idx]) {
					r.bad(key, c.Pos(), "a Set-Cookie header is written through "+exprStr(c.Fun)+", which uses Header.Set: every cookie set before replaces the previous one and only the last reaches the client")
				}
				return true
			})
		}
	}

	// PAIR
	r.curRule = "C13-PAIR"
	// beginResponse: the package function that takes (ResponseWriter, *Request) and hands back the
	// *bufferedWriter of this exchange; commitPending: the parameterless own method that reads the pending flag
	var begin types.Object
	for _, fd := range funcDecls(pkg) {
		if fd.Recv != nil || fd.Type.Results == nil {
			continue
		}
		sig, ok := info.Defs[fd.Name].Type().(*types.Signature)
		if !ok || sig.Results().Len() == 0 {
			continue
		}
		pt, ok := sig.Results().At(0).Type().(*types.Pointer)
		if !ok || namedOf(pt.Elem()) != bw {
			continue
		}
		hasReq := false
		for i := 0; i < sig.Params().Len(); i++ {
			if p, ok := sig.Params().At(i).Type().(*types.Pointer); ok && isNamed(p.Elem(), "net/http", "Request") {
				hasReq = true
			}
		}
		if hasReq {
			begin = info.Defs[fd.Name]
		}
	}
	if begin == nil {
		r.fail("anchor not found: the function that creates the bufferedWriter of an exchange (beginResponse)")
		return
	}
	var commitPending *types.Func
	for fn, fd := range methods {
		if fd.Type.Params.NumFields() != 0 || fd.Type.Results != nil {
			continue
		}
		reads := false
		ast.Inspect(fd.Body, func(n ast.Node) bool {
			if is, ok := n.(*ast.IfStmt); ok {
				ast.Inspect(is.Cond, func(m ast.Node) bool {
					if e, ok := m.(ast.Expr); ok && mentionsPending(e) {
						reads = true
					}
					return true
				})
			}
			// switch b.phase { case phaseStaged: … }
			if sw, ok := n.(*ast.SwitchStmt); ok && sw.Tag != nil && fPhase != nil && fieldOf(sw.Tag) == fPhase {
				for _, c := range sw.Body.List {
					for _, v := range c.(*ast.CaseClause).List {
						if constObj(v) == cPending {
							reads = true
						}
					}
				}
			}
			return true
		})
		if reads {
			commitPending = fn
		}
	}
	if commitPending == nil {
		r.fail("anchor not found: the method that commits a pending status at the end of the exchange (commitPending)")
		return
	}
	// wrappers: a function that begins the response and hands the writer back inside the value it
	// returns (x := openExchange(w, r)) is a beginner for its callers; a method that commits the writer
	// held in such a value (defer x.close()) is a committer. The field names which writer it is.
	begins := map[types.Object]*types.Var{begin: nil}
	commits := map[*types.Func]*types.Var{commitPending: nil}
	openerUnits := map[*ast.FuncDecl]bool{}
	for changed := true; changed; {
		changed = false
		for _, fd := range funcDecls(pkg) {
			obj := info.Defs[fd.Name]
			if obj == nil || fd.Body == nil {
				continue
			}
			if _, done := begins[obj]; !done {
				if f, ok := c13Opener(info, fd, begins); ok {
					begins[obj] = f
					openerUnits[fd] = true
					r.ok(funcKey(pkg, fd)+"#hands-writer-on", fd.Pos(), "begins the response and returns the writer inside its result: pairing is judged at its callers")
					changed = true
				}
			}
			if fn, ok := obj.(*types.Func); ok && fd.Recv != nil {
				if _, done := commits[fn]; !done {
					if f, ok := c13Closer(info, fd, commits); ok {
						commits[fn] = f
						changed = true
					}
				}
			}
		}
	}
	for _, u := range funcUnits(pkg) {
		// direct statements only (not nested literals, which are their own units)
		if u.lit == nil && openerUnits[u.decl] {
			continue
		}
		c13Pair(r, pkg, u, begins, commits)
	}
}

// c13Opener: fd calls a beginner, keeps the writer in a local or in a field of a local, returns that
// local (or its address) on every return, defers nothing and runs no handler code itself.
func c13Opener(info *types.Info, fd *ast.FuncDecl, begins map[types.Object]*types.Var) (*types.Var, bool) {
	if fd.Type.Results == nil {
		return nil, false
	}
	var holder types.Object
	var field *types.Var
	n, bad := 0, false
	ast.Inspect(fd.Body, func(x ast.Node) bool {
		switch x := x.(type) {
		case *ast.FuncLit, *ast.DeferStmt, *ast.GoStmt:
			bad = true
			return false
		case *ast.CallExpr:
			if callee, ok := calleeOf(info, x).(*types.Func); ok {
				switch callee.Name() {
				case "Call", "ServeHTTP", "GetValue":
					bad = true
				}
			}
		case *ast.AssignStmt:
			if len(x.Rhs) != 1 {
				return true
			}
			c, ok := ast.Unparen(x.Rhs[0]).(*ast.CallExpr)
			if !ok {
				return true
			}
			inner, isBegin := begins[calleeOf(info, c)]
			if !isBegin {
				return true
			}
			n++
			switch l := ast.Unparen(x.Lhs[0]).(type) {
			case *ast.Ident:
				holder = info.ObjectOf(l)
				field = inner
			case *ast.SelectorExpr:
				if id, ok := ast.Unparen(l.X).(*ast.Ident); ok && inner == nil {
					holder = info.ObjectOf(id)
					if sel, ok := info.Selections[l]; ok {
						field, _ = sel.Obj().(*types.Var)
					}
				} else {
					bad = true
				}
			default:
				bad = true
			}
		}
		return true
	})
	if bad || n != 1 || holder == nil {
		return nil, false
	}
	if v, ok := holder.(*types.Var); !ok || v.Parent() == nil || v.Parent() == v.Pkg().Scope() {
		return nil, false
	}
	rets := 0
	ast.Inspect(fd.Body, func(x ast.Node) bool {
		rs, ok := x.(*ast.ReturnStmt)
		if !ok {
			return true
		}
		rets++
		found := false
		for _, e := range rs.Results {
			e = ast.Unparen(e)
			if u, ok := e.(*ast.UnaryExpr); ok && u.Op == token.AND {
				e = ast.Unparen(u.X)
			}
			if id, ok := e.(*ast.Ident); ok && info.ObjectOf(id) == holder {
				found = true
			}
		}
		if !found {
			bad = true
		}
		return true
	})
	if bad || rets == 0 {
		return nil, false
	}
	return field, true
}

// c13Closer: a method whose body, unconditionally (a top-level statement or defer), calls a committer on
// the receiver or on one field of the receiver.
func c13Closer(info *types.Info, fd *ast.FuncDecl, commits map[*types.Func]*types.Var) (*types.Var, bool) {
	if len(fd.Recv.List) != 1 || len(fd.Recv.List[0].Names) != 1 {
		return nil, false
	}
	recv := info.Defs[fd.Recv.List[0].Names[0]]
	for _, st := range fd.Body.List {
		var c *ast.CallExpr
		switch x := st.(type) {
		case *ast.ExprStmt:
			c, _ = ast.Unparen(x.X).(*ast.CallExpr)
		case *ast.DeferStmt:
			c = x.Call
		case *ast.ReturnStmt, *ast.IfStmt, *ast.SwitchStmt, *ast.ForStmt, *ast.RangeStmt, *ast.TypeSwitchStmt, *ast.SelectStmt, *ast.BranchStmt, *ast.LabeledStmt, *ast.GoStmt:
			// whatever may leave the body before the commit ends the unconditional prefix
			if containsReturnOrPanic(st) {
				return nil, false
			}
		}
		if c == nil {
			continue
		}
		callee, ok := calleeOf(info, c).(*types.Func)
		if !ok {
			continue
		}
		inner, isCommit := commits[callee]
		if !isCommit {
			continue
		}
		se, ok := ast.Unparen(c.Fun).(*ast.SelectorExpr)
		if !ok {
			continue
		}
		switch x := ast.Unparen(se.X).(type) {
		case *ast.Ident:
			if info.Uses[x] == recv {
				return inner, true
			}
		case *ast.SelectorExpr:
			if id, ok := ast.Unparen(x.X).(*ast.Ident); ok && info.Uses[id] == recv && inner == nil {
				if sel, ok := info.Selections[x]; ok {
					if f, ok := sel.Obj().(*types.Var); ok {
						return f, true
					}
				}
			}
		}
	}
	return nil, false
}

func containsReturnOrPanic(st ast.Stmt) bool {
	found := false
	ast.Inspect(st, func(n ast.Node) bool {
		switch x := n.(type) {
		case *ast.FuncLit:
			return false
		case *ast.ReturnStmt:
			found = true
		case *ast.CallExpr:
			if id, ok := ast.Unparen(x.Fun).(*ast.Ident); ok && id.Name == "panic" {
				found = true
			}
		}
		return true
	})
	return found
}

// spMap applies f to every (status assigned, pending assigned) combination in the set.
func spMap(sp uint8, f func(a, p bool) (bool, bool)) uint8 {
	var out uint8
	for i := uint8(0); i < 4; i++ {
		if sp&(1<<i) == 0 {
			continue
		}
		a, p := f(i&2 != 0, i&1 != 0)
		var j uint8
		if a {
			j |= 2
		}
		if p {
			j |= 1
		}
		out |= 1 << j
	}
	return out
}

type pairState struct{ pending map[types.Object]token.Pos }

func c13Pair(r *Run, pkg *packages.Package, u funcUnit, begins map[types.Object]*types.Var, commits map[*types.Func]*types.Var) {
	isBegin := func(c *ast.CallExpr) bool { _, ok := begins[calleeOf(pkg.TypesInfo, c)]; return ok }
	heldIn := map[types.Object]*types.Var{} // writer variable → field of it that holds the bufferedWriter (nil: it is the writer)
	info := pkg.TypesInfo
	has := false
	ast.Inspect(u.body, func(n ast.Node) bool {
		if l, ok := n.(*ast.FuncLit); ok && (u.lit == nil || l != u.lit) {
			return false
		}
		if c, ok := n.(*ast.CallExpr); ok && isBegin(c) {
			has = true
		}
		return true
	})
	if !has {
		return
	}
	reported := map[token.Pos]string{}
	h := &Hooks{Info: info}
	cp := func(s State) State {
		n := &pairState{pending: map[types.Object]token.Pos{}}
		for k, v := range s.(*pairState).pending {
			n.pending[k] = v
		}
		return n
	}
	h.Copy = cp
	h.Join = func(a, b State) State {
		n := cp(a).(*pairState)
		for k, v := range b.(*pairState).pending {
			n.pending[k] = v
		}
		return n
	}
	h.Equal = func(a, b State) bool {
		x, y := a.(*pairState), b.(*pairState)
		if len(x.pending) != len(y.pending) {
			return false
		}
		for k := range x.pending {
			if _, ok := y.pending[k]; !ok {
				return false
			}
		}
		return true
	}
	h.Visit = func(e ast.Expr, st State) State {
		s := st.(*pairState)
		if c, ok := e.(*ast.CallExpr); ok && len(s.pending) > 0 {
			if callee, ok := calleeOf(info, c).(*types.Func); ok {
				switch callee.Name() {
				case "Call", "ServeHTTP", "GetValue":
					for _, p := range s.pending {
						reported[p] = "handler code (" + callee.Name() + ") runs before commitPending is deferred"
					}
				}
			}
		}
		return s
	}
	h.Stmt = func(stm ast.Stmt, st State) State {
		s := st.(*pairState)
		switch x := stm.(type) {
		case *ast.AssignStmt:
			if len(x.Rhs) == 1 {
				if c, ok := ast.Unparen(x.Rhs[0]).(*ast.CallExpr); ok && isBegin(c) && len(x.Lhs) >= 1 {
					if id, ok := x.Lhs[0].(*ast.Ident); ok {
						o := info.Defs[id]
						if o == nil {
							o = info.Uses[id]
						}
						if o != nil && id.Name != "_" {
							s.pending[o] = c.Pos()
							heldIn[o] = begins[calleeOf(info, c)]
							if _, ok := reported[c.Pos()]; !ok {
								reported[c.Pos()] = ""
							}
						} else {
							reported[c.Pos()] = "the bufferedWriter returned by beginResponse is discarded, so commitPending cannot be deferred"
						}
					}
				}
			}
		case *ast.DeferStmt:
			if callee, ok := calleeOf(info, x.Call).(*types.Func); ok {
				if via, isCommit := commits[callee]; isCommit {
					if se, ok := ast.Unparen(x.Call.Fun).(*ast.SelectorExpr); ok {
						switch rx := ast.Unparen(se.X).(type) {
						case *ast.Ident:
							// defer rw.commitPending() / defer x.close(): the committer must reach the field the beginner filled
							if o := info.Uses[rx]; heldIn[o] == via {
								delete(s.pending, o)
							}
						case *ast.SelectorExpr:
							// defer x.writer.commitPending()
							if id, ok := ast.Unparen(rx.X).(*ast.Ident); ok && via == nil {
								if sel, ok := info.Selections[rx]; ok {
									if o := info.Uses[id]; heldIn[o] != nil && heldIn[o] == sel.Obj() {
										delete(s.pending, o)
									}
								}
							}
						}
					}
				}
			}
		case *ast.ExprStmt:
			if c, ok := ast.Unparen(x.X).(*ast.CallExpr); ok && isBegin(c) {
				reported[c.Pos()] = "result of beginResponse discarded"
			}
		}
		return s
	}
	exit := func(st State) {
		for _, p := range st.(*pairState).pending {
			if reported[p] == "" {
				reported[p] = "a function exit is reachable without commitPending deferred: a status-only response is dropped"
			}
		}
	}
	h.Return = func(rs *ast.ReturnStmt, st State) { exit(st) }
	h.End = func(st State) { exit(st) }
	WalkFunc(h, u.body, &pairState{pending: map[types.Object]token.Pos{}})
	poss := []token.Pos{}
	for p := range reported {
		poss = append(poss, p)
	}
	sort.Slice(poss, func(i, j int) bool { return poss[i] < poss[j] })
	for _, p := range poss {
		msg := reported[p]
		key := u.name + "#beginResponse"
		if msg == "" {
			r.ok(key, p, "beginResponse paired with defer commitPending")
		} else {
			r.bad(key, p, msg)
		}
	}
}

// c13MiddlewareOrder recognises "sort entries by priority, then wrap in a loop" and computes the
// resulting execution order from (comparator, stability, loop direction).
func c13MiddlewareOrder(r *Run, pkg *packages.Package) {
	r.curRule = "C13-MWORDER"
	info := pkg.TypesInfo
	c13SortedInsert(r, pkg)
	fd := findFunc(pkg, "", "applyMiddlewares")
	if fd == nil {
		r.info("applyMiddlewares", 0, "function not found: middleware ordering not judged")
		return
	}
	key := funcKey(pkg, fd) + "#order"
	var cmpOp token.Token
	stable, sortSeen := false, false
	var lessLhsIdx, lessRhsIdx string
	ast.Inspect(fd.Body, func(n ast.Node) bool {
		c, ok := n.(*ast.CallExpr)
		if !ok {
			return true
		}
		cal, ok := calleeOf(info, c).(*types.Func)
		if !ok || cal.Pkg() == nil || cal.Pkg().Path() != "sort" || len(c.Args) != 2 {
			return true
		}
		lit, ok := c.Args[1].(*ast.FuncLit)
		if !ok || len(lit.Body.List) != 1 {
			return true
		}
		rs, ok := lit.Body.List[0].(*ast.ReturnStmt)
		if !ok || len(rs.Results) != 1 {
			return true
		}
		be, ok := ast.Unparen(rs.Results[0]).(*ast.BinaryExpr)
		if !ok {
			return true
		}
		idxOf := func(e ast.Expr) string {
			se, ok := ast.Unparen(e).(*ast.SelectorExpr)
			if !ok || se.Sel.Name != "priority" {
				return ""
			}
			ix, ok := ast.Unparen(se.X).(*ast.IndexExpr)
			if !ok {
				return ""
			}
			return exprStr(ix.Index)
		}
		lessLhsIdx, lessRhsIdx = idxOf(be.X), idxOf(be.Y)
		if lessLhsIdx == "" || lessRhsIdx == "" {
			return true
		}
		sortSeen = true
		cmpOp = be.Op
		stable = cal.Name() == "SliceStable"
		// parameter names of the less function: first param is i
		ps := paramList(lit.Type.Params)
		if len(ps) == 2 && ps[0] != nil && lessLhsIdx == ps[1].Name && lessRhsIdx == ps[0].Name {
			// less(i,j) compares [j] with [i]: mirror
			switch cmpOp {
			case token.LSS:
				cmpOp = token.GTR
			case token.GTR:
				cmpOp = token.LSS
			case token.LEQ:
				cmpOp = token.GEQ
			case token.GEQ:
				cmpOp = token.LEQ
			}
		}
		return true
	})
	dir := ""
	ast.Inspect(fd.Body, func(n ast.Node) bool {
		switch x := n.(type) {
		case *ast.ForStmt:
			if inc, ok := x.Post.(*ast.IncDecStmt); ok {
				wraps := false
				ast.Inspect(x.Body, func(m ast.Node) bool {
					if as, ok := m.(*ast.AssignStmt); ok && len(as.Rhs) == 1 {
						if _, ok := ast.Unparen(as.Rhs[0]).(*ast.CallExpr); ok {
							wraps = true
						}
					}
					return true
				})
				if wraps {
					if inc.Tok == token.DEC {
						dir = "backward"
					} else {
						dir = "forward"
					}
				}
			}
		case *ast.RangeStmt:
			wraps := false
			ast.Inspect(x.Body, func(m ast.Node) bool {
				if as, ok := m.(*ast.AssignStmt); ok && len(as.Rhs) == 1 {
					if _, ok := ast.Unparen(as.Rhs[0]).(*ast.CallExpr); ok {
						wraps = true
					}
				}
				return true
			})
			if wraps {
				dir = "forward"
			}
		}
		return true
	})
	if !sortSeen || dir == "" || (cmpOp != token.LSS && cmpOp != token.GTR) {
		r.info(key, fd.Pos(), "shape not recognised (expected: sort by .priority with < or >, then a wrapping loop): not judged")
		return
	}
	// model: entries (priority, registration index); the last wrapped handler runs first
	type ent struct{ p, i int }
	sample := []ent{{5, 0}, {0, 1}, {-1, 2}, {0, 3}, {1, 4}}
	sorted := append([]ent{}, sample...)
	less := func(a, b ent) bool {
		if cmpOp == token.LSS {
			return a.p < b.p
		}
		return a.p > b.p
	}
	// stable insertion sort = what SliceStable guarantees
	for i := 1; i < len(sorted); i++ {
		for j := i; j > 0 && less(sorted[j], sorted[j-1]); j-- {
			sorted[j], sorted[j-1] = sorted[j-1], sorted[j]
		}
	}
	var wrapOrder []ent
	if dir == "forward" {
		wrapOrder = sorted
	} else {
		for i := len(sorted) - 1; i >= 0; i-- {
			wrapOrder = append(wrapOrder, sorted[i])
		}
	}
	var exec []ent // outermost first = reverse of wrapping order
	for i := len(wrapOrder) - 1; i >= 0; i-- {
		exec = append(exec, wrapOrder[i])
	}
	okOrder := true
	for i := 1; i < len(exec); i++ {
		if exec[i-1].p > exec[i].p || (exec[i-1].p == exec[i].p && exec[i-1].i > exec[i].i) {
			okOrder = false
		}
	}
	c13RegistrationOrder(r, pkg, fd)
	desc := fmt.Sprintf("comparator %s, %s sort, %s wrapping", cmpOp, map[bool]string{true: "stable", false: "unstable"}[stable], dir)
	switch {
	case !stable:
		r.bad(key, fd.Pos(), desc+": an unstable sort leaves the order of equal priorities unspecified (ties must run in registration order)")
	case !okOrder:
		r.bad(key, fd.Pos(), fmt.Sprintf("%s gives execution order %v on priorities [5 0 -1 0 1]: not ascending priority with ties in registration order", desc, exec))
	default:
		r.ok(key, fd.Pos(), desc+": ascending priority outermost-first, ties in registration order")
	}
}

// c13RegistrationOrder: "ties in registration order" needs the registered list itself to be in
// registration order: every struct field of the entry-list type that applyMiddlewares receives is only
// ever grown at its end (f = append(f, …)) or replaced by a copy — no element store, no shifting copy,
// no in-place sort of the field.
func c13RegistrationOrder(r *Run, pkg *packages.Package, apply *ast.FuncDecl) {
	info := pkg.TypesInfo
	var listT types.Type
	if apply.Type.Params != nil {
		for _, f := range apply.Type.Params.List {
			t := info.TypeOf(f.Type)
			if sl, ok := t.Underlying().(*types.Slice); ok {
				if st, ok := sl.Elem().Underlying().(*types.Struct); ok {
					for i := 0; i < st.NumFields(); i++ {
						if st.Field(i).Name() == "priority" {
							listT = t
						}
					}
				}
			}
		}
	}
	if listT == nil {
		return
	}
	isListField := func(e ast.Expr) *types.Var {
		se, ok := ast.Unparen(e).(*ast.SelectorExpr)
		if !ok {
			return nil
		}
		sel, ok := info.Selections[se]
		if !ok || sel.Kind() != types.FieldVal || !types.Identical(sel.Obj().Type(), listT) {
			return nil
		}
		return sel.Obj().(*types.Var)
	}
	type verdict struct {
		bad token.Pos
		msg string
		pos token.Pos
	}
	fields := map[*types.Var]*verdict{}
	get := func(v *types.Var, pos token.Pos) *verdict {
		if fields[v] == nil {
			fields[v] = &verdict{pos: pos}
		}
		return fields[v]
	}
	for _, fd := range funcDecls(pkg) {
		ast.Inspect(fd.Body, func(n ast.Node) bool {
			switch x := n.(type) {
			case *ast.AssignStmt:
				for i, l := range x.Lhs {
					if v := isListField(l); v != nil {
						vd := get(v, x.Pos())
						var rhs ast.Expr
						if len(x.Rhs) == len(x.Lhs) {
							rhs = x.Rhs[i]
						}
						ok := false
						if c, isCall := ast.Unparen(rhs).(*ast.CallExpr); isCall {
							if id, isId := ast.Unparen(c.Fun).(*ast.Ident); isId && id.Name == "append" && len(c.Args) >= 1 {
								// grown at the end, or a fresh copy (append([]T{}, other...))
								if isListField(c.Args[0]) == v {
									ok = true
								} else if _, isLit := ast.Unparen(c.Args[0]).(*ast.CompositeLit); isLit {
									ok = true
								}
							}
						} else if rhs != nil && exprStr(rhs) == "nil" {
							ok = true
						} else if rhs != nil && isListField(rhs) != nil && vd.bad == token.NoPos {
							vd.bad, vd.msg = x.Pos(), "is assigned another object's list as it is (no copy): the two share one backing array, so an append on one overwrites what the other registered"
							ok = true
						}
						if !ok && vd.bad == token.NoPos {
							vd.bad, vd.msg = x.Pos(), "is assigned something other than append(itself, …) or a copy"
						}
					}
					// element store f[i] = …
					if ix, ok := ast.Unparen(l).(*ast.IndexExpr); ok {
						if v := isListField(ix.X); v != nil {
							vd := get(v, x.Pos())
							if vd.bad == token.NoPos {
								vd.bad, vd.msg = x.Pos(), "has an element stored at a computed position"
							}
						}
					}
				}
			case *ast.CompositeLit:
				// Group{middlewares: parent.middlewares}: a new object must get a copy of the list
				for _, el := range x.Elts {
					kv, ok := el.(*ast.KeyValueExpr)
					if !ok {
						continue
					}
					kid, ok := kv.Key.(*ast.Ident)
					if !ok {
						continue
					}
					fv, _ := info.Uses[kid].(*types.Var)
					if fv == nil || !fv.IsField() || !types.Identical(fv.Type(), listT) {
						continue
					}
					vd := get(fv, kv.Pos())
					if isListField(kv.Value) != nil && vd.bad == token.NoPos {
						vd.bad, vd.msg = kv.Pos(), "of a new object is initialised with another object's list as it is (no copy): the two share one backing array, so an append on one overwrites what the other registered"
					}
				}
			case *ast.CallExpr:
				name := ""
				if id, ok := ast.Unparen(x.Fun).(*ast.Ident); ok {
					name = id.Name
				}
				if cal := calleeFunc(info, x); cal != nil && cal.Pkg() != nil && (cal.Pkg().Path() == "sort" || cal.Pkg().Path() == "slices") {
					name = cal.Pkg().Path() + "." + cal.Name()
				}
				if len(x.Args) == 0 {
					return true
				}
				target := x.Args[0]
				if sl, ok := ast.Unparen(target).(*ast.SliceExpr); ok {
					target = sl.X
				}
				if v := isListField(target); v != nil {
					vd := get(v, x.Pos())
					switch {
					case name == "copy", strings.HasPrefix(name, "sort."), name == "slices.Sort", name == "slices.SortFunc", name == "slices.SortStableFunc", name == "slices.Insert", name == "slices.Reverse":
						if vd.bad == token.NoPos {
							vd.bad, vd.msg = x.Pos(), "is rearranged in place by "+name
						}
					}
				}
			}
			return true
		})
	}
	for v, vd := range fields {
		key := "http." + v.Name() + "#registration-order"
		if vd.bad != token.NoPos {
			r.bad(key, vd.bad, "the registered middleware list "+v.Name()+" "+vd.msg+": entries no longer sit in registration order, so middlewares of equal priority do not run in the order they were registered")
		} else {
			r.ok(key, vd.pos, "the registered middleware list is only grown at its end or replaced by a copy")
		}
	}
}

// c13ScriptWrites: a script-facing body method ($res->write(), ->html(), ->json() …: a Call method of
// package std/net/http that hands bytes to the buffering writer) hands them over on *every* path that
// returns success. A path that answers success without the write drops body bytes ("the client receives
// the concatenation of all body writes").
func c13ScriptWrites(r *Run, pkg *packages.Package) {
	r.curRule = "C13-BODY"
	info := pkg.TypesInfo
	isWriterCall := func(c *ast.CallExpr) bool {
		se, ok := ast.Unparen(c.Fun).(*ast.SelectorExpr)
		if !ok || !strings.HasPrefix(se.Sel.Name, "Write") {
			return false
		}
		t := info.TypeOf(se.X)
		if pt, ok := t.(*types.Pointer); ok {
			t = pt.Elem()
		}
		nt := namedOf(t)
		return nt != nil && nt.Obj().Pkg() == pkg.Types && nt.Obj().Name() == "bufferedWriter"
	}
	for _, fd := range funcDecls(pkg) {
		if fd.Body == nil || fd.Name.Name != "Call" || fd.Recv == nil {
			continue
		}
		writes := false
		ast.Inspect(fd.Body, func(n ast.Node) bool {
			if c, ok := n.(*ast.CallExpr); ok && isWriterCall(c) && c.Fun.(*ast.SelectorExpr).Sel.Name != "WriteHeader" {
				writes = true
			}
			return !writes
		})
		if !writes {
			continue
		}
		// a success return placed in front of the first hand-over skips it (a later conditional write —
		// `if rendered != nil { w.Write(…) }` — has nothing to write on its other arm and is not judged)
		firstWrite := token.NoPos
		ast.Inspect(fd.Body, func(n ast.Node) bool {
			if c, ok := n.(*ast.CallExpr); ok && isWriterCall(c) && c.Fun.(*ast.SelectorExpr).Sel.Name != "WriteHeader" {
				if firstWrite == token.NoPos || c.Pos() < firstWrite {
					firstWrite = c.Pos()
				}
			}
			return true
		})
		bad := token.NoPos
		ast.Inspect(fd.Body, func(n ast.Node) bool {
			if _, isLit := n.(*ast.FuncLit); isLit {
				return false
			}
			rs, ok := n.(*ast.ReturnStmt)
			if !ok || rs.Pos() > firstWrite || bad != token.NoPos {
				return true
			}
			if len(rs.Results) == 2 && exprStr(rs.Results[1]) != "nil" {
				return true // an error return hands back a non-nil control
			}
			bad = rs.Pos()
			return true
		})
		key := funcKey(pkg, fd) + "#every-success-writes"
		if bad != token.NoPos {
			r.bad(key, bad, "this body method answers success before anything was handed to the response writer: the body bytes of that call are dropped")
		} else {
			r.ok(key, fd.Pos(), "every successful path hands the bytes to the response writer")
		}
	}
}


// c13SortedInsert: a list kept sorted at registration — pos := sort.Search(len(l), func(i) bool { return
// l[i].priority OP e.priority }) followed by an insertion at pos — keeps "ascending priority, ties in
// registration order" exactly when the search looks for the first entry with a *greater* priority (OP is >):
// the new entry then goes behind every entry of the same priority. With >= it goes in front of them and
// equal priorities run in reverse registration order; < / <= sort descending.
func c13SortedInsert(r *Run, pkg *packages.Package) {
	info := pkg.TypesInfo
	for _, fd := range funcDecls(pkg) {
		if fd.Body == nil {
			continue
		}
		ast.Inspect(fd.Body, func(n ast.Node) bool {
			c, ok := n.(*ast.CallExpr)
			if !ok || len(c.Args) != 2 {
				return true
			}
			cal := calleeFunc(info, c)
			if cal == nil || cal.Pkg() == nil || cal.Pkg().Path() != "sort" || cal.Name() != "Search" {
				return true
			}
			lit, ok := ast.Unparen(c.Args[1]).(*ast.FuncLit)
			if !ok || len(lit.Body.List) != 1 {
				return true
			}
			rs, ok := lit.Body.List[0].(*ast.ReturnStmt)
			if !ok || len(rs.Results) != 1 {
				return true
			}
			be, ok := ast.Unparen(rs.Results[0]).(*ast.BinaryExpr)
			if !ok {
				return true
			}
			isPrio := func(e ast.Expr) (indexed bool, ok bool) {
				se, isSel := ast.Unparen(e).(*ast.SelectorExpr)
				if !isSel || se.Sel.Name != "priority" {
					return false, false
				}
				_, idx := ast.Unparen(se.X).(*ast.IndexExpr)
				return idx, true
			}
			lx, lok := isPrio(be.X)
			ry, rok := isPrio(be.Y)
			if !lok || !rok || lx == ry {
				return true
			}
			op := be.Op
			if !lx { // new.priority OP list[i].priority: mirror
				switch op {
				case token.LSS:
					op = token.GTR
				case token.LEQ:
					op = token.GEQ
				case token.GTR:
					op = token.LSS
				case token.GEQ:
					op = token.LEQ
				}
			}
			key := funcKey(pkg, fd) + "#sorted-insert"
			if op == token.GTR {
				r.ok(key, c.Pos(), "the insertion point is the first entry with a greater priority: ascending order, a new entry goes behind the entries of its own priority")
			} else {
				r.bad(key, c.Pos(), fmt.Sprintf("the insertion point is searched with list[i].priority %s new.priority: the middleware list is not kept in ascending priority with ties in registration order (>= puts a new entry in front of the entries of its own priority, so equal priorities run in reverse registration order)", op))
			}
			return true
		})
	}
}
