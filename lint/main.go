package main

import (
	"encoding/json"
	"flag"
	"fmt"
	"os"
	"path/filepath"
	"runtime/debug"
	"sort"
	"strconv"
	"strings"
	"time"
)

var props = map[string]*PropDef{}

func register(p *PropDef) { props[p.ID] = p }

func main() {
	prop := flag.String("prop", "", "property id (C01..C20) or 'all' or 'list'")
	tier := flag.String("tier", "quick", "quick|thorough")
	repo := flag.String("repo", "/repo", "repository root")
	verif := flag.String("verif", "/verif", "verif root (evidence, known findings)")
	dump := flag.Bool("dump", false, "print every obligation")
	overlay := flag.String("overlay", "", "JSON file {absolute source path: replacement content} (self-test variants)")
	flag.Parse()
	if *overlay != "" {
		raw, err := os.ReadFile(*overlay)
		if err != nil {
			fmt.Printf("CHECKER-ERROR: overlay: %v\n", err)
			os.Exit(2)
		}
		m := map[string]string{}
		if err := json.Unmarshal(raw, &m); err != nil {
			fmt.Printf("CHECKER-ERROR: overlay: %v\n", err)
			os.Exit(2)
		}
		overlayFiles = map[string][]byte{}
		for k, v := range m {
			overlayFiles[k] = []byte(v)
		}
	}

	// go/packages runs `go list`; it must be the toolchain the checker was built with (the
	// system go is older than /repo's go.mod requires).
	os.Setenv("PATH", "/opt/veriftools/go1.26.8/bin:"+os.Getenv("PATH"))
	for _, kv := range []string{"GOTOOLCHAIN=local", "GOFLAGS=-mod=mod", "GOPROXY=off", "GOSUMDB=off", "GOWORK=off"} {
		i := strings.Index(kv, "=")
		os.Setenv(kv[:i], kv[i+1:])
	}

	if *prop == "list" {
		ids := []string{}
		for id := range props {
			ids = append(ids, id)
		}
		sort.Strings(ids)
		for _, id := range ids {
			fmt.Println(id)
		}
		return
	}
	seed := 0
	if s := os.Getenv("VERIF_SEED"); s != "" {
		if v, err := strconv.Atoi(s); err == nil {
			seed = v
		}
	}
	if t := os.Getenv("VERIF_TIER"); t == "quick" || t == "thorough" {
		if !isFlagSet("tier") {
			*tier = t
		}
	}
	known, err := loadKnown(filepath.Join(*verif, "known_findings.json"))
	if err != nil {
		fmt.Printf("CHECKER-ERROR: known_findings.json: %v\n", err)
		os.Exit(2)
	}
	ids := []string{*prop}
	if *prop == "all" {
		ids = nil
		for id := range props {
			ids = append(ids, id)
		}
		sort.Strings(ids)
	}
	exit := 0
	for _, id := range ids {
		def := props[id]
		if def == nil {
			fmt.Printf("CHECKER-ERROR: unknown property %q\n", id)
			os.Exit(2)
		}
		e := runProp(def, *tier, seed, *repo, *verif, known, *dump)
		if e > exit {
			exit = e
		}
	}
	os.Exit(exit)
}

func isFlagSet(name string) bool {
	set := false
	flag.Visit(func(f *flag.Flag) {
		if f.Name == name {
			set = true
		}
	})
	return set
}

func runProp(def *PropDef, tier string, seed int, repo, verif string, known []KnownFinding, dump bool) (exit int) {
	start := time.Now()
	fset, roots, by, err := load(repo, def.Patterns)
	if err != nil {
		fmt.Printf("CHECKER-ERROR: property=%s cannot load %s: %v\n", def.ID, repo, err)
		return 2
	}
	r := &Run{Prop: def.ID, Tier: tier, Seed: seed, Repo: repo, Fset: fset, Roots: roots, ByPath: by,
		stats: map[string]int{}, keySeen: map[string]int{}}
	for _, rd := range def.Rules {
		if rd.Thorough && tier != "thorough" {
			continue
		}
		r.curRule = rd.Name
		func() {
			defer func() {
				if x := recover(); x != nil {
					r.fail("rule panicked: %v\n%s", x, debug.Stack())
				}
			}()
			rd.Run(r)
		}()
	}
	r.curRule = ""
	if dump {
		for _, o := range r.obligs {
			fmt.Printf("  [%s] %s %s %s — %s\n", o.Status, o.Rule, o.Key, o.Pos, o.Msg)
		}
	}
	return r.finish(def, known, verif, start)
}
