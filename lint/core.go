package main

import (
	"encoding/json"
	"fmt"
	"go/ast"
	"go/token"
	"go/types"
	"os"
	"path/filepath"
	"sort"
	"strings"
	"time"

	"golang.org/x/tools/go/packages"
	"golang.org/x/tools/go/ssa"
	"golang.org/x/tools/go/ssa/ssautil"
)

const modPath = "github.com/php-any/origami"

// Oblig is one decided obligation: a rule applied to one construct.
type Oblig struct {
	Rule   string `json:"rule"`
	Key    string `json:"key"`
	Pos    string `json:"pos"`
	Status string `json:"status"` // discharged | violation | known | assumed | info
	Msg    string `json:"msg,omitempty"`
}

// PropDef describes how one property is decided.
type PropDef struct {
	ID          string
	Patterns    []string // package patterns relative to /repo
	Rules       []RuleDef
	Explanation string
	Assumptions []string
}

type RuleDef struct {
	Name     string
	Doc      string
	Floor    int  // minimum number of obligations (discharged+violation+known) the rule must produce
	Thorough bool // only in thorough tier
	Run      func(r *Run)
}

type Run struct {
	Prop        string
	Tier        string
	Seed        int
	Repo        string
	Fset        *token.FileSet
	Roots       []*packages.Package
	ByPath      map[string]*packages.Package
	obligs      []Oblig
	errs        []string
	curRule     string
	stats       map[string]int
	keySeen     map[string]int
	usedAssumed map[string]bool // "not armed" entries met under their exact key in this run

	cache map[string]any

	ssaProg *ssa.Program
	ssaPkgs map[string]*ssa.Package
}

func (r *Run) pos(p token.Pos) string {
	if !p.IsValid() {
		return "?"
	}
	ps := r.Fset.Position(p)
	f := ps.Filename
	if rel, err := filepath.Rel(r.Repo, f); err == nil && !strings.HasPrefix(rel, "..") {
		f = rel
	}
	return fmt.Sprintf("%s:%d", f, ps.Line)
}

func (r *Run) add(status, key string, p token.Pos, msg string) {
	k := r.curRule + "|" + key
	n := r.keySeen[k]
	r.keySeen[k] = n + 1
	if n > 0 {
		key = fmt.Sprintf("%s#%d", key, n+1)
	}
	r.obligs = append(r.obligs, Oblig{Rule: r.curRule, Key: key, Pos: r.pos(p), Status: status, Msg: msg})
}
func (r *Run) ok(key string, p token.Pos, msg string) { r.add("discharged", key, p, msg) }
func (r *Run) bad(key string, p token.Pos, msg string) {
	if why, ok := assumedTable[r.curRule+"|"+key]; ok {
		// an entry covers every occurrence of the construct (the #N ordinals are added afterwards)
		if r.usedAssumed == nil {
			r.usedAssumed = map[string]bool{}
		}
		r.usedAssumed[r.curRule+"|"+key] = true
		r.add("assumed", key, p, "not armed: "+why+" ("+msg+")")
		return
	}
	r.add("violation", key, p, msg)
}

// assumedTable lists constructs a rule cannot discharge but that reading shows safe by a
// non-local reason. They are reported in evidence as "assumed" (not armed), one reason each.
var assumedTable = map[string]string{}

func assumeSite(rule, key, why string)                    { assumedTable[rule+"|"+key] = why }
func (r *Run) assume(key string, p token.Pos, msg string) { r.add("assumed", key, p, msg) }
func (r *Run) info(key string, p token.Pos, msg string)   { r.add("info", key, p, msg) }
func (r *Run) stat(name string, n int)                    { r.stats[name] += n }

// fail records a checker error: an anchor that cannot be resolved or an internal inconsistency.
func (r *Run) fail(format string, a ...any) {
	r.errs = append(r.errs, fmt.Sprintf("[%s] ", r.curRule)+fmt.Sprintf(format, a...))
}

func (r *Run) pkg(rel string) *packages.Package {
	p := modPath
	if rel != "" && rel != "." {
		p = modPath + "/" + rel
	}
	if pk, ok := r.ByPath[p]; ok {
		return pk
	}
	r.fail("package %s not loaded", p)
	return nil
}

// ---- loading ----

// overlayFiles, when set (-overlay), replaces the content of the named source files for this run:
// the checker's self-test analyses single-edit variants of /repo's working tree without copying it.
var overlayFiles map[string][]byte

func load(repo string, patterns []string) (*token.FileSet, []*packages.Package, map[string]*packages.Package, error) {
	fset := token.NewFileSet()
	cfg := &packages.Config{
		Mode:    packages.LoadAllSyntax,
		Dir:     repo,
		Fset:    fset,
		Tests:   false,
		Overlay: overlayFiles,
		Env:     append(os.Environ(), "PATH=/opt/veriftools/go1.26.8/bin:"+os.Getenv("PATH"), "GOFLAGS=-mod=mod", "GOPROXY=off", "GOWORK=off", "GOSUMDB=off", "GOTOOLCHAIN=local"),
	}
	pkgs, err := packages.Load(cfg, patterns...)
	if err != nil {
		return nil, nil, nil, err
	}
	if len(pkgs) == 0 {
		return nil, nil, nil, fmt.Errorf("no packages loaded for %v", patterns)
	}
	by := map[string]*packages.Package{}
	var errs []string
	packages.Visit(pkgs, nil, func(p *packages.Package) {
		by[p.PkgPath] = p
		if strings.HasPrefix(p.PkgPath, modPath) {
			for _, e := range p.Errors {
				errs = append(errs, e.Error())
			}
		}
	})
	if len(errs) > 0 {
		return nil, nil, nil, fmt.Errorf("load/type errors: %s", strings.Join(errs, "; "))
	}
	return fset, pkgs, by, nil
}

func (r *Run) buildSSA() {
	if r.ssaProg != nil {
		return
	}
	prog, _ := ssautil.AllPackages(r.Roots, ssa.InstantiateGenerics)
	prog.Build()
	r.ssaProg = prog
	r.ssaPkgs = map[string]*ssa.Package{}
	for _, p := range prog.AllPackages() {
		r.ssaPkgs[p.Pkg.Path()] = p
	}
}

func (r *Run) ssaPkg(rel string) *ssa.Package {
	r.buildSSA()
	p := modPath
	if rel != "" {
		p += "/" + rel
	}
	sp := r.ssaPkgs[p]
	if sp == nil {
		r.fail("ssa package %s not built", p)
	}
	return sp
}

// ---- lookup helpers (anchors) ----

// funcDecls returns every function declaration with a body in package p.
func funcDecls(p *packages.Package) []*ast.FuncDecl {
	var out []*ast.FuncDecl
	for _, f := range p.Syntax {
		for _, d := range f.Decls {
			if fd, ok := d.(*ast.FuncDecl); ok && fd.Body != nil {
				out = append(out, fd)
			}
		}
	}
	return out
}

func recvTypeName(fd *ast.FuncDecl) string {
	if fd.Recv == nil || len(fd.Recv.List) == 0 {
		return ""
	}
	t := fd.Recv.List[0].Type
	for {
		switch x := t.(type) {
		case *ast.StarExpr:
			t = x.X
			continue
		case *ast.IndexExpr:
			t = x.X
			continue
		case *ast.IndexListExpr:
			t = x.X
			continue
		case *ast.ParenExpr:
			t = x.X
			continue
		case *ast.Ident:
			return x.Name
		}
		return ""
	}
}

// funcKey gives the stable construct key of a function declaration: pkg.(Recv).Name
func funcKey(p *packages.Package, fd *ast.FuncDecl) string {
	rel := strings.TrimPrefix(strings.TrimPrefix(p.PkgPath, modPath), "/")
	if rel == "" {
		rel = "main"
	}
	if rn := recvTypeName(fd); rn != "" {
		return fmt.Sprintf("%s.(%s).%s", rel, rn, fd.Name.Name)
	}
	return fmt.Sprintf("%s.%s", rel, fd.Name.Name)
}

func objKey(o types.Object) string {
	if o == nil {
		return "?"
	}
	rel := ""
	if o.Pkg() != nil {
		rel = strings.TrimPrefix(strings.TrimPrefix(o.Pkg().Path(), modPath), "/")
	}
	if f, ok := o.(*types.Func); ok {
		if sig, ok := f.Type().(*types.Signature); ok && sig.Recv() != nil {
			t := sig.Recv().Type()
			if pt, ok := t.(*types.Pointer); ok {
				t = pt.Elem()
			}
			if nt, ok := t.(*types.Named); ok {
				return fmt.Sprintf("%s.(%s).%s", rel, nt.Obj().Name(), f.Name())
			}
		}
	}
	return fmt.Sprintf("%s.%s", rel, o.Name())
}

// findFunc finds a function or method declaration: recv=="" for plain functions.
func findFunc(p *packages.Package, recv, name string) *ast.FuncDecl {
	if p == nil {
		return nil
	}
	for _, fd := range funcDecls(p) {
		if fd.Name.Name == name && recvTypeName(fd) == recv {
			return fd
		}
	}
	return nil
}

func (r *Run) mustFunc(p *packages.Package, recv, name string) *ast.FuncDecl {
	fd := findFunc(p, recv, name)
	if fd == nil && p != nil {
		r.fail("anchor not found: %s (%s).%s", p.PkgPath, recv, name)
	}
	return fd
}

// lookupType returns the named type `name` in package p.
func (r *Run) lookupType(p *packages.Package, name string) *types.Named {
	if p == nil {
		return nil
	}
	o := p.Types.Scope().Lookup(name)
	if o == nil {
		r.fail("anchor not found: type %s.%s", p.PkgPath, name)
		return nil
	}
	nt, _ := o.Type().(*types.Named)
	if nt == nil {
		r.fail("anchor %s.%s is not a named type", p.PkgPath, name)
	}
	return nt
}

func (r *Run) lookupField(nt *types.Named, name string) *types.Var {
	if nt == nil {
		return nil
	}
	st, ok := nt.Underlying().(*types.Struct)
	if !ok {
		r.fail("anchor %s is not a struct", nt.Obj().Name())
		return nil
	}
	for i := 0; i < st.NumFields(); i++ {
		if st.Field(i).Name() == name {
			return st.Field(i)
		}
	}
	// a field promoted from an embedded struct (the state moved into a small struct the type embeds)
	if obj, _, _ := types.LookupFieldOrMethod(nt, true, nt.Obj().Pkg(), name); obj != nil {
		if v, ok := obj.(*types.Var); ok && v.IsField() {
			return v
		}
	}
	r.fail("anchor not found: field %s.%s", nt.Obj().Name(), name)
	return nil
}

// calleeOf resolves the static callee of a call (function, method, or interface method object).
func calleeOf(info *types.Info, call *ast.CallExpr) types.Object {
	fun := ast.Unparen(call.Fun)
	switch f := fun.(type) {
	case *ast.Ident:
		return info.Uses[f]
	case *ast.SelectorExpr:
		if sel, ok := info.Selections[f]; ok {
			return sel.Obj()
		}
		return info.Uses[f.Sel]
	case *ast.IndexExpr:
		if id, ok := ast.Unparen(f.X).(*ast.Ident); ok {
			return info.Uses[id]
		}
		if se, ok := ast.Unparen(f.X).(*ast.SelectorExpr); ok {
			return info.Uses[se.Sel]
		}
	}
	return nil
}

func isPkgFunc(o types.Object, pkgPath, name string) bool {
	f, ok := o.(*types.Func)
	if !ok || f.Pkg() == nil {
		return false
	}
	return f.Pkg().Path() == pkgPath && f.Name() == name
}

// isMethod reports whether o is the method `name` whose receiver's named type is pkgPath.typeName.
func isMethod(o types.Object, pkgPath, typeName, name string) bool {
	f, ok := o.(*types.Func)
	if !ok || f.Name() != name {
		return false
	}
	sig, ok := f.Type().(*types.Signature)
	if !ok || sig.Recv() == nil {
		return false
	}
	t := sig.Recv().Type()
	if pt, ok := t.(*types.Pointer); ok {
		t = pt.Elem()
	}
	nt, ok := t.(*types.Named)
	if !ok || nt.Obj().Pkg() == nil {
		return false
	}
	return nt.Obj().Pkg().Path() == pkgPath && nt.Obj().Name() == typeName
}

func namedOf(t types.Type) *types.Named {
	if t == nil {
		return nil
	}
	if pt, ok := t.(*types.Pointer); ok {
		t = pt.Elem()
	}
	nt, _ := types.Unalias(t).(*types.Named)
	return nt
}

func isNamed(t types.Type, pkgPath, name string) bool {
	nt := namedOf(t)
	return nt != nil && nt.Obj().Pkg() != nil && nt.Obj().Pkg().Path() == pkgPath && nt.Obj().Name() == name
}

func exprStr(e ast.Expr) string { return types.ExprString(e) }

// ---- known findings ----

type KnownFinding struct {
	Property string `json:"property"`
	Rule     string `json:"rule"`
	Key      string `json:"key"`
	Status   string `json:"status"` // known | fixed
	Commit   string `json:"commit,omitempty"`
	What     string `json:"what"`
	Witness  string `json:"witness,omitempty"`
}

func loadKnown(path string) ([]KnownFinding, error) {
	b, err := os.ReadFile(path)
	if err != nil {
		if os.IsNotExist(err) {
			return nil, nil
		}
		return nil, err
	}
	var k []KnownFinding
	if err := json.Unmarshal(b, &k); err != nil {
		return nil, err
	}
	return k, nil
}

// ---- evidence ----

type Evidence struct {
	PropertyID  string         `json:"property_id"`
	Tier        string         `json:"tier"`
	Seed        int            `json:"seed"`
	Level       string         `json:"level"`
	Coverage    map[string]any `json:"coverage"`
	Assumptions []string       `json:"assumptions"`
	WallS       float64        `json:"wall_s"`
	Violations  int            `json:"violations"`
}

func (r *Run) finish(def *PropDef, known []KnownFinding, verifDir string, start time.Time) int {
	// apply known findings
	knownIdx := map[string]*KnownFinding{}
	for i := range known {
		k := &known[i]
		if k.Property == r.Prop && k.Status == "known" {
			knownIdx[k.Rule+"|"+k.Key] = k
		}
	}
	usedKnown := map[string]bool{}
	for i := range r.obligs {
		o := &r.obligs[i]
		if o.Status == "violation" {
			if k, ok := knownIdx[o.Rule+"|"+o.Key]; ok {
				o.Status = "known"
				usedKnown[o.Rule+"|"+o.Key] = true
				_ = k
			}
		}
	}
	// a "not armed" entry names a construct by function and kind; the expression text after the kind
	// (#range:vm.classMap) only tells several such constructs of one function apart. When the entry was not
	// met under its exact key in this run, exactly one entry of the rule is about that function and kind,
	// and exactly one unexplained report is too, a renamed table or local still is that construct.
	{
		prefixOf := func(rule, key string) string {
			i := strings.Index(key, "#")
			if i < 0 {
				return ""
			}
			j := strings.Index(key[i:], ":")
			if j < 0 || key[i:i+j+1] != "#range:" {
				return "" // only kinds whose suffix is the text of the ranged expression
			}
			return rule + "|" + key[:i+j+1]
		}
		vioByPrefix := map[string][]int{}
		for i, o := range r.obligs {
			if o.Status == "violation" {
				if p := prefixOf(o.Rule, o.Key); p != "" {
					vioByPrefix[p] = append(vioByPrefix[p], i)
				}
			}
		}
		for p, idxs := range vioByPrefix {
			if len(idxs) != 1 {
				continue
			}
			match, n := "", 0
			for k, why := range assumedTable {
				if strings.HasPrefix(k, p) && !r.usedAssumed[k] {
					match, n = why, n+1
				}
			}
			if n == 1 {
				o := &r.obligs[idxs[0]]
				o.Status = "assumed"
				o.Msg = "not armed: " + match + " (" + o.Msg + ")"
			}
		}
	}
	// per-rule counts and floors
	type rc struct{ total, dis, vio, known, assumed, info int }
	counts := map[string]*rc{}
	for _, rd := range def.Rules {
		counts[rd.Name] = &rc{}
	}
	for _, o := range r.obligs {
		c := counts[o.Rule]
		if c == nil {
			c = &rc{}
			counts[o.Rule] = c
		}
		switch o.Status {
		case "discharged":
			c.dis++
			c.total++
		case "violation":
			c.vio++
			c.total++
		case "known":
			c.known++
			c.total++
		case "assumed":
			c.assumed++
		case "info":
			c.info++
		}
	}
	for _, rd := range def.Rules {
		if rd.Thorough && r.Tier != "thorough" {
			continue
		}
		c := counts[rd.Name]
		if c.total < rd.Floor {
			r.errs = append(r.errs, fmt.Sprintf("[%s] matched %d constructs, below the floor %d confirmed by reading: the rule lost its anchor", rd.Name, c.total, rd.Floor))
		}
	}

	var vios, knowns []Oblig
	for _, o := range r.obligs {
		switch o.Status {
		case "violation":
			vios = append(vios, o)
		case "known":
			knowns = append(knowns, o)
		}
	}
	sort.SliceStable(vios, func(i, j int) bool { return vios[i].Rule+vios[i].Key < vios[j].Rule+vios[j].Key })

	// output
	ruleNames := []string{}
	for _, rd := range def.Rules {
		if rd.Thorough && r.Tier != "thorough" {
			continue
		}
		ruleNames = append(ruleNames, rd.Name)
	}
	fmt.Printf("== %s (%s) — packages analysed: %d roots, %d total\n", r.Prop, r.Tier, len(r.Roots), len(r.ByPath))
	ruleStats := map[string]any{}
	for _, n := range ruleNames {
		c := counts[n]
		fmt.Printf("rule %-16s obligations=%d discharged=%d violations=%d known=%d assumed=%d info=%d\n", n, c.total, c.dis, c.vio, c.known, c.assumed, c.info)
		ruleStats[n] = map[string]int{"obligations": c.total, "discharged": c.dis, "violations": c.vio, "known_findings": c.known, "assumed": c.assumed, "info": c.info}
	}
	for _, o := range knowns {
		k := knownIdx[o.Rule+"|"+o.Key]
		fmt.Printf("KNOWN-FINDING: property=%s rule=%s key=%s at %s: %s\n", r.Prop, o.Rule, o.Key, o.Pos, k.What)
	}
	// stale known findings: listed but not seen any more (informational)
	for kk, k := range knownIdx {
		if !usedKnown[kk] {
			fmt.Printf("NOTE: listed finding no longer reported (repaired or construct moved): rule=%s key=%s\n", k.Rule, k.Key)
		}
	}
	exit := 0
	replayPath := filepath.Join(verifDir, "evidence", "replay", fmt.Sprintf("%s-%s.json", r.Prop, r.Tier))
	os.MkdirAll(filepath.Dir(replayPath), 0o755)
	if len(r.errs) > 0 {
		for _, e := range r.errs {
			fmt.Printf("CHECKER-ERROR: property=%s %s\n", r.Prop, e)
		}
	}
	if len(vios) > 0 || len(r.errs) > 0 {
		for _, o := range vios {
			fmt.Printf("  %s: rule=%s construct=%s: %s\n", o.Pos, o.Rule, o.Key, o.Msg)
		}
		rp := map[string]any{"property": r.Prop, "tier": r.Tier, "violations": vios, "checker_errors": r.errs}
		b, _ := json.MarshalIndent(rp, "", " ")
		os.WriteFile(replayPath, b, 0o644)
		fmt.Printf("VIOLATION property=%s replay=%s\n", r.Prop, replayPath)
		exit = 1
	} else {
		os.Remove(replayPath)
	}

	// evidence
	total, dis, assumed := 0, 0, 0
	distinct := map[string]bool{}
	var samples []any
	for _, o := range r.obligs {
		switch o.Status {
		case "discharged", "violation", "known":
			total++
			distinct[o.Rule+"|"+o.Key] = true
			if o.Status == "discharged" {
				dis++
			}
		case "assumed":
			assumed++
		}
	}
	if n := len(r.obligs); n > 0 {
		step := n / 12
		if step == 0 {
			step = 1
		}
		off := 0
		if r.Seed > 0 {
			off = r.Seed % step
		}
		for i := off; i < n && len(samples) < 14; i += step {
			samples = append(samples, r.obligs[i])
		}
	}
	var assumedList, knownList []Oblig
	for _, o := range r.obligs {
		if o.Status == "assumed" {
			assumedList = append(assumedList, o)
		}
	}
	knownList = knowns
	nfuncs := 0
	for _, p := range r.Roots {
		nfuncs += len(funcDecls(p))
	}
	roots := []string{}
	for _, p := range r.Roots {
		roots = append(roots, p.PkgPath)
	}
	sort.Strings(roots)
	ruleDocs := map[string]string{}
	for _, rd := range def.Rules {
		ruleDocs[rd.Name] = rd.Doc
	}
	ev := Evidence{
		PropertyID: r.Prop, Tier: r.Tier, Seed: r.Seed, Level: "other",
		Coverage: map[string]any{
			"explanation":         def.Explanation,
			"rules":               ruleDocs,
			"rule_counts":         ruleStats,
			"obligations":         total,
			"discharged":          dis,
			"known_findings":      knownList,
			"assumed":             assumedList,
			"assumed_count":       assumed,
			"evaluations":         len(r.obligs),
			"distinct_nontrivial": len(distinct),
			"rule":                "one obligation per (rule, construct); non-trivial = the construct matched the rule's pattern and was decided (discharged, violation or known finding); keys are rule+construct, counted distinct",
			"samples":             samples,
			"packages_analysed":   roots,
			"functions_in_roots":  nfuncs,
			"stats":               r.stats,
			"checker_cmd":         fmt.Sprintf("/verif/run.sh %s %s", r.Prop, r.Tier),
			"trusted_base":        []string{"go/types type checker", "golang.org/x/tools go/packages, go/cfg, go/ssa v0.50.0", "reference tables embedded in /verif/lint (restating the property text)"},
			"checker_errors":      r.errs,
		},
		Assumptions: def.Assumptions,
		WallS:       time.Since(start).Seconds(),
		Violations:  len(vios),
	}
	b, _ := json.MarshalIndent(ev, "", " ")
	evPath := filepath.Join(verifDir, "evidence", r.Prop+".json")
	if err := os.WriteFile(evPath, b, 0o644); err != nil {
		fmt.Printf("CHECKER-ERROR: cannot write evidence: %v\n", err)
		return 2
	}
	fmt.Printf("%s: obligations=%d discharged=%d known=%d assumed=%d violations=%d wall=%.1fs\n", r.Prop, total, dis, len(knowns), assumed, len(vios), time.Since(start).Seconds())
	return exit
}

// calleeFunc resolves a call to the declared function or method it names (nil for dynamic calls).
func calleeFunc(info *types.Info, c *ast.CallExpr) *types.Func {
	f, _ := calleeOf(info, c).(*types.Func)
	return f
}

var declIndex = map[*packages.Package]map[types.Object]*ast.FuncDecl{}

// declOf returns the declaration of fn inside p, or nil.
func declOf(p *packages.Package, fn *types.Func) *ast.FuncDecl {
	m := declIndex[p]
	if m == nil {
		m = map[types.Object]*ast.FuncDecl{}
		for _, fd := range funcDecls(p) {
			m[p.TypesInfo.Defs[fd.Name]] = fd
		}
		declIndex[p] = m
	}
	return m[fn.Origin()]
}

// declAnywhere returns the package and declaration of fn among the loaded module packages.
func (r *Run) declAnywhere(fn *types.Func) (*packages.Package, *ast.FuncDecl) {
	if fn == nil || fn.Pkg() == nil {
		return nil, nil
	}
	p := r.ByPath[fn.Pkg().Path()]
	if p == nil || p.TypesInfo == nil {
		return nil, nil
	}
	fd := declOf(p, fn)
	if fd == nil || fd.Body == nil {
		return nil, nil
	}
	return p, fd
}

// findFuncAnyRecv finds a declaration by name whether it is a plain function or a method of some
// type of the package (a helper that moved onto a small struct keeps its role). Nil when absent or ambiguous.
func findFuncAnyRecv(p *packages.Package, name string) *ast.FuncDecl {
	if p == nil {
		return nil
	}
	var found *ast.FuncDecl
	for _, fd := range funcDecls(p) {
		if fd.Name.Name == name {
			if found != nil {
				return nil
			}
			found = fd
		}
	}
	return found
}

// sortedPkgs: every loaded package, in path order (deterministic iteration).
func (r *Run) sortedPkgs() []*packages.Package {
	ps := make([]string, 0, len(r.ByPath))
	for p := range r.ByPath {
		ps = append(ps, p)
	}
	sort.Strings(ps)
	out := make([]*packages.Package, 0, len(ps))
	for _, p := range ps {
		out = append(out, r.ByPath[p])
	}
	return out
}
