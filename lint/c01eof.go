package main

import (
	"fmt"
	"go/ast"
	"go/token"
	"go/types"
	"strings"

	"golang.org/x/tools/go/packages"
)

// C01-EOF: every token-driven loop of the parser leaves at end of input.
//
// The loop body is interpreted under the assumption "the token cursor is at or beyond the end of
// the token slice" with three-valued evaluation of cursor predicates; there must be no path from
// the loop head through the body back to the head.

type tri int

const (
	triU tri = iota
	triT
	triF
)

func (t tri) not() tri {
	switch t {
	case triT:
		return triF
	case triF:
		return triT
	}
	return triU
}

type eofAccessors struct {
	current   map[*types.Func]bool // () Token            : EOF token at end
	peek      map[*types.Func]bool // (int) Token
	isEOF     map[*types.Func]bool // () bool              : true at end
	checkPos  map[*types.Func]bool // (int, ...TokenType) bool : true at end only for the single argument EOF
	typeOrEOF map[*types.Func]bool // (TokenType) bool     : true at end
	nextCheck map[*types.Func]bool // (TokenType) Control  : non-nil at end unless asked for EOF
	next      map[*types.Func]bool
	eofConst  types.Object
	tokenT    types.Type
}

// discoverAccessors finds the Parser's cursor accessors by signature and by what they read.
func discoverAccessors(r *Run, ppkg, tpkg *packages.Package) *eofAccessors {
	info := ppkg.TypesInfo
	acc := &eofAccessors{current: map[*types.Func]bool{}, peek: map[*types.Func]bool{}, isEOF: map[*types.Func]bool{}, checkPos: map[*types.Func]bool{},
		typeOrEOF: map[*types.Func]bool{}, nextCheck: map[*types.Func]bool{}, next: map[*types.Func]bool{}}
	acc.eofConst = tpkg.Types.Scope().Lookup("EOF")
	if acc.eofConst == nil {
		r.fail("anchor not found: token.EOF")
		return nil
	}
	parserT := r.lookupType(ppkg, "Parser")
	if parserT == nil {
		return nil
	}
	fPos := r.lookupField(parserT, "position")
	fTok := r.lookupField(parserT, "tokens")
	if fPos == nil || fTok == nil {
		return nil
	}
	tokTT := tpkg.Types.Scope().Lookup("TokenType")
	if tokTT == nil {
		r.fail("anchor not found: token.TokenType")
		return nil
	}
	isTokType := func(t types.Type) bool { return types.Identical(t, tokTT.Type()) }
	isToken := func(t types.Type) bool { return isNamed(t, modPath+"/lexer", "Token") }
	isBool := func(t types.Type) bool {
		b, ok := t.Underlying().(*types.Basic)
		return ok && b.Kind() == types.Bool
	}
	// the cursor may live in a small struct that Parser embeds: its methods are Parser's accessors too
	owners := map[string]bool{"Parser": true}
	if pst, ok := parserT.Underlying().(*types.Struct); ok {
		for i := 0; i < pst.NumFields(); i++ {
			f := pst.Field(i)
			if !f.Embedded() {
				continue
			}
			t := f.Type()
			if pt, ok := t.(*types.Pointer); ok {
				t = pt.Elem()
			}
			if nt := namedOf(t); nt != nil && nt.Obj().Pkg() == ppkg.Types {
				if est, ok := nt.Underlying().(*types.Struct); ok {
					for j := 0; j < est.NumFields(); j++ {
						if est.Field(j) == fPos || est.Field(j) == fTok {
							owners[nt.Obj().Name()] = true
						}
					}
				}
			}
		}
	}
	// what an accessor reads/writes includes what the accessors it delegates to read/write (current() = peek(0))
	type rw struct{ readsPos, readsTok, writesPos, onlyIncr bool }
	direct := map[*types.Func]rw{}
	callsOwn := map[*types.Func][]*types.Func{}
	for _, fd := range funcDecls(ppkg) {
		if !owners[recvTypeName(fd)] {
			continue
		}
		fn, _ := info.Defs[fd.Name].(*types.Func)
		if fn == nil {
			continue
		}
		x := rw{onlyIncr: true}
		ast.Inspect(fd.Body, func(n ast.Node) bool {
			switch y := n.(type) {
			case *ast.SelectorExpr:
				if sl, ok := info.Selections[y]; ok {
					if sl.Obj() == fPos {
						x.readsPos = true
					}
					if sl.Obj() == fTok {
						x.readsTok = true
					}
				}
			case *ast.CallExpr:
				if cal, ok := calleeOf(info, y).(*types.Func); ok && cal != fn {
					if cd := declOf(ppkg, cal); cd != nil && owners[recvTypeName(cd)] {
						callsOwn[fn] = append(callsOwn[fn], cal)
					}
				}
			}
			return true
		})
		direct[fn] = x
	}
	for _, fd := range funcDecls(ppkg) {
		if !owners[recvTypeName(fd)] {
			continue
		}
		fn, _ := info.Defs[fd.Name].(*types.Func)
		if fn == nil {
			continue
		}
		readsPos, readsTok, writesPos := false, false, false
		for _, cal := range callsOwn[fn] {
			// read-only delegation (one level): a read-only accessor built on read-only accessors
			if d := direct[cal]; d.readsPos || d.readsTok {
				readsPos = readsPos || d.readsPos
				readsTok = readsTok || d.readsTok
			}
		}
		onlyIncr := true
		nstmts := 0
		ast.Inspect(fd.Body, func(n ast.Node) bool {
			switch x := n.(type) {
			case *ast.SelectorExpr:
				if s, ok := info.Selections[x]; ok {
					if s.Obj() == fPos {
						readsPos = true
					}
					if s.Obj() == fTok {
						readsTok = true
					}
				}
			case *ast.IncDecStmt:
				if s, ok := ast.Unparen(x.X).(*ast.SelectorExpr); ok {
					if sel, ok := info.Selections[s]; ok && sel.Obj() == fPos {
						writesPos = true
						if x.Tok != token.INC {
							onlyIncr = false
						}
					}
				}
			case *ast.AssignStmt:
				for _, l := range x.Lhs {
					if s, ok := ast.Unparen(l).(*ast.SelectorExpr); ok {
						if sel, ok := info.Selections[s]; ok && sel.Obj() == fPos {
							writesPos = true
							onlyIncr = false
						}
					}
				}
			}
			return true
		})
		nstmts = len(fd.Body.List)
		sig := fn.Type().(*types.Signature)
		np, nr := sig.Params().Len(), sig.Results().Len()
		switch {
		case readsPos && readsTok && !writesPos && np == 0 && nr == 1 && isToken(sig.Results().At(0).Type()):
			acc.current[fn] = true
		case readsPos && readsTok && !writesPos && np == 1 && nr == 1 && isToken(sig.Results().At(0).Type()) && isIntType(sig.Params().At(0).Type()):
			acc.peek[fn] = true
		case readsPos && readsTok && !writesPos && np == 0 && nr == 1 && isBool(sig.Results().At(0).Type()) && nstmts == 1:
			acc.isEOF[fn] = true
		case readsPos && readsTok && !writesPos && np == 2 && sig.Variadic() && nr == 1 && isBool(sig.Results().At(0).Type()) && isIntType(sig.Params().At(0).Type()):
			acc.checkPos[fn] = true
		case readsPos && readsTok && !writesPos && np == 1 && nr == 1 && isBool(sig.Results().At(0).Type()) && isTokType(sig.Params().At(0).Type()):
			acc.typeOrEOF[fn] = true
		case writesPos && onlyIncr && np == 1 && nr == 1 && isTokType(sig.Params().At(0).Type()) && isNamed(sig.Results().At(0).Type(), modPath+"/data", "Control"):
			acc.nextCheck[fn] = true
		case writesPos && onlyIncr && np == 0 && nr == 0 && nstmts == 1:
			acc.next[fn] = true
		}
	}
	if len(acc.current) == 0 || len(acc.isEOF) == 0 || len(acc.checkPos) == 0 || len(acc.next) == 0 {
		r.fail("cursor accessors of parser.Parser not found by signature (current=%d isEOF=%d checkPositionIs=%d next=%d)", len(acc.current), len(acc.isEOF), len(acc.checkPos), len(acc.next))
		return nil
	}
	return acc
}

type eofEval struct {
	info    *types.Info
	acc     *eofAccessors
	declOf  map[*types.Func]*ast.FuncDecl
	eofTok  map[types.Object]bool // variables holding the current token (EOF at end of input)
	predMem map[string]tri
	// token-list parameters (ops ...token.TokenType) → does any call site of the function pass token.EOF in
	// that list? triF: no site does (and every site is resolvable); triU otherwise
	tokListHasEOF map[types.Object]tri
	pkg           *packages.Package
}

// isCurrentCall: X.current() / X.peek(k>=0)
func (ev *eofEval) isCurrentCall(e ast.Expr) bool {
	c, ok := ast.Unparen(e).(*ast.CallExpr)
	if !ok {
		return false
	}
	cal, _ := calleeOf(ev.info, c).(*types.Func)
	if cal == nil {
		return false
	}
	if ev.acc.current[cal] {
		return true
	}
	if ev.acc.peek[cal] && len(c.Args) == 1 {
		if tv, ok := ev.info.Types[c.Args[0]]; ok && tv.Value != nil && !strings.HasPrefix(tv.Value.String(), "-") {
			return true
		}
	}
	return false
}

// tokenPredicate evaluates a package-level bool function of a token argument for the EOF token.
func (ev *eofEval) tokenPredicate(fn *types.Func, argIdx int) tri {
	key := fmt.Sprintf("%p/%d", fn, argIdx)
	if v, ok := ev.predMem[key]; ok {
		return v
	}
	ev.predMem[key] = triU
	fd := ev.declOf[fn]
	if fd == nil {
		return triU
	}
	ps := paramList(fd.Type.Params)
	if argIdx >= len(ps) || ps[argIdx] == nil {
		return triU
	}
	pobj := ev.info.Defs[ps[argIdx]]
	saved := ev.eofTok
	ev.eofTok = map[types.Object]bool{pobj: true}
	defer func() { ev.eofTok = saved }()
	sawT, sawF, sawOther := false, false, false
	h := &Hooks{Info: ev.info}
	h.Copy = func(s State) State { return s }
	h.Join = func(a, b State) State { return a }
	h.Equal = func(a, b State) bool { return true }
	h.Cond = func(e ast.Expr, truth bool, st State) State {
		v := ev.leaf(e)
		if be, ok := ast.Unparen(e).(*ast.BinaryExpr); ok && (be.Op == token.EQL || be.Op == token.NEQ) && exprStr(be.Y) == "nil" {
			if id, ok := ast.Unparen(be.X).(*ast.Ident); ok && ev.eofTok[ev.info.Uses[id]] {
				v = triF // the token is not nil
				if be.Op == token.NEQ {
					v = triT
				}
			}
		}
		if (v == triT && !truth) || (v == triF && truth) {
			return nil
		}
		return st
	}
	h.CaseMatch = func(tag, val ast.Expr, truth bool, st State) State {
		if ev.isCursorTokenType(tag) {
			if isTok, isEOF := ev.isEOFConst(val); isTok && isEOF != truth {
				return nil
			}
		}
		return st
	}
	h.Return = func(rs *ast.ReturnStmt, st State) {
		if len(rs.Results) != 1 {
			sawOther = true
			return
		}
		switch ev.eval(rs.Results[0]) {
		case triT:
			sawT = true
		case triF:
			sawF = true
		default:
			switch exprStr(rs.Results[0]) {
			case "true":
				sawT = true
			case "false":
				sawF = true
			default:
				sawOther = true
			}
		}
	}
	WalkFunc(h, fd.Body, struct{}{})
	res := triU
	if !sawOther && sawF && !sawT {
		res = triF
	} else if !sawOther && sawT && !sawF {
		res = triT
	}
	ev.predMem[key] = res
	return res
}

func (ev *eofEval) isEOFConst(e ast.Expr) (isTok bool, isEOF bool) {
	var id *ast.Ident
	switch x := ast.Unparen(e).(type) {
	case *ast.SelectorExpr:
		id = x.Sel
	case *ast.Ident:
		id = x
	}
	if id == nil {
		return false, false
	}
	o := ev.info.Uses[id]
	if c, ok := o.(*types.Const); ok && c.Pkg() != nil && c.Pkg().Path() == modPath+"/token" {
		return true, o == ev.acc.eofConst
	}
	return false, false
}

// isCursorTokenType: e is X.current().Type() / X.peek(k).Type() with k >= 0
func (ev *eofEval) isCursorTokenType(e ast.Expr) bool {
	c, ok := ast.Unparen(e).(*ast.CallExpr)
	if !ok {
		return false
	}
	se, ok := ast.Unparen(c.Fun).(*ast.SelectorExpr)
	if !ok || se.Sel.Name != "Type" {
		return false
	}
	if id, ok := ast.Unparen(se.X).(*ast.Ident); ok && ev.eofTok[ev.info.Uses[id]] {
		return true
	}
	return ev.isCurrentCall(se.X)
}

func (ev *eofEval) mentionsCursor(e ast.Node) bool {
	found := false
	ast.Inspect(e, func(n ast.Node) bool {
		if c, ok := n.(*ast.CallExpr); ok {
			if cal, ok := calleeOf(ev.info, c).(*types.Func); ok {
				if ev.acc.current[cal] || ev.acc.peek[cal] || ev.acc.isEOF[cal] || ev.acc.checkPos[cal] || ev.acc.typeOrEOF[cal] || ev.acc.nextCheck[cal] || ev.acc.next[cal] {
					found = true
				}
			}
		}
		return !found
	})
	return found
}

// leaf evaluates one non-connective condition at end of input.
func (ev *eofEval) leaf(e ast.Expr) tri {
	e = ast.Unparen(e)
	switch x := e.(type) {
	case *ast.CallExpr:
		cal, _ := calleeOf(ev.info, x).(*types.Func)
		if cal == nil {
			return triU
		}
		if cal.Pkg() != nil && cal.Pkg().Path() == modPath+"/parser" && ev.declOf[cal] != nil {
			if sig := cal.Type().(*types.Signature); sig.Results().Len() == 1 {
				if b, ok := sig.Results().At(0).Type().Underlying().(*types.Basic); ok && b.Kind() == types.Bool {
					for i, a := range x.Args {
						isTokVar := false
						if id, ok := ast.Unparen(a).(*ast.Ident); ok && ev.eofTok[ev.info.Uses[id]] {
							isTokVar = true
						}
						if ev.isCurrentCall(a) || isTokVar {
							if v := ev.tokenPredicate(cal, i); v != triU {
								return v
							}
						}
					}
				}
			}
		}
		switch {
		case ev.acc.isEOF[cal], ev.acc.typeOrEOF[cal]:
			return triT
		case ev.acc.checkPos[cal]:
			if len(x.Args) >= 1 {
				if tv, ok := ev.info.Types[x.Args[0]]; ok && tv.Value != nil && strings.HasPrefix(tv.Value.String(), "-") {
					return triU // looks behind the cursor
				}
			}
			if x.Ellipsis.IsValid() {
				// checkPositionIs(k, ops...) with ops a token-list parameter that no caller fills with EOF
				if id, ok := ast.Unparen(x.Args[len(x.Args)-1]).(*ast.Ident); ok && len(x.Args) == 2 {
					if v, ok := ev.tokListHasEOF[ev.info.Uses[id]]; ok && v == triF {
						return triF
					}
					// ops := levelOperators[level]: a row of a package-level table none of whose rows lists EOF
					if ev.localFromEOFFreeTable(ev.info.Uses[id]) {
						return triF
					}
				}
				return triU
			}
			if len(x.Args) == 2 {
				if isTok, isEOF := ev.isEOFConst(x.Args[1]); isTok && isEOF {
					return triT
				}
			}
			return triF
		}
	case *ast.IndexExpr:
		// membership of the cursor's token type in a package-level set: ops[p.current().Type()] — at the end
		// of input the key is token.EOF, absent from the literal unless it is written there
		if ev.isCursorTokenType(x.Index) {
			if id, ok := ast.Unparen(x.X).(*ast.Ident); ok {
				if v, ok := ev.info.Uses[id].(*types.Var); ok && ev.pkg != nil && v.Parent() == ev.pkg.Types.Scope() {
					if mt, ok := v.Type().Underlying().(*types.Map); ok {
						if b, ok := mt.Elem().Underlying().(*types.Basic); ok && b.Kind() == types.Bool {
							if lit := ev.packageVarLiteral(v); lit != nil {
								for _, el := range lit.Elts {
									if kv, ok := el.(*ast.KeyValueExpr); ok {
										if isTok, isEOF := ev.isEOFConst(kv.Key); isTok && isEOF {
											return triU
										} else if !isTok {
											return triU
										}
									}
								}
								if !ev.varWrittenElsewhere(v) {
									return triF
								}
							}
						}
					}
				}
			}
		}
	case *ast.BinaryExpr:
		if x.Op == token.EQL || x.Op == token.NEQ {
			var other ast.Expr
			if ev.isCursorTokenType(x.X) {
				other = x.Y
			} else if ev.isCursorTokenType(x.Y) {
				other = x.X
			}
			if other != nil {
				if isTok, isEOF := ev.isEOFConst(other); isTok {
					res := triF
					if isEOF {
						res = triT
					}
					if x.Op == token.NEQ {
						res = res.not()
					}
					return res
				}
			}
		}
	}
	return triU
}

func (ev *eofEval) eval(e ast.Expr) tri {
	switch x := ast.Unparen(e).(type) {
	case *ast.UnaryExpr:
		if x.Op == token.NOT {
			return ev.eval(x.X).not()
		}
	case *ast.BinaryExpr:
		switch x.Op {
		case token.LAND:
			a, b := ev.eval(x.X), ev.eval(x.Y)
			if a == triF || b == triF {
				return triF
			}
			if a == triT && b == triT {
				return triT
			}
			return triU
		case token.LOR:
			a, b := ev.eval(x.X), ev.eval(x.Y)
			if a == triT || b == triT {
				return triT
			}
			if a == triF && b == triF {
				return triF
			}
			return triU
		}
	}
	return ev.leaf(e)
}

type eofState struct {
	nilOf   map[types.Object]tri          // variable known nil (T) / non-nil (F)
	pairOf  map[types.Object]types.Object // control variable -> node variable of the same parse call
	condVal map[types.Object]tri          // boolean variables assigned from cursor predicates
}

func (s *eofState) clone() *eofState {
	n := &eofState{nilOf: map[types.Object]tri{}, pairOf: map[types.Object]types.Object{}, condVal: map[types.Object]tri{}}
	for k, v := range s.nilOf {
		n.nilOf[k] = v
	}
	for k, v := range s.pairOf {
		n.pairOf[k] = v
	}
	for k, v := range s.condVal {
		n.condVal[k] = v
	}
	return n
}

func c01EOF(r *Run) {
	ppkg := r.pkg("parser")
	tpkg := r.pkg("token")
	if ppkg == nil || tpkg == nil {
		return
	}
	acc := discoverAccessors(r, ppkg, tpkg)
	if acc == nil {
		return
	}
	info := ppkg.TypesInfo
	ev := &eofEval{info: info, acc: acc, declOf: map[*types.Func]*ast.FuncDecl{}, eofTok: map[types.Object]bool{}, predMem: map[string]tri{}}
	for _, fd := range funcDecls(ppkg) {
		if o, ok := info.Defs[fd.Name].(*types.Func); ok {
			ev.declOf[o] = fd
		}
	}
	ev.pkg = ppkg
	ev.computeTokListParams()
	r.stat("cursor_accessors", len(acc.current)+len(acc.peek)+len(acc.isEOF)+len(acc.checkPos)+len(acc.typeOrEOF)+len(acc.nextCheck)+len(acc.next))

	// accessor contracts (the summaries used above), verified on the accessor bodies
	c01AccessorContracts(r, ppkg, acc, ev)

	isParseSig := func(f *types.Func) bool {
		sig, ok := f.Type().(*types.Signature)
		if !ok || sig.Results().Len() != 2 {
			return false
		}
		return isNamed(sig.Results().At(1).Type(), modPath+"/data", "Control")
	}
	nLoops, nToken := 0, 0
	for _, fd := range funcDecls(ppkg) {
		fk := funcKey(ppkg, fd)
		var loops []*ast.ForStmt
		ast.Inspect(fd.Body, func(n ast.Node) bool {
			if f, ok := n.(*ast.ForStmt); ok {
				loops = append(loops, f)
			}
			return true
		})
		for _, loop := range loops {
			nLoops++
			ctx := "for"
			if loop.Cond != nil {
				ctx = "for(" + strings.ReplaceAll(exprStr(loop.Cond), " ", "") + ")"
			}
			key := fk + "#loop:" + ctx
			var c tri = triT
			if loop.Cond != nil {
				c = ev.eval(loop.Cond)
			}
			if c == triF {
				nToken++
				r.ok(key, loop.Pos(), "loop condition is false at end of input")
				continue
			}
			tokenDriven := (loop.Cond != nil && ev.mentionsCursor(loop.Cond)) || (loop.Cond == nil && ev.mentionsCursor(loop.Body))
			if loop.Cond != nil && c == triU && !ev.mentionsCursor(loop.Cond) {
				tokenDriven = false
			}
			if !tokenDriven {
				continue
			}
			nToken++
			// walk the body at end of input
			h := &Hooks{Info: info}
			h.Copy = func(s State) State { return s.(*eofState).clone() }
			h.Join = func(a, b State) State {
				x, y := a.(*eofState), b.(*eofState)
				n := &eofState{nilOf: map[types.Object]tri{}, pairOf: map[types.Object]types.Object{}, condVal: map[types.Object]tri{}}
				for k, v := range x.nilOf {
					if y.nilOf[k] == v {
						n.nilOf[k] = v
					}
				}
				for k, v := range x.pairOf {
					if y.pairOf[k] == v {
						n.pairOf[k] = v
					}
				}
				for k, v := range x.condVal {
					if y.condVal[k] == v {
						n.condVal[k] = v
					}
				}
				return n
			}
			h.Equal = func(a, b State) bool {
				x, y := a.(*eofState), b.(*eofState)
				if len(x.nilOf) != len(y.nilOf) || len(x.pairOf) != len(y.pairOf) || len(x.condVal) != len(y.condVal) {
					return false
				}
				for k, v := range x.nilOf {
					if y.nilOf[k] != v {
						return false
					}
				}
				for k, v := range x.condVal {
					if y.condVal[k] != v {
						return false
					}
				}
				return true
			}
			objOf := func(e ast.Expr) types.Object {
				if id, ok := ast.Unparen(e).(*ast.Ident); ok {
					if o := info.Defs[id]; o != nil {
						return o
					}
					return info.Uses[id]
				}
				return nil
			}
			h.Cond = func(e ast.Expr, truth bool, st State) State {
				s := st.(*eofState)
				v := ev.leaf(e)
				if id, ok := ast.Unparen(e).(*ast.Ident); ok {
					if cv, ok := s.condVal[info.Uses[id]]; ok {
						v = cv
					}
				}
				// x == nil / x != nil
				if be, ok := ast.Unparen(e).(*ast.BinaryExpr); ok && (be.Op == token.EQL || be.Op == token.NEQ) {
					var o types.Object
					if exprStr(be.Y) == "nil" {
						o = objOf(be.X)
					} else if exprStr(be.X) == "nil" {
						o = objOf(be.Y)
					}
					if o != nil {
						known := s.nilOf[o]
						isNilBranch := (be.Op == token.EQL) == truth
						if known == triT && !isNilBranch {
							return nil
						}
						if known == triF && isNilBranch {
							return nil
						}
						if isNilBranch {
							s.nilOf[o] = triT
							// control nil ⇒ at end of input the parse call produced no node
							if nodeVar, ok := s.pairOf[o]; ok {
								s.nilOf[nodeVar] = triT
							}
						} else {
							s.nilOf[o] = triF
						}
						return s
					}
				}
				if v == triT && !truth {
					return nil
				}
				if v == triF && truth {
					return nil
				}
				return s
			}
			h.CaseMatch = func(tag, val ast.Expr, truth bool, st State) State {
				if ev.isCursorTokenType(tag) {
					if isTok, isEOF := ev.isEOFConst(val); isTok {
						if isEOF != truth {
							return nil
						}
					}
				}
				return st
			}
			h.Stmt = func(stm ast.Stmt, st State) State {
				s := st.(*eofState)
				as, ok := stm.(*ast.AssignStmt)
				if !ok {
					return s
				}
				for _, l := range as.Lhs {
					if o := objOf(l); o != nil {
						delete(s.nilOf, o)
						delete(s.pairOf, o)
						delete(s.condVal, o)
					}
				}
				if len(as.Rhs) == 1 {
					if call, ok := ast.Unparen(as.Rhs[0]).(*ast.CallExpr); ok {
						if cal, ok := calleeOf(info, call).(*types.Func); ok {
							if len(as.Lhs) == 2 && isParseSig(cal) {
								nodeVar, ctlVar := objOf(as.Lhs[0]), objOf(as.Lhs[1])
								if nodeVar != nil && ctlVar != nil {
									s.pairOf[ctlVar] = nodeVar
								}
							}
							if len(as.Lhs) == 1 && acc.nextCheck[cal] && len(call.Args) == 1 {
								if isTok, isEOF := ev.isEOFConst(call.Args[0]); isTok && !isEOF {
									if o := objOf(as.Lhs[0]); o != nil {
										s.nilOf[o] = triF
									}
								}
							}
						}
					}
					if len(as.Lhs) == 1 {
						if b, ok := info.TypeOf(as.Lhs[0]).Underlying().(*types.Basic); ok && b.Kind() == types.Bool {
							if v := ev.eval(as.Rhs[0]); v != triU {
								if o := objOf(as.Lhs[0]); o != nil {
									s.condVal[o] = v
								}
							}
						}
					}
				}
				return s
			}
			back := WalkLoopBody(h, loop, &eofState{nilOf: map[types.Object]tri{}, pairOf: map[types.Object]types.Object{}, condVal: map[types.Object]tri{}})
			if back == nil {
				r.ok(key, loop.Pos(), "at end of input every path through the body leaves the loop")
			} else {
				r.bad(key, loop.Pos(), "at end of input a path through the body returns to the loop head: the loop never terminates on truncated input")
			}
		}
	}
	r.stat("parser_for_loops", nLoops)
	r.stat("token_driven_loops", nToken)
	_ = fmt.Sprint
}

// c01AccessorContracts verifies, on the accessor bodies, the end-of-input summaries the rule uses.
func c01AccessorContracts(r *Run, ppkg *packages.Package, acc *eofAccessors, ev *eofEval) {
	info := ppkg.TypesInfo
	declOf := map[*types.Func]*ast.FuncDecl{}
	for _, fd := range funcDecls(ppkg) {
		if o, ok := info.Defs[fd.Name].(*types.Func); ok {
			declOf[o] = fd
		}
	}
	parserT := r.lookupType(ppkg, "Parser")
	fPos := r.lookupField(parserT, "position")
	fTok := r.lookupField(parserT, "tokens")
	// "beyond the end" predicate: position (+ k) >= len(tokens), also through local aliases
	posAlias := map[types.Object]bool{}
	lenAlias := map[types.Object]bool{}
	mentions := func(x ast.Expr, f *types.Var, al map[types.Object]bool) bool {
		found := false
		ast.Inspect(x, func(n ast.Node) bool {
			switch y := n.(type) {
			case *ast.SelectorExpr:
				if s, ok := info.Selections[y]; ok && s.Obj() == f {
					found = true
				}
			case *ast.Ident:
				if al[info.Uses[y]] {
					found = true
				}
			}
			return true
		})
		return found
	}
	var beyond func(e ast.Expr) tri
	beyond = func(e ast.Expr) tri {
		switch x := ast.Unparen(e).(type) {
		case *ast.CallExpr:
			// the end-of-input accessor itself (its own contract is judged below)
			if cal, _ := calleeOf(info, x).(*types.Func); cal != nil && acc.isEOF[cal] {
				return triT
			}
		case *ast.UnaryExpr:
			if x.Op == token.NOT {
				return beyond(x.X).not()
			}
		}
		be, ok := ast.Unparen(e).(*ast.BinaryExpr)
		if !ok {
			return triU
		}
		l, rr := be.X, be.Y
		op := be.Op
		if mentions(rr, fPos, posAlias) && mentions(l, fTok, lenAlias) {
			l, rr = rr, l
			switch op {
			case token.LSS:
				op = token.GTR
			case token.GTR:
				op = token.LSS
			case token.LEQ:
				op = token.GEQ
			case token.GEQ:
				op = token.LEQ
			}
		}
		if !mentions(l, fPos, posAlias) || !mentions(rr, fTok, lenAlias) {
			return triU
		}
		switch op {
		case token.GEQ:
			return triT
		case token.LSS:
			return triF
		}
		return triU
	}
	check := func(fn *types.Func, what string, judge func(fd *ast.FuncDecl) (bool, string)) {
		fd := declOf[fn]
		if fd == nil {
			return
		}
		okc, msg := judge(fd)
		key := funcKey(ppkg, fd) + "#eof-contract"
		if okc {
			r.ok(key, fd.Pos(), what)
		} else {
			r.bad(key, fd.Pos(), "cursor accessor no longer honours its end-of-input contract: "+msg)
		}
	}
	// generic walk: evaluate the accessor with "beyond the end" true, collect returned expressions
	walkReturns := func(fd *ast.FuncDecl, onReturn func(rs *ast.ReturnStmt, sawEOFArgTest bool)) {
		type st struct{ eofArg bool }
		h := &Hooks{Info: info}
		h.Copy = func(s State) State { c := *s.(*st); return &c }
		h.Join = func(a, b State) State { x := *a.(*st); x.eofArg = x.eofArg && b.(*st).eofArg; return &x }
		h.Equal = func(a, b State) bool { return *a.(*st) == *b.(*st) }
		h.Stmt = func(stm ast.Stmt, s State) State {
			if as, ok := stm.(*ast.AssignStmt); ok && len(as.Lhs) == 1 && len(as.Rhs) == 1 {
				if id, ok := as.Lhs[0].(*ast.Ident); ok {
					o := info.Defs[id]
					if o == nil {
						o = info.Uses[id]
					}
					// pos := p.position + offset   /   n := len(p.tokens)
					if mentions(as.Rhs[0], fTok, lenAlias) {
						lenAlias[o] = true
					} else if mentions(as.Rhs[0], fPos, posAlias) {
						posAlias[o] = true
					}
				}
			}
			return s
		}
		h.Cond = func(e ast.Expr, truth bool, s State) State {
			v := beyond(e)
			if (v == triT && !truth) || (v == triF && truth) {
				return nil
			}
			// checks[0] == token.EOF
			if be, ok := ast.Unparen(e).(*ast.BinaryExpr); ok && be.Op == token.EQL && truth {
				if isTok, isEOF := ev.isEOFConst(be.Y); isTok && isEOF {
					s.(*st).eofArg = true
				}
			}
			return s
		}
		h.Return = func(rs *ast.ReturnStmt, s State) { onReturn(rs, s.(*st).eofArg) }
		WalkFunc(h, fd.Body, &st{})
	}
	// eofToken: the expression is an EOF token — it names token.EOF, delegates to a token accessor of
	// the cursor (whose own contract is judged here too), or calls a parameterless function of the
	// package every return of which is an EOF token
	var eofToken func(e ast.Node, depth int) bool
	eofToken = func(e ast.Node, depth int) bool {
		found := false
		ast.Inspect(e, func(m ast.Node) bool {
			x, ok := m.(ast.Expr)
			if !ok || found {
				return !found
			}
			if isTok, isEOF := ev.isEOFConst(x); isTok && isEOF {
				found = true
			}
			return true
		})
		if found {
			return true
		}
		var res ast.Expr
		switch x := e.(type) {
		case *ast.ReturnStmt:
			if len(x.Results) == 1 {
				res = x.Results[0]
			}
		case ast.Expr:
			res = x
		}
		c, ok := ast.Unparen(res).(*ast.CallExpr)
		if res == nil || !ok {
			return false
		}
		if ev.isCurrentCall(c) {
			return true
		}
		cal, _ := calleeOf(info, c).(*types.Func)
		if cal == nil || len(c.Args) != 0 || depth >= 2 {
			return false
		}
		hd := declOf[cal]
		if hd == nil || hd.Body == nil || hd.Recv != nil {
			return false
		}
		all, n := true, 0
		ast.Inspect(hd.Body, func(m ast.Node) bool {
			if _, isLit := m.(*ast.FuncLit); isLit {
				return false
			}
			if rs, ok := m.(*ast.ReturnStmt); ok {
				n++
				if !eofToken(rs, depth+1) {
					all = false
				}
			}
			return true
		})
		return all && n > 0
	}
	// boolBeyond evaluates a returned boolean with the cursor beyond the end; onEOF says the value can
	// only be true when the asked-for type is the EOF constant (a conjunct x == token.EOF)
	var boolBeyond func(e ast.Expr) (v tri, onEOF bool)
	boolBeyond = func(e ast.Expr) (tri, bool) {
		e = ast.Unparen(e)
		switch exprStr(e) {
		case "true":
			return triT, false
		case "false":
			return triF, false
		}
		if v := beyond(e); v != triU {
			return v, false
		}
		if be, ok := e.(*ast.BinaryExpr); ok {
			switch be.Op {
			case token.LOR:
				a, _ := boolBeyond(be.X)
				b, _ := boolBeyond(be.Y)
				if a == triT || b == triT {
					return triT, false
				}
				if a == triF && b == triF {
					return triF, false
				}
			case token.LAND:
				a, ae := boolBeyond(be.X)
				b, bee := boolBeyond(be.Y)
				if a == triF || b == triF {
					return triF, false
				}
				if a == triT && b == triT {
					return triT, false
				}
				return triU, ae || bee
			case token.EQL:
				if isTok, isEOF := ev.isEOFConst(be.Y); isTok && isEOF {
					return triU, true
				}
				if isTok, isEOF := ev.isEOFConst(be.X); isTok && isEOF {
					return triU, true
				}
			}
		}
		return triU, false
	}
	for fn := range acc.current {
		check(fn, "returns an EOF token when the cursor is beyond the end", func(fd *ast.FuncDecl) (bool, string) {
			okAll, n := true, 0
			walkReturns(fd, func(rs *ast.ReturnStmt, _ bool) {
				n++
				if !eofToken(rs, 0) {
					okAll = false
				}
			})
			return okAll && n > 0, "beyond the end it can return something other than an EOF token"
		})
	}
	for fn := range acc.peek {
		check(fn, "returns an EOF token when the looked-at position is beyond the end", func(fd *ast.FuncDecl) (bool, string) {
			okAll, n := true, 0
			walkReturns(fd, func(rs *ast.ReturnStmt, _ bool) {
				n++
				if !eofToken(rs, 0) {
					okAll = false
				}
			})
			return okAll && n > 0, "beyond the end it can return something other than an EOF token"
		})
	}
	for fn := range acc.isEOF {
		check(fn, "is true exactly when the cursor is beyond the end", func(fd *ast.FuncDecl) (bool, string) {
			if len(fd.Body.List) == 1 {
				if rs, ok := fd.Body.List[0].(*ast.ReturnStmt); ok && len(rs.Results) == 1 {
					if _, isCall := ast.Unparen(rs.Results[0]).(*ast.CallExpr); !isCall && beyond(rs.Results[0]) == triT {
						return true, ""
					}
				}
			}
			return false, "it is not `position >= len(tokens)`"
		})
	}
	for fn := range acc.typeOrEOF {
		check(fn, "is true when the cursor is beyond the end", func(fd *ast.FuncDecl) (bool, string) {
			okAll, n := true, 0
			walkReturns(fd, func(rs *ast.ReturnStmt, _ bool) {
				n++
				if len(rs.Results) != 1 {
					okAll = false
				} else if v, _ := boolBeyond(rs.Results[0]); v != triT {
					okAll = false
				}
			})
			return okAll && n > 0, "beyond the end it can return false"
		})
	}
	for fn := range acc.checkPos {
		check(fn, "beyond the end it is true only when asked for the single type EOF", func(fd *ast.FuncDecl) (bool, string) {
			okAll, n := true, 0
			walkReturns(fd, func(rs *ast.ReturnStmt, eofArg bool) {
				n++
				if len(rs.Results) != 1 {
					okAll = false
					return
				}
				switch v, onEOF := boolBeyond(rs.Results[0]); {
				case v == triF:
				case v == triT:
					if !eofArg {
						okAll = false
					}
				case onEOF:
					// len(checks) == 1 && checks[0] == token.EOF
				default:
					okAll = false
				}
			})
			return okAll && n > 0, "beyond the end it can report a match for a type other than EOF (or index the slice)"
		})
	}
	for fn := range acc.nextCheck {
		check(fn, "beyond the end it returns an error for any type other than EOF", func(fd *ast.FuncDecl) (bool, string) {
			// first statement tests current().Type() != t and returns a non-nil control
			hasGuard := false
			ast.Inspect(fd.Body, func(n ast.Node) bool {
				if ifs, ok := n.(*ast.IfStmt); ok {
					if be, ok := ast.Unparen(ifs.Cond).(*ast.BinaryExpr); ok && be.Op == token.NEQ && (ev.isCursorTokenType(be.X) || ev.isCursorTokenType(be.Y)) {
						for _, s := range ifs.Body.List {
							if rs, ok := s.(*ast.ReturnStmt); ok && len(rs.Results) == 1 && exprStr(rs.Results[0]) != "nil" {
								hasGuard = true
							}
						}
					}
				}
				return true
			})
			return hasGuard, "it no longer rejects a mismatching current token before advancing"
		})
	}
}

// packageVarLiteral: the composite literal a package-level variable is initialised with.
func (ev *eofEval) packageVarLiteral(v *types.Var) *ast.CompositeLit {
	for _, f := range ev.pkg.Syntax {
		for _, d := range f.Decls {
			gd, ok := d.(*ast.GenDecl)
			if !ok || gd.Tok != token.VAR {
				continue
			}
			for _, sp := range gd.Specs {
				vs := sp.(*ast.ValueSpec)
				for i, nm := range vs.Names {
					if ev.info.Defs[nm] == v && i < len(vs.Values) {
						cl, _ := ast.Unparen(vs.Values[i]).(*ast.CompositeLit)
						return cl
					}
				}
			}
		}
	}
	return nil
}

// varWrittenElsewhere: the package-level variable (or an element of it) is assigned in some function.
func (ev *eofEval) varWrittenElsewhere(v *types.Var) bool {
	written := false
	for _, fd := range funcDecls(ev.pkg) {
		if fd.Body == nil {
			continue
		}
		ast.Inspect(fd.Body, func(n ast.Node) bool {
			as, ok := n.(*ast.AssignStmt)
			if !ok {
				return true
			}
			for _, l := range as.Lhs {
				e := ast.Unparen(l)
				if ix, ok := e.(*ast.IndexExpr); ok {
					e = ast.Unparen(ix.X)
				}
				if id, ok := e.(*ast.Ident); ok && ev.info.Uses[id] == v {
					written = true
				}
			}
			return !written
		})
	}
	return written
}

// computeTokListParams fills tokListHasEOF: for every function of the package with a parameter that is a
// list of token types, whether some call site hands token.EOF in that list.
func (ev *eofEval) computeTokListParams() {
	ev.tokListHasEOF = map[types.Object]tri{}
	isTokList := func(t types.Type) bool {
		sl, ok := t.Underlying().(*types.Slice)
		return ok && isNamed(sl.Elem(), modPath+"/token", "TokenType")
	}
	for fn, fd := range ev.declOf {
		sig := fn.Type().(*types.Signature)
		for i := 0; i < sig.Params().Len(); i++ {
			if !isTokList(sig.Params().At(i).Type()) {
				continue
			}
			po := paramObjAt(ev.info, fd, i)
			if po == nil {
				continue
			}
			variadic := sig.Variadic() && i == sig.Params().Len()-1
			res, sites := triF, 0
			for _, cfd := range funcDecls(ev.pkg) {
				if cfd.Body == nil {
					continue
				}
				ast.Inspect(cfd.Body, func(n ast.Node) bool {
					c, ok := n.(*ast.CallExpr)
					if !ok || calleeFunc(ev.info, c) == nil || calleeFunc(ev.info, c).Origin() != fn.Origin() {
						return true
					}
					sites++
					var elems []ast.Expr
					switch {
					case variadic && !c.Ellipsis.IsValid():
						if i <= len(c.Args) {
							elems = c.Args[i:]
						}
					case i < len(c.Args):
						if cl, ok := ast.Unparen(c.Args[i]).(*ast.CompositeLit); ok {
							elems = cl.Elts
						} else if id, ok := ast.Unparen(c.Args[i]).(*ast.Ident); ok {
							// a package-level list, or the caller's own token-list parameter (judged there)
							if v, ok := ev.info.Uses[id].(*types.Var); ok && v.Parent() == ev.pkg.Types.Scope() {
								if cl := ev.packageVarLiteral(v); cl != nil && !ev.varWrittenElsewhere(v) {
									elems = cl.Elts
								} else {
									res = triU
								}
							} else {
								res = triU
							}
						} else {
							res = triU
						}
					}
					for _, el := range elems {
						if isTok, isEOF := ev.isEOFConst(el); !isTok || isEOF {
							res = triU
						}
					}
					return true
				})
			}
			if sites == 0 {
				res = triU
			}
			ev.tokListHasEOF[po] = res
		}
	}
}

// localFromEOFFreeTable: o is a local defined (once) as T[i] for a package-level table T — a slice, array or
// map of token lists written as a literal and never assigned elsewhere — no row of which contains token.EOF.
func (ev *eofEval) localFromEOFFreeTable(o types.Object) bool {
	if o == nil || ev.pkg == nil {
		return false
	}
	var defs []ast.Expr
	for _, fd := range funcDecls(ev.pkg) {
		if fd.Body == nil || o.Pos() < fd.Pos() || o.Pos() > fd.End() {
			continue
		}
		ast.Inspect(fd.Body, func(n ast.Node) bool {
			if as, ok := n.(*ast.AssignStmt); ok && len(as.Lhs) == len(as.Rhs) {
				for i, l := range as.Lhs {
					if id, ok := l.(*ast.Ident); ok && (ev.info.Defs[id] == o || ev.info.Uses[id] == o) {
						defs = append(defs, as.Rhs[i])
					}
				}
			}
			return true
		})
	}
	if len(defs) != 1 {
		return false
	}
	ix, ok := ast.Unparen(defs[0]).(*ast.IndexExpr)
	if !ok {
		return false
	}
	id, ok := ast.Unparen(ix.X).(*ast.Ident)
	if !ok {
		return false
	}
	v, ok := ev.info.Uses[id].(*types.Var)
	if !ok || v.Parent() != ev.pkg.Types.Scope() || ev.varWrittenElsewhere(v) {
		return false
	}
	lit := ev.packageVarLiteral(v)
	if lit == nil {
		return false
	}
	rows := 0
	for _, el := range lit.Elts {
		val := el
		if kv, ok := el.(*ast.KeyValueExpr); ok {
			val = kv.Value
		}
		row, ok := ast.Unparen(val).(*ast.CompositeLit)
		if !ok {
			return false
		}
		rows++
		for _, t := range row.Elts {
			if isTok, isEOF := ev.isEOFConst(t); !isTok || isEOF {
				return false
			}
		}
	}
	return rows > 0
}
