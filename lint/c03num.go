package main

import (
	"go/ast"
	"go/token"
	"go/types"

	"golang.org/x/tools/go/packages"
)

// C03-PROMOTE: an operand that may be a float is not converted to an int on the way into arithmetic or
// a comparison. FloatValue answers the int conversion (AsInt) by truncating, so `1 - 1.5`, `1 < 1.5`,
// `1 == 1.5` computed on the int conversions of both operands give the results of `1 - 1`, `1 < 1`,
// `1 == 1`. Structural reading, per function of package node:
//
//   - an *int conversion of operand X*: `n, err := conv(X)` for a package function conv whose body asserts
//     its parameter to the int-conversion interface, or `a, ok := X.(AsInt)` followed by `n, err := a.AsInt()`;
//   - the conversion *matters* when n (or a value copied from it) is an operand of a Go `+ - * /` or of
//     `< <= > >= == !=` whose other side is an int as well (bitwise, shift and `%` operands are ints by
//     the language's definition and are not judged);
//   - X is *known not to be a float* at the conversion when the conversion sits in a case of a type
//     switch on X that lists concrete types other than the float value type, or after an `if` that
//     tested X for float-ness (assertion to the float value type or to the float-conversion interface,
//     or a bool helper doing that) and left the function.
//
// A conversion that matters on an operand not known to be a non-float is a violation. What the float
// path then computes is not decided.
func c03Promote(r *Run, npkg *packages.Package) {
	r.curRule = "C03-PROMOTE"
	info := npkg.TypesInfo
	dataPath := modPath + "/data"
	isAsInt := func(t types.Type) bool { return t != nil && isNamed(t, dataPath, "AsInt") }
	isFloatish := func(t types.Type) bool {
		return t != nil && (isNamed(t, dataPath, "AsFloat") || isNamed(t, dataPath, "FloatValue"))
	}
	isIntT := func(t types.Type) bool { return t != nil && isIntType(t) }
	isNumT := func(t types.Type) bool {
		if t == nil {
			return false
		}
		b, ok := t.Underlying().(*types.Basic)
		return ok && b.Info()&(types.IsInteger|types.IsFloat) != 0
	}
	// package functions that convert their (single operand) parameter to an int through AsInt
	intConv := map[*types.Func]int{} // → index of the converted parameter
	floatTest := map[*types.Func]int{}
	for _, fd := range funcDecls(npkg) {
		if fd.Recv != nil || fd.Body == nil || fd.Type.Params == nil {
			continue
		}
		fn, _ := info.Defs[fd.Name].(*types.Func)
		if fn == nil {
			continue
		}
		sig := fn.Type().(*types.Signature)
		idx := map[types.Object]int{}
		k := 0
		for _, f := range fd.Type.Params.List {
			for _, nm := range f.Names {
				idx[info.Defs[nm]] = k
				k++
			}
			if len(f.Names) == 0 {
				k++
			}
		}
		ast.Inspect(fd.Body, func(n ast.Node) bool {
			ta, ok := n.(*ast.TypeAssertExpr)
			if !ok || ta.Type == nil {
				return true
			}
			id, ok := ast.Unparen(ta.X).(*ast.Ident)
			if !ok {
				return true
			}
			pi, isParam := idx[info.Uses[id]]
			if !isParam {
				return true
			}
			t := info.TypeOf(ta.Type)
			if isAsInt(t) && sig.Results().Len() >= 1 && isIntT(sig.Results().At(0).Type()) {
				intConv[fn] = pi
			}
			if isFloatish(t) && sig.Results().Len() == 1 {
				if b, ok := sig.Results().At(0).Type().Underlying().(*types.Basic); ok && b.Kind() == types.Bool {
					floatTest[fn] = pi
				}
			}
			return true
		})
		// a float test may look through `val, ok := v.(data.Value)` first
		if _, have := floatTest[fn]; !have && sig.Results().Len() == 1 {
			if b, ok := sig.Results().At(0).Type().Underlying().(*types.Basic); ok && b.Kind() == types.Bool && sig.Params().Len() == 1 {
				found := false
				ast.Inspect(fd.Body, func(n ast.Node) bool {
					if ta, ok := n.(*ast.TypeAssertExpr); ok && ta.Type != nil && isNamed(info.TypeOf(ta.Type), dataPath, "FloatValue") {
						found = true
					}
					return true
				})
				if found {
					floatTest[fn] = 0
				}
			}
		}
	}
	judged := map[token.Token]bool{token.ADD: true, token.SUB: true, token.MUL: true, token.QUO: true,
		token.LSS: true, token.LEQ: true, token.GTR: true, token.GEQ: true, token.EQL: true, token.NEQ: true}
	objOf := func(e ast.Expr) types.Object {
		if id, ok := ast.Unparen(e).(*ast.Ident); ok {
			if o := info.Defs[id]; o != nil {
				return o
			}
			return info.Uses[id]
		}
		return nil
	}
	parentsMemo := map[*ast.FuncDecl]map[ast.Node]ast.Node{}
	parentsOf := func(fd *ast.FuncDecl) map[ast.Node]ast.Node {
		if m := parentsMemo[fd]; m != nil {
			return m
		}
		parents := map[ast.Node]ast.Node{}
		var stack []ast.Node
		ast.Inspect(fd.Body, func(n ast.Node) bool {
			if n == nil {
				stack = stack[:len(stack)-1]
				return true
			}
			if len(stack) > 0 {
				parents[n] = stack[len(stack)-1]
			}
			stack = append(stack, n)
			return true
		})
		parentsMemo[fd] = parents
		return parents
	}
	// call sites of package functions, for operands that are parameters of a helper: the helper's
	// callers must have excluded the float
	type callSite struct {
		fd   *ast.FuncDecl
		call *ast.CallExpr
	}
	callSites := map[*types.Func][]callSite{}
	for _, fd := range funcDecls(npkg) {
		if fd.Body == nil {
			continue
		}
		ast.Inspect(fd.Body, func(n ast.Node) bool {
			if c, ok := n.(*ast.CallExpr); ok {
				if cal := calleeFunc(info, c); cal != nil && cal.Pkg() == npkg.Types {
					callSites[cal.Origin()] = append(callSites[cal.Origin()], callSite{fd, c})
				}
			}
			return true
		})
	}
	var notFloatIn func(fd *ast.FuncDecl, x types.Object, at ast.Node, depth int) bool
	for _, fd := range funcDecls(npkg) {
		if fd.Body == nil {
			continue
		}
		if fn, _ := info.Defs[fd.Name].(*types.Func); fn != nil {
			if _, isConv := intConv[fn]; isConv {
				continue // the converter itself: judged where it is applied
			}
		}
		parents := parentsOf(fd)
		// asserted views: a, ok := X.(AsInt)  → a stands for X
		viewOf := map[types.Object]types.Object{}
		// switch v := X.(type): v stands for X inside the cases
		ast.Inspect(fd.Body, func(n ast.Node) bool {
			switch x := n.(type) {
			case *ast.AssignStmt:
				if len(x.Rhs) == 1 {
					if ta, ok := ast.Unparen(x.Rhs[0]).(*ast.TypeAssertExpr); ok && ta.Type != nil && isAsInt(info.TypeOf(ta.Type)) {
						if src := objOf(ta.X); src != nil {
							if v := objOf(x.Lhs[0]); v != nil {
								viewOf[v] = src
							}
						}
					}
				}
			}
			return true
		})
		type conv struct {
			res types.Object // the int
			x   types.Object // the operand
			at  ast.Node
			how string
		}
		var convs []conv
		ast.Inspect(fd.Body, func(n ast.Node) bool {
			as, ok := n.(*ast.AssignStmt)
			if !ok || len(as.Rhs) != 1 || len(as.Lhs) == 0 {
				return true
			}
			c, ok := ast.Unparen(as.Rhs[0]).(*ast.CallExpr)
			if !ok {
				return true
			}
			res := objOf(as.Lhs[0])
			if res == nil {
				return true
			}
			if cal := calleeFunc(info, c); cal != nil {
				if pi, ok := intConv[cal]; ok && pi < len(c.Args) {
					if x := objOf(c.Args[pi]); x != nil {
						convs = append(convs, conv{res, x, as, cal.Name()})
					}
					return true
				}
			}
			if se, ok := ast.Unparen(c.Fun).(*ast.SelectorExpr); ok && se.Sel.Name == "AsInt" && len(c.Args) == 0 {
				if v := objOf(se.X); v != nil {
					if x, ok := viewOf[v]; ok {
						convs = append(convs, conv{res, x, as, exprStr(se.X) + ".AsInt"})
					}
				}
			}
			return true
		})
		if len(convs) == 0 {
			continue
		}
		// every int obtained from a script value in this function (any AsInt() call, any converter call)
		operandInt := map[types.Object]bool{}
		ast.Inspect(fd.Body, func(n ast.Node) bool {
			as, ok := n.(*ast.AssignStmt)
			if !ok || len(as.Rhs) != 1 || len(as.Lhs) == 0 {
				return true
			}
			c, ok := ast.Unparen(as.Rhs[0]).(*ast.CallExpr)
			if !ok {
				return true
			}
			res := objOf(as.Lhs[0])
			if res == nil {
				return true
			}
			if cal := calleeFunc(info, c); cal != nil {
				if _, ok := intConv[cal]; ok {
					operandInt[res] = true
				}
				if cal.Name() == "AsInt" && len(c.Args) == 0 {
					operandInt[res] = true
				}
			}
			return true
		})
		// the payload of an int value (l.Value for l of the int value type) is an operand int as well
		isIntPayload := func(e ast.Expr) bool {
			se, ok := ast.Unparen(e).(*ast.SelectorExpr)
			if !ok || se.Sel.Name != "Value" {
				return false
			}
			return isNamed(info.TypeOf(se.X), dataPath, "IntValue")
		}
		// the Go expression becomes the operator's result: it is (part of) an argument of a value
		// constructor of package data, or of a return statement
		becomesResult := func(e ast.Node) bool {
			for n := parents[e]; n != nil; n = parents[n] {
				switch x := n.(type) {
				case *ast.CallExpr:
					if cal := calleeFunc(info, x); cal != nil && cal.Pkg() != nil && cal.Pkg().Path() == dataPath && cal.Type().(*types.Signature).Recv() == nil {
						return true
					}
				case *ast.ReturnStmt:
					return true
				case ast.Stmt:
					return false
				}
			}
			return false
		}
		// does the int matter? (used, directly or through one copy/conversion, in a judged Go operator with an int other side)
		matters := func(res types.Object) (bool, token.Pos) {
			alias := map[types.Object]bool{res: true}
			for pass := 0; pass < 2; pass++ {
				ast.Inspect(fd.Body, func(n ast.Node) bool {
					if as, ok := n.(*ast.AssignStmt); ok && len(as.Lhs) == len(as.Rhs) {
						for i, rh := range as.Rhs {
							e := ast.Unparen(rh)
							if c, ok := e.(*ast.CallExpr); ok && len(c.Args) == 1 {
								if tv, ok := info.Types[c.Fun]; ok && tv.IsType() && isNumT(tv.Type) {
									e = ast.Unparen(c.Args[0])
								}
							}
							if o := objOf(e); o != nil && alias[o] {
								if l := objOf(as.Lhs[i]); l != nil {
									alias[l] = true
								}
							}
						}
					}
					return true
				})
			}
			found, pos := false, token.NoPos
			ast.Inspect(fd.Body, func(n ast.Node) bool {
				be, ok := n.(*ast.BinaryExpr)
				if !ok || !judged[be.Op] || found {
					return !found
				}
				side := func(e ast.Expr) bool {
					e = ast.Unparen(e)
					if c, ok := e.(*ast.CallExpr); ok && len(c.Args) == 1 {
						if tv, ok := info.Types[c.Fun]; ok && tv.IsType() && isNumT(tv.Type) {
							e = ast.Unparen(c.Args[0])
						}
					}
					o := objOf(e)
					return o != nil && alias[o]
				}
				// the other side is an int obtained from a script value too (two operands meet), or — for
				// + - * / only — a constant (increment/decrement); comparisons with constants, lengths and
				// positions are bounds and zero tests, not the operator's result
				other := func(e ast.Expr) bool {
					e = ast.Unparen(e)
					if c, ok := e.(*ast.CallExpr); ok && len(c.Args) == 1 {
						if tv, ok := info.Types[c.Fun]; ok && tv.IsType() && isNumT(tv.Type) {
							e = ast.Unparen(c.Args[0])
						}
					}
					if o := objOf(e); o != nil && operandInt[o] && !alias[o] {
						return true
					}
					if isIntPayload(e) {
						return true
					}
					if tv, ok := info.Types[e]; ok && tv.Value != nil {
						switch be.Op {
						case token.ADD, token.SUB, token.MUL, token.QUO:
							return true
						}
					}
					return false
				}
				if ((side(be.X) && other(be.Y)) || (side(be.Y) && other(be.X))) && becomesResult(be) {
					found, pos = true, be.Pos()
				}
				return !found
			})
			return found, pos
		}
		// is X known not to be a float at node `at`?
		notFloat := func(x types.Object, at ast.Node) bool { return notFloatIn(fd, x, at, 0) }
		if notFloatIn == nil {
			notFloatIn = func(fd *ast.FuncDecl, x types.Object, at ast.Node, depth int) bool {
				parents := parentsOf(fd)
				// (a) enclosing case of a type switch on X (or X is the switch's bound variable)
				for n := parents[at]; n != nil; n = parents[n] {
					cc, ok := n.(*ast.CaseClause)
					if !ok {
						continue
					}
					body, _ := parents[cc].(*ast.BlockStmt)
					ts, _ := parents[body].(*ast.TypeSwitchStmt)
					if ts == nil {
						continue
					}
					var subject types.Object
					bound := false
					switch a := ts.Assign.(type) {
					case *ast.ExprStmt:
						if ta, ok := ast.Unparen(a.X).(*ast.TypeAssertExpr); ok {
							subject = objOf(ta.X)
						}
					case *ast.AssignStmt:
						if len(a.Rhs) == 1 {
							if ta, ok := ast.Unparen(a.Rhs[0]).(*ast.TypeAssertExpr); ok {
								subject = objOf(ta.X)
							}
						}
						if o := info.Implicits[cc]; o != nil && o == x {
							bound = true
						}
					}
					if subject != x && !bound {
						continue
					}
					// an earlier clause of the same switch that takes the float value type (or everything that
					// converts to a float) leaves no float for the later clauses
					floatTaken := false
					for _, st := range body.List {
						if st == ast.Stmt(cc) {
							break
						}
						for _, te := range st.(*ast.CaseClause).List {
							if isFloatish(info.TypeOf(te)) {
								floatTaken = true
							}
						}
					}
					if len(cc.List) == 0 && !floatTaken {
						continue // default: anything
					}
					all := true
					for _, te := range cc.List {
						t := info.TypeOf(te)
						if t == nil || isFloatish(t) {
							all = false
							continue
						}
						if _, isIface := t.Underlying().(*types.Interface); isIface && !floatTaken {
							all = false // an interface case admits the float value type if it implements it
						}
					}
					if all {
						return true
					}
				}
				// (b) an earlier `if` in an enclosing statement list that tested X for float-ness and left
				isFloatTest := func(cond ast.Expr, init ast.Stmt) bool {
					hit := false
					check := func(n ast.Node) {
						ast.Inspect(n, func(m ast.Node) bool {
							switch y := m.(type) {
							case *ast.TypeAssertExpr:
								if y.Type != nil && isFloatish(info.TypeOf(y.Type)) && objOf(y.X) == x {
									hit = true
								}
							case *ast.CallExpr:
								if cal := calleeFunc(info, y); cal != nil {
									if pi, ok := floatTest[cal]; ok && pi < len(y.Args) && objOf(y.Args[pi]) == x {
										hit = true
									}
								}
							}
							return true
						})
					}
					if init != nil {
						check(init)
					}
					if cond != nil {
						check(cond)
					}
					return hit
				}
				terminates := func(b *ast.BlockStmt) bool {
					if b == nil || len(b.List) == 0 {
						return false
					}
					switch b.List[len(b.List)-1].(type) {
					case *ast.ReturnStmt:
						return true
					}
					return false
				}
				var child ast.Node = at
				for n := parents[at]; n != nil; child, n = n, parents[n] {
					var list []ast.Stmt
					switch b := n.(type) {
					case *ast.BlockStmt:
						list = b.List
					case *ast.CaseClause:
						list = b.Body
					}
					for _, st := range list {
						if ast.Node(st) == child {
							break
						}
						// (the float arm may itself be conditional on the other operand being numeric: an arm that
						// can leave is taken as the float route)
						if is, ok := st.(*ast.IfStmt); ok && isFloatTest(is.Cond, is.Init) && (terminates(is.Body) || containsReturn(is.Body)) {
							return true
						}
						// an earlier type switch on X whose float clause leaves the function
						if ts, ok := st.(*ast.TypeSwitchStmt); ok {
							var subject types.Object
							switch a := ts.Assign.(type) {
							case *ast.ExprStmt:
								if ta, ok := ast.Unparen(a.X).(*ast.TypeAssertExpr); ok {
									subject = objOf(ta.X)
								}
							case *ast.AssignStmt:
								if len(a.Rhs) == 1 {
									if ta, ok := ast.Unparen(a.Rhs[0]).(*ast.TypeAssertExpr); ok {
										subject = objOf(ta.X)
									}
								}
							}
							if subject == x {
								for _, c := range ts.Body.List {
									cc := c.(*ast.CaseClause)
									for _, te := range cc.List {
										if isFloatish(info.TypeOf(te)) && terminates(&ast.BlockStmt{List: cc.Body}) {
											return true
										}
									}
								}
							}
						}
					}
					// the else branch of a float test
					if is, ok := n.(*ast.IfStmt); ok && is.Else != nil && ast.Node(is.Else) == child && isFloatTest(is.Cond, is.Init) {
						return true
					}
				}
				// (c) X is a parameter of this function: every caller in the package hands in an operand it
				// has itself excluded from being a float
				if depth < 2 {
					if fn, _ := info.Defs[fd.Name].(*types.Func); fn != nil {
						pi := -1
						k := 0
						if fd.Type.Params != nil {
							for _, f := range fd.Type.Params.List {
								for _, nm := range f.Names {
									if info.Defs[nm] == x {
										pi = k
									}
									k++
								}
								if len(f.Names) == 0 {
									k++
								}
							}
						}
						if sites := callSites[fn]; pi >= 0 && len(sites) > 0 {
							all := true
							for _, cs := range sites {
								if pi >= len(cs.call.Args) {
									all = false
									break
								}
								y := objOf(cs.call.Args[pi])
								if y == nil || !notFloatIn(cs.fd, y, cs.call, depth+1) {
									all = false
									break
								}
							}
							if all {
								return true
							}
						}
					}
				}
				return false
			}
		}
		fk := funcKey(npkg, fd)
		seen := map[string]int{}
		for _, c := range convs {
			m, where := matters(c.res)
			if !m {
				continue
			}
			key := fk + "#int-conversion:" + c.x.Name()
			seen[key]++
			if seen[key] > 1 {
				key += "#" + string(rune('0'+seen[key]))
			}
			if notFloat(c.x, c.at) {
				r.ok(key, c.at.Pos(), "the operand converted to an int here is known not to be a float")
			} else {
				r.bad(key, c.at.Pos(), "operand "+c.x.Name()+" may be a float, is converted to an int by "+c.how+" (a float is truncated) and the int is then used in arithmetic or a comparison at "+r.pos(where)+": int-with-float operations give the result of the truncated operands (1 - 1.5 is 0, 1 < 1.5 is false, 1 == 1.5 is true)")
			}
		}
	}
}

func containsReturn(b *ast.BlockStmt) bool {
	found := false
	ast.Inspect(b, func(n ast.Node) bool {
		switch n.(type) {
		case *ast.FuncLit:
			return false
		case *ast.ReturnStmt:
			found = true
		}
		return !found
	})
	return found
}

// c03Order: the order of two ints is decided by comparing them. Deciding it by the sign of their
// difference (a-b < 0, sign(a-b)) is wrong whenever the subtraction wraps around
// (PHP_INT_MIN <=> 1). Scope: packages data and node. An *operand int* is the payload of an int value
// (x.Value for x of the int value type) or the result of an AsInt() call. Obligations: one per function
// that orders two operand ints — discharged when it compares them directly, violated when a difference
// of two operand ints is compared with zero, or handed to a function that only looks at its argument's
// sign, or returned from a function whose result is an ordering (int) next to such comparisons.
func c03Order(r *Run, pkgs ...*packages.Package) {
	r.curRule = "C03-PROMOTE"
	dataPath := modPath + "/data"
	for _, p := range pkgs {
		if p == nil {
			continue
		}
		info := p.TypesInfo
		// sign functions: one int parameter, body compares it with 0 only, returns constants
		signFn := map[*types.Func]bool{}
		for _, fd := range funcDecls(p) {
			fn, _ := info.Defs[fd.Name].(*types.Func)
			if fn == nil || fd.Body == nil || fd.Recv != nil {
				continue
			}
			sig := fn.Type().(*types.Signature)
			if sig.Params().Len() != 1 || sig.Results().Len() != 1 || !isIntType(sig.Params().At(0).Type()) || !isIntType(sig.Results().At(0).Type()) {
				continue
			}
			param := sig.Params().At(0)
			onlySign, cmp := true, 0
			ast.Inspect(fd.Body, func(n ast.Node) bool {
				switch x := n.(type) {
				case *ast.BinaryExpr:
					if id, ok := ast.Unparen(x.X).(*ast.Ident); ok && info.Uses[id] == param {
						if tv, ok := info.Types[x.Y]; ok && tv.Value != nil && tv.Value.String() == "0" {
							cmp++
							return true
						}
						onlySign = false
					}
				case *ast.ReturnStmt:
					for _, res := range x.Results {
						if tv, ok := info.Types[res]; !ok || tv.Value == nil {
							onlySign = false
						}
					}
				}
				return true
			})
			if onlySign && cmp > 0 {
				signFn[fn] = true
			}
		}
		for _, fd := range funcDecls(p) {
			if fd.Body == nil {
				continue
			}
			operandInt := map[types.Object]bool{}
			isOperandInt := func(e ast.Expr) bool {
				e = ast.Unparen(e)
				if se, ok := e.(*ast.SelectorExpr); ok && se.Sel.Name == "Value" && isNamed(info.TypeOf(se.X), dataPath, "IntValue") {
					return true
				}
				if id, ok := e.(*ast.Ident); ok {
					return operandInt[info.Uses[id]]
				}
				return false
			}
			for pass := 0; pass < 2; pass++ {
				ast.Inspect(fd.Body, func(n ast.Node) bool {
					as, ok := n.(*ast.AssignStmt)
					if !ok || len(as.Rhs) != 1 || len(as.Lhs) == 0 {
						return true
					}
					id, ok := as.Lhs[0].(*ast.Ident)
					if !ok {
						return true
					}
					o := info.Defs[id]
					if o == nil {
						o = info.Uses[id]
					}
					if o == nil {
						return true
					}
					rhs := ast.Unparen(as.Rhs[0])
					if len(as.Lhs) == 1 && isOperandInt(rhs) {
						operandInt[o] = true
					}
					if c, ok := rhs.(*ast.CallExpr); ok {
						if se, ok := ast.Unparen(c.Fun).(*ast.SelectorExpr); ok && se.Sel.Name == "AsInt" && len(c.Args) == 0 {
							operandInt[o] = true
						}
					}
					return true
				})
			}
			parents := map[ast.Node]ast.Node{}
			var stack []ast.Node
			ast.Inspect(fd.Body, func(n ast.Node) bool {
				if n == nil {
					stack = stack[:len(stack)-1]
					return true
				}
				if len(stack) > 0 {
					parents[n] = stack[len(stack)-1]
				}
				stack = append(stack, n)
				return true
			})
			direct, bad := token.NoPos, token.NoPos
			why := ""
			diffVar := map[types.Object]bool{}
			ast.Inspect(fd.Body, func(n ast.Node) bool {
				be, ok := n.(*ast.BinaryExpr)
				if !ok {
					return true
				}
				switch be.Op {
				case token.LSS, token.GTR, token.LEQ, token.GEQ:
					if isOperandInt(be.X) && isOperandInt(be.Y) && direct == token.NoPos {
						direct = be.Pos()
					}
					// d < 0 for d := a - b
					if id, ok := ast.Unparen(be.X).(*ast.Ident); ok && diffVar[info.Uses[id]] {
						if tv, ok := info.Types[be.Y]; ok && tv.Value != nil && tv.Value.String() == "0" && bad == token.NoPos {
							bad, why = be.Pos(), "the difference of two ints is compared with zero"
						}
					}
				case token.SUB:
					if !isOperandInt(be.X) || !isOperandInt(be.Y) {
						return true
					}
					par := parents[be]
					for {
						if pe, ok := par.(*ast.ParenExpr); ok {
							par = parents[pe]
							continue
						}
						break
					}
					switch x := par.(type) {
					case *ast.BinaryExpr:
						if tv, ok := info.Types[x.Y]; ok && tv.Value != nil && tv.Value.String() == "0" {
							switch x.Op {
							case token.LSS, token.GTR, token.LEQ, token.GEQ:
								if bad == token.NoPos {
									bad, why = be.Pos(), "the difference of two ints is compared with zero"
								}
							}
						}
					case *ast.CallExpr:
						if cal := calleeFunc(info, x); cal != nil && signFn[cal] && bad == token.NoPos {
							bad, why = be.Pos(), "the difference of two ints is handed to "+cal.Name()+", which only looks at its sign"
						}
					case *ast.AssignStmt:
						if len(x.Lhs) == 1 {
							if id, ok := x.Lhs[0].(*ast.Ident); ok {
								o := info.Defs[id]
								if o == nil {
									o = info.Uses[id]
								}
								if o != nil {
									diffVar[o] = true
								}
							}
						}
					}
				}
				return true
			})
			// second look for d < 0 written after d := a - b
			if bad == token.NoPos && len(diffVar) > 0 {
				ast.Inspect(fd.Body, func(n ast.Node) bool {
					be, ok := n.(*ast.BinaryExpr)
					if !ok {
						return true
					}
					switch be.Op {
					case token.LSS, token.GTR, token.LEQ, token.GEQ:
						if id, ok := ast.Unparen(be.X).(*ast.Ident); ok && diffVar[info.Uses[id]] {
							if tv, ok := info.Types[be.Y]; ok && tv.Value != nil && tv.Value.String() == "0" && bad == token.NoPos {
								bad, why = be.Pos(), "the difference of two ints is compared with zero"
							}
						}
					}
					return true
				})
			}
			key := funcKey(p, fd) + "#orders-ints"
			switch {
			case bad != token.NoPos:
				r.bad(key, bad, why+": the subtraction wraps around for operands far apart (PHP_INT_MIN against 1), so the order comes out reversed and <=>, sorting and < disagree")
			case direct != token.NoPos:
				r.ok(key, direct, "two ints are ordered by comparing them directly")
			}
		}
	}
}
